"""Shared machinery for every property check (see DESIGN.md section 2.3).

flow:  translate -> lake build -> audit -> correspondence (impl vs Lean model, oracle on impl)
       -> classify against known_findings.json -> decide exit code, write evidence / replay.
"""
import fcntl
import hashlib
import json
import os
import random
import re
import subprocess
import sys
import time
import traceback

VERIF = os.path.dirname(os.path.dirname(os.path.abspath(__file__)))
LEAN = os.path.join(VERIF, "lean")
GENERATED = os.path.join(LEAN, "TrimeshVerif", "Generated")
REPO = os.environ.get("TRIMESH_REPO", "/repo")
DRIVER = os.path.join(LEAN, ".lake", "build", "bin", "tvdriver")
ALLOWED_AXIOMS = {"propext", "Classical.choice", "Quot.sound"}
FORBIDDEN = re.compile(
    r"\bsorry\b|\badmit\b|^\s*axiom\s|\bnative_decide\b|\bbv_decide\b|implemented_by|"
    r"\bunsafe\s|maxHeartbeats\s+0\b|\bopaque\s", re.M)

if REPO not in sys.path:
    sys.path.insert(0, REPO)


class Broken(Exception):
    """A proof obligation / translation / correspondence no longer checks (not by itself a violation)."""

    def __init__(self, kind, what, detail=""):
        super().__init__(f"{kind}: {what}")
        self.kind, self.what, self.detail = kind, what, detail


class Ctx:
    def __init__(self, prop, tier, seed):
        self.prop, self.tier, self.seed = prop, tier, seed
        self.rng = random.Random(f"{prop}-{seed}")
        self.t0 = time.time()
        self.budget = float(os.environ.get("VERIF_BUDGET", 60 if tier == "quick" else 780))
        self.stats = {}
        self.notes = []

    def start_budget(self):
        """the wall-clock budget covers the correspondence phase (the Lean stage has its own time-outs)"""
        self.t_corr = time.time()

    def left(self):
        return self.budget - (time.time() - getattr(self, "t_corr", self.t0))

    def count(self, key, n=1):
        self.stats[key] = self.stats.get(key, 0) + n


# --------------------------------------------------------------------------- lean build

def _strip_comments(src):
    src = re.sub(r"/-.*?-/", "", src, flags=re.S)
    return re.sub(r"--[^\n]*", "", src)


def write_if_changed(path, text):
    os.makedirs(os.path.dirname(path), exist_ok=True)
    try:
        if open(path).read() == text:
            return False
    except OSError:
        pass
    tmp = path + ".tmp%d" % os.getpid()
    open(tmp, "w").write(text)
    os.replace(tmp, path)
    return True


class LeanLock:
    def __enter__(self):
        os.makedirs(os.path.join(LEAN, ".lake"), exist_ok=True)
        self.f = open(os.path.join(LEAN, ".lake", "verif.lock"), "w")
        fcntl.flock(self.f, fcntl.LOCK_EX)
        return self

    def __exit__(self, *a):
        fcntl.flock(self.f, fcntl.LOCK_UN)
        self.f.close()


def lake_build(targets, timeout=1500):
    """returns (ok, output).  Must be called under LeanLock."""
    p = subprocess.run(["lake", "build"] + list(targets), cwd=LEAN, stdout=subprocess.PIPE,
                       stderr=subprocess.STDOUT, text=True, timeout=timeout)
    return p.returncode == 0, p.stdout


def lean_errors(output):
    """first error lines of a lake build output: list of (file, line, message)"""
    errs = []
    lines = output.splitlines()
    for i, l in enumerate(lines):
        m = re.match(r"error: (\S+?\.lean):(\d+):(\d+): (.*)", l)
        if m:
            msg = m.group(4) + " " + " ".join(x.strip() for x in lines[i + 1:i + 4])
            errs.append((os.path.relpath(m.group(1), LEAN) if os.path.isabs(m.group(1)) else m.group(1),
                         int(m.group(2)), msg[:400]))
    return errs


def theorem_at(relfile, line):
    """name of the theorem/def enclosing `line` in a lean file (for the replay of a broken obligation)"""
    try:
        src = open(os.path.join(LEAN, relfile)).read().splitlines()
    except OSError:
        return None
    for i in range(min(line, len(src)) - 1, -1, -1):
        m = re.match(r"\s*(?:private\s+|protected\s+)?(?:theorem|lemma|def|example|instance)\s*(\S*)", src[i])
        if m:
            return m.group(1) or "example@%d" % (i + 1)
    return None


def project_imports(module, seen=None):
    """transitive closure of TrimeshVerif.* imports of a module -> list of file paths"""
    seen = seen if seen is not None else {}
    path = os.path.join(LEAN, module.replace(".", "/") + ".lean")
    if module in seen or not os.path.exists(path):
        return seen
    seen[module] = path
    for m in re.findall(r"^import\s+(TrimeshVerif\.\S+)", open(path).read(), flags=re.M):
        project_imports(m, seen)
    return seen


def props_theorems(prop):
    """fully qualified names of every theorem declared in Props/<prop>.lean"""
    path = os.path.join(LEAN, "TrimeshVerif", "Props", prop + ".lean")
    src = _strip_comments(open(path).read())
    ns, names = [], []
    for l in src.splitlines():
        m = re.match(r"\s*namespace\s+(\S+)", l)
        if m:
            ns.append(m.group(1))
            continue
        m = re.match(r"\s*end\s+(\S+)", l)
        if m and ns and ns[-1] == m.group(1):
            ns.pop()
            continue
        m = re.match(r"\s*(?:protected\s+)?theorem\s+(\S+)", l)
        if m:
            names.append(".".join(ns + [m.group(1)]))
    return names


def audit(prop):
    """forbidden-token grep over the property's import closure + `#print axioms` of every property theorem.
    returns (n_theorems, axioms_used: dict name -> list); raises Broken"""
    mods = project_imports("TrimeshVerif.Props." + prop)
    for mod, path in mods.items():
        m = FORBIDDEN.search(_strip_comments(open(path).read()))
        if m:
            raise Broken("audit", f"forbidden token {m.group(0).strip()!r} in {mod}")
    names = props_theorems(prop)
    if not names:
        raise Broken("audit", f"no theorems found in Props/{prop}.lean")
    src = f"import TrimeshVerif.Props.{prop}\n" + "".join(f"#print axioms {n}\n" for n in names)
    p = subprocess.run(["lake", "env", "lean", "--stdin"], cwd=LEAN, input=src, stdout=subprocess.PIPE,
                       stderr=subprocess.STDOUT, text=True, timeout=600)
    out = p.stdout
    if p.returncode != 0:
        raise Broken("audit", "#print axioms failed", out[-2000:])
    used = {}
    flat = re.sub(r"\s+", " ", out)
    for n in names:
        m = re.search(r"'" + re.escape(n) + r"' (does not depend on any axioms|depends on axioms: \[([^\]]*)\])", flat)
        if not m:
            raise Broken("audit", f"no axiom report for {n}", out[-2000:])
        ax = [a.strip() for a in (m.group(2) or "").split(",") if a.strip()]
        used[n] = ax
        bad = [a for a in ax if a not in ALLOWED_AXIOMS]
        if bad:
            raise Broken("audit", f"theorem {n} depends on non-standard axioms {bad}")
    return names, used


def leanchecker(prop):
    p = subprocess.run(["lake", "env", "leanchecker", "TrimeshVerif.Props." + prop], cwd=LEAN,
                       stdout=subprocess.PIPE, stderr=subprocess.STDOUT, text=True, timeout=1500)
    if p.returncode != 0:
        raise Broken("leanchecker", "leanchecker rejected TrimeshVerif.Props." + prop, p.stdout[-2000:])
    return True


# --------------------------------------------------------------------------- model driver

def run_model(requests, shards=1):
    """send JSON requests (list of dicts) to the compiled Lean driver; returns list of reply dicts"""
    if not requests:
        return []
    if not os.path.exists(DRIVER):
        raise Broken("driver", "Lean driver executable missing (model did not build)")
    if shards > 1 and len(requests) > 4 * shards:
        from concurrent.futures import ThreadPoolExecutor
        chunks = [requests[i::shards] for i in range(shards)]
        with ThreadPoolExecutor(shards) as ex:
            outs = list(ex.map(run_model, chunks))
        res = [None] * len(requests)
        for i, o in enumerate(outs):
            res[i::shards] = o
        return res
    data = "".join(json.dumps(r, separators=(",", ":")) + "\n" for r in requests)
    p = subprocess.run([DRIVER], input=data, stdout=subprocess.PIPE, stderr=subprocess.PIPE, text=True,
                       timeout=3600)
    lines = p.stdout.splitlines()
    if p.returncode != 0 or len(lines) != len(requests):
        raise Broken("driver", f"driver exit {p.returncode}, {len(lines)}/{len(requests)} replies",
                     p.stderr[-1000:])
    return [json.loads(l) for l in lines]


# --------------------------------------------------------------------------- findings

def load_findings(prop):
    path = os.path.join(VERIF, "known_findings.json")
    try:
        data = json.load(open(path))
    except OSError:
        return []
    return [f for f in data.get("findings", []) if f["property"] == prop]


def match_finding(findings, sig):
    """sig: dict describing a (shrunk) failing case; an entry matches when every key of its
    `match` is present in sig with an equal value (or a member, when the entry gives a list)"""
    for f in findings:
        ok = True
        for k, v in f["match"].items():
            if k not in sig:
                ok = False
            elif isinstance(v, list):
                ok = sig[k] in v
            else:
                ok = sig[k] == v
            if not ok:
                break
        if ok:
            return f
    return None


def digest(obj):
    return hashlib.sha1(json.dumps(obj, sort_keys=True, default=str).encode()).hexdigest()[:12]


def write_replay(prop, payload):
    d = os.path.join(VERIF, "replays")
    os.makedirs(d, exist_ok=True)
    path = os.path.join(d, f"{prop}-{digest(payload)}.json")
    json.dump(payload, open(path, "w"), indent=1, default=str)
    return os.path.relpath(path, VERIF)


def write_evidence(prop, ev):
    # debugging / seeded-change runs must not overwrite the evidence that gets committed
    d = os.environ.get("VERIF_EVIDENCE_DIR") or os.path.join(VERIF, "evidence")
    os.makedirs(d, exist_ok=True)
    json.dump(ev, open(os.path.join(d, prop + ".json"), "w"), indent=1, default=str)


def jsonable(x):
    import numpy as np
    if isinstance(x, np.ndarray):
        return x.tolist()
    if isinstance(x, (np.integer,)):
        return int(x)
    if isinstance(x, (np.floating,)):
        return float(x)
    if isinstance(x, (np.bool_,)):
        return bool(x)
    if isinstance(x, dict):
        return {str(k): jsonable(v) for k, v in x.items()}
    if isinstance(x, (list, tuple)):
        return [jsonable(v) for v in x]
    if isinstance(x, (set, frozenset)):
        return sorted(jsonable(v) for v in x)
    return x


def err_kind(e):
    """small enum of error kinds (messages are never compared)"""
    for cls, name in ((IndexError, "index"), (KeyError, "key"), (TypeError, "type"), (OverflowError, "overflow"),
                      (ValueError, "value"), (NotImplementedError, "notimpl"), (AssertionError, "assert"),
                      (AttributeError, "attr"), (ZeroDivisionError, "zerodiv")):
        if isinstance(e, cls):
            return name
    return "other:" + type(e).__name__


def tb_short(e):
    return "".join(traceback.format_exception(type(e), e, e.__traceback__))[-1500:]
