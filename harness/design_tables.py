#!/usr/bin/env python3
"""regenerate the generated parts of DESIGN.md: the seeded-change matrix (from seeded/*/meta.json) and the theorem
inventory of Appendix D (from lean/TrimeshVerif/Props)"""
import glob, json, os, re, subprocess, sys
VERIF = os.path.dirname(os.path.dirname(os.path.abspath(__file__)))
p = os.path.join(VERIF, "DESIGN.md")
s = open(p).read()
rows, counts = [], {}
for d in sorted(glob.glob(os.path.join(VERIF, "seeded", "C*-*"))):
    m = json.load(open(os.path.join(d, "meta.json")))
    db = m.get("detected_by") or {}
    how = db.get("result", "not run")
    counts[how] = counts.get(how, 0) + 1
    first = (db.get("first") or "").replace("|", "/")[:150]
    rows.append(f"| {os.path.basename(d)} | {', '.join(m.get('files') or [])} | {how} | {first} |")
table = ("| seeded change | files | result of the property's quick check | first report |\n|---|---|---|---|\n"
         + "\n".join(rows) + "\n\n" + ", ".join(f"{v} x {k}" for k, v in sorted(counts.items())) + f" ({len(rows)} changes).\n")
s = re.sub(r"<!-- SEEDED-MATRIX-BEGIN -->.*?<!-- SEEDED-MATRIX-END -->",
           lambda _: "<!-- SEEDED-MATRIX-BEGIN -->\n" + table + "<!-- SEEDED-MATRIX-END -->", s, flags=re.S)
inv = subprocess.run([sys.executable, os.path.join(VERIF, "harness", "theorem_inventory.py")], capture_output=True,
                     text=True).stdout
head = "## Appendix D"
i = s.index(head)
j = s.index("\n", s.index("The names planned in", i))
k = s.index("**C01** (", i)
s = s[:k] + inv
# the table of section 6.1 from the `fixed:` entries of known_findings.json
kf = json.load(open(os.path.join(VERIF, "known_findings.json")))
frows = []
for e in kf["fixed"]:
    m_ = re.match(r"fixed: property=(C\d+) (\w+) (.*)", e)
    if m_:
        frows.append((m_.group(1), m_.group(2), m_.group(3).replace("|", "/")))
frows.sort(key=lambda r_: r_[0])
fhead = "| property | `fix:` commit | what failed on the pinned tree |\n|---|---|---|\n"
fi = s.index(fhead)
fj = s.index("\n\n", fi)
s = s[:fi] + fhead + "\n".join("| %s | %s | %s |" % r_ for r_ in frows) + s[fj:]
s = re.sub(r"\(\d+ commits, table regenerated", "(%d commits, table regenerated" % len(frows), s)
open(p, "w").write(s)
print("fix rows:", len(frows))
print("matrix rows:", len(rows), counts, "| theorems:", inv.count("\n* `"))
