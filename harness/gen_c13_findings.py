#!/venv/bin/python
"""(re)generate the C13 `enc` entries of known_findings.json from the current tree: run many Encoding-view
cases, group the failing signatures by (encoding, read, failure kind) and keep the minimal view sets.
Usage: gen_c13_findings.py [N] [--write]      (without --write: print the groups only)"""
import sys, os, json, itertools, collections, warnings, logging
HERE = os.path.dirname(os.path.abspath(__file__))
sys.path.insert(0, HERE); sys.path.insert(0, "/repo")
warnings.simplefilter("ignore"); logging.disable(logging.CRITICAL)
import common, vcheck
from props import C13
N = int(sys.argv[1]) if len(sys.argv) > 1 and sys.argv[1].isdigit() else 30000
groups = collections.defaultdict(set)
seen = 0
for seed in range(3):
    ctx = common.Ctx("C13", "thorough", seed)
    for case in itertools.islice((c for c in C13.cases(ctx) if c.get("kind") == "enc"), N // 3):
        obs, sig = vcheck._eval_case(C13, case)
        seen += 1
        for s in (sig if isinstance(sig, list) else [sig] if sig else []):
            if s.get("kind") != "enc":
                continue
            views = frozenset(k[4:] for k in s if k.startswith("has_"))
            groups[(s["enc"], s["read"], s["fail"])].add(views)
NAMES = {"dense": "DenseEncoding", "sparse": "SparseEncoding", "rle": "RunLengthEncoding", "brle": "BinaryRunLengthEncoding"}
entries = []
for (enc, read, fail), vs in sorted(groups.items()):
    minimal = [v for v in vs if not any(w < v for w in vs)]
    for v in sorted(minimal, key=lambda x: sorted(x)):
        vid = "+".join(sorted(v)) or "id"
        m = {"kind": "enc", "enc": enc, "read": read, "fail": fail}
        for a in sorted(v):
            m["has_" + a] = True
        entries.append({"property": "C13", "id": "C13-enc-%s-%s-%s-%s" % (enc, read, fail.replace(":", "_"), vid),
                        "what": "voxel Encoding API: %s `%s` in %s: %s instead of the value of the dense array it represents"
                                % (NAMES[enc], read, ("views containing " + vid) if v else "every view", fail),
                        "match": m})
print("enc cases run:", seen, "groups:", len(groups), "entries:", len(entries))
for e in entries:
    print(" ", e["id"])
if "--write" in sys.argv:
    p = os.path.join(common.VERIF, "known_findings.json")
    d = json.load(open(p))
    d["findings"] = [f for f in d["findings"] if not f["id"].startswith("C13-enc-")] + entries
    json.dump(d, open(p, "w"), indent=1)
    print("written")
