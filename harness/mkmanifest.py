#!/venv/bin/python
"""writes /verif/MANIFEST.json from the table below (kept in one place so it is always valid)"""
import json
import os

VERIF = os.path.dirname(os.path.dirname(os.path.abspath(__file__)))

PY = "/venv/bin/python harness/vcheck.py"

CLAIMED = {
    "C01": dict(
        category="proof", design_ref="DESIGN.md 5 C01",
        text="Lean 4 theorem over a model of the hash-validated cache (Cache.verify, cache_decorator, in-place / "
             "reassignment edits, mutators that keep part of the cache), parametric in the cached functions: after "
             "ANY history of reads, edits and sound cache-keeping mutators every read returns the value of that "
             "property on the current data, hence two histories ending in the same data answer every read "
             "identically (C01_read_fresh, C01_history_independent); soundness of a mutator = it verifies the "
             "cache first and every kept value, after its transport, is the value on the data the cache id points "
             "at. (G) the exclude sets, rewritten keys, id stamping, winding-flip handling and verify-first of "
             "apply_transform / invert / process / unmerge_vertices and the transitive read sets of the 60 cached "
             "properties are re-extracted from base.py by ast on every run and `decide` checks every kept key is "
             "independent of what the mutator modifies or has a registered transport lemma (C04/C07). Witness "
             "theorems show staleness without verify-first or with a dependent key (five such defects were found "
             "and repaired). Tied to the code by differential histories: ~55 properties + ray / nearest answers "
             "compared with a freshly built mesh after every step. The generated mutator table is also validated at run time: after every cache-keeping library call the set of cached keys that survived is compared with what the table allows that mutator to keep. The histories are also run on a never-read twin: the data a mutator leaves behind must not depend on what was read before it (recorded finding: merge_vertices consults cached vertex normals). Query structures (both ray engines, containment, nearest point) are warmed by one query, the arrays edited, and asked again with nothing read in between. Anisotropic matrices with entries far below one are a matrix class of their own (defect found and repaired: 50f8597). C01_reads_never_change_data (data after a history = data after the history without its reads) with the cache-consulting mutator as witness of the finding.",
        note="Trusted: Lean kernel (+propext/Classical.choice/Quot.sound), hash injectivity, ast read sets as an "
             "over-approximation of dependencies, the registered transport pairs (normals under similarity: "
             "C04_similarity_normals; vertex-normal weights under similarity assumed). The cached functions "
             "themselves are a parameter (not verified); values compared at 1e-6.",
        technique="Lean 4 proof (cache-coherence invariant over op lists) + generated table obligations (decide) + differential histories"),
    "C02": dict(
        category="proof", design_ref="DESIGN.md 5 C02",
        text="Lean 4 theorems over a heap model of TrackedArray (buffers, window objects, dirty flag, memoised "
             "hash, flagged method table regenerated from caching.py on every run): for programs of any length, "
             "if every write is tracked for every observer (flagged method of the written object, no other "
             "observer of the written cells holds a clean memo) every tracked object's hash equals the hash of "
             "its current bytes (C02_hash_correct_partial), a hash read returns the current bytes, non-writing "
             "operations keep bytes; (G) every ndarray in-place method/operator is overridden and "
             "__array_finalize__/__hash__ have the protocol's shape (decide over the generated table). The full "
             "statement is proved FALSE for the code as it is (witnesses: held view, function routes), which are "
             "the listed known findings. Tied to the code by comparing, after every step of random numpy "
             "programs, the dirty flag of every live object and the staleness of every hash read with the model "
             "(exact agreement required), and by mesh/path/scene/visual level edits. Histories of the writeable flag (a view taken while the array is frozen, thawed, made writeable, written through) are judged by the oracle.",
        note="Trusted: Lean kernel (+propext/Classical.choice/Quot.sound), hash injectivity, the route table "
             "(which numpy call reaches which override) exercised by the harness. Partial: the property itself "
             "fails on 8 listed routes (known findings) - the theorem covers exactly the complement.",
        technique="Lean 4 proof (invariant over op lists) + generated table obligations + differential correspondence"),
    "C08": dict(
        category="proof", design_ref="DESIGN.md 5 C08",
        text="Lean 4 theorems about byte-level models of the layouts that are trimesh's own code: little-endian "
             "32-bit words are bit-exact; records cut from a concatenation of fixed-size records come back in file "
             "order; binary STL (80-byte header, count, 50-byte records) decodes to exactly what was encoded for "
             "every header and every list of < 2^32 records, and anything the loader accepts has exactly the "
             "announced length; GLB framing (header arithmetic, JSON padding by 1..4 spaces, BIN chunk loop) is "
             "lossless; bufferViews tile the binary chunk (slice i = item i, adjacent, 4-byte aligned); packed "
             "PLY vertex / face blocks split back into the same records; delimiter-separated text rows parse "
             "back to the same tokens in order; base64 is lossless. Tied to the code by running the Lean "
             "encoder / decoder against export_stl / load_stl_binary (also on damaged files), export_glb, "
             "_build_views, array_to_string and base64 byte for byte, and by an element-by-element round trip of "
             "every exporter / loader pair (STL bin/ascii, PLY bin/ascii, OFF, OBJ, GLB, glTF, 3MF, DAE, dict, "
             "dict64, XYZ, DXF, SVG, path dict, with non-default options) on meshes, instanced / nested scenes, "
             "point clouds and paths: order, float32 bit-exactness, printed digits, colours, instance placement, "
             "hash unchanged by export. Generated obligations from the literal tables of stl.py / ply.py / gltf.py (by ast): PLY type names survive export and reload for every entry, the STL record / header of the source are the model's 50 / 84 bytes, the GLB magic words are the model's constants; attached per-vertex / per-face data of every numeric type through binary and ascii PLY.",
        note="Trusted: Lean kernel (+propext/Classical.choice/Quot.sound); json, lxml / zip, collada, python float "
             "formatting are exercised not modelled; what a format carries is read off trimesh's exporter (no "
             "face colours in ascii PLY / OFF / GLB). Partial: text and XML formats are covered by the round "
             "trip only. Three defects repaired (xyz without colours, 3MF build items, path dict re-import).",
        technique="Lean 4 proof (byte-level codec round trips) + byte-for-byte and element-wise differential correspondence"),
    "C09": dict(
        category="proof", design_ref="DESIGN.md 5 C09",
        text="Lean 4 theorems generic in the node type and in any group of edge matrices: well-formedness "
             "(one parent per child, parents = edge keys, acyclic) is preserved by add_edge (incl. re-parenting, "
             "overwriting) and remove_node; in every well-formed forest path resolution returns "
             "world(a)^-1 * world(b) - the product of the current edges along the unique path, inverted where "
             "walked child->parent - and an error for frames in different trees (C09_get_spec); T(a,a)=1, "
             "T(a,c)=T(a,b)T(b,c), T(a,b)=T(b,a)^-1; an updated edge is visible at once; and for every history of "
             "updates / re-parentings / removals / base changes / clear / interleaved queries that closes no cycle "
             "the cached query (hash memo, path cache, hash-validated transform cache) equals the cache-free "
             "resolution (C09_cached_get_eq_raw), given the invalidation table regenerated from transforms.py on "
             "every run (decide). Witnesses: stale answer without the hash reset; cached/uncached disagree on a "
             "4-cycle (outside the property's domain). Tied to the code by differential histories on float-exact "
             "matrices against the model and against a dictionary forest. C09_edgelist_roundtrip: the graph rebuilt by from_edgelist from to_edgelist of any well-formed forest resolves every pair of frames as the original (C09_edgelist_rebuilt gives the rebuilt edges and parents explicitly); exported and rebuilt edge lists and parents are compared with the code. Edge matrices include non-uniform scale and shear with exact inverses.",
        note="Trusted: Lean kernel (+propext/Classical.choice/Quot.sound), the forest hash taken as injective, "
             "np.linalg.inv / multi_dot as exact group operations on the generated matrix family; kwargs_to_matrix "
             "trigonometry and fix_rigid only by correspondence at 1e-9. One defect repaired (re-parenting left the "
             "superseded edge).",
        technique="Lean 4 proof (refinement of the cached state machine to path products) + generated table + differential histories"),
    "C03": dict(
        category="proof", design_ref="DESIGN.md 5 C03",
        text="The ten per-face polynomials of triangles.mass_properties are traced symbolically from the real "
             "function on every run (numpy proxy over exact polynomials; straight-line and linearity checked) and "
             "Lean proves over any field of characteristic 0: each equals the exact moment of the signed "
             "tetrahedron (origin, face) plus antisymmetric edge terms (ring, 20 generated obligations), hence for "
             "every closed consistently wound triangle list of any size, genus and body count the sums the code "
             "forms are the exact integrals of 1,x,y,z,x2,y2,z2,xy,yz,zx (C03_closed_sum); the enclosed volume is "
             "apex independent; at the centroid the code's tensor is the inertia about it (parallel axis), density "
             "is linear; with an overridden centre the gap to the inertia about that point is an explicit formula "
             "(known finding). The driver evaluates the traced polynomials (proved equal at K=Q) and the exact "
             "moments on rational inputs and the implementation's float results are compared at 1e-10. Since registration: Trimesh.moment_inertia_frame -> inertia.transform_inertia is traced from the source as well (Generated/C03Frame.lean) and C03_frame_law proves that output equal to the exact inertia tensor about the frame origin in frame coordinates for every orthonormal frame (parallel-axis shift + change of axes, nine entries); the driver evaluates the traced polynomials and the harness compares them on rational rotations and left-handed frames. The exact solids are also placed in other units of length (exact powers of two down to 2^-20): a defect found this way (centre of mass at the origin for every solid of volume below 1e-13) was repaired (5b88fe7) and the symbolic tracer follows the new relative threshold.",
        note="Trusted: Lean kernel (+propext/Classical.choice/Quot.sound), the symbolic tracer, the closed-form "
             "tetrahedron moments as the definition of the exact integrals (divergence theorem not formalised: "
             "cone decomposition + apex independence instead), float64 rounding only through the comparison; "
             "moment_inertia_frame / transform_inertia by correspondence only.",
        technique="Lean 4 proof (ring + closed-surface sum theorem) over polynomials regenerated by symbolic tracing + differential correspondence"),
    "C04": dict(
        category="proof", design_ref="DESIGN.md 5 C04",
        text="Lean 4 theorems (ring identities over any field of characteristic 0, for an arbitrary 3x3 block - "
             "rigid, similarity, mirror, anisotropic, shear) on top of the exact moments of C03 and the traced "
             "transform_points of C19: group action laws (A then B = B.A, inverse restores), the orientation test "
             "(L n).(Lu x Lv) = det L |n|^2 is independent of the sampled triangles so faces are re-wound exactly "
             "when det<0, the true new normal is cof(L) n and for similarities s^2 cof(L) = det L . L (transported "
             "normals stay parallel and outward; a shear witness shows they do not in general), volume scales by "
             "det (|det| after the flip), first moments map through L, second moments follow det L . L S L^T, "
             "squared areas scale by s^4, translation changes volume only by cancelling edge terms. Tied to the "
             "code by a differential run over 7 geometry kinds x 8 float64-exact matrix classes with normals "
             "cached or not (points, counts, connectivity, attached data, inverse, composition, mass properties). Executable rational copies of transformPoint / det / signed volume / first moments (Model/GeomRat.lean) are proved equal to the generic definitions by rfl (C04_rat_model_is_generic) and the driver runs them on the harness's meshes and matrices: transformed vertices, volume and centre of mass of apply_transform are compared with the model, and det * volume is re-checked exactly. C04_identity_shortcut_bound gives the error of the 1e-8 identity shortcut. Generated obligation C04_path_transform_keeps_topology_only: which cache keys Path.apply_transform keeps and the order verify / clear / id_set / update, read from the source by ast on every run.",
        note="Trusted: Lean kernel (+propext/Classical.choice/Quot.sound), float64 evaluation on exact matrix "
             "families, C03's moments as the meaning of volume/centre/inertia. Partial: point clouds, paths, "
             "primitives, scenes and voxel grids are covered by the correspondence only ('points move to M.p, "
             "nothing else changes'); a primitive refusing a non-rigid or mirrored matrix (ValueError) is accepted.",
        technique="Lean 4 proof (polynomial identities over exact moments) + differential correspondence"),
    "C05": dict(
        category="proof", design_ref="DESIGN.md 5 C05",
        text="Lean 4 theorems for arbitrary face lists (non-manifold, repeated indices, repeated faces, "
             "unreferenced vertices, any length) over an executable model of the topology queries: edges and "
             "edges_face layout, face adjacency = counting definition (shared sorted edge occurring exactly "
             "twice, once in each face), watertight <-> every sorted edge twice, winding consistency <-> "
             "paired edges opposed, unique edges + inverse, Euler number, vertex degree / incident faces / "
             "neighbours by counting, and connected components = reflexive-transitive closure of adjacency "
             "(label relaxation proved sound and complete, so the result is engine independent). Tied to the "
             "code by an exact differential run of every query on both graph engines, exhaustive small scopes "
             "in the thorough tier; the angle-defect law is checked numerically on closed meshes. Since registration: C05_defect_sum / C05_gauss_bonnet (angle-defect law for any mesh and discrete Gauss-Bonnet on closed surfaces, corner angles a parameter constrained to sum to pi per face); both hypotheses are evaluated on the implementation. C05_unshared / C05_unshared_manifold (unshared vertices by counting), generated obligation C05_edges_of_source (edge order of faces_to_edges and the tiling of the face index read from the source by ast). Topological queries are asked again after a transform that follows earlier queries.",
        note="Trusted: Lean kernel (+propext/Classical.choice/Quot.sound), the Python harness; scipy csgraph / "
             "networkx are modelled by label relaxation (contract: connected components); vertex_defects "
             "(arccos) only by correspondence at 1e-9; degree counts one per occurrence of a vertex index.",
        technique="Lean 4 proof over hand-written executable model + differential correspondence (line protocol)"),
    "C06": dict(
        category="proof", design_ref="DESIGN.md 5 C06",
        text="Lean 4 theorems over an executable model of grouping.py: bit packing is injective under the code's "
             "guard for all integers (C06_pack_injective, with the collision one step beyond the guard), "
             "hashable_rows is a faithful relabelling on both routes, sort-and-compare grouping returns exactly "
             "the equality classes for lists of any length (C06_group_partition, C06_group_rows), np.unique-style "
             "index/inverse reconstruct the input with first-occurrence representatives (C06_unique, "
             "C06_unique_rows). The model is tied to the code by a differential run (bit-exact hashes, groups as "
             "sets, indices, blocks) on boundary-magnitude arrays; blocks/merge_runs/bincount/boolean_rows are "
             "modelled and compared, not yet proved. Since registration: theorems for merge_runs, group_min, boolean_rows and for blocks without wrap-around (= specification; the runs tile the index range; a block is exactly a maximal run passing the filter); the two known wrap-around defects are stated as witnesses. Generated obligation C06_packing_constants_of_source (column limit, precision, threshold, offset, shift and both strict guard comparisons of hashable_rows recovered by ast); C06_blocks_wrap_unfiltered_partial. Tolerances given as powers of ten (decimal_to_digits for 1e-1..1e-15, float rows a tolerance apart with digits=None) are judged by the oracle. C06_unique_value_in_row and C06_unique_bincount complete the helpers.",
        note="Trusted: Lean kernel (+propext/Classical.choice/Quot.sound where reported), the Python harness; "
             "np.argsort/np.unique modelled as a stable sort; float quantisation only via correspondence. "
             "Known findings: two blocks(wrap=True) defects.",
        technique="Lean 4 proof over hand-written executable model + differential correspondence (line protocol)"),
    "C07": dict(
        category="proof", design_ref="DESIGN.md 5 C07",
        text="Lean 4 theorems over a mesh model generic in the per-vertex payload (position, colour, normal, uv, "
             "attributes travel as one tuple) and the per-face payload: face masking (boolean / integer with "
             "repetition) returns exactly the selected triangles in order with face data aligned; vertex masking "
             "that keeps referenced vertices, remove_unreferenced, unmerge leave every triangle unchanged and "
             "faces in range; merge_vertices by any key keeps every corner's key, picks the first referenced "
             "representative, keeps face order/data and leaves no two kept vertices with one key; append / "
             "concatenate / submesh / split+concatenate (any partition) preserve the triangle list / multiset "
             "with attached data; unique_faces marks first occurrences. All for meshes of any size. Tied to "
             "the code by a differential run (vertex ids, face ids, positions, colours compared element-wise). Generated obligation C07_masking_slices_every_payload: the payloads update_faces / update_vertices slice with the mask, read from the source by ast on every run, are the ones the model carries. C07_update_vertices_int (index masks in any order with an explicit inverse), C07_index_mask_order_witness.",
        note="Trusted: Lean kernel (+propext/Classical.choice/Quot.sound), the Python harness; merge keys are exact "
             "on the generated coordinates; visual classes' caching, nondegenerate_faces (geometric), "
             "remove_infinite_values and process() are checked by the property oracle only. update_vertices with "
             "a mask that drops a referenced vertex is modelled as the code behaves (witness theorem) and excluded "
             "from the statement (no surviving triangle).",
        technique="Lean 4 proof over hand-written executable model + differential correspondence (line protocol)"),
    "C10": dict(
        category="proof", design_ref="DESIGN.md 5 C10",
        text="Lean 4 theorems over any linearly ordered field: the per-node corner computed by bounds_corners "
             "(min/max of the rotated points, translation added afterwards) is the exact corner of the placed copy, "
             "`lower`/`upper` are exact bounds (bound + attained), the bounds of the union of all placed copies is "
             "the fold over the per-node corners, uniform scaling multiplies every world placement by s, a base-frame "
             "transform moves every placed point through M, and an instance placed with linear part L contributes "
             "det L times its geometry's volume up to cancelling edge terms (what Scene.volume sums after the "
             "repair). World transforms are the path products of C09. Tied to the code by a differential run on "
             "random instanced forests with float-exact rigid / similarity edges: bounds, extents, centroid, area, "
             "volume, triangles, dump / to_mesh, convex hull containment against explicit placement read straight "
             "from node data, interleaved graph / geometry edits, delete + re-add, copy, scaled, rezero, "
             "apply_transform, +, append_scenes of >=3 scenes sharing node names, subscene, convert_units, and "
             "source-unchanged checks. Executable rational copies of placed / lower / upper / nodeLower / nodeUpper (Model/GeomRat.lean) are proved equal to the generic definitions by rfl (C10_rat_model_is_generic) and the driver folds them over the final scene of every case (world transforms and geometry points as exact rationals): Scene.bounds must equal the model's bounds. Since registration: the node-renaming loop of append_scenes is modelled and proved never to merge nodes of different scenes (C10_append_no_merge) and to be one-to-one inside a scene; the real append_scenes (with predictable identifiers) is compared edge for edge with the model. C10_scaled_per_axis_partial: Scene.scaled with a factor per axis is exact along every chain of frames whose linear parts commute with diag(s); C10_scaled_per_axis_witness shows it is not otherwise (the recorded finding); scenes with commuting frames must scale exactly.",
        note="Trusted: Lean kernel (+propext/Classical.choice/Quot.sound), C09 for world transforms, float64 on the "
             "exact matrix family. Partial: the transformer methods are checked by correspondence only. Known "
             "findings: per-axis scaled() under rotated nodes; subscene drops the root node's own instance. One "
             "defect repaired (area / volume ignored instance scale).",
        technique="Lean 4 proof (order folds + affine identities) + differential correspondence"),
    "C11": dict(
        category="proof", design_ref="DESIGN.md 5 C11",
        text="Lean 4 theorems over any linearly ordered field about an executable model of the sign coding used by "
             "intersections.mesh_plane / slice_faces_plane: the code (sum of signs weighted 1,3,9 -> case table) is "
             "injective on the 27 sign patterns and the model's case table classifies each one correctly (all 27 "
             "decided by the kernel); each emitted crossing point lies on the plane and between the two endpoints of "
             "its edge; a segment with both ends on the plane and on a triangle lies on both; the positive pieces "
             "of the two opposite slices of a triangle tile it (areas add up) and, by the divergence identity of "
             "C03, capped halves add up in volume. Tied to the code by a differential run: meshes with dyadic "
             "coordinates cut by integer planes through vertices / along edges / in general position, several "
             "planes, face subsets, every cap engine; endpoints on plane and surface, closed loops, areas and "
             "volumes add up, convex halves watertight, multiplane = repeated single plane. The three handlers of mesh_plane and the quad / corner cut cases of slice_faces_plane (with their index rotation and quad split) are followed by an executable rational model (sectionTri, sliceTri): for every triangle, plane and tolerance the emitted endpoints are on the plane up to the sign tolerance and on the triangle's boundary, kept pieces are on the positive side, wound like the triangle, and the pieces of the two opposite slices tile the triangle (C11_rat_*); the driver evaluates the model on every face of every section / slice case and the result is compared face by face / triangle by triangle with the code. Since registration: C11_section_closed_loops (zero or two crossed edges per triangle; on a closed surface every crossed edge ends exactly two segments) with the crossed edges per face compared with the real mesh_plane output. Generated obligation C11_case_table_of_source (constants and switched-on codes of mesh_plane.triangle_cases recovered by ast select exactly the model's patterns, all 27 sign triples).",
        note="Trusted: Lean kernel (+propext/Classical.choice/Quot.sound), float64 on dyadic inputs, shapely / "
             "earcut / triangle (polygon assembly and cap triangulation are judged by their outputs, not "
             "modelled), nearest.on_surface as surface membership test. Partial: loop assembly and capping are "
             "checked by correspondence only.",
        technique="Lean 4 proof (sign-pattern table by kernel decision + ordered-field lemmas) + differential correspondence"),
    "C12": dict(
        category="proof", design_ref="DESIGN.md 5 C12",
        text="Lean 4 theorems over exact rationals (every float64 input is one) about an executable exhaustive "
             "model of ray_triangle_id (plane hit, Cramer barycentric inclusion, forward filter), first-hit "
             "selection, triangles.closest_point (Ericson's seven-region cascade) and the all-triangles minimum: "
             "a reported hit lies on the ray ahead of the origin and on the reported triangle; a triangle "
             "crossed ahead of the origin is never missed; the hit list contains exactly those; the first hit "
             "is a hit and none is nearer; the closest-point cascade returns a point of the triangle and no "
             "point of the triangle is closer; the mesh query is the minimum over all triangles. Tied to the "
             "code by running the model on the same inputs: batches of rays (axis aligned, oblique, origins "
             "inside, just past a face, converging on one point, duplicated) against both engines (r-tree and "
             "embree) for intersects_id / location / first / any, contains_points, nearest.on_surface, "
             "signed_distance; every query the model finds in general position must agree with it exactly "
             "(triangle sets, first hit, locations, containment parity, distance, reported triangle). Since registration the broad phase is in the model too (ray_bounds, r-tree candidates, nearby_faces): C12_ray_bounds_complete, C12_hit_is_candidate, C12_pruning_lossless (pruned = exhaustive, for every mesh / origin / unit direction), C12_nearby_complete; the proof's need for unit directions exposed a defect of the r-tree engine for long direction vectors (repaired); ray_bounds boxes, candidates and nearby_faces are compared with the code. Generated obligations from a symbolic trace of triangles.points_to_barycentric (both methods): the traced Cramer weights are the model's inclusion test and the two methods agree.",
        note="Trusted: Lean kernel (+propext/Classical.choice/Quot.sound); inside = odd crossing count along a "
             "general-position ray (Jordan); rtree / embree exercised not modelled; float -> rational "
             "conversion. Queries within 1e-3 (barycentric / relative) of an edge, vertex, the origin or the "
             "surface are out of scope as the property says.",
        technique="Lean 4 proof (exhaustive rational model proved sound/complete/optimal) + model-as-oracle differential run"),
    "C14": dict(
        category="proof", design_ref="DESIGN.md 5 C14",
        text="Lean 4 theorems over exact rationals: the shoelace form of a vertex loop is the sum over its directed "
             "segments, hence invariant under any permutation of the segments (start anywhere, entities in any "
             "order); reversing a polyline negates the swept area and keeps every segment length; chaining "
             "pieces adds up their areas, with the opposite sign for entities the walk traverses backwards; an "
             "affine map multiplies the signed area of a closed loop by its determinant (s^2 for similarities, "
             "sign change for mirrors) and a similarity scales every squared segment length by s^2; the "
             "three-point arc centre (barycentric form of arc_center) is equidistant from the control points "
             "and undefined exactly for collinear ones; a region's area does not depend on the stored "
             "direction of shell and holes. Tied to the code by a differential run on nested / disjoint "
             "families of polygons, circles and slots split into polylines and arcs in every order and "
             "direction: counts, nesting, area, length against exact values; similarity transforms after "
             "reading derived values; DXF / SVG / dict round trips; the library's discretised loops, entity "
             "walk and arc centres are recomputed by the Lean model on exact rationals. Since registration: C14_enclosure (shells and holes: every odd-degree polygon is the hole of exactly one even-degree container of degree one less) with an executable model of enclosure_tree compared with path.root / enclosure_directed; generated obligation C14_arc_center_of_source from a symbolic trace of arc_center.",
        note="Trusted: Lean kernel (+propext/Classical.choice/Quot.sound); networkx cycle search, shapely "
             "containment and the DXF / SVG text layers are exercised not modelled (partial). Two defects "
             "repaired (Arc.length doubled; dict form could not be re-imported, see C08).",
        technique="Lean 4 proof (shoelace / affine / arc-centre identities over Q) + differential correspondence"),
    "C15": dict(
        category="proof", design_ref="DESIGN.md 5 C15",
        text="Lean 4 theorems over exact rationals: the two triangles revolve emits for one profile segment "
             "between two slice directions contribute cross(u,v)*(r_k + r_k+1)*(h_k+1 r_k - h_k r_k+1) to six "
             "times the volume; summed over any profile and any list of slice directions (any section count, "
             "full or partial turn, caps contribute nothing) the tessellated volume is (sum of sin of the "
             "slice angles) x profile sum; rotation about the axis leaves it unchanged; the profile sums of "
             "cylinder / cone / annulus give V = (n sin(2 pi / n) / 2) R^2 h etc.; every index the face "
             "arithmetic produces is a valid vertex and each slice has the same number of faces; a full-turn "
             "revolve of an axis-to-axis profile is closed and consistently wound for EVERY number of profile "
             "points >= 3 and EVERY number of slices (edge multiset invariant under reversal after the two axis "
             "points are merged), and those faces are exactly what the code's index arithmetic keeps; the box "
             "table (regenerated from creation.json each run) is closed and consistently wound, its volume is "
             "the product of the extents for every extents and its bounds are +-extents/2; the icosahedron "
             "table is closed and stays closed under every number of subdivisions (icosphere). Tied to the "
             "code by a differential run: revolve faces against the Lean index model, volumes against the "
             "Lean formula on the same directions, box vertices / volume against the model, edge pairing "
             "checked independently, analytic volume / area / bounds, section counts 1..40, partial angles "
             "with caps, polygons with holes and every engine, rigid and mirrored placements, sequences of "
             "primitive parameter edits against a freshly built primitive. Since registration: C15_extrude_closed - the index arithmetic of extrude_triangulation yields a closed, consistently wound surface for EVERY cap triangulation without a repeated directed edge (permutation algebra on directed edges); the real extrude_triangulation is compared face for face with that index model. Closedness is now proved for every kind of revolve creation.py builds, each for every profile length and section count: C15_revolve_ring_closed (closed profile, annulus), C15_revolve_torus_closed (open loop, torus), C15_revolve_open_closed and C15_revolve_loop_open_closed (partial turn with caps, for EVERY cap triangulation meeting the decidable cap condition capOk / capOkC); the harness requires the kept-triangle pattern, the cap condition and the whole face array of revolve(process=False) to be the model's. Modelling the torus pattern exposed and led to the repair of a genuine defect (capped partial turn of an open loop not watertight, fix d558e7d). Primitive edit histories continue through copies taken straight after an edit.",
        note="Trusted: Lean kernel (+propext/Classical.choice/Quot.sound); polygon triangulation engines judged by "
             "output (the cap condition is evaluated on what they return). Partial: sweeps and extrusions along curved paths are certified per explored parameter set (edge pairing computed on the real "
             "faces), not proved for all counts; area of "
             "curved shapes and inertia are compared numerically only. Four defects repaired (sections=1 "
             "IndexError, mirrored placement inverted, absolute area threshold, capped partial turn of an open loop).",
        technique="Lean 4 proof (polynomial volume identities, directed-edge multiset algebra for every kind of revolve, generated tables decided by the kernel) + differential correspondence"),
    "C16": dict(
        category="proof", design_ref="DESIGN.md 5 C16",
        text="Lean 4 theorems over exact rationals: soundness of executable checkers that are run on the real "
             "outputs of convex_hull, bounds, bounding_box_oriented / oriented_bounds / apply_obb, "
             "bounding_sphere / minimum_nsphere and bounding_cylinder. An accepted hull has only input points as "
             "vertices, is closed, consistently wound, encloses positive volume and has every input point at "
             "most eps above every face plane; that region is convex (so the whole convex hull of the inputs is "
             "inside) and a face wound inwards is rejected; accepted axis-aligned bounds are exact (all six "
             "attained); an accepted oriented box transform maps every point into the reported extents and an "
             "exactly orthonormal transform preserves all distances; an accepted sphere / cylinder contains "
             "every point; an accepted minimality certificate (support points + convex weights) proves that "
             "every enclosing ball has radius >= r - eps. Inputs: gaussian, lattice, clustered (spread 1e-2 .. "
             "1e-6), flat, scaled, far, spherical, cylindrical, elongated clouds and non-convex meshes, as "
             "PointCloud or mesh, moved rigidly; option combinations (normal=, ordered, angle_digits). Planar oriented bounds are judged by the same verified box checker (embedded in z = 0). Meshes that pass the tolerance test is_convex without being their own hull (a dent of a few millionths, a vertex no face uses) go through the verified hull checker. Two findings recorded: convex_hull drops the zero-area simplices qhull returns for small coplanar inputs far from the origin and leaves the hull open (C16_dropping_degenerate_simplex_opens_witness shows the mechanism), and oriented_bounds(normal=) then raises.",
        note="Trusted: Lean kernel (+propext/Classical.choice/Quot.sound); qhull / scipy are certified per output, "
             "not modelled; the certificate search (nnls) and the enumeration of support sets used to separate "
             "'not minimal' from 'certificate not found' are harness code; 2D oriented bounds are judged by a Python oracle only (no theorem). "
             "Known finding: minimum_nsphere is not minimal when the minimum ball has 2 or 3 support points.",
        technique="Lean 4 proof (verified result checkers = translation validation of each output) + differential run"),
    "C20": dict(
        category="proof", design_ref="DESIGN.md 5 C20",
        text="Lean 4 theorems: (1) a resource-skeleton language (open, set was_opened, calls that may raise, "
             "raise, return, branches, try/finally, try/except, guarded close) with a relational semantics and "
             "an executable enumerator proved complete for it, so that `safe skeleton = true` (decided by the "
             "kernel) implies that no execution - normal, early return, exception from any call - ends with a "
             "file the loader opened still open; the skeletons of _parse_file_args, load_scene and load_path "
             "are REGENERATED FROM THE PYTHON SOURCE on every run (ast translator) for the two scenarios 'a "
             "path was given' / 'anything else', and their obligations re-checked; (2) binary STL accepts only "
             "files of exactly the announced length (no allocation beyond the input) and rejects the rest "
             "before reading records; GLB reads are bounded by the bytes present and the chunk loop runs at "
             "most once per 8 bytes; the PLY header scan consumes each line once and rejects a header "
             "without end_header. Tied to the code by systematic fault injection: truncations, byte "
             "corruptions, size fields (count x 50 wrapping 2^32 included), chunk swaps / duplications, "
             "splices and random bytes over 17 formats x load / load_mesh / load_scene / load_path x file "
             "object / path / path with explicit file_type, each in a forked worker under RLIMIT_AS and a "
             "timer, with the open-file table compared while the result or exception is alive; the Lean "
             "decoders' accept / reject is compared with the loaders'. C20_glb_strided_in_bounds / C20_glb_strided_alloc: with the two guards of the byteStride branch of _read_buffers every byte of the as_strided view lies inside the data and what is copied is bounded by the bytes present; C20_glb_strided_of_source reads the guards, their position, shape, strides and byte window from the source by ast; the guards of every interleaved accessor of the corrupted files are evaluated by the model and compared with the loader.",
        note="Trusted: Lean kernel (+propext/Classical.choice/Quot.sound); the skeleton translator (PURE call "
             "list, scenario table); time / memory / native crashes are observed per explored input only "
             "(partial). Two defects repaired (load_path leak, STL count overflow).",
        technique="Lean 4 proof (model regenerated from source by translator + verified enumerator; decoder bounds) + fault-injection correspondence"),
    "C17": dict(
        category="proof", design_ref="DESIGN.md 5 C17",
        text="Lean 4 theorems over a heap of mutable cells: a sound disjointness checker; the frame theorem (if the "
             "writable cells reachable from two objects are disjoint, any sequence of edits through one leaves "
             "everything the other reports unchanged, now and for values computed later), its symmetric form, the "
             "copy specification (fresh cell per reachable cell with equal contents => equal observations, disjoint, "
             "original untouched) and a witness that one shared cell leaks. The real object graphs of original and "
             "copy (numpy buffers by memory, dicts / lists by identity, through __dict__ / slots) of 16 kinds of "
             "geometry, copied by .copy() / copy.copy / copy.deepcopy / include_cache in states with values computed, "
             "edited in place or painted right before the copy, are walked and shipped to the Lean checker; "
             "faithfulness is compared observable by observable and 14 edit classes are applied to either side "
             "with a re-read of the other. Everything a colour visual reports is observed; generated colour arrays are read before the copy and painted in place afterwards; the object-graph walk covers the caches of visuals.",
        note="Trusted: Lean kernel (+propext/Classical.choice/Quot.sound), the Python object-graph walker (what "
             "counts as reachable mutable state; cached derived values are results, not state), C-level state of "
             "rtree/embree not walked. Known finding: copy.copy of non-Trimesh classes is shallow. Five defects "
             "repaired (Primitive.copy, Trimesh.copy attributes, Scene.copy metadata + deepcopy, Path.copy cache).",
        technique="Lean 4 proof (frame theorem + verified checker applied to walked object graphs) + edit-and-reread correspondence"),
    "C13": dict(
        category="proof", design_ref="DESIGN.md 5 C13",
        text="Lean 4 theorems for every sequence and every count width m>=1 over an executable model of "
             "voxel/runlength.py: RLE and BRLE encode/decode round trips with all counts fitting the dtype, "
             "re-encoding (merge+split) and RLE<->BRLE conversion preserve the decoded sequence, and logical_not, "
             "reverse, gather, mask, to_sparse, strip, length on encoded data equal the dense numpy operation; "
             "binvox body codec (uint8 counts) lossless. The model is tied to the code by an exact differential "
             "run (encoded arrays compared element by element, long runs at the dtype limits, list/array, "
             "sorted/unsorted/repeated indices). The lazy Encoding classes/views, the voxel grid index<->point "
             "maps, volume and binvox export/reload are checked against the dense specification by the "
             "correspondence only (partial). Since registration: the index maps of the lazy views (ravel / unravel for any shape, flip, reshape, transpose) are modelled and proved (C13_ravel_unravel, C13_flip_view, C13_reshape_view, C13_transpose_view_partial + 3-cycle witness) and compared with _to_base_indices / _from_base_indices of the real view classes. Grid addressing (points_to_indices / indices_to_points, np.round ties to even): C13_grid, C13_grid_ties, compared exactly on dyadic grids. Run-length operations are also run on encoded data held in the narrow count dtype (found and repaired: accumulated counts wrapped, fix bb728e5). Generated obligation C13_grid_of_source: the in-place arithmetic of points_to_indices / indices_to_points read from voxel/ops.py by ast is the model's.",
        note="Trusted: Lean kernel (+propext/Classical.choice/Quot.sound), the Python harness, numpy as the dense "
             "specification. Not proved: the Encoding view classes (the known findings list their broken reads by "
             "(encoding, read, failure kind, view)), VoxelGrid transforms.",
        technique="Lean 4 proof over hand-written executable model + differential correspondence (line protocol)"),
    "C18": dict(
        category="proof", design_ref="DESIGN.md 5 C18",
        text="Lean 4 theorems for subdivision over any field of characteristic 0 and any symmetric midpoint "
             "numbering: each of the four children has a quarter of the parent's area vector (area preserved), "
             "all ten exact moments of the children add up to the parent's (volume, centre of mass, inertia "
             "preserved), directed-edge pairing (watertightness + consistent winding) is preserved by subdividing "
             "every face of a mesh of any size, counts V+E / 2E+3F / 4F keep the Euler number, original corners "
             "stay, child edges are half as long (so size-bounded subdivision terminates at any bound), reversing "
             "a face negates its area vector and volume contribution. fix_normals / fix_winding / fix_inversion, "
             "fill_holes, subdivide_to_size and subdivide_loop are tied to these statements by the differential "
             "run (all / random re-winding subsets incl. whole bodies of unequal size, every single and double "
             "face removal, edge bounds around the longest edge). Executable rational copies of children / childFaces (Model/GeomRat.lean) are proved equal to the generic definitions by rfl (C18_rat_model_is_generic), subdivision of any triangle list keeps the signed volume (C18_rat_subdivide_volume), and the driver's children are compared triangle by triangle with Trimesh.subdivide. Since registration: C18_fix_winding (the traversal of repair.fix_winding along any spanning search forest leaves every adjacent pair consistent on an orientable surface, whatever the start faces and order) and the reversed faces of the real fix_winding are compared with the traversal model on every case. C18_to_size: subdivide_to_size face by face - no edge above the bound on success, the longest edge halves exactly, success within max_iter passes whenever the longest edge is at most 2^max_iter bounds; a Rat instance is compared with the code (success, face count, longest edge). Generated obligation C18_child_pattern_of_source: the column pattern remesh.subdivide stacks and the edge order of faces_to_edges, read by ast, give exactly the model's childFaces.",
        note="Trusted: Lean kernel (+propext/Classical.choice/Quot.sound), float64 on dyadic inputs. Partial: the "
             "BFS winding repair and hole filling are checked by correspondence only (networkx traversal not "
             "modelled). Known finding: fill_holes on a tetrahedron missing two faces.",
        technique="Lean 4 proof (polynomial identities + list-permutation argument) + differential correspondence"),
    "C19": dict(
        category="proof", design_ref="DESIGN.md 5 C19",
        text="rotation_matrix, quaternion_matrix, quaternion_multiply, euler_matrix and quaternion_from_euler for all "
             "24 conventions, transform_points (2D/3D) and translation_matrix are traced symbolically from "
             "transformations.py on every run (angles as (c,s) symbols, unit axis and quaternion normalisation as "
             "hypotheses) and Lean proves: rotation_matrix is a proper rotation fixing its axis and its point; "
             "quaternion_matrix is a proper rotation for every non-zero q, equal for q and -q, multiplicative "
             "w.r.t. quaternion_multiply, and equals rotation_matrix for (cos a/2, u sin a/2); each of the 24 "
             "euler_matrix conventions equals the product of the three elementary rotations in the order/frame "
             "its name says, and agrees with quaternion_from_euler; products of rotations are rotations; "
             "transform_points is homogeneous multiplication. 59 theorems, all angles incl. gimbal lock. The "
             "inverse maps (euler_from_matrix, quaternion_from_matrix, rotation_from_matrix, decompose) and the "
             "svd/eig based functions are checked by exact-input numeric round trips (correspondence, partial). Since registration the inverse direction: euler_from_matrix is traced for all 24 conventions and both branches and composed with the traced euler_matrix; 48 generated lemmas (certificates recomputed on every run) and C19_euler_from_matrix_<axes> / _gimbal_<axes> state that the arctan2 arguments are a common factor times (sin, cos) of the angles that went in, and that the gimbal branch rebuilds the matrix.",
        note="Trusted: Lean kernel (+propext/Quot.sound, Classical.choice in one helper), the symbolic tracer, "
             "sin/cos as symbols with c^2+s^2=1, float64 on Pythagorean inputs. Known finding: decompose_matrix at "
             "gimbal lock with shear/scale.",
        technique="Lean 4 proof over polynomials regenerated by symbolic tracing + numeric round-trip correspondence"),
}

NOT_YET = "check not built yet in this build phase (DESIGN.md section 9 gives the order); no claim is made"


def main():
    props = [json.loads(l)["id"] for l in open(os.path.join(VERIF, "properties.jsonl"))]
    checks = []
    for p in props:
        if p not in CLAIMED:
            continue
        c = CLAIMED[p]
        checks.append({
            "property_id": p,
            "quick_cmd": f"{PY} {p} --tier quick",
            "thorough_cmd": f"{PY} {p} --tier thorough",
            "evidence_file": f"evidence/{p}.json",
            "replay_cmd_template": f"{PY} {p} --replay {{path}}",
            "engine": "lean4-model+correspondence",
            "level_claimed": {"category": c["category"], "text": c["text"], "design_ref": c["design_ref"]},
            "level_note": c["note"],
            "technique": c["technique"],
        })
    m = {
        "version": 1,
        "setup_cmd": "bash harness/setup.sh",
        "hooks": {
            "guard": "TRIMESH_VERIF",
            "enable": "no hooks are needed: every instrument is applied from the harness at run time "
                      "(checks import trimesh from /repo's working tree)",
            "baseline_off_cmd": "cd /repo && /venv/bin/python -m pytest -ra -q -p no:cacheprovider --timeout=900 "
                                "--continue-on-collection-errors",
            "source_commits": [],
            "add_only": True,
        },
        "engines": [{
            "name": "lean4-model+correspondence", "path": "lean/ + harness/",
            "serves_properties": sorted(CLAIMED),
            "kind_free_text": "Lean 4.33 theorems about executable models (lean/TrimeshVerif), generated "
                              "obligations re-derived from /repo on every run (harness translate), differential "
                              "correspondence model vs implementation through a compiled JSON line driver",
        }],
        "checks": checks,
        "notes": "exit 2 = infrastructure failure of the check itself. VERIF_SEED seeds every generator. "
                 "known_findings.json lists recorded defects and fixed: entries.",
        "not_applicable": [{"property_id": p, "reason": NOT_YET} for p in props if p not in CLAIMED],
    }
    json.dump(m, open(os.path.join(VERIF, "MANIFEST.json"), "w"), indent=1)
    print("MANIFEST.json:", len(checks), "checks,", len(m["not_applicable"]), "not claimed")


if __name__ == "__main__":
    main()
