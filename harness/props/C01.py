"""C01 - derived mesh values never go stale (cache is history-independent)."""
import ast
import os

import numpy as np

import common

LEVEL = "proof"
N_CASES = {"quick": 500, "thorough": 25000}
RULE = ("random histories of 1-6 steps on a start mesh (box, tetrahedron, two bodies, open box, icosphere, mesh "
        "with duplicate/unreferenced vertices); each step reads a random subset of the ~55 stable derived "
        "properties (none / one / three / dependency-closed / all) and then applies one of 22 mutators "
        "(apply_transform with 8 matrix classes, invert, update_faces bool/int, merge/unmerge/remove_unreferenced, "
        "fix_normals, fill_holes, process, in-place vertex/face edits, reassignment, rezero/scale/translate, "
        "density / centre-of-mass overrides, normals setter, copy); after every step every property, ray and "
        "nearest-point answers are compared with a mesh freshly built from the same arrays. non-trivial = at "
        "least one value was read before a mutator")
TRUSTED = ["the ~55 cached functions themselves are a parameter of the Lean cache theorem (their values are "
           "compared with a fresh mesh, not re-derived)", "hash collisions are ignored",
           "the ast-derived read sets over-approximate what each cached property depends on"]
ASSUMPTIONS = ["values through arccos/atan2 are compared at 1e-6, polynomial values at 1e-9; outputs whose "
               "ordering or sign is arbitrary (eigenvectors, trees, facets, hulls) are excluded"]
EXPLANATION = "Lean cache-coherence theorem + generated exclude/dependency table (decide) + differential histories"

UNSTABLE = {"visual", "permutate", "mutable", "smooth_shaded", "principal_inertia_vectors", "principal_inertia_transform",
            "symmetry", "symmetry_axis", "symmetry_section", "identifier_hash", "kdtree", "triangles_tree",
            "edges_sorted_tree", "face_adjacency_edges_tree", "face_adjacency_tree", "vertex_adjacency_graph", "facets",
            "facets_area", "facets_normal", "facets_origin", "facets_boundary", "facets_on_hull", "convex_hull",
            "bounding_box_oriented", "bounding_cylinder", "bounding_primitive", "bounding_sphere", "ray", "nearest",
            "as_open3d", "identifier", "faces_sparse", "edges_sparse", "units",
            "is_convex", "face_angles_sparse",
            # 1 / sin of a dihedral angle: unbounded for nearly coplanar neighbours, not comparable at a tolerance
            "face_adjacency_radius"}
MATRIX_CLASSES = ["rigid", "uscale", "mirror", "aniso", "shear", "neariden", "trans", "mirror_scale", "rhombic", "aniso_small"]
OPS = ["transform"] * 5 + ["invert", "faces_bool", "faces_int", "merge", "unref", "unmerge", "fix_normals", "inplace_v",
                            "reassign_f", "rezero", "scale", "translate", "density", "center_mass", "set_normals",
                            "process", "process_validate", "fill_holes", "inplace_f", "copy_edit", "inplace_then_translate",
                            "merge_norm", "merge_tex"]


# ------------------------------------------------------------------ translator: exclude / dependency table

R = None


def _mods():
    root = os.path.join(common.REPO, "trimesh")
    cache = {}

    def mod(name):
        if name not in cache:
            p = os.path.join(root, name + ".py")
            cache[name] = ast.parse(open(p).read()) if os.path.exists(p) else None
        return cache[name]
    return mod


def _reads_of(mod, fn, selfname, depth=0):
    out, lenargs = set(), set()
    for n in ast.walk(fn):
        if isinstance(n, ast.Call) and isinstance(n.func, ast.Name) and n.func.id == "len" and n.args:
            a = n.args[0]
            if isinstance(a, ast.Attribute) and isinstance(a.value, ast.Name) and a.value.id == selfname:
                lenargs.add(id(a))
                out.add(a.attr + "#len")
    for n in ast.walk(fn):
        if isinstance(n, ast.Attribute) and isinstance(n.value, ast.Name) and n.value.id == selfname \
                and id(n) not in lenargs:
            out.add(n.attr)
        if isinstance(n, ast.Call) and depth < 3:
            params = list(n.args) + [k.value for k in n.keywords]
            passed = None
            for i, a in enumerate(params):
                if isinstance(a, ast.Name) and a.id == selfname:
                    passed = i
            if passed is not None and isinstance(n.func, ast.Attribute) and isinstance(n.func.value, ast.Name):
                m, f = n.func.value.id, n.func.attr
                tree = mod(m)
                if tree is not None:
                    callee = next((x for x in tree.body if isinstance(x, ast.FunctionDef) and x.name == f), None)
                    if callee is not None:
                        try:
                            pname = callee.args.args[passed].arg if passed < len(n.args) else n.keywords[passed - len(n.args)].arg
                        except IndexError:
                            continue
                        out |= _reads_of(mod, callee, pname, depth + 1)
    return out


def table():
    """cached keys of Trimesh with the data facets they (transitively) read, and the exclude sets of mutators"""
    mod = _mods()
    base = mod("base")
    cls = next((n for n in base.body if isinstance(n, ast.ClassDef) and n.name == "Trimesh"), None)
    if cls is None:
        raise common.Broken("translate", "class Trimesh not found in base.py")
    cached, props, funcs = {}, {}, {}
    for f in cls.body:
        if isinstance(f, ast.FunctionDef):
            decs = [ast.unparse(d) for d in f.decorator_list]
            funcs.setdefault(f.name, f)
            if "cache_decorator" in decs:
                cached[f.name] = _reads_of(mod, f, "self")
            elif "property" in decs:
                props[f.name] = _reads_of(mod, f, "self")
    side = {}
    for f in cls.body:
        if isinstance(f, ast.FunctionDef):
            for n in ast.walk(f):
                if isinstance(n, ast.Subscript) and ast.unparse(n.value) == "self._cache" and isinstance(n.ctx, ast.Store) \
                        and isinstance(n.slice, ast.Constant):
                    side.setdefault(n.slice.value, set()).add(f.name)
    DATA = {"faces": "faces", "vertices": "vertices", "vertices#len": "vcount", "faces#len": "fcount", "_data": "overrides"}

    def closure(k, seen):
        if k in seen:
            return set()
        seen.add(k)
        if k in DATA:
            return {DATA[k]}
        src = cached.get(k)
        if src is None:
            src = props.get(k)
        if src is None:
            r = set()
            for w in side.get(k, ()):
                r |= closure(w, seen)
            return r
        r = set()
        for d in src:
            r |= closure(d, seen)
        return r
    deps = {k: sorted(closure(k, set())) for k in sorted(set(cached) | set(side))}
    # mutators keeping part of the cache
    muts = {}
    NORMALS_ONLY = {"face_normals", "vertex_normals"}
    for name, f in funcs.items():
        excls = []
        for n in ast.walk(f):
            if isinstance(n, ast.Call) and ast.unparse(n.func) == "self._cache.clear":
                for kw in n.keywords:
                    if kw.arg == "exclude":
                        try:
                            excls.append(set(ast.literal_eval(kw.value)))
                        except Exception:
                            raise common.Broken("translate", f"exclude set of {name} is not a literal")
        if not excls:
            continue
        keep = sorted(set().union(*excls))
        src = ast.unparse(f)
        flips = "np.fliplr(self.faces)" in src
        # is there a dedicated path for a winding flip that keeps only the normals and returns?
        flip_path = False
        for n in ast.walk(f):
            if isinstance(n, ast.If) and "flip" in ast.unparse(n.test) and any(isinstance(x, ast.Return) for x in ast.walk(n)):
                for c in ast.walk(n):
                    if isinstance(c, ast.Call) and ast.unparse(c.func) == "self._cache.clear":
                        for kw in c.keywords:
                            if kw.arg == "exclude" and set(ast.literal_eval(kw.value)) <= NORMALS_ONLY:
                                flip_path = True
        flips_keeping = flips and not flip_path and not set(keep) <= NORMALS_ONLY
        rewrites = sorted({k for k in ("face_normals", "vertex_normals")
                           if f'self._cache.cache["{k}"]' in src.replace("'", '"') or f"self.{k} =" in src})
        verifies = False
        for st in f.body:
            if isinstance(st, ast.Expr) and isinstance(st.value, ast.Constant):
                continue                       # docstring
            u = ast.unparse(st)
            if u.strip() == "self._cache.verify()":
                verifies = True
                break
            if "self._cache.clear" in u or "self._cache.cache" in u or isinstance(st, ast.With) or ".faces =" in u \
                    or ".vertices =" in u:
                break                          # something touches the cache / data before any verify
        muts[name] = {"exclude": keep, "rewrites": rewrites,
                      "id_set": "self._cache.id_set()" in src or "with self._cache" in src,
                      "flips_keeping": flips_keeping, "verifies_first": verifies}
    return {"keys": sorted(cached), "deps": deps, "mutators": muts}


def translate(ctx):
    t = table()

    def lst(xs):
        return "[" + ", ".join('"%s"' % x for x in xs) + "]"
    L = ["-- GENERATED by harness/props/C01.py from /repo/trimesh/base.py (+ callees) -- do not edit",
         "namespace TV.Generated.C01",
         "/-- cached properties of Trimesh with the data facets their code (transitively) reads -/",
         "def deps : List (String × List String) := ["]
    L.append(",\n".join(f'  ("{k}", {lst(v)})' for k, v in t["deps"].items()))
    L.append("]")
    L.append("/-- mutators that keep part of the cache: (name, kept keys, keys they rewrite themselves, id_set, "
             "flips winding, verifies the cache against the data before keeping) -/")
    L.append("def mutators : List (String × List String × List String × Bool × Bool × Bool) := [")
    L.append(",\n".join(
        f'  ("{n}", {lst(m["exclude"])}, {lst(m["rewrites"])}, {str(m["id_set"]).lower()}, '
        f'{str(m["flips_keeping"]).lower()}, {str(m["verifies_first"]).lower()})'
        for n, m in sorted(t["mutators"].items())))
    L.append("]")
    L.append("end TV.Generated.C01")
    return {"C01Table.lean": "\n".join(L) + "\n"}


def generated_obligations():
    return 2


def synth_cases(ctx, broken):
    """a broken table obligation becomes: read key, apply the cache-keeping mutator, read again"""
    for op in ("transform:rigid", "transform:mirror", "transform:aniso", "transform:trans", "transform:uscale", "invert",
               "process", "process_validate", "unmerge", "inplace_then_translate", "copy_edit"):
        for start in ("box", "ico"):
            yield {"kind": "history", "start": start, "steps": [{"reads": list(stable_keys()), "op": op, "seed": 3}]}
            for k in stable_keys():
                yield {"kind": "history", "start": start, "steps": [{"reads": [k], "op": op, "seed": 3}]}


# ------------------------------------------------------------------ generator

def cases(ctx):
    rng = ctx.rng
    keys = stable_keys()
    # every (read, mutator class, read) triple for the mutators that keep cache entries
    for op in ("merge", "merge_norm", "unref", "unmerge", "fill_holes"):
        for start in ("soup", "boxsoup", "dupes", "open"):
            yield {"kind": "history", "start": start, "steps": [{"reads": ["vertex_normals", "face_normals"], "op": op, "seed": 5}]}
    for op in ("transform:mirror", "transform:aniso", "transform:aniso_small", "transform:rigid", "transform:trans", "invert",
               "process_validate", "inplace_then_translate"):
        for k in ("face_normals", "vertex_normals", "edges", "edges_unique", "face_adjacency", "volume"):
            yield {"kind": "history", "start": "box", "steps": [{"reads": [k], "op": op, "seed": 7}]}
    # query structures: warmed by one query, the arrays edited, then asked again with nothing read in between
    for eng in ("default", "triangle"):
        for warm in ("intersects_any", "intersects_location", None):
            for edit in ("inplace_x", "reassign", "faces_inplace", "translate"):
                for q in ("intersects_any", "intersects_first", "intersects_id_single", "intersects_location"):
                    yield {"kind": "query_history", "engine": eng, "warm": warm, "edit": edit, "query": q}
    for warm in ("contains", "nearest"):
        for edit in ("inplace_x", "reassign", "translate"):
            yield {"kind": "query_history", "engine": "default", "warm": warm, "edit": edit, "query": warm}
    while True:
        start = rng.choice(["box", "tet", "two", "open", "ico", "dupes", "soup", "boxsoup"])
        steps = []
        for _ in range(rng.randint(1, 6)):
            mode = rng.choice(["none", "one", "three", "all", "normals", "topo"])
            if mode == "none":
                reads = []
            elif mode == "one":
                reads = [rng.choice(keys)]
            elif mode == "three":
                reads = rng.sample(keys, 3)
            elif mode == "normals":
                reads = ["face_normals", "vertex_normals"]
            elif mode == "topo":
                reads = ["edges", "edges_unique", "face_adjacency", "edges_sorted", "euler_number"]
            else:
                reads = list(keys)
            op = rng.choice(OPS)
            if op == "transform":
                # (the tiny anisotropic class is a single-step case above: inside a long history it leaves a mesh of size
                #  1e-5 for later unit-sized edits, slivers on which fresh and transported normals differ by rounding)
                op = "transform:" + rng.choice([x for x in MATRIX_CLASSES if x != "aniso_small"])
            ctx.count("op:" + op.split(":")[0])
            steps.append({"reads": reads, "op": op, "seed": rng.randrange(10 ** 6)})
        yield {"kind": "history", "start": start, "steps": steps}


_KEYS = None


def stable_keys():
    global _KEYS
    if _KEYS is None:
        tree = ast.parse(open(os.path.join(common.REPO, "trimesh/base.py")).read())
        cls = [n for n in tree.body if isinstance(n, ast.ClassDef) and n.name == "Trimesh"][0]
        ks = [f.name for f in cls.body if isinstance(f, ast.FunctionDef)
              and any(ast.unparse(d) in ("cache_decorator", "property") for d in f.decorator_list)]
        _KEYS = sorted(set(k for k in ks if k not in UNSTABLE and not k.startswith("_")))
    return _KEYS


# ------------------------------------------------------------------ implementation side

def _start(name):
    import trimesh
    if name == "box":
        return trimesh.creation.box(extents=[1, 2, 3])
    if name == "tet":
        return trimesh.Trimesh([[0, 0, 0], [1, 0, 0], [0, 1, 0], [0, 0, 1]], [[0, 2, 1], [0, 1, 3], [1, 2, 3], [0, 3, 2]],
                               process=False)
    if name == "two":
        return trimesh.util.concatenate([trimesh.creation.box(), trimesh.creation.box().apply_translation([3, 0, 0])])
    if name == "open":
        m = trimesh.creation.box()
        m.update_faces(np.arange(12) != 3)
        return trimesh.Trimesh(m.vertices.copy(), m.faces.copy(), process=False)
    if name == "dupes":
        m = trimesh.creation.box()
        V = np.vstack([m.vertices, m.vertices[:3], [[9, 9, 9]]])
        F = np.array(m.faces)
        F[0, 0] = 8 + 0 if F[0, 0] == 0 else F[0, 0]
        return trimesh.Trimesh(V, F, process=False)
    if name == "soup":
        m = trimesh.creation.icosphere(subdivisions=1)
        m.unmerge_vertices()
        return trimesh.Trimesh(np.array(m.vertices), np.array(m.faces), process=False)
    if name == "boxsoup":
        m = trimesh.creation.box()
        m.unmerge_vertices()
        return trimesh.Trimesh(np.array(m.vertices), np.array(m.faces), process=False)
    return trimesh.creation.icosphere(subdivisions=1)


def _matrix(cls, r):
    import trimesh
    R = trimesh.transformations.rotation_matrix(r.uniform(-3, 3), [r.uniform(-1, 1) for _ in range(3)])
    R[:3, 3] = [r.uniform(-2, 2) for _ in range(3)]
    if cls == "rigid":
        return R
    if cls == "uscale":
        R[:3, :3] *= r.choice([.5, 2])
        return R
    if cls == "mirror":
        return R @ np.diag([1, -1, 1, 1.0])
    if cls == "mirror_scale":
        return np.diag([-2.0, 2.0, 2.0, 1.0])
    if cls == "aniso":
        return R @ np.diag([1, 2, .5, 1.0])
    if cls == "aniso_small":
        return R @ np.diag([1e-5, 2e-5, .5e-5, 1.0])
    if cls == "shear":
        S = np.eye(4)
        S[0, 1] = .7
        return R @ S
    if cls == "rhombic":
        # equal-length, non-orthogonal columns (hexagonal lattice basis): not a similarity
        H = np.eye(4)
        H[:3, :3] = [[1.0, 0.5, 0.0], [0.0, np.sqrt(3) / 2, 0.0], [0.0, 0.0, 1.0]]
        return R @ H
    if cls == "mirror_small":
        # a mirror combined with a unit conversion: negative determinant of tiny magnitude
        return R @ np.diag([1e-3, -1e-3, 1e-3, 1.0])
    if cls == "neariden":
        I = np.eye(4)
        I[0, 3] = r.choice([1e-9, 5e-8, 5e-7, 5e-6])
        return I
    T = np.eye(4)
    T[:3, 3] = [1, 2, 3]
    return T


def _apply(m, op, seed):
    import random
    r = random.Random(seed)
    nr = np.random.default_rng(seed)
    if op.startswith("transform:"):
        m.apply_transform(_matrix(op.split(":")[1], r))
    elif op == "invert":
        m.invert()
    elif op == "faces_bool":
        mask = nr.random(len(m.faces)) < .7
        if mask.sum() < 1:
            mask[0] = True
        m.update_faces(mask)
    elif op == "faces_int":
        m.update_faces(nr.integers(0, len(m.faces), size=max(1, len(m.faces) // 2)))
    elif op == "merge":
        m.merge_vertices()
    elif op == "merge_norm":
        m.merge_vertices(merge_norm=True)
    elif op == "merge_tex":
        m.merge_vertices(merge_tex=True, merge_norm=True, digits_vertex=4)
    elif op == "unref":
        m.remove_unreferenced_vertices()
    elif op == "unmerge":
        m.unmerge_vertices()
    elif op == "fix_normals":
        m.fix_normals()
    elif op == "inplace_v":
        m.vertices[r.randrange(len(m.vertices))] += [.1, .2, -.1]
    elif op == "inplace_f":
        i = r.randrange(len(m.faces))
        m.faces[i] = m.faces[i][::-1]
    elif op == "reassign_f":
        m.faces = m.faces[::-1].copy()
    elif op == "rezero":
        m.rezero()
    elif op == "scale":
        m.apply_scale(r.choice([2.0, .5, -1.0]))
    elif op == "translate":
        m.apply_translation([1, -1, .5])
    elif op == "density":
        m.density = r.choice([2.0, .5])
    elif op == "center_mass":
        m.center_mass = [.1, .2, .3]
    elif op == "set_normals":
        m.face_normals = m.face_normals.copy()
    elif op == "process":
        m.process(validate=False)
    elif op == "process_validate":
        i = r.randrange(len(m.faces))
        m.faces[i] = m.faces[i][::-1]
        m.process(validate=True)
    elif op == "fill_holes":
        m.fill_holes()
    elif op == "inplace_then_translate":
        m.vertices[r.randrange(len(m.vertices))] += [.3, -.2, .1]
        m.apply_translation([1, 0, 0])
    elif op == "copy_edit":
        c = m.copy(include_cache=True)
        c.vertices[0] += 1.0
        c.apply_translation([1, 0, 0])
        return c
    return m


def _fresh(m):
    import trimesh
    f = trimesh.Trimesh(np.array(m.vertices), np.array(m.faces), process=False)
    if "density" in m._data:
        f.density = m._data["density"]
    if "center_mass" in m._data:
        f.center_mass = np.array(m._data["center_mass"])
    return f


def _canon(v):
    import scipy.sparse as sps
    import trimesh
    if v is None or isinstance(v, (bool, int, float, str, np.generic)):
        return v
    if isinstance(v, np.ndarray):
        return v
    if sps.issparse(v):
        return v.toarray()
    if isinstance(v, (list, tuple)):
        return [_canon(x) for x in v]
    if isinstance(v, dict):
        return {k: _canon(x) for k, x in v.items()}
    if isinstance(v, trimesh.Trimesh):
        return ("mesh", np.sort(np.round(np.asarray(v.triangles).reshape(-1, 9), 7), axis=0))
    if hasattr(v, "to_dict") and hasattr(v, "volume"):
        return ("prim", type(v).__name__, round(float(v.volume), 6))
    if hasattr(v, "__dataclass_fields__"):
        return {k: _canon(getattr(v, k)) for k in v.__dataclass_fields__}
    return ("obj", type(v).__name__)


def _same(a, b, tol=1e-6):
    a, b = _canon(a), _canon(b)
    try:
        if isinstance(a, np.ndarray) or isinstance(b, np.ndarray):
            a, b = np.asarray(a), np.asarray(b)
            if a.shape != b.shape:
                return False
            if a.dtype.kind in "fc" or b.dtype.kind in "fc":
                return bool(np.allclose(a, b, rtol=tol, atol=tol, equal_nan=True))
            return bool(np.array_equal(a, b))
        if isinstance(a, (list, tuple)):
            return len(a) == len(b) and all(_same(x, y, tol) for x, y in zip(a, b))
        if isinstance(a, dict):
            return a.keys() == b.keys() and all(_same(a[k], b[k], tol) for k in a)
        if isinstance(a, (float, np.floating)) or isinstance(b, (float, np.floating)):
            return bool(abs(a - b) <= tol * (1 + abs(a)))
        return bool(a == b)
    except Exception:
        return False


def _get(m, k):
    try:
        return getattr(m, k)
    except Exception as e:
        return ("EXC", type(e).__name__)


def _run_query_history(c):
    """ray / proximity structures: one query builds them, the arrays are edited, and the very next thing asked is
    another query (nothing else is read in between)"""
    import trimesh
    from trimesh.ray import ray_triangle

    def mk():
        return trimesh.creation.icosphere(subdivisions=1, radius=1.0)

    def rays():
        g_ = np.array([[x, y, -5.0] for x in (-0.6, -0.2, 0.1, 0.5, 6.2, 5.9) for y in (-0.5, 0.05, 0.4)])
        return g_, np.tile([0.0, 0.0, 1.0], (len(g_), 1))

    def engine(mesh):
        return mesh.ray if c["engine"] == "default" else ray_triangle.RayMeshIntersector(mesh)

    def ask(mesh, eng, q):
        o_, d_ = rays()
        if q == "intersects_any":
            return eng.intersects_any(o_, d_).tolist()
        if q == "intersects_first":
            return eng.intersects_first(o_, d_).tolist()
        if q == "intersects_id_single":
            t_, r_ = eng.intersects_id(o_, d_, multiple_hits=False)
            return sorted(zip(r_.tolist(), t_.tolist()))
        if q == "intersects_location":
            loc, r_, t_ = eng.intersects_location(o_, d_)
            return sorted(zip(r_.tolist(), np.round(loc[:, 2], 6).tolist()))
        if q == "contains":
            return mesh.contains(o_ * [1, 1, 0]).tolist()
        if q == "nearest":
            return np.round(mesh.nearest.on_surface(o_ * [1, 1, 0.1])[1], 6).tolist()
        raise KeyError(q)

    m = mk()
    eng = engine(m)
    if c["warm"]:
        ask(m, eng, c["warm"])
    if c["edit"] == "inplace_x":
        m.vertices[:, 0] += 6.0
    elif c["edit"] == "reassign":
        m.vertices = np.array(m.vertices) + [6.0, 0.0, 0.0]
    elif c["edit"] == "faces_inplace":
        m.faces[:40] = m.faces[0]
    elif c["edit"] == "translate":
        m.apply_translation([6.0, 0.0, 0.0])
    got = ask(m, eng, c["query"])
    f = trimesh.Trimesh(np.array(m.vertices), np.array(m.faces), process=False)
    want = ask(f, engine(f), c["query"])
    stale = []
    if got != want:
        stale.append({"step": 0, "op": "edit_" + c["edit"], "key": "query." + c["query"], "read_before": bool(c["warm"]),
                      "reads_before": 1})
    return {"stale": stale, "done": [{"op": c["edit"]}], "kept": []}


def run_case(c):
    if c.get("kind") == "query_history":
        return _run_query_history(c)
    keys = stable_keys()
    m = _start(c["start"])
    # a twin that goes through the same mutators and is never read: what was read before a mutation must not change
    # the data the mutation leaves behind
    twin = _start(c["start"])
    stale = []
    done = []
    kept = []
    for i, st in enumerate(c["steps"]):
        for k in st["reads"]:
            _get(m, k)
        # keys held before the mutator (the cache is coherent here: the reads above verified it)
        try:
            m._cache.verify()
            before = sorted(m._cache.cache.keys())
        except Exception:
            before = []
        try:
            h_before = (np.array(m.vertices).tobytes(), np.array(m.faces).tobytes())
            m = _apply(m, st["op"], st["seed"])
            kept.append({"op": st["op"], "before": before, "after": sorted(set(m._cache.cache.keys()) & set(before)),
                         "changed": (np.array(m.vertices).tobytes(), np.array(m.faces).tobytes()) != h_before})
        except Exception as e:
            done.append({"op": st["op"], "exc": common.err_kind(e)})
            break
        done.append({"op": st["op"]})
        if twin is not None:
            try:
                twin = _apply(twin, st["op"], st["seed"])
                if not (_same(np.array(twin.vertices), np.array(m.vertices)) and _same(np.array(twin.faces), np.array(m.faces))):
                    stale.append({"step": i, "op": st["op"], "key": "data-left-by-the-mutator-depends-on-earlier-reads",
                                  "read_before": True, "reads_before": len(st["reads"])})
                    twin = None
            except Exception:
                twin = None
        if len(m.faces) == 0:
            break
        f = _fresh(m)
        for k in keys:
            if not _same(_get(m, k), _get(f, k)):
                stale.append({"step": i, "op": st["op"], "key": k, "read_before": k in st["reads"],
                              "reads_before": len(st["reads"])})
        # query structures keyed on the mesh hash
        if m.is_watertight and len(stale) == 0:
            try:
                o = np.array([[0.123, 0.077, -5.0]]) + m.centroid * [1, 1, 0]
                d = np.array([[0.0, 0.0, 1.0]])
                a = m.ray.intersects_location(o, d)[0]
                b = f.ray.intersects_location(o, d)[0]
                if not _same(np.sort(a, axis=0), np.sort(b, axis=0), 1e-5):
                    stale.append({"step": i, "op": st["op"], "key": "ray.intersects_location", "read_before": False,
                                  "reads_before": len(st["reads"])})
                p = np.array([[0.3, 0.2, 0.9]]) + m.centroid
                if not _same(m.nearest.on_surface(p)[1], f.nearest.on_surface(p)[1], 1e-6):
                    stale.append({"step": i, "op": st["op"], "key": "nearest.on_surface", "read_before": False,
                                  "reads_before": len(st["reads"])})
            except Exception:
                pass
        if stale:
            break
    return {"stale": stale, "done": done, "kept": kept}


NORMALS = {"face_normals", "vertex_normals"}


def oracle(c, o):
    if "err" in o:
        return {"kind": "history", "fail": "raised", "err": o["err"]}
    sigs = []
    seen = set()
    for s in o["stale"]:
        op = s["op"]
        mclass = op.split(":")[1] if ":" in op else ""
        key = s["key"]
        group = "normals" if key in NORMALS else ("other" if key not in EDGE_KEYS else "edge-order")
        sg = {"kind": "history", "fail": "stale-value", "op": op.split(":")[0], "matrix": mclass, "key_group": group,
              "key": key}
        k = (sg["op"], mclass, key)
        if k not in seen:
            seen.add(k)
            sigs.append(sg)
    return sigs or None


EDGE_KEYS = {"edges", "edges_sorted", "edges_unique", "edges_unique_inverse", "edges_unique_length", "faces_unique_edges",
             "edges_face", "face_adjacency", "face_adjacency_edges", "face_adjacency_unshared", "face_adjacency_angles",
             "face_adjacency_convex", "face_adjacency_projections", "face_adjacency_radius", "face_adjacency_span",
             "integral_mean_curvature", "face_neighborhood"}


# ------------------------------------------------------------------ translator validation (model side)
# which library call an op of the harness is, in terms of the generated mutator table
_TABLE = None
_MUT_OF = {"invert": "invert", "process": "process", "process_validate": "process", "unmerge": "unmerge_vertices",
           "rezero": "apply_transform", "scale": "apply_transform", "translate": "apply_transform"}


def model_request(c, o):
    if "err" in o or not o.get("kept"):
        return None
    return {"steps": o["kept"]}


def local_model(req):
    """what the generated table (the object printed into Generated/C01Table.lean) allows a mutator to keep"""
    global _TABLE
    if _TABLE is None:
        _TABLE = table()
    t = _TABLE["mutators"]
    out = []
    for st in req["steps"]:
        op = st["op"]
        name = "apply_transform" if op.startswith("transform:") else _MUT_OF.get(op)
        out.append(None if name is None or name not in t else {"mutator": name, "may_keep": t[name]["exclude"]})
    return {"steps": out}


def compare(c, o, m):
    for st, ms in zip(o["kept"], m["steps"]):
        if ms is None or not st.get("changed"):
            continue            # the identity shortcut leaves data and cache alone
        extra = sorted(set(st["after"]) - set(ms["may_keep"]))
        if extra:
            return (f"{ms['mutator']} ({st['op']}) kept cache keys the generated table does not list: {extra[:5]} "
                    f"- the translator's table does not describe the code")
    return None


def nontrivial(c, o):
    if c.get("kind") == "query_history":
        return bool(c["warm"])
    return any(st["reads"] for st in c["steps"])
