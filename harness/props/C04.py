"""C04 - homogeneous transforms act covariantly on every geometry."""
import itertools
from fractions import Fraction as Fr

import numpy as np

import common
from props import C03

LEVEL = "proof"
N_CASES = {"quick": 900, "thorough": 40000}
RULE = ("geometry kinds mesh / point cloud / 2D path / 3D path / primitive (box, sphere, cylinder, capsule) / scene / "
        "voxel grid x matrix classes rigid / similarity / mirror / anisotropic scale / shear / within 1e-9 of the "
        "identity / just outside the 1e-8 and 1e-6 shortcuts (all float64-exact: power-of-two scaled signed "
        "permutations, dyadic shears, integer translations) x normals cached or not; checks M.p, counts, "
        "connectivity, attached data, M then M^-1, A then B vs B.A, and for meshes winding flip iff det<0, "
        "volume |det|, centre of mass, area s^2, inertia tensor law. non-trivial = a non-identity matrix")
TRUSTED = ["float64 evaluation of the implementation (inputs chosen so that the expected values are exact)",
           "the tetrahedron moments of C03 as the meaning of volume / centre of mass / inertia"]
ASSUMPTIONS = ["a primitive refusing a non-rigid matrix with ValueError is a clean refusal, not a violation",
               "cached normals after a non-similarity transform are judged by C01 (freshness); here only outwardness"]
EXPLANATION = "Lean theorems C04_* (ring identities over the exact moments) + differential run on exact matrix families"

CLASSES = ["rigid", "similarity", "mirror", "aniso", "shear", "near_identity", "just_outside", "translation",
           "mirror_small", "rhombic", "aniso_small"]


def _matrix(rng, cls):
    perm = list(range(3))
    rng.shuffle(perm)
    A = np.zeros((3, 3))
    for i in range(3):
        A[i, perm[i]] = rng.choice([1, -1])
    if np.linalg.det(A) < 0:
        A[0] *= -1
    t = np.array([rng.randint(-4, 4) for _ in range(3)], dtype=float)
    if cls == "rigid":
        pass
    elif cls == "similarity":
        A = A * rng.choice([2, 0.5, 4])
    elif cls == "mirror":
        A[rng.randrange(3)] *= -1
        if rng.random() < 0.5:
            A = A * 2
    elif cls == "aniso":
        A = A @ np.diag([rng.choice([1, 2, 0.5]), rng.choice([2, 4]), rng.choice([1, 0.25])])
    elif cls == "aniso_small":
        # a factor per axis combined with a unit conversion: every entry far below one
        A = A @ np.diag([rng.choice([1, 2, 0.5]), rng.choice([2, 4]), rng.choice([1, 0.25])]) * rng.choice([1e-5, 1e-6])
        t = t * 1e-5
    elif cls == "shear":
        S = np.eye(3)
        S[0, 1] = rng.choice([0.5, 1, -0.25])
        S[1, 2] = rng.choice([0, 0.5])
        A = A @ S
    elif cls == "near_identity":
        A = np.eye(3) + 1e-9 * rng.choice([1, -1]) * np.eye(3)[[1, 2, 0]]
        t = t * 1e-10
    elif cls == "just_outside":
        # outside the 1e-8 identity shortcut of transform_points / apply_transform, inside / outside the 1e-6
        # "has_rotation" shortcut
        e = rng.choice([3e-8, 5e-7, 3e-6])
        A = np.eye(3) + e * np.eye(3)[[1, 2, 0]]
    elif cls == "translation":
        A = np.eye(3)
    elif cls == "mirror_small":
        # a reflection combined with a unit conversion: the determinant is negative but tiny (-1e-9 .. -1.25e-10)
        A[rng.randrange(3)] *= -1
        A = A * rng.choice([1e-3, 0.5e-3])
        t = t * 1e-3
    elif cls == "rhombic":
        # columns of equal length that are not orthogonal (hexagonal / rhombohedral lattice bases): not a similarity
        h = np.array([[1.0, 0.5, 0.0], [0.0, np.sqrt(3) / 2, 0.0], [0.0, 0.0, 1.0]])
        if rng.random() < 0.5:
            h = np.array([[1.0, 0.5, 0.5], [0.0, np.sqrt(3) / 2, np.sqrt(3) / 6], [0.0, 0.0, np.sqrt(2.0 / 3)]])
        A = A @ h * rng.choice([1, 2])
    M = np.eye(4)
    M[:3, :3] = A
    M[:3, 3] = t
    return M.tolist()


def cases(ctx):
    rng = ctx.rng
    kinds = ["mesh", "mesh", "mesh", "pointcloud", "path2d", "path3d", "primitive", "scene", "voxel"]
    for cls in CLASSES:
        for kind in ("mesh", "primitive", "path2d"):
            yield {"kind": kind, "cls": cls, "M": _matrix(rng, cls), "M2": _matrix(rng, rng.choice(CLASSES[:5])),
                   "seed": rng.randrange(10 ** 6), "cache": True, "com_override": kind == "mesh"}
    while True:
        kind = rng.choice(kinds)
        cls = rng.choice(CLASSES)
        ctx.count(f"{kind}:{cls}")
        yield {"kind": kind, "cls": cls, "M": _matrix(rng, cls), "M2": _matrix(rng, rng.choice(CLASSES[:5])),
               "seed": rng.randrange(10 ** 6), "cache": rng.random() < 0.5, "com_override": rng.random() < 0.3}


# ------------------------------------------------------------------ implementation side

def _solid(r):
    k = r.choice(["tet", "box", "torus", "multi"])
    if k == "tet":
        V, F = C03._orient(*C03._tet([[0, 0, 0], [2, 0, 1], [0, 3, 0], [1, 1, 2]]))
    elif k == "box":
        V, F = C03._box((-1, 0, 1), (2, 2, 2))
    elif k == "torus":
        V, F = C03._torus_blocks()
    else:
        V, F = C03._merge([C03._box((0, 0, 0), (1, 2, 1)), C03._orient(*C03._tet([[4, 0, 0], [6, 0, 1], [4, 3, 0], [5, 1, 2]]))])
    return [[float(x) for x in v] for v in V], F


def _tp(M, P):
    P = np.asarray(P, dtype=float)
    d = P.shape[1]
    if d == 2:
        M = _planar(M)
    return (np.asarray(M)[:d, :d] @ P.T).T + np.asarray(M)[:d, d]


def _planar(M):
    """a 3x3 planar matrix of the same class: the 2x2 block of a matrix whose z axis is kept"""
    M = np.asarray(M)
    A = M[:3, :3]
    # pick the two rows / columns that form an invertible 2x2 block
    for rows, cols in (((0, 1), (0, 1)), ((0, 1), (1, 2)), ((0, 1), (0, 2)), ((1, 2), (0, 1)), ((0, 2), (0, 1)),
                       ((1, 2), (1, 2)), ((0, 2), (0, 2)), ((1, 2), (0, 2)), ((0, 2), (1, 2))):
        B = A[np.ix_(rows, cols)]
        if abs(np.linalg.det(B)) > 1e-12:
            return np.array([[B[0, 0], B[0, 1], M[0, 3]], [B[1, 0], B[1, 1], M[1, 3]], [0, 0, 1]])
    return np.eye(3)


def run_case(c):
    import random
    import trimesh
    r = random.Random(c["seed"])
    M, M2 = np.array(c["M"]), np.array(c["M2"])
    kind = c["kind"]
    o = {"kind": kind}
    if kind == "mesh":
        V, F = _solid(r)
        m = trimesh.Trimesh(np.array(V), np.array(F), process=False)
        m.visual.face_colors = (np.arange(len(F))[:, None] * [1, 2, 3, 0] % 251 + [0, 0, 0, 255]).astype(np.uint8)
        m.face_attributes["fid"] = np.arange(len(F))
        m.vertex_attributes["vid"] = np.arange(len(V))
        if c["com_override"]:
            m.center_mass = np.array([1.0, 2.0, -1.0])
        if c["cache"]:
            _ = m.face_normals, m.vertex_normals, m.edges_unique, m.volume, m.area, m.bounds
        before = {"V": np.array(m.vertices), "F": np.array(m.faces)}
        ret = m.apply_transform(M)
        o["returns_self"] = ret is m
        o["V"] = np.array(m.vertices).tolist()
        o["F"] = np.array(m.faces).tolist()
        o["F0"] = before["F"].tolist()
        o["V0"] = before["V"].tolist()
        o["fid"] = [int(x) for x in m.face_attributes["fid"]]
        o["vid"] = [int(x) for x in m.vertex_attributes["vid"]]
        o["fcol"] = np.asarray(m.visual.face_colors)[:, 0].tolist()
        o["volume"], o["area"] = float(m.volume), float(m.area)
        o["center_mass"] = m.center_mass.tolist()
        o["inertia"] = m.moment_inertia.tolist()
        o["watertight"], o["winding"] = bool(m.is_watertight), bool(m.is_winding_consistent)
        tri = np.array(m.triangles)
        true_n = np.cross(tri[:, 1] - tri[:, 0], tri[:, 2] - tri[:, 0])
        fn = np.array(m.face_normals)
        o["normals_outward"] = bool(np.all(np.einsum("ij,ij->i", fn, true_n) > 0))
        o["normals_exact"] = float(np.abs(fn - true_n / np.linalg.norm(true_n, axis=1)[:, None]).max())
        o["bounds"] = np.array(m.bounds).tolist()
        # A then B  vs  B.A ; M then inverse
        a = trimesh.Trimesh(np.array(V), np.array(F), process=False)
        a.apply_transform(M)
        a.apply_transform(M2)
        b = trimesh.Trimesh(np.array(V), np.array(F), process=False)
        b.apply_transform(M2 @ M)
        o["compose_err"] = float(np.abs(np.array(a.vertices) - np.array(b.vertices)).max())
        o["compose_faces_same_orientation"] = bool(np.sign(a.volume) == np.sign(b.volume))
        m.apply_transform(np.linalg.inv(M))
        o["inverse_err"] = float(np.abs(np.array(m.vertices) - before["V"]).max())
        o["inverse_volume"] = float(m.volume)
    elif kind == "pointcloud":
        P = np.array([[r.randint(-4, 4) for _ in range(3)] for _ in range(6)], dtype=float)
        pc = trimesh.PointCloud(P.copy(), colors=(np.arange(24).reshape(6, 4) * 7 % 255).astype(np.uint8))
        col0 = np.array(pc.colors).tolist()
        pc.apply_transform(M)
        o["V"], o["V0"] = np.array(pc.vertices).tolist(), P.tolist()
        o["colors_kept"] = np.array(pc.colors).tolist() == col0
        o["bounds"] = np.array(pc.bounds).tolist()
    elif kind in ("path2d", "path3d"):
        d = 2 if kind == "path2d" else 3
        pts = np.array([[0, 0, 0], [4, 0, 1], [4, 2, 1], [1, 3, 0], [1, 1, 0], [2, 1, 0], [1, 2, 0]], dtype=float)[:, :d]
        ents = [trimesh.path.entities.Line([0, 1, 2]), trimesh.path.entities.Line([2, 3, 0]),
                trimesh.path.entities.Line([4, 5, 6, 4])]
        p = (trimesh.path.Path2D if d == 2 else trimesh.path.Path3D)(entities=ents, vertices=pts.copy(), process=False)
        pts = np.array(p.vertices)
        ents = [e.copy() for e in p.entities]
        if c["cache"]:
            _ = p.length, p.bounds, p.paths, p.discrete
            if d == 2:
                _ = p.area, p.polygons_full
        Mp = _planar(M) if d == 2 else M
        nent = len(p.entities)
        p.apply_transform(Mp)
        o["V"], o["V0"], o["dim"] = np.array(p.vertices).tolist(), pts.tolist(), d
        o["entities_kept"] = len(p.entities) == nent and [e.points.tolist() for e in p.entities] == [e.points.tolist() for e in ents]
        o["bounds"] = np.array(p.bounds).tolist()
        fresh = (trimesh.path.Path2D if d == 2 else trimesh.path.Path3D)(
            entities=[e.copy() for e in p.entities], vertices=np.array(p.vertices))
        o["length"], o["fresh_length"] = float(p.length), float(fresh.length)
        o["closed"] = bool(p.is_closed)
        if d == 2:
            o["area"], o["fresh_area"] = float(p.area), float(fresh.area)
    elif kind == "primitive":
        which = r.choice(["box", "sphere", "cylinder", "capsule"])
        T0 = np.array(_matrix(r, "rigid"))
        if which == "box":
            pr = trimesh.primitives.Box(extents=[1, 2, 3], transform=T0)
        elif which == "sphere":
            pr = trimesh.primitives.Sphere(radius=1.5, center=T0[:3, 3])
        elif which == "cylinder":
            pr = trimesh.primitives.Cylinder(radius=1, height=2, transform=T0, sections=8)
        else:
            pr = trimesh.primitives.Capsule(radius=1, height=2, transform=T0, sections=8)
        o["which"] = which
        V0 = np.array(pr.vertices)
        vol0, com0 = float(pr.volume), np.array(pr.center_mass)
        try:
            pr.apply_transform(M)
        except ValueError:
            o["refused"] = True
            return o
        o["refused"] = False
        o["V"], o["V0"] = np.array(pr.vertices).tolist(), V0.tolist()
        o["volume"], o["vol0"] = float(pr.volume), vol0
        o["center_mass"], o["com0"] = np.array(pr.center_mass).tolist(), com0.tolist()
        o["watertight"], o["winding"] = bool(pr.is_watertight), bool(pr.is_winding_consistent)
        o["mesh_volume"] = float(trimesh.Trimesh(np.array(pr.vertices), np.array(pr.faces), process=False).volume)
    elif kind == "scene":
        V, F = _solid(r)
        m = trimesh.Trimesh(np.array(V), np.array(F), process=False)
        s = trimesh.Scene()
        T1, T2 = np.array(_matrix(r, "rigid")), np.array(_matrix(r, "similarity"))
        s.add_geometry(m, node_name="n1", geom_name="g", transform=T1)
        s.add_geometry(m, node_name="n2", geom_name="g", transform=T2)
        s.graph.update("n3", "n1", matrix=np.array(_matrix(r, "rigid")), geometry="g")
        world0 = {n: np.array(s.graph.get(n)[0]) for n in ("n1", "n2", "n3")}
        if c["cache"]:
            _ = s.bounds
        s.apply_transform(M)
        o["world_err"] = max(float(np.abs(np.array(s.graph.get(n)[0]) - M @ world0[n]).max()) for n in world0)
        o["geometry_untouched"] = bool(np.array_equal(np.array(m.vertices), np.array(V)))
        dump = s.dump(concatenate=True) if hasattr(s, "dump") else s.to_mesh()
        exp = np.vstack([_tp(M @ world0[n], V) for n in ("n1", "n2", "n3")])
        got = np.array(dump.vertices)
        o["dump_err"] = float(np.abs(np.sort(got, axis=0) - np.sort(exp, axis=0)).max()) if got.shape == exp.shape else 1e9
    elif kind == "voxel":
        d = np.zeros((2, 3, 2), dtype=bool)
        d[0, 1, 1] = d[1, 2, 0] = d[1, 0, 0] = True
        T0 = np.array(_matrix(r, "similarity"))
        vg = trimesh.voxel.VoxelGrid(d, transform=T0)
        P0 = np.array(vg.points)
        vg.apply_transform(M)
        o["V"], o["V0"] = np.array(vg.points).tolist(), P0.tolist()
        o["filled"] = int(vg.filled_count)
        o["shape"] = list(vg.shape)
    return o


# ------------------------------------------------------------------ oracle

def oracle(c, o):
    if "err" in o:
        return {"kind": c["kind"], "cls": c["cls"], "fail": "raised", "err": o["err"]}
    kind, cls = c["kind"], c["cls"]
    M = np.array(c["M"])
    det = float(np.linalg.det(M[:3, :3]))
    similar = cls in ("rigid", "similarity", "mirror", "translation", "mirror_small")

    def bad(what, **kw):
        d = {"kind": kind, "cls": cls, "check": what}
        d.update(kw)
        return d
    tol = 1e-9
    if "V" in o and "V0" in o and not o.get("refused"):
        V0 = np.array(o["V0"])
        exp = _tp(M, V0)
        if cls == "near_identity":
            # inside the identity shortcut the points may stay put: |M p - p| <= 1e-8 (|p|_1 + 1)
            if np.abs(np.array(o["V"]) - exp).max() > 1e-8 * (np.abs(V0).sum(axis=1).max() + 1):
                return bad("points-move-to-M.p")
        elif kind == "primitive" and o.get("which") == "sphere":
            pass        # a sphere's tessellation is not transported point by point: judged by centre / volume
        elif kind in ("primitive", "voxel"):
            if np.array(o["V"]).shape != exp.shape or \
                    np.abs(np.sort(np.round(np.array(o["V"]), 9), axis=0) - np.sort(np.round(exp, 9), axis=0)).max() > 1e-6:
                return bad("points-move-to-M.p")
        elif np.array(o["V"]).shape != exp.shape or np.abs(np.array(o["V"]) - exp).max() > tol * max(1, np.abs(exp).max()):
            return bad("points-move-to-M.p")
    if kind == "mesh":
        F0, F = np.array(o["F0"]), np.array(o["F"])
        flipped = bool(len(F) and np.array_equal(F, F0[:, ::-1]))
        same = bool(np.array_equal(F, F0))
        if not (flipped or same):
            return bad("connectivity-changed")
        if cls not in ("near_identity",) and (det < 0) != flipped and not (same and flipped):
            # below the 1e-6 "has_rotation" shortcut nothing can flip (det > 0 there anyway)
            return bad("winding-flip-iff-det-negative", det_negative=det < 0)
        if o["fid"] != list(range(len(F))) or o["vid"] != list(range(len(o["V"]))):
            return bad("attached-data-changed")
        if not o["watertight"] or not o["winding"]:
            return bad("valid-solid-stays-valid")
        V0f = [[Fr(x) for x in v] for v in o["V0"]]
        e0 = C03.exact_props(V0f, o["F0"])
        v0, g0 = float(e0["volume"]), np.array([float(x) for x in e0["centroid"]])
        if cls != "near_identity":
            if abs(o["volume"] - abs(det) * v0) > 1e-9 * max(1, abs(det) * v0):
                return bad("volume-scales-by-abs-det")
            expc = _tp(M, [[1.0, 2.0, -1.0]])[0] if c["com_override"] else _tp(M, [g0])[0]
            if np.abs(np.array(o["center_mass"]) - expc).max() > 1e-9 * max(1, np.abs(expc).max()):
                return bad("center-of-mass-maps-through-M", override=bool(c["com_override"]))
            if not o["normals_outward"]:
                return bad("normals-stay-outward", cached=c["cache"])
            if o["normals_exact"] > (1e-5 if cls == "just_outside" else 1e-9):
                # whatever the matrix: reported normals are the normals of the moved faces
                return bad("normals-transported", cached=c["cache"])
        if similar and cls != "near_identity":
            s = abs(det) ** (1 / 3)
            area0 = 0.0
            V0a = np.array(o["V0"])
            for f in o["F0"]:
                area0 += np.linalg.norm(np.cross(V0a[f[1]] - V0a[f[0]], V0a[f[2]] - V0a[f[0]])) / 2
            if abs(o["area"] - s * s * area0) > 1e-9 * max(1, area0):
                return bad("area-scales-by-s2")
            if not c["com_override"]:
                I0 = np.array([[float(x) for x in row] for row in e0["inertia"]])
                R = M[:3, :3] / (s if det > 0 else -s)
                expI = s ** 5 * (R @ I0 @ R.T)
                if np.abs(np.array(o["inertia"]) - expI).max() > 1e-8 * max(1, np.abs(expI).max()):
                    return bad("inertia-tensor-law")
        if o["compose_err"] > 1e-9 * 64 or not o["compose_faces_same_orientation"]:
            return bad("A-then-B-equals-BA")
        if cls not in ("near_identity", "just_outside") and (o["inverse_err"] > 1e-9 or abs(o["inverse_volume"] - v0) > 1e-9 * max(1, v0)):
            return bad("M-then-inverse-restores")
        if not o["returns_self"]:
            return bad("returns-self")
    elif kind == "pointcloud":
        if not o["colors_kept"]:
            return bad("attached-data-changed")
    elif kind in ("path2d", "path3d"):
        if not o["entities_kept"]:
            return bad("connectivity-changed")
        if abs(o["length"] - o["fresh_length"]) > 1e-9 * max(1, o["fresh_length"]):
            return bad("length-differs-from-fresh-path", cached=c["cache"])
        if "area" in o and abs(o["area"] - o["fresh_area"]) > 1e-9 * max(1, abs(o["fresh_area"])):
            return bad("area-differs-from-fresh-path", cached=c["cache"])
    elif kind == "primitive":
        if o.get("refused"):
            return None if cls in ("aniso", "aniso_small", "shear", "just_outside", "near_identity", "mirror", "mirror_small", "rhombic") else bad("rigid-matrix-refused", which=o["which"])
        if cls in ("aniso", "aniso_small", "shear"):
            return bad("non-similarity-accepted-by-primitive", which=o["which"])
        if cls in ("near_identity", "just_outside"):
            return None
        if abs(o["volume"] - abs(det) * o["vol0"]) > 1e-9 * max(1, abs(det) * o["vol0"]):
            return bad("volume-scales-by-abs-det", which=o["which"])
        expc = _tp(M, [o["com0"]])[0]
        if np.abs(np.array(o["center_mass"]) - expc).max() > 1e-9 * max(1, np.abs(expc).max()):
            return bad("center-of-mass-maps-through-M", which=o["which"])
        if not o["watertight"] or not o["winding"] or o["mesh_volume"] <= 0:
            return bad("valid-solid-stays-valid", which=o["which"], mirrored=det < 0)
    elif kind == "scene":
        # near-rigid matrices are deliberately "repaired" by the scene graph (fix_rigid, 1e-5) and matrices
        # within 1e-8 of the identity are dropped from products: allow that documented slack there
        lim = 1e-9 if cls not in ("near_identity", "just_outside") else 1e-4
        if o["world_err"] > lim or o["dump_err"] > lim:
            return bad("scene-placements-move-by-M")
        if not o["geometry_untouched"]:
            return bad("scene-transform-modified-geometry")
    elif kind == "voxel":
        if o["filled"] != 3 or o["shape"] != [2, 3, 2]:
            return bad("counts-changed")
    return None


def _q(x):
    n, d = float(x).as_integer_ratio()
    return [n, d]


def model_request(c, o):
    if "err" in o or c["kind"] not in ("mesh", "pointcloud"):
        return None
    M, M2 = np.array(c["M"], dtype=np.float64), np.array(c["M2"], dtype=np.float64)
    if not (np.array_equal(M[3], [0, 0, 0, 1]) and np.array_equal(M2[3], [0, 0, 0, 1])) or not np.isfinite(M).all():
        return None
    if np.allclose(M, np.eye(4), atol=1e-7):
        return None          # the documented identity shortcut: the library leaves the geometry alone
    V0 = np.array(o["V0"], dtype=np.float64)
    req = {"p": "C04", "L": [_q(x) for x in M[:3, :3].reshape(-1)], "t": [_q(x) for x in M[:3, 3]],
           "points": [[_q(x) for x in p] for p in V0], "L2": [_q(x) for x in M2[:3, :3].reshape(-1)],
           "t2": [_q(x) for x in M2[:3, 3]]}
    if c["kind"] == "mesh":
        T = V0[np.array(o["F0"])]
        req["tris"] = [[[_q(x) for x in p] for p in t] for t in T]
    return req


def compare(c, o, m):
    if "err" in m:
        return "model error: " + str(m["err"])
    from fractions import Fraction
    f = lambda q: float(Fraction(q[0], q[1]))  # noqa
    P = np.array([[f(x) for x in p] for p in m["points"]])
    V = np.array(o["V"])
    sc = max(1.0, float(np.abs(P).max()))
    if P.shape != V.shape or np.abs(P - V).max() > 1e-9 * sc:
        return f"transformed points differ from the model by {np.abs(P - V).max() if P.shape == V.shape else 'shape'}"
    if c["kind"] == "mesh":
        det, vol, vlin, vmov = f(m["det"]), f(m["vol"]), f(m["vol_linear"]), f(m["vol_moved"])
        if Fraction(*m["vol_linear"]) != Fraction(*m["det"]) * Fraction(*m["vol"]):
            return "model: volume of the linearly mapped triangles is not det * volume"
        if o["watertight"] and abs(abs(vmov) - abs(o["volume"])) > 1e-9 * max(1.0, abs(vmov)) * sc ** 2:
            return f"volume after the transform: model {abs(vmov)} impl {o['volume']}"
        if o["watertight"] and not c.get("com_override") and abs(vmov) > 1e-12:
            cm = np.array([f(x) for x in m["first_moved"]]) / vmov
            if np.abs(cm - np.array(o["center_mass"])).max() > 1e-7 * sc:
                return f"center of mass after the transform: model {cm.tolist()} impl {o['center_mass']}"
    return None


def nontrivial(c, o):
    return c["cls"] not in ("near_identity",) and "err" not in o


# ------------------------------------------------------------------ (G) what Path.apply_transform keeps in the cache

def translate(ctx):
    """by ast from path/path.py::Path.apply_transform: the cache keys copied across the transform, the key whose
    value is transformed point by point, and the order verify -> (read cache) -> assign vertices -> clear -> id_set ->
    update"""
    import ast
    import os
    tree = ast.parse(open(os.path.join(common.REPO, "trimesh/path/path.py")).read())
    fn = None
    for node in ast.walk(tree):
        if isinstance(node, ast.ClassDef) and node.name == "Path":
            for f in node.body:
                if isinstance(f, ast.FunctionDef) and f.name == "apply_transform":
                    fn = f
    if fn is None:
        raise common.Broken("translate", "path.py: Path.apply_transform not found")
    kept, transported, events = [], [], []
    for st in ast.walk(fn):
        if isinstance(st, ast.For) and isinstance(st.iter, ast.List) and all(isinstance(e, ast.Constant) for e in st.iter.elts):
            body = ast.unparse(st)
            if "cache[key] = self._cache.cache[key]" in body:
                kept = [e.value for e in st.iter.elts]
        if isinstance(st, ast.Assign) and ast.unparse(st.targets[0]).startswith("cache[") and "transform_points" in ast.unparse(st.value):
            transported.append(ast.literal_eval(st.targets[0].slice))
    for st in fn.body:
        src = ast.unparse(st)
        for tag, pat in (("verify", "self._cache.verify()"), ("assign_vertices", "self.vertices = "), ("clear", "self._cache.clear()"),
                         ("id_set", "self._cache.id_set()"), ("update", "self._cache.cache.update(cache)")):
            if pat in src:
                events.append(tag)
    if not kept:
        raise common.Broken("translate", "Path.apply_transform: the list of cache keys kept across the transform was not found")
    L = ["-- GENERATED by harness/props/C04.py from /repo/trimesh/path/path.py::Path.apply_transform (ast) -- do not edit",
         "namespace TV.Generated.C04",
         "/-- cache keys copied unchanged across the transform -/",
         "def pathKept : List String := [" + ", ".join(f'"{k}"' for k in kept) + "]",
         "/-- cache keys whose value is mapped through the matrix point by point -/",
         "def pathTransported : List String := [" + ", ".join(f'"{k}"' for k in transported) + "]",
         "/-- order of the cache operations in the method body -/",
         "def pathEvents : List String := [" + ", ".join(f'"{k}"' for k in events) + "]",
         "end TV.Generated.C04"]
    return {"C04PathTable.lean": "\n".join(L) + "\n"}


def generated_obligations():
    return 1
