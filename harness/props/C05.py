"""C05 - topological queries equal their combinatorial definitions (geometry.py, graph.py, base.py, curvature.py)."""
import collections
import itertools
import math

import numpy as np

LEVEL = "proof"
N_CASES = {"quick": 1200, "thorough": 300000}
RULE = ("face arrays over 4-9 vertices: every 1- and 2-face array over 4 vertices (thorough: also every 3-face array, "
        "64^3), random arrays of 3-40 faces with injected non-manifold edges, repeated indices inside a face, "
        "repeated faces, isolated faces and unreferenced vertices; closed manifold meshes (tetrahedron, cube, "
        "octahedron, torus grid, two bodies) for the angle-defect law; both graph engines. non-trivial = at least "
        "two faces sharing a vertex")
TRUSTED = ["scipy.sparse.csgraph / networkx connected components are modelled by label relaxation (contract: they "
           "compute connected components)", "vertex_defects / angles go through arccos: compared at 1e-9 by the "
           "correspondence only"]
ASSUMPTIONS = ["vertex_degree / vertex_faces count a face once per occurrence of the vertex in the face array "
               "(direct counting of the index array); order inside unordered outputs is canonicalised"]
EXPLANATION = "Lean theorems C05_* over the model of geometry/graph topology + differential run vs implementation"

V4 = [[0, 0, 0], [1, 0, 0], [0, 1, 0], [0, 0, 1]]
ALL4 = list(itertools.product(range(4), repeat=3))


def _closed_meshes():
    tet = [[0, 1, 2], [0, 3, 1], [1, 3, 2], [2, 3, 0]]
    tv = [[0, 0, 0], [1, 0, 0], [0, 1, 0], [0, 0, 1]]
    octv = [[1, 0, 0], [-1, 0, 0], [0, 1, 0], [0, -1, 0], [0, 0, 1], [0, 0, -1]]
    octf = [[0, 2, 4], [2, 1, 4], [1, 3, 4], [3, 0, 4], [2, 0, 5], [1, 2, 5], [3, 1, 5], [0, 3, 5]]
    out = [("tet", tv, tet), ("oct", octv, octf)]
    # torus grid n x m
    for n, m in ((3, 3), (4, 3), (5, 4)):
        vs, fs = [], []
        for i in range(n):
            for j in range(m):
                a, b = 2 * math.pi * i / n, 2 * math.pi * j / m
                vs.append([(2 + math.cos(b)) * math.cos(a), (2 + math.cos(b)) * math.sin(a), math.sin(b)])
        for i in range(n):
            for j in range(m):
                p, q = i * m + j, ((i + 1) % n) * m + j
                r, s = i * m + (j + 1) % m, ((i + 1) % n) * m + (j + 1) % m
                fs += [[p, q, s], [p, s, r]]
        out.append((f"torus{n}x{m}", vs, fs))
    # two bodies
    out.append(("two", tv + [[x + 5, y, z] for x, y, z in octv], tet + [[a + 4, b + 4, c + 4] for a, b, c in octf]))
    return out


def cases(ctx):
    rng = ctx.rng
    for name, vs, fs in _closed_meshes():
        yield {"kind": "closed", "name": name, "verts": vs, "faces": fs}
        # the angle-defect law does not depend on the unit of length
        for sc in (1e3, 1e-2, 1e-4, 1e-5):
            yield {"kind": "closed", "name": name, "verts": [[x * sc for x in v] for v in vs], "faces": fs, "scale": sc}
    # queries answered before a transform that re-winds the faces (or not) must not freeze any later answer
    HM = {"mirror": np.diag([1.0, 1.0, -1.0, 1.0]).tolist(), "mirror_scale": np.diag([-2.0, 1.0, 0.5, 1.0]).tolist(),
          "point": np.diag([-1.0, -1.0, -1.0, 1.0]).tolist(), "turn": [[0.0, -1.0, 0.0, 1.0], [1.0, 0.0, 0.0, 2.0], [0.0, 0.0, 1.0, 3.0], [0, 0, 0, 1.0]],
          "scale": np.diag([2.0, 2.0, 2.0, 1.0]).tolist()}
    PRE = [["is_watertight"], ["is_volume"], ["is_winding_consistent"], ["euler_number", "body_count"],
           ["is_watertight", "face_adjacency", "edges_unique"], []]
    for name, vs, fs in _closed_meshes()[:4]:
        for hm in HM:
            for pre in PRE:
                yield {"kind": "closed", "name": name, "verts": vs, "faces": fs, "history": {"pre": pre, "M": HM[hm], "name": hm}}
    # exhaustive small scopes
    if ctx.tier == "thorough":
        for f in ALL4:
            yield {"kind": "topo", "nv": 4, "faces": [list(f)]}
        for f in ALL4:
            for g in ALL4:
                yield {"kind": "topo", "nv": 4, "faces": [list(f), list(g)]}
        if ctx.seed == 0:
            for f in ALL4:
                for g in ALL4:
                    for h in ALL4[::3]:
                        yield {"kind": "topo", "nv": 4, "faces": [list(f), list(g), list(h)]}
    else:
        for f in rng.sample(ALL4, 20):
            yield {"kind": "topo", "nv": 4, "faces": [list(f)]}
        for _ in range(200):
            yield {"kind": "topo", "nv": 4, "faces": [list(rng.choice(ALL4)), list(rng.choice(ALL4))]}
    while True:
        nv = rng.randint(4, 9)
        nf = rng.choice([3, 3, 4, 4, 5, 8, 12, 20, 40])
        mode = rng.choice(["random", "distinct", "fan", "strip", "closed+"])
        ctx.count("mode:" + mode)
        fs = []
        if mode == "random":
            fs = [[rng.randrange(nv) for _ in range(3)] for _ in range(nf)]
        elif mode == "distinct":
            fs = [rng.sample(range(nv), 3) for _ in range(nf)]
        elif mode == "fan":            # non-manifold fan around one edge
            a, b = rng.sample(range(nv), 2)
            fs = [[a, b, rng.randrange(nv)] if rng.random() < 0.5 else [b, a, rng.randrange(nv)] for _ in range(nf)]
        elif mode == "strip":
            fs = [[i % nv, (i + 1) % nv, (i + 2) % nv] if i % 2 == 0 else [(i + 1) % nv, i % nv, (i + 2) % nv]
                  for i in range(nf)]
        else:
            name, vs, base = rng.choice(_closed_meshes()[:2])
            nv = max(nv, len(vs) + 1)
            fs = [list(f) for f in base]
            for _ in range(rng.randint(0, 3)):
                r = rng.random()
                if r < 0.3 and fs:
                    fs.pop(rng.randrange(len(fs)))
                elif r < 0.6 and fs:
                    fs.append(list(rng.choice(fs)))       # repeated face
                elif r < 0.8 and fs:
                    f = fs[rng.randrange(len(fs))]
                    f[0], f[1] = f[1], f[0]               # flipped winding
                else:
                    fs.append([rng.randrange(nv) for _ in range(3)])
        if not fs:
            continue
        yield {"kind": "topo", "nv": nv, "faces": fs}


def _mesh(c):
    import trimesh
    if c["kind"] == "closed":
        V = np.array(c["verts"], dtype=np.float64)
    else:
        rng = np.random.default_rng(len(c["faces"]) * 131 + c["nv"])
        V = rng.integers(-8, 9, size=(c["nv"], 3)).astype(np.float64) + \
            np.arange(c["nv"])[:, None] * np.array([0.25, 0.5, 0.125])
    F = np.array(c["faces"], dtype=np.int64).reshape(-1, 3)
    return trimesh.Trimesh(V.copy(), F.copy(), process=False)


def run_case(c):
    from trimesh import graph
    m = _mesh(c)
    nf = len(c["faces"])
    o = {}
    if c.get("history"):
        # some queries are answered first, then the mesh is moved (mirrored, scaled, turned): every query afterwards
        # must still be the direct count on the faces the mesh holds now
        for k_ in c["history"]["pre"]:
            getattr(m, k_)
        m.apply_transform(np.array(c["history"]["M"], dtype=np.float64))
        o["faces_now"] = np.array(m.faces).tolist()
        wt, wc = m.is_watertight, m.is_winding_consistent
        if not isinstance(wt, (bool, np.bool_)) or not isinstance(wc, (bool, np.bool_)):
            o["not_boolean"] = [repr(wt), repr(wc)]
    o["edges"] = m.edges.tolist()
    o["edges_face"] = m.edges_face.tolist()
    o["edges_sorted"] = m.edges_sorted.tolist()
    o["edges_unique"] = sorted(map(tuple, m.edges_unique.tolist()))
    eu, inv = m.edges_unique, m.edges_unique_inverse
    o["unique_reconstructs"] = bool(np.array_equal(eu[inv], m.edges_sorted))
    o["edges_unique_len"] = len(eu)
    adj, ade, uns = m.face_adjacency, m.face_adjacency_edges, m.face_adjacency_unshared
    o["adjacency"] = sorted(tuple(a) + tuple(e) for a, e in zip(adj.tolist(), ade.tolist()))
    o["unshared"] = sorted((tuple(a) + tuple(e), tuple(u)) for a, e, u in zip(adj.tolist(), ade.tolist(), uns.tolist()))
    o["watertight"] = bool(m.is_watertight)
    o["winding"] = bool(m.is_winding_consistent)
    o["referenced"] = m.referenced_vertices.tolist()
    o["euler"] = int(m.euler_number)
    o["degree"] = [int(x) for x in m.vertex_degree]
    o["vertex_faces"] = [sorted(int(x) for x in row if x >= 0) for row in m.vertex_faces.tolist()]
    o["neighbors"] = [sorted(int(x) for x in set(r)) for r in m.vertex_neighbors]
    comps = {}
    for eng in ("scipy", "networkx"):
        comps[eng] = sorted(sorted(int(i) for i in cc) for cc in
                            graph.connected_components(adj, nodes=np.arange(nf), min_len=1, engine=eng))
    o["face_components"] = comps
    o["body_count"] = int(m.body_count)
    o["split_count"] = len(graph.split(m, only_watertight=False, repair=False))
    if c["kind"] == "closed":
        o["defect_sum"] = float(m.vertex_defects.sum())
        # hypotheses of C05_defect_sum / C05_gauss_bonnet evaluated on the implementation: the three angles of
        # every face add up to pi, and each vertex defect is 2 pi minus the angles at that vertex's corners
        fa_ = np.asarray(m.face_angles, dtype=np.float64)
        o["face_angle_sum_err"] = float(np.abs(fa_.sum(axis=1) - np.pi).max())
        acc = np.zeros(len(m.vertices))
        np.add.at(acc, np.asarray(m.faces).reshape(-1), fa_.reshape(-1))
        o["defect_regroup_err"] = float(np.abs(np.asarray(m.vertex_defects) - (2 * np.pi - acc)).max())
        o["defect_sum_referenced"] = float(np.asarray(m.vertex_defects)[np.unique(np.asarray(m.faces).reshape(-1))].sum())
    return o


def _comps(nodes, pairs):
    parent = {n: n for n in nodes}

    def find(x):
        while parent[x] != x:
            parent[x] = parent[parent[x]]
            x = parent[x]
        return x
    for a, b in pairs:
        parent[find(a)] = find(b)
    d = collections.defaultdict(list)
    for n in nodes:
        d[find(n)].append(n)
    return sorted(sorted(v) for v in d.values())


def oracle(c, o):
    """direct counting on the face list"""
    if "err" in o:
        return {"kind": c["kind"], "fail": "raised", "err": o["err"]}
    if o.get("not_boolean"):
        return {"kind": c["kind"], "check": "watertight-or-winding-not-a-boolean-after-a-transform",
                "transform": (c.get("history") or {}).get("name")}
    fs = [tuple(f) for f in o.get("faces_now", c["faces"])]
    nv = c["nv"] if c["kind"] == "topo" else len(c["verts"])
    nf = len(fs)

    def bad(what):
        return {"kind": "topo", "query": what}
    ed = [e for (a, b, cc) in fs for e in ((a, b), (b, cc), (cc, a))]
    if o["edges"] != [list(e) for e in ed]:
        return bad("edges")
    if o["edges_face"] != [i // 3 for i in range(3 * nf)]:
        return bad("edges_face")
    se = [tuple(sorted(e)) for e in ed]
    if o["edges_sorted"] != [list(e) for e in se]:
        return bad("edges_sorted")
    cnt = collections.Counter(se)
    if [tuple(e) for e in o["edges_unique"]] != sorted(cnt) or o["edges_unique_len"] != len(cnt) or not o["unique_reconstructs"]:
        return bad("edges_unique")
    if o["watertight"] != all(v == 2 for v in cnt.values()):
        return bad("is_watertight")
    wind = True
    exp_adj = []
    for e, k in cnt.items():
        if k == 2:
            idx = [i for i, x in enumerate(se) if x == e]
            d0, d1 = ed[idx[0]], ed[idx[1]]
            if d0 == d1 and d0[0] != d0[1]:
                wind = False
            f0, f1 = idx[0] // 3, idx[1] // 3
            if f0 != f1:
                exp_adj.append((min(f0, f1), max(f0, f1)) + e)
    if o["winding"] != wind:
        return bad("is_winding_consistent")
    if [tuple(a) for a in o["adjacency"]] != sorted(exp_adj):
        return bad("face_adjacency")
    for key, u in o["unshared"]:
        f0, f1, a, b = key
        u = list(u)
        for fi, got in zip((f0, f1), u):
            rest = [v for v in fs[fi] if v != a and v != b]
            exp = rest[0] if len(rest) == 1 else -1
            if got != exp:
                return bad("face_adjacency_unshared")
    ref = [any(v in f for f in fs) for v in range(nv)]
    if o["referenced"] != ref:
        return bad("referenced_vertices")
    if o["euler"] != sum(ref) - len(cnt) + nf:
        return bad("euler_number")
    flat = [v for f in fs for v in f]
    if o["degree"] != [flat.count(v) for v in range(nv)]:
        return bad("vertex_degree")
    if o["vertex_faces"] != [sorted(i // 3 for i, x in enumerate(flat) if x == v) for v in range(nv)]:
        return bad("vertex_faces")
    en = [sorted({b for a, b in cnt if a == v} | {a for a, b in cnt if b == v}) for v in range(nv)]
    if o["neighbors"] != en:
        return bad("vertex_neighbors")
    ec = _comps(range(nf), [a[:2] for a in exp_adj])
    for eng in ("scipy", "networkx"):
        if o["face_components"][eng] != ec:
            return {"kind": "topo", "query": "connected_components", "engine": eng}
    if o["split_count"] != len(ec):
        return bad("split")
    if o["body_count"] != len(_comps(range(nv), list(cnt))):
        return bad("body_count")
    if c["kind"] == "closed":
        chi = sum(ref) - len(cnt) + nf
        if abs(o["defect_sum"] - 2 * math.pi * chi) > 1e-9:
            return bad("vertex_defects")
        if o["face_angle_sum_err"] > 1e-9:
            return bad("face_angles-do-not-add-up-to-pi")
        if o["defect_regroup_err"] > 1e-9:
            return bad("vertex_defects-is-not-2pi-minus-the-angles-at-the-vertex")
        # C05_defect_sum (any mesh): pi (2 V - F) over the referenced vertices
        if abs(o["defect_sum_referenced"] - math.pi * (2 * sum(ref) - nf)) > 1e-9:
            return bad("vertex_defects")
    return None


def model_request(c, o):
    nv = c["nv"] if c["kind"] == "topo" else len(c["verts"])
    return {"p": "C05", "op": "topology", "nv": nv, "faces": o.get("faces_now", c["faces"])}


def compare(c, o, m):
    if "err" in m:
        return "model error: " + str(m["err"])
    if "err" in o:
        return None
    for k in ("edges", "edges_face", "edges_sorted", "watertight", "winding", "referenced", "euler", "degree",
              "body_count"):
        if m[k] != o[k]:
            return f"{k}: model={str(m[k])[:100]} impl={str(o[k])[:100]}"
    if sorted(map(tuple, m["edges_unique"])) != [tuple(e) for e in o["edges_unique"]]:
        return "edges_unique differ"
    if sorted(map(tuple, m["adjacency"])) != [tuple(a) for a in o["adjacency"]]:
        return f"adjacency: model={m['adjacency'][:6]} impl={o['adjacency'][:6]}"
    mu = sorted((tuple(a), tuple(u)) for a, u in zip(m["adjacency"], m["unshared"]))
    ou = [(tuple(k), tuple(u)) for k, u in o["unshared"]]
    if mu != ou:
        return "face_adjacency_unshared differ"
    if [sorted(x) for x in m["vertex_faces"]] != o["vertex_faces"]:
        return "vertex_faces differ"
    if [sorted(x) for x in m["neighbors"]] != o["neighbors"]:
        return f"neighbors: model={m['neighbors']} impl={o['neighbors']}"
    mc = sorted(sorted(x) for x in m["face_components"])
    for eng in ("scipy", "networkx"):
        if mc != o["face_components"][eng]:
            return f"face components ({eng}): model={mc} impl={o['face_components'][eng]}"
    return None


def nontrivial(c, o):
    fs = o.get("faces_now", c["faces"])
    return len(fs) >= 2 and any(set(fs[0]) & set(f) for f in fs[1:])


def translate(ctx):
    """by ast from geometry.py: the face columns `faces_to_edges` lists as edge end points, and how it tiles the face
    index (`edges_face`)"""
    import ast
    import os
    import common as _c
    tree = ast.parse(open(os.path.join(_c.REPO, "trimesh/geometry.py")).read())
    fn = next((f for f in tree.body if isinstance(f, ast.FunctionDef) and f.name == "faces_to_edges"), None)
    if fn is None:
        raise _c.Broken("translate", "geometry.py: faces_to_edges not found")
    cols, tile = None, None
    for st in ast.walk(fn):
        if isinstance(st, ast.Assign) and ast.unparse(st.targets[0]) == "edges":
            s_ = ast.unparse(st.value)
            if s_.startswith("faces[:, [") and s_.endswith("]].reshape((-1, 2))"):
                cols = [int(x) for x in s_[len("faces[:, ["):-len("]].reshape((-1, 2))")].split(",")]
        if isinstance(st, ast.Assign) and ast.unparse(st.targets[0]) == "face_index":
            tile = ast.unparse(st.value)
    if cols is None:
        raise _c.Broken("translate", "geometry.faces_to_edges: edge column list not found")
    L = ["-- GENERATED by harness/props/C05.py from /repo/trimesh/geometry.py (ast) -- do not edit",
         "namespace TV.Generated.C05",
         "/-- `faces_to_edges`: the face columns listed as edge end points, pair by pair -/",
         "def edgeColumns : List Nat := [" + ", ".join(str(c_) for c_ in cols) + "]",
         "/-- how the face index of every edge is produced -/",
         'def faceIndexExpr : String := "' + (tile or "missing").replace('"', "'") + '"',
         "end TV.Generated.C05"]
    return {"C05Table.lean": "\n".join(L) + "\n"}


def generated_obligations():
    return 1
