"""C06 - row grouping and uniqueness primitives are exact (trimesh/grouping.py)."""
import itertools

import numpy as np

import common

LEVEL = "proof"
N_CASES = {"quick": 2500, "thorough": 120000}
RULE = ("random integer arrays: 1-6 columns, 0-9 rows, magnitudes at / one below / one above 2^15, 2^20, 2^31, "
        "2^62, 2^63-1 and their negatives, every option combination; thorough adds the exhaustive enumeration of "
        "`blocks` over all arrays of length<=7 on 3 letters x 24 option sets. non-trivial = at least two rows/values "
        "and at least one repeated value")
TRUSTED = ["np.argsort / np.unique are modelled by a stable sort by (value, index)",
           "void-dtype comparison of rows is modelled as equality of integer rows",
           "float quantisation (float_to_int) is exercised by the correspondence only"]
ASSUMPTIONS = ["output order of groups is not an observable (groups compared as a set of sets)",
               "an empty group returned for empty input is ignored"]
EXPLANATION = "Lean theorems C06_* over the model of grouping.py + differential run of model vs implementation"

MAGS = [0, 1, 2, 3, 2**15 - 2, 2**15 - 1, 2**15, 2**20 - 2, 2**20 - 1, 2**20, 2**31 - 2, 2**31 - 1, 2**31,
        2**62, 2**63 - 2, 2**63 - 1]


def _val(rng, small):
    if small or rng.random() < 0.5:
        return rng.randint(-3, 3)
    m = rng.choice(MAGS)
    v = m + rng.choice([-1, 0, 0, 1]) if m < 2**63 - 1 else m
    v = min(v, 2**63 - 1)
    return v if rng.random() < 0.5 else max(-v, -(2**63))


def _rows(rng, n=None, cols=None):
    cols = cols or rng.choice([1, 2, 2, 3, 3, 3, 4, 4, 5, 6])
    n = rng.randint(0, 9) if n is None else n
    small = rng.random() < 0.4
    pool = [[_val(rng, small) for _ in range(cols)] for _ in range(max(1, rng.randint(1, 4)))]
    rows = []
    for _ in range(n):
        if rng.random() < 0.6:
            rows.append(list(rng.choice(pool)))
        else:
            r = list(rng.choice(pool))
            r[rng.randrange(cols)] = _val(rng, small)
            rows.append(r)
    return cols, rows


def _vals(rng, lo=-3, hi=3, n=None):
    n = rng.randint(0, 12) if n is None else n
    return [rng.randint(lo, hi) for _ in range(n)]


def blocks_exhaustive():
    for n in range(1, 8):
        for vals in itertools.product([0, 1, 2], repeat=n):
            for min_len in (1, 2, 3):
                for max_len in (None, 2):
                    for wrap in (False, True):
                        for onz in (False, True):
                            yield {"kind": "blocks", "data": list(vals), "min_len": min_len, "max_len": max_len,
                                   "wrap": wrap, "only_nonzero": onz}


def pack_boundary():
    """rows that collide exactly when the range guard of the bit packing is off by one (derived from
    the packing model: value T+d in one field carries into / falls off the next field)"""
    for cols in (2, 3, 4):
        T = 2 ** (64 // cols - 1)
        for d in (-2, -1, 0, 1):
            for j in range(cols):
                for sgn in (1, -1):
                    r1 = [0] * cols
                    r2 = [0] * cols
                    r1[j] = sgn * (T + d)
                    r2[j] = -sgn * (T + d)
                    if j + 1 < cols:
                        r2[j + 1] = 1
                    r3 = [5] * cols
                    r3[j] = T + d
                    r4 = [5] * cols
                    r4[j] = -(T + d)
                    rows = [r1, r2, r3, r4, list(r1)]
                    yield {"kind": "hashable", "cols": cols, "rows": rows}
                    yield {"kind": "unique_rows", "cols": cols, "rows": rows, "keep_order": False}
                    yield {"kind": "group_rows", "cols": cols, "rows": rows, "count": None}


def cases(ctx):
    rng = ctx.rng
    yield from pack_boundary()
    # values exactly 2**63 apart (their int64 difference wraps) must not fall into one group
    for vs in ([0, -2**63, 0, 17], [2**63 - 1, -1, -1], [1, 1 - 2**63], [-2**63, 0, 2**63 - 1, -1], [5, 5 - 2**63, 5]):
        for mn in (None, 1, 2):
            yield {"kind": "group", "vs": vs, "min": mn, "max": None}
            yield {"kind": "group_rows", "cols": 1, "rows": [[v] for v in vs], "count": None}
    # set operations on rows of different integer widths: the wider side must not be wrapped into the narrower
    for da, bits in (("int32", 32), ("uint8", 8), ("int16", 16), ("int64", 64)):
        a = [[1, 2], [3, 4], [5, 6]]
        b = [[3 + 2**bits if bits < 64 else 3, 4], [5, 6 - 2**bits if bits < 64 else 6], [1, 2]]
        yield {"kind": "boolean_rows", "a": a, "b": b, "dtype_a": da, "dtype_b": "int64"}
        yield {"kind": "boolean_rows", "a": b, "b": a, "dtype_a": "int64", "dtype_b": da}
    for off_ in (10 ** 6, 10 ** 12, -10 ** 9):
        yield {"kind": "merge_runs", "vs": [off_, off_, off_ + 1, off_ + 1, off_ + 2, off_, off_ - 1, off_ - 1]}
    # tolerances given as powers of ten: `digits=None` must quantise float rows to exactly that many digits
    for k_ in range(1, 16):
        for m_ in (1, 2, 5):
            yield {"kind": "tol_digits", "k": k_, "m": m_}
    if ctx.tier == "thorough":
        yield from blocks_exhaustive()
    while True:
        k = rng.choice(["group", "hashable", "group_rows", "group_rows", "unique_rows", "unique_rows",
                        "unique_ordered", "unique_bincount", "merge_runs", "group_min", "boolean_rows",
                        "unique_value_in_row", "blocks", "blocks", "unique_rows_float"])
        ctx.count("kind:" + k)
        if k == "group":
            vs = [_val(rng, rng.random() < 0.7) for _ in range(rng.randint(0, 12))]
            yield {"kind": k, "vs": vs, "min": rng.choice([None, None, 1, 2, 3]), "max": rng.choice([None, None, 1, 2, 3])}
        elif k == "hashable":
            cols, rows = _rows(rng)
            yield {"kind": k, "cols": cols, "rows": rows}
        elif k == "group_rows":
            cols, rows = _rows(rng)
            yield {"kind": k, "cols": cols, "rows": rows, "count": rng.choice([None, None, 1, 2, 3])}
        elif k == "unique_rows":
            cols, rows = _rows(rng)
            yield {"kind": k, "cols": cols, "rows": rows, "keep_order": rng.random() < 0.5}
        elif k == "unique_rows_float":
            cols = rng.choice([1, 2, 3])
            digits = rng.choice([None, 0, 1, 3])
            base = [[rng.randint(-40, 40) / 8.0 for _ in range(cols)] for _ in range(rng.randint(1, 4))]
            rows = [list(rng.choice(base)) for _ in range(rng.randint(0, 8))]
            yield {"kind": k, "cols": cols, "rows": rows, "digits": digits}
        elif k == "unique_ordered":
            yield {"kind": k, "vs": _vals(rng, -4, 4)}
        elif k == "unique_bincount":
            yield {"kind": k, "vs": _vals(rng, 0, 6)}
        elif k == "merge_runs":
            vs_ = _vals(rng, -2, 2, rng.randint(1, 12))
            if rng.random() < 0.4:
                # the same runs far from zero: neighbours that differ by one are different at any magnitude
                off_ = rng.choice([10 ** 6, -10 ** 9, 2 ** 40, 2 ** 53 - 5])
                vs_ = [v + off_ for v in vs_]
            yield {"kind": k, "vs": vs_}
        elif k == "group_min":
            n = rng.randint(1, 10)
            yield {"kind": k, "groups": _vals(rng, 0, 3, n), "data": _vals(rng, -9, 9, n)}
        elif k == "boolean_rows":
            cols = rng.choice([1, 2, 3])
            _, a = _rows(rng, rng.randint(1, 6), cols)
            _, b = _rows(rng, rng.randint(1, 6), cols)
            if rng.random() < 0.7 and a:
                b = b + [list(rng.choice(a))]
            c = {"kind": k, "a": a, "b": b}
            if rng.random() < 0.3:
                # narrow first operand, wide second one holding values congruent to the first's modulo 2**bits
                da, bits = rng.choice([("int32", 32), ("int16", 16), ("uint8", 8)])
                lo, hi = (0, 200) if da == "uint8" else (-100, 100)
                a = [[rng.randint(lo, hi) for _ in range(cols)] for _ in range(rng.randint(1, 5))]
                b = [list(r) for r in a[:2]] + [[v + rng.choice([0, 2**bits, -2**bits]) for v in rng.choice(a)]
                                                for _ in range(rng.randint(1, 4))]
                c = {"kind": k, "a": a, "b": b, "dtype_a": da, "dtype_b": "int64"}
            yield c
        elif k == "unique_value_in_row":
            cols = rng.choice([2, 3, 4])
            yield {"kind": k, "rows": [[rng.randint(-1, 2) for _ in range(cols)] for _ in range(rng.randint(1, 6))]}
        elif k == "blocks":
            n = rng.randint(1, 14)
            lo = rng.choice([0, 0, -2])
            yield {"kind": k, "data": _vals(rng, lo, 2, n), "min_len": rng.choice([1, 1, 2, 3]),
                   "max_len": rng.choice([None, None, 2, 4]), "wrap": rng.random() < 0.5,
                   "only_nonzero": rng.random() < 0.4}


def _arr(rows, cols):
    return np.array(rows, dtype=np.int64).reshape(len(rows), cols)


def _groups(gs):
    return sorted(sorted(int(i) for i in np.atleast_1d(g)) for g in gs if len(np.atleast_1d(g)))


def run_case(c):
    from trimesh import grouping as g
    k = c["kind"]
    if k == "group":
        return {"groups": _groups(g.group(np.array(c["vs"], dtype=np.int64), min_len=c["min"], max_len=c["max"]))}
    if k == "hashable":
        h = g.hashable_rows(_arr(c["rows"], c["cols"]))
        if h.dtype.kind in "ui":
            return {"packed": h.dtype == np.uint64 and c["cols"] > 1 and len(c["rows"]) > 0,
                    "hash": [[int(x)] for x in h]}
        return {"packed": False, "hash": [np.frombuffer(x.tobytes(), dtype=np.int64).tolist() for x in h]}
    if k == "group_rows":
        return {"groups": _groups(g.group_rows(_arr(c["rows"], c["cols"]), require_count=c["count"]))}
    if k == "unique_rows":
        u, inv = g.unique_rows(_arr(c["rows"], c["cols"]), keep_order=c["keep_order"])
        return {"unique": [int(x) for x in u], "inverse": [int(x) for x in inv]}
    if k == "unique_rows_float":
        a = np.array(c["rows"], dtype=np.float64).reshape(len(c["rows"]), c["cols"])
        u, inv = g.unique_rows(a, digits=c["digits"])
        return {"unique": [int(x) for x in u], "inverse": [int(x) for x in inv]}
    if k == "unique_ordered":
        v, i, inv = g.unique_ordered(np.array(c["vs"], dtype=np.int64), return_index=True, return_inverse=True)
        return {"values": v.tolist(), "index": i.tolist(), "inverse": inv.tolist()}
    if k == "unique_bincount":
        u, inv, cnt = g.unique_bincount(np.array(c["vs"], dtype=np.int64), return_inverse=True, return_counts=True)
        return {"unique": u.tolist(), "inverse": inv.tolist(), "counts": cnt.tolist()}
    if k == "merge_runs":
        return {"merged": g.merge_runs(np.array(c["vs"], dtype=np.int64)).tolist()}
    if k == "group_min":
        return {"mins": g.group_min(np.array(c["groups"], dtype=np.int64), np.array(c["data"], dtype=np.int64)).tolist()}
    if k == "boolean_rows":
        a, b = np.array(c["a"], dtype=c.get("dtype_a", "int64")), np.array(c["b"], dtype=c.get("dtype_b", "int64"))
        return {"inter": sorted(g.boolean_rows(a, b, np.intersect1d).tolist()),
                "diff": sorted(g.boolean_rows(a, b, np.setdiff1d).tolist())}
    if k == "unique_value_in_row":
        return {"mask": g.unique_value_in_row(np.array(c["rows"], dtype=np.int64)).tolist()}
    if k == "tol_digits":
        from trimesh import util, constants
        dec = float(f"{c['m']}e-{c['k']}")
        out = {"digits": int(util.decimal_to_digits(dec))}
        if c["m"] == 1 and c["k"] <= 12:
            js = [0, 1, 1, 3, 7, 3, 2]
            rows = np.array([[j * 10.0 ** -c["k"], 1.0] for j in js])
            old = constants.tol.merge
            try:
                constants.tol.merge = dec
                u, inv = g.unique_rows(rows)
                out["inverse_classes"] = _classes([int(x) for x in inv])
                out["expected_classes"] = _classes(js)
                out["groups"] = _groups(g.group_rows(rows))
            finally:
                constants.tol.merge = old
        return out
    if k == "blocks":
        bl = g.blocks(np.array(c["data"], dtype=np.int64), min_len=c["min_len"],
                      max_len=np.inf if c["max_len"] is None else c["max_len"], wrap=c["wrap"],
                      only_nonzero=c["only_nonzero"])
        return {"blocks": [[int(i) for i in b] for b in bl]}
    raise ValueError(k)


def _classes(keys):
    d = {}
    for i, k in enumerate(keys):
        d.setdefault(k, []).append(i)
    return sorted(d.values())


def runs_spec(data, min_len, max_len, wrap, only_nonzero):
    n = len(data)
    if n == 0:
        return []
    starts = [i for i in range(n) if i == 0 or data[i] != data[i - 1]]
    runs = [list(range(s, starts[j + 1] if j + 1 < len(starts) else n)) for j, s in enumerate(starts)]
    if wrap and len(runs) > 1 and data[0] == data[-1]:
        runs[0] = runs[-1] + runs[0]
        runs.pop()
    out = []
    for r in runs:
        if len(r) < min_len or (max_len is not None and len(r) > max_len):
            continue
        if only_nonzero and not data[r[0]]:
            continue
        out.append(sorted(r))
    return sorted(out)


def oracle(c, o):
    """the property statement evaluated on the implementation's output"""
    k = c["kind"]
    if "err" in o:
        return {"kind": k, "fail": "raised", "err": o["err"], "cols": c.get("cols")}
    if k == "group":
        exp = [g for g in _classes(c["vs"]) if (c["min"] is None or len(g) >= c["min"]) and
               (c["max"] is None or len(g) <= c["max"])]
        if o["groups"] != exp:
            return {"kind": k, "fail": "groups-differ"}
    elif k == "hashable":
        rows = [tuple(r) for r in c["rows"]]
        hs = [tuple(h) for h in o["hash"]]
        for i in range(len(rows)):
            for j in range(i):
                if (rows[i] == rows[j]) != (hs[i] == hs[j]):
                    return {"kind": k, "fail": "hash-collision" if rows[i] != rows[j] else "hash-split", "cols": c["cols"]}
    elif k == "group_rows":
        exp = _classes([tuple(r) for r in c["rows"]])
        if c["count"] is not None:
            exp = [g for g in exp if len(g) == c["count"]]
        if o["groups"] != exp:
            return {"kind": k, "fail": "groups-differ", "cols": c["cols"], "count": c["count"]}
    elif k in ("unique_rows", "unique_rows_float"):
        if k == "unique_rows":
            rows = [tuple(r) for r in c["rows"]]
        else:
            d = 8 if c["digits"] is None else c["digits"]
            rows = [tuple(int(np.round(x * 10**d - 1e-6)) for x in r) for r in c["rows"]]
        u, inv = o["unique"], o["inverse"]
        if not rows:
            return None
        if len(inv) != len(rows) or any(not (0 <= x < len(u)) for x in inv) or any(not (0 <= x < len(rows)) for x in u):
            return {"kind": k, "fail": "index-range"}
        if [rows[u[x]] for x in inv] != rows:
            return {"kind": k, "fail": "no-reconstruct", "cols": c["cols"]}
        if len({rows[x] for x in u}) != len(u) or len(u) != len(set(rows)):
            return {"kind": k, "fail": "not-unique", "cols": c["cols"]}
        if any(rows.index(rows[x]) != x for x in u):
            return {"kind": k, "fail": "not-first-occurrence", "cols": c["cols"]}
        if c.get("keep_order") and u != sorted(u):
            return {"kind": k, "fail": "order-not-kept"}
    elif k == "unique_ordered":
        vs = c["vs"]
        seen = []
        for v in vs:
            if v not in seen:
                seen.append(v)
        if o["values"] != seen or o["index"] != [vs.index(v) for v in seen] or \
                [o["values"][i] for i in o["inverse"]] != vs:
            return {"kind": k, "fail": "differs"}
    elif k == "unique_bincount":
        vs = c["vs"]
        if o["unique"] != sorted(set(vs)) or [o["unique"][i] for i in o["inverse"]] != vs or \
                o["counts"] != [vs.count(u) for u in o["unique"]]:
            return {"kind": k, "fail": "differs"}
    elif k == "merge_runs":
        vs = c["vs"]
        exp = [v for i, v in enumerate(vs) if i == 0 or v != vs[i - 1]]
        if o["merged"] != exp:
            return {"kind": k, "fail": "differs"}
    elif k == "group_min":
        exp = [min(d for g2, d in zip(c["groups"], c["data"]) if g2 == g) for g in sorted(set(c["groups"]))]
        if o["mins"] != exp:
            return {"kind": k, "fail": "differs"}
    elif k == "boolean_rows":
        a, b = {tuple(r) for r in c["a"]}, {tuple(r) for r in c["b"]}
        if o["inter"] != sorted(list(r) for r in a & b) or o["diff"] != sorted(list(r) for r in a - b):
            return {"kind": k, "fail": "differs"}
    elif k == "unique_value_in_row":
        for r, m in zip(c["rows"], o["mask"]):
            once = [v for v in r if r.count(v) == 1]
            if sum(m) != (1 if once else 0) or any(mm and r.count(v) != 1 for v, mm in zip(r, m)):
                return {"kind": k, "fail": "differs"}
    elif k == "tol_digits":
        if o["digits"] != (c["k"] if c["m"] == 1 else c["k"] - 1):
            return {"kind": k, "fail": "decimal_to_digits", "m": c["m"], "got_minus_k": o["digits"] - c["k"]}
        if "inverse_classes" in o and o["inverse_classes"] != o["expected_classes"]:
            return {"kind": k, "fail": "rows-a-tolerance-apart-merged-or-equal-rows-split"}
    elif k == "blocks":
        exp = runs_spec(c["data"], c["min_len"], c["max_len"], c["wrap"], c["only_nonzero"])
        got = o["blocks"]
        if sorted(sorted(b) for b in got) != exp:
            dup = any(len(set(b)) != len(b) for b in got)
            allsame = len(set(c["data"])) == 1
            if c["wrap"] and dup and allsame:
                cls = "wrap-all-equal-duplicated-indices"
            elif c["wrap"] and c["max_len"] is not None and c["data"][0] == c["data"][-1] and not allsame:
                cls = "wrap-max_len-not-applied-to-cyclic-run"
            else:
                cls = "other"
            return {"kind": k, "fail": "blocks-differ", "wrap": c["wrap"], "class": cls}
    return None


def model_request(c, o):
    k = c["kind"]
    if k in ("unique_rows_float", "tol_digits"):      # float quantisation: judged by the oracle only (no model)
        return None
    r = {"p": "C06", "op": k}
    r.update({x: v for x, v in c.items() if x != "kind"})
    return r


def compare(c, o, m):
    if "err" in m:
        return "model error: " + str(m["err"])
    k = c["kind"]
    if k in ("group", "group_rows"):
        mg = sorted(sorted(g) for g in m["groups"] if g)
        return None if mg == o["groups"] else f"groups model={mg} impl={o['groups']}"
    if k == "hashable":
        if not c["rows"]:
            return None
        if m["packed"] != o["packed"]:
            return f"packing route model={m['packed']} impl={o['packed']}"
        return None if m["hash"] == o["hash"] else "hash values differ (bit-level)"
    if k == "blocks":
        mb = sorted(sorted(b) for b in m["blocks"])
        ob = sorted(sorted(b) for b in o["blocks"])
        return None if mb == ob else f"blocks model={m['blocks']} impl={o['blocks']}"
    if k == "unique_rows" and not c["keep_order"]:
        # sorted-by-hash order of the unique list is not observable: compare as a relabelling
        if sorted(m["unique"]) != sorted(o["unique"]):
            return f"unique model={m['unique']} impl={o['unique']}"
        mi = [m["unique"][x] for x in m["inverse"]]
        oi = [o["unique"][x] for x in o["inverse"]]
        return None if mi == oi else "inverse differs"
    if k == "boolean_rows":
        ok = sorted(m["inter"]) == o["inter"] and sorted(m["diff"]) == o["diff"]
        return None if ok else f"model={m} impl={o}"
    for key in o:
        if key in m and m[key] != o[key]:
            return f"{key}: model={m[key]} impl={o[key]}"
    return None


def nontrivial(c, o):
    data = c.get("rows") or c.get("vs") or c.get("data") or c.get("a") or []
    keys = [tuple(x) if isinstance(x, list) else x for x in data]
    return len(keys) >= 2 and len(set(keys)) < len(keys)


# ------------------------------------------------------------------ (G) the packing constants of hashable_rows, from the source

def translate(ctx):
    """by ast: the column limit, the `precision` / `threshold` / offset expressions (evaluated for 2, 3, 4 columns),
    the strictness of the two guard comparisons and the shape of the shift in `grouping.hashable_rows`"""
    import ast
    import os
    tree = ast.parse(open(os.path.join(common.REPO, "trimesh/grouping.py")).read())
    fn = next((n for n in tree.body if isinstance(n, ast.FunctionDef) and n.name == "hashable_rows"), None)
    if fn is None:
        raise common.Broken("translate", "grouping.py: hashable_rows not found")
    block = None
    for st in fn.body:
        if isinstance(st, ast.If) and "allow_int" in ast.unparse(st.test) and "shape[1] <=" in ast.unparse(st.test):
            block = st
    if block is None:
        raise common.Broken("translate", "hashable_rows: the integer-packing branch was not found")
    max_cols = None
    for cmp_ in ast.walk(block.test):
        if isinstance(cmp_, ast.Compare) and isinstance(cmp_.ops[0], ast.LtE) and "shape[1]" in ast.unparse(cmp_.left):
            max_cols = int(ast.literal_eval(cmp_.comparators[0]))
    exprs, guard, offset_expr, shift_expr = {}, None, None, None
    for st in block.body:
        if isinstance(st, ast.Assign) and isinstance(st.targets[0], ast.Name) and st.targets[0].id in ("precision", "threshold"):
            exprs[st.targets[0].id] = ast.unparse(st.value)
        if isinstance(st, ast.If):
            guard = st.test
            for inner in ast.walk(st):
                if isinstance(inner, ast.Assign) and ast.unparse(inner.targets[0]) == "bitbang":
                    offset_expr = ast.unparse(inner.value)
                if isinstance(inner, ast.BinOp) and isinstance(inner.op, ast.LShift):
                    shift_expr = ast.unparse(inner)
    if max_cols is None or set(exprs) != {"precision", "threshold"} or guard is None or not offset_expr or not shift_expr:
        raise common.Broken("translate", "hashable_rows: could not recover the packing constants")
    if not (isinstance(guard, ast.BoolOp) and isinstance(guard.op, ast.And) and len(guard.values) == 2):
        raise common.Broken("translate", "hashable_rows: the range guard is no longer `a and b`")
    ops = {ast.Lt: "lt", ast.LtE: "le", ast.Gt: "gt", ast.GtE: "ge"}
    g = []
    for v in guard.values:
        if not (isinstance(v, ast.Compare) and type(v.ops[0]) in ops):
            raise common.Broken("translate", "hashable_rows: unexpected comparison in the range guard")
        g.append((ast.unparse(v.left), ops[type(v.ops[0])], ast.unparse(v.comparators[0])))
    if shift_expr.replace(" ", "") != "column<<offset*precision" or "as_int.T + (threshold + 1)" not in offset_expr:
        raise common.Broken("translate", f"hashable_rows: packing is no longer `(as_int.T + (threshold + 1))` shifted by "
                                         f"`offset * precision` ({offset_expr!r}, {shift_expr!r})")

    class _A:
        def __init__(self, cols):
            self.shape = (7, cols)
    rows = []
    for cols in range(2, max_cols + 1):
        env = {"np": np, "as_int": _A(cols), "int": int}
        env["precision"] = int(eval(exprs["precision"], env))
        env["threshold"] = int(eval(exprs["threshold"], env))
        rows.append((cols, env["precision"], env["threshold"]))
    L = ["-- GENERATED by harness/props/C06.py from /repo/trimesh/grouping.py::hashable_rows (ast) -- do not edit",
         "namespace TV.Generated.C06",
         f"def maxCols : Nat := {max_cols}",
         "/-- (columns, precision, threshold) as the source computes them -/",
         "def packRows : List (Nat × Nat × Int) := [" + ", ".join(f"({a}, {b}, {c})" for a, b, c in rows) + "]",
         "/-- the two comparisons of the range guard: (left, operator, right) -/",
         "def guard : List (String × String × String) := [" + ", ".join(f'("{a}", "{b}", "{c}")' for a, b, c in g) + "]",
         "end TV.Generated.C06"]
    return {"C06Pack.lean": "\n".join(L) + "\n"}


def generated_obligations():
    return 1
