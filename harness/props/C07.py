"""C07 - re-indexing operations never move triangles or misalign attached data."""
import numpy as np

import common

LEVEL = "proof"
N_CASES = {"quick": 1500, "thorough": 60000}
RULE = ("random meshes of 3-10 vertices (with duplicated positions, unreferenced vertices, NaN/inf rows in the "
        "malformed stream) and 1-9 faces (repeated, degenerate), carrying a vertex id attribute, vertex or face "
        "colours and a face id attribute; ops: update_faces (bool / int with repetition), update_vertices, "
        "remove_unreferenced, unmerge, merge_vertices (+merge_norm / digits options), unique_faces, "
        "nondegenerate_faces, remove_infinite_values, submesh (append on/off), concatenate, split+concatenate, "
        "process. non-trivial = the operation changes the vertex or face array")
TRUSTED = ["float quantisation of merge keys (positions are small integers / dyadics so keys are exact)",
           "visual classes' internal caching is covered by the correspondence only"]
ASSUMPTIONS = ["face/vertex attributes that an operation does not carry over at all (submesh, concatenate) are "
               "absent, not misaligned: alignment is judged on the data that is present afterwards",
               "update_vertices is only judged on masks that keep every referenced vertex (a mask dropping a "
               "referenced vertex leaves no surviving triangle to compare: the statement speaks of surviving "
               "triangles); the code's behaviour there (corner re-pointed at vertex 0) is modelled, proved as a "
               "witness, and compared with the model"]
EXPLANATION = "Lean theorems C07_* over the payload-generic model of the re-indexing ops + differential run"

OPS = ["faces_bool", "faces_int", "vertices_bool", "unref", "unmerge", "merge", "unique_faces", "submesh",
       "submesh_append", "concat", "split", "nondegenerate", "infinite", "process", "merge_opts", "face_colors_subset"]


def _mesh_case(rng, small=False):
    nv = rng.randint(3, 7)
    base = [[rng.randint(0, 2), rng.randint(0, 2), rng.randint(0, 2)] for _ in range(nv)]
    for _ in range(rng.randint(0, 3)):
        base.append(list(rng.choice(base)))
    nf = rng.randint(1, 8)
    faces = [[rng.randrange(len(base)) for _ in range(3)] for _ in range(nf)]
    if rng.random() < 0.3 and faces:
        faces.append(list(rng.choice(faces)))
    if rng.random() < 0.3 and faces:
        f = list(rng.choice(faces))
        rng.shuffle(f)
        faces.append(f)
    return {"verts": base, "faces": faces,
            "colors": rng.choice(["face", "vertex", "none", "face", "vertex", "painted_face", "painted_vertex", "texture"])}


def cases(ctx):
    rng = ctx.rng
    while True:
        op = rng.choice(OPS)
        ctx.count("op:" + op)
        c = {"kind": op}
        c.update(_mesh_case(rng))
        nv, nf = len(c["verts"]), len(c["faces"])
        if op == "faces_bool":
            c["mask"] = [rng.random() < 0.6 for _ in range(nf)]
        elif op in ("faces_int", "submesh", "submesh_append", "face_colors_subset"):
            c["idx"] = [rng.randrange(nf) for _ in range(rng.randint(1, 6))]
        elif op == "vertices_bool":
            ref = {v for f in c["faces"] for v in f}
            keep_all = rng.random() < 0.8
            c["mask"] = [(v in ref and (keep_all or rng.random() < 0.8)) or rng.random() < 0.5 for v in range(nv)]
        elif op == "concat":
            c["other"] = _mesh_case(rng)
            c["other"]["colors"] = c["colors"]
            if rng.random() < 0.35:
                # a vertices-only geometry in front of the others
                c["lead"] = {"verts": [[rng.randint(3, 5), rng.randint(0, 2), 0] for _ in range(rng.randint(1, 4))]}
        elif op == "infinite":
            bad = rng.sample(range(nv), rng.randint(0, 2))
            c["bad"] = [[v, rng.randrange(3), rng.choice(["nan", "inf", "-inf"])] for v in bad]
        elif op == "merge_opts":
            c["merge_norm"] = rng.random() < 0.5
            c["digits_vertex"] = rng.choice([None, 0, 2])
            c["normals_cached"] = rng.random() < 0.6
            c["digits_norm"] = rng.choice([None, None, 1, 2])
            c["digits_uv"] = rng.choice([None, None, 4])
        yield c


# ------------------------------------------------------------------ implementation side

def _build(c, which=None):
    import trimesh
    d = c if which is None else c[which]
    V = np.array(d["verts"], dtype=np.float64).reshape(-1, 3)
    F = np.array(d["faces"], dtype=np.int64).reshape(-1, 3)
    m = trimesh.Trimesh(V.copy(), F.copy(), process=False)
    off = 0 if which is None else 1000
    if d["colors"] == "face":
        m.visual.face_colors = np.array([[(i + off) % 251, (2 * i + 7) % 251, (3 * i + off) % 251, 255] for i in range(len(F))],
                                        dtype=np.uint8)
    elif d["colors"] == "vertex":
        m.visual.vertex_colors = np.array([[(i + off) % 251, (5 * i + 3) % 251, (7 * i) % 251, 255] for i in range(len(V))],
                                          dtype=np.uint8)
    elif d["colors"] == "painted_face" and len(F):
        # no stored colours, one in-place statement on the default array, nothing read afterwards
        m.visual.face_colors[::2] = [200, 10, (7 + off) % 251, 255]
    elif d["colors"] == "painted_vertex" and len(V):
        m.visual.vertex_colors[::2] = [10, 200, (9 + off) % 251, 255]
    elif d["colors"] == "texture":
        # a UV per vertex; vertices sharing a position get nearby but different UVs (a texture seam)
        uv = np.array([[(0.26 + 0.02 * i) % 1.0, (0.5 + 0.013 * i + 0.001 * off) % 1.0] for i in range(len(V))])
        m.visual = trimesh.visual.TextureVisuals(uv=uv)
    m.face_attributes["fid"] = np.arange(len(F)) + off
    m.vertex_attributes["vid"] = np.arange(len(V)) + off
    return m


def _snap(m):
    """observable state: triangles by position, ids per corner, face ids, colours, range"""
    F = np.asarray(m.faces).reshape(-1, 3)
    V = np.asarray(m.vertices).reshape(-1, 3)
    o = {"nv": len(V), "nf": len(F)}
    o["in_range"] = bool(len(F) == 0 or (F.max() < len(V) and F.min() >= 0))
    if not o["in_range"]:
        return o
    o["tri"] = np.nan_to_num(V[F], nan=1e9, posinf=2e9, neginf=-2e9).reshape(len(F), 9).tolist()
    vid = m.vertex_attributes.get("vid")
    o["vid_ok"] = vid is not None and len(vid) == len(V)
    o["tri_vid"] = np.asarray(vid)[F].tolist() if o["vid_ok"] else None
    o["vid"] = [int(x) for x in np.asarray(vid)] if o["vid_ok"] else None
    fid = m.face_attributes.get("fid")
    o["fid"] = [int(x) for x in np.asarray(fid)] if fid is not None and len(fid) == len(F) else None
    o["faces"] = F.tolist()
    kind = m.visual.kind
    o["ckind"] = kind
    if kind == "face":
        o["fcol"] = np.asarray(m.visual.face_colors)[:, 0].tolist()
    elif kind == "vertex":
        o["vcol_tri"] = np.asarray(m.visual.vertex_colors)[:, 0][F].tolist() if len(F) else []
    elif kind == "texture" and getattr(m.visual, "uv", None) is not None and len(m.visual.uv) == len(V):
        o["uv_tri"] = np.round(np.asarray(m.visual.uv, dtype=np.float64)[F].reshape(len(F), 6), 12).tolist()
    return o


def run_case(c):
    import trimesh
    op = c["kind"]
    m = _build(c)
    # the snapshot is taken from a twin: reading colours of the operated mesh would promote an in-place paint
    before = _snap(_build(c))
    res = {"before": before}
    if op == "faces_bool":
        m.update_faces(np.array(c["mask"], dtype=bool))
    elif op == "faces_int":
        m.update_faces(np.array(c["idx"], dtype=np.int64))
    elif op == "vertices_bool":
        m.update_vertices(np.array(c["mask"], dtype=bool))
    elif op == "unref":
        m.remove_unreferenced_vertices()
    elif op == "unmerge":
        m.unmerge_vertices()
    elif op == "merge":
        m.merge_vertices()
    elif op == "merge_opts":
        if c["normals_cached"]:
            m.vertex_normals
        kw = {}
        if c.get("digits_norm") is not None:
            kw["digits_norm"] = c["digits_norm"]
        if c.get("digits_uv") is not None:
            kw["digits_uv"] = c["digits_uv"]
        m.merge_vertices(merge_norm=c["merge_norm"], digits_vertex=c["digits_vertex"], **kw)
    elif op == "unique_faces":
        res["mask"] = [bool(x) for x in m.unique_faces()]
        m.update_faces(m.unique_faces())
    elif op == "nondegenerate":
        res["mask"] = [bool(x) for x in m.nondegenerate_faces()]
        m.update_faces(m.nondegenerate_faces())
    elif op == "infinite":
        V = m.vertices.copy()
        for v, k, what in c["bad"]:
            V[v, k] = float(what)
        m.vertices = V
        res["before"] = _snap(m)
        m.remove_infinite_values()
    elif op == "process":
        m.process(validate=False)
    elif op in ("submesh", "submesh_append", "face_colors_subset"):
        s = m.submesh([c["idx"]], append=(op == "submesh_append"), repair=False, only_watertight=False)
        m = s if op == "submesh_append" else s[0]
    elif op == "concat":
        o = _build(c, "other")
        res["other"] = _snap(o)
        if "lead" in c:
            lead = trimesh.Trimesh(vertices=np.array(c["lead"]["verts"], dtype=np.float64), process=False)
            m = trimesh.util.concatenate([lead, m, o])
        else:
            m = trimesh.util.concatenate([m, o])
    elif op == "split":
        parts = m.split(only_watertight=False, repair=False)
        res["parts"] = [_snap(p) for p in parts]
        res["comps"] = [sorted(int(i) for i in np.asarray(p.face_attributes["fid"])) for p in parts] \
            if all(p.face_attributes.get("fid") is not None for p in parts) else None
        m = trimesh.util.concatenate(list(parts)) if len(parts) else m
    res["after"] = _snap(m)
    return res


# ------------------------------------------------------------------ oracle

def _key(t):
    return tuple(t)


def oracle(c, o):
    op = c["kind"]
    if "err" in o:
        return {"op": op, "fail": "raised", "err": o["err"]}
    b, a = o["before"], o["after"]

    def bad(why):
        return {"op": op, "fail": why, "colors": c["colors"]}
    if op == "vertices_bool" and not all(c["mask"][v] for f in c["faces"] for v in f):
        return None              # no statement for a mask that drops a vertex some face still uses
    if not a["in_range"]:
        return bad("face-index-out-of-range")
    bt, at = b["tri"], a["tri"]
    # expected surviving face list (indices into the original faces), when determined by the op
    nf = b["nf"]
    exp = None
    if op == "faces_bool":
        exp = [i for i, k in enumerate(c["mask"]) if k]
    elif op in ("faces_int", "submesh", "submesh_append", "face_colors_subset"):
        exp = list(c["idx"])
    elif op in ("unref", "unmerge", "merge", "merge_opts"):
        exp = list(range(nf))
    elif op == "vertices_bool":
        ref = {v for f in c["faces"] for v in f}
        if all(c["mask"][v] for v in ref):
            exp = list(range(nf))
        else:
            return None          # no surviving-triangle statement for a mask dropping referenced vertices
    elif op == "unique_faces":
        keys = [tuple(sorted(f)) for f in c["faces"]]
        expmask = [keys.index(k) == i for i, k in enumerate(keys)]
        if o["mask"] != expmask:
            return bad("mask-differs")
        exp = [i for i, k in enumerate(expmask) if k]
    elif op == "nondegenerate":
        V = np.array(c["verts"], dtype=float)
        expmask = [bool(np.linalg.norm(np.cross(V[f[1]] - V[f[0]], V[f[2]] - V[f[0]])) > 1e-12) for f in c["faces"]]
        if o["mask"] != expmask:
            return bad("mask-differs")
        exp = [i for i, k in enumerate(expmask) if k]
    elif op == "infinite":
        badv = {v for v, _, _ in c["bad"]}
        exp = [i for i, f in enumerate(c["faces"]) if not (set(f) & badv)]
        # faces touching a removed vertex cannot survive with the same corners: they are judged by range only
        surv = [i for i in range(nf)]
        got = at
        want = [bt[i] for i in exp]
        if [t for t in got if all(abs(x) < 1e8 for x in t)] != want and len(got) == len(want):
            return bad("triangles-moved")
        return None
    if exp is not None:
        if at != [bt[i] for i in exp]:
            return bad("triangles-moved")
        if op not in ("unmerge",) and a.get("tri_vid") is not None and b.get("tri_vid") is not None:
            if op in ("merge", "merge_opts", "process"):
                pass      # merged vertices share position, ids of the representative: checked by position only
            elif a["tri_vid"] != [b["tri_vid"][i] for i in exp]:
                return bad("vertex-attribute-misaligned")
        if op == "unmerge" and a.get("tri_vid") is not None and a["tri_vid"] != b["tri_vid"]:
            return bad("vertex-attribute-misaligned")
        if b.get("fid") is not None and a.get("fid") is not None:   # absent (not carried over) is not misaligned
            if a.get("fid") != [b["fid"][i] for i in exp]:
                return bad("face-attribute-misaligned")
        if b["ckind"] == "face":
            if a["ckind"] != "face" or a.get("fcol") != [b["fcol"][i] for i in exp]:
                return bad("face-colour-misaligned")
        if b.get("uv_tri") is not None and op in ("merge", "merge_opts", "unref", "unmerge", "faces_bool", "faces_int", "vertices_bool"):
            # every corner keeps its texture coordinate (vertices on a seam differ in uv and must not be merged)
            if a.get("uv_tri") != [b["uv_tri"][i] for i in exp]:
                return bad("texture-coordinate-misaligned")
        if b["ckind"] == "vertex" and a["ckind"] == "vertex" and op not in ("merge", "merge_opts"):
            if a["vcol_tri"] != [b["vcol_tri"][i] for i in exp]:
                return bad("vertex-colour-misaligned")
    if op == "concat":
        ot = o["other"]
        if at != bt + ot["tri"]:
            return bad("triangles-moved")
        if a.get("fid") is not None and a.get("fid") != b["fid"] + ot["fid"]:
            return bad("face-attribute-misaligned")
        if b["ckind"] == "face" and a.get("fcol") != b["fcol"] + ot["fcol"]:
            return bad("face-colour-misaligned")
        if a.get("tri_vid") is not None and a.get("tri_vid") != b["tri_vid"] + ot["tri_vid"]:
            return bad("vertex-attribute-misaligned")
    if op == "split":
        if sorted(map(_key, at)) != sorted(map(_key, bt)):
            return bad("triangle-multiset-changed")
        for p in o["parts"]:
            if not p["in_range"]:
                return bad("face-index-out-of-range")
        if a.get("fid") is not None and b.get("fid") is not None:
            pairs_a = sorted((tuple(t), f) for t, f in zip(at, a["fid"]))
            pairs_b = sorted((tuple(t), f) for t, f in zip(bt, b["fid"]))
            if pairs_a != pairs_b:
                return bad("face-attribute-misaligned")
    if op == "process":
        # merge + remove nan/inf: every surviving triangle is an original triangle, order kept
        it = iter(bt)
        for t in at:
            for s in it:
                if s == t:
                    break
            else:
                return bad("triangles-moved")
    return None


# ------------------------------------------------------------------ model side

def _payload(c, which=None):
    d = c if which is None else c[which]
    off = 0 if which is None else 1000
    keys = {}
    V = []
    for i, p in enumerate(d["verts"]):
        key = tuple(p)
        if d["colors"] == "texture":
            # vertices are merged only when position AND texture coordinate agree (same formula as _build)
            key = key + (round((0.26 + 0.02 * i) % 1.0, 4), round((0.5 + 0.013 * i + 0.001 * off) % 1.0, 4))
        k = keys.setdefault(key, len(keys))
        V.append([i + off, k])
    return {"V": V, "F": d["faces"], "FA": [i + off for i in range(len(d["faces"]))]}


MODEL_OPS = {"faces_bool", "faces_int", "vertices_bool", "unref", "unmerge", "merge", "unique_faces", "submesh",
             "submesh_append", "concat", "split"}


def model_request(c, o):
    op = c["kind"]
    if op not in MODEL_OPS or "err" in o:
        return None
    r = {"p": "C07", "op": "submesh" if op == "submesh_append" else op}
    r.update(_payload(c))
    for k in ("mask", "idx"):
        if k in c:
            r[k] = c[k]
    if op == "concat":
        r["other"] = _payload(c, "other")
        if "lead" in c:
            return None      # the leading faceless mesh changes vertex numbering only: judged by the oracle
    if op == "split":
        if o.get("comps") is None:
            return None
        r["comps"] = o["comps"]       # the implementation's partition (components are C05's subject)
    return r


def compare(c, o, m):
    if "err" in m:
        return "model error: " + str(m["err"])
    op = c["kind"]
    a = o["after"]
    if op == "unique_faces":
        return None if m["mask"] == o["mask"] else f"mask model={m['mask']} impl={o['mask']}"
    if op == "split":
        m = m["joined"]
    if not a["in_range"]:
        return None
    if op == "merge":
        # ids of representatives: the first referenced vertex with the same position
        if m["F"] != a["faces"]:
            return f"faces model={m['F']} impl={a['faces']}"
        if a["vid"] is not None and m["V"] != a["vid"]:
            return f"kept vertices model={m['V']} impl={a['vid']}"
        return None
    if a["fid"] is not None and m["FA"] != a["fid"]:
        return f"face ids model={m['FA']} impl={a['fid']}"
    if a["tri_vid"] is not None:
        if m["tri"] != a["tri_vid"]:
            return f"triangle vertex ids model={m['tri'][:4]} impl={a['tri_vid'][:4]}"
    else:
        # attributes were not carried over: compare corner positions instead of corner ids
        def pos(i):
            return [float(x) for x in (c["other"]["verts"][i - 1000] if i >= 1000 else c["verts"][i])]
        mt = [pos(t[0]) + pos(t[1]) + pos(t[2]) for t in m["tri"]]
        if mt != a["tri"]:
            return f"triangle positions model={mt[:2]} impl={a['tri'][:2]}"
    if op in ("faces_bool", "faces_int", "vertices_bool", "unref", "unmerge", "concat") and m["F"] != a["faces"]:
        return f"faces model={m['F'][:4]} impl={a['faces'][:4]}"
    if a["vid"] is not None and op != "split" and m["V"] != a["vid"]:
        return f"vertex order model={m['V']} impl={a['vid']}"
    return None


def nontrivial(c, o):
    if "err" in o:
        return False
    return o["before"].get("faces") != o["after"].get("faces") or o["before"]["nv"] != o["after"]["nv"]


# ------------------------------------------------------------------ (G) what the two masking methods slice

def translate(ctx):
    """by ast from base.py: every array `Trimesh.update_faces` / `update_vertices` indexes with the mask (or hands the
    mask to), and the re-indexing of faces through `inverse`"""
    import ast
    import os
    tree = ast.parse(open(os.path.join(common.REPO, "trimesh/base.py")).read())
    cls = next(n for n in tree.body if isinstance(n, ast.ClassDef) and n.name == "Trimesh")
    out = {}
    for name in ("update_faces", "update_vertices"):
        fn = next((f for f in cls.body if isinstance(f, ast.FunctionDef) and f.name == name), None)
        if fn is None:
            raise common.Broken("translate", f"base.py: Trimesh.{name} not found")
        sliced = []
        for st in ast.walk(fn):
            if isinstance(st, ast.Assign):
                tgt, val = ast.unparse(st.targets[0]), ast.unparse(st.value)
                if val.endswith("[mask]"):
                    sliced.append(tgt.replace("self.", "").split("[")[0])
                if "inverse[" in val and tgt == "self.faces":
                    sliced.append("faces<-inverse")
            if isinstance(st, ast.Expr) and isinstance(st.value, ast.Call):
                c_ = ast.unparse(st.value)
                if c_ in ("self.visual.update_faces(mask)", "self.visual.update_vertices(mask)"):
                    sliced.append("visual")
        out[name] = sorted(set(sliced))
    L = ["-- GENERATED by harness/props/C07.py from /repo/trimesh/base.py (ast) -- do not edit",
         "namespace TV.Generated.C07",
         "/-- what `update_faces(mask)` indexes with the mask -/",
         "def updateFacesSlices : List String := [" + ", ".join(f'"{k}"' for k in out["update_faces"]) + "]",
         "/-- what `update_vertices(mask)` indexes with the mask, and the re-indexing of the faces -/",
         "def updateVerticesSlices : List String := [" + ", ".join(f'"{k}"' for k in out["update_vertices"]) + "]",
         "end TV.Generated.C07"]
    return {"C07Table.lean": "\n".join(L) + "\n"}


def generated_obligations():
    return 1
