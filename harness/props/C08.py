"""C08 - export then load round-trips geometry in every supported format (exchange/*.py, util.py)."""
import base64
import io
import json

import numpy as np

import os
import common

LEVEL = "proof"
N_CASES = {"quick": 330, "thorough": 6000}
RULE = ("geometries: single face, tetrahedron, box with extreme / negative / non-float32 coordinates, icosphere, "
        "unmerged soup, non-manifold soup, face colours, vertex colours, index values above 65535, empty mesh; "
        "scenes: instanced, nested with non-commuting transforms, empty geometry first, several coloured "
        "geometries; point clouds with / without colours; 2D / 3D paths x exporters STL binary / ascii, PLY binary / "
        "ascii (+vertex normals), OFF (digits), OBJ (digits, colours, normals), GLB (normals), glTF, 3MF, DAE, dict, "
        "dict64, XYZ, DXF, SVG, path dict -> loaded back with process=False and compared element by element in "
        "order (bit-exact float32 for STL / PLY / GLB / glTF, exact float64 for dict forms, the printed digits "
        "for text), colours where written, instance placement for scene formats, geometry hash unchanged by "
        "export. Model-side cases: the Lean encoder must reproduce export_stl / export_glb framing byte for "
        "byte, the Lean decoder must return what the loader returns, bufferViews, array_to_string rows and "
        "base64 payloads likewise. non-trivial = a non-empty geometry came back")
TRUSTED = ["json, zip/xml (lxml), collada, python float formatting / parsing and base64 are exercised, not modelled "
           "(base64 is modelled and compared with the stdlib)",
           "what a format 'carries' is read off the exporter: ascii PLY and OFF do not write face colours"]
ASSUMPTIONS = ["text formats are compared at the number of digits they print; float32 formats bit-exactly after "
               "rounding the input to float32"]
EXPLANATION = "Lean theorems C08_* (STL, GLB framing, bufferViews, packed records, text rows, base64) + differential run"

STATS = {}


def _st(k, n=1):
    STATS[k] = STATS.get(k, 0) + n


# --------------------------------------------------------------------------- geometry
def mesh(name):
    import trimesh
    g = np.random.default_rng(3)
    if name == "single":
        return trimesh.Trimesh([[0, 0, 0], [1, 0, 0], [0, 1, 0]], [[0, 1, 2]], process=False)
    if name == "tet":
        return trimesh.Trimesh([[0, 0, 0], [1, 0, 0], [0, 1, 0], [0, 0, 1]],
                               [[0, 2, 1], [0, 1, 3], [1, 2, 3], [0, 3, 2]], process=False)
    if name == "extreme":
        b = trimesh.creation.box()
        return trimesh.Trimesh(b.vertices * [1e3, -2.5, 1e-3] + [-7, 1e4, 3], b.faces, process=False)
    if name == "thirds":
        b = trimesh.creation.box()
        return trimesh.Trimesh(b.vertices / 3.0 + [0.1, -0.7, 1e-5], b.faces, process=False)
    if name == "ico":
        return trimesh.creation.icosphere(subdivisions=1)
    if name == "unmerged":
        u = trimesh.creation.icosphere(subdivisions=1)
        u.unmerge_vertices()
        return u
    if name == "facecolor":
        m = trimesh.creation.box()
        c = g.integers(0, 255, (12, 4)).astype(np.uint8)
        c[:, 3] = 255
        m.visual.face_colors = c
        return m
    if name == "vertexcolor":
        m = trimesh.creation.box()
        m.visual.vertex_colors = np.c_[g.integers(0, 255, (8, 3)), np.full(8, 255)].astype(np.uint8)
        return m
    if name == "soup":
        return trimesh.Trimesh(g.integers(-5, 5, (7, 3)).astype(float), g.integers(0, 7, (9, 3)), process=False)
    if name == "bigindex":
        v = g.normal(size=(66000, 3))
        f = np.array([[0, 1, 2], [65534, 65535, 65536], [65999, 3, 65537], [70, 65998, 65997]])
        return trimesh.Trimesh(v, f, process=False)
    if name == "empty":
        return trimesh.Trimesh()
    raise KeyError(name)


MESHES = ["single", "tet", "extreme", "thirds", "ico", "unmerged", "facecolor", "vertexcolor", "soup", "bigindex"]


def scene(name):
    import trimesh
    from trimesh import transformations as tf
    R = tf.rotation_matrix(0.7, [0, 0, 1])
    R2 = tf.rotation_matrix(-1.1, [1, 0, 0])
    T = tf.translation_matrix([1, 2, 3])
    s = trimesh.Scene()
    if name == "instanced":
        b = mesh("thirds")
        s.add_geometry(b, node_name="a", geom_name="box", transform=T)
        s.add_geometry(b, node_name="b", geom_name="box", transform=R @ T)
        s.add_geometry(mesh("tet"), node_name="c", geom_name="tet", transform=T @ R2)
    elif name == "nested":
        s.graph.update(frame_to="grp", frame_from="world", matrix=R)
        s.graph.update(frame_to="sub", frame_from="grp", matrix=T)
        s.add_geometry(mesh("tet"), node_name="leaf", geom_name="tet", parent_node_name="sub", transform=R2)
        s.add_geometry(mesh("single"), node_name="leaf2", geom_name="tri", parent_node_name="grp", transform=T @ R2)
    elif name == "empty_first":
        s.add_geometry(trimesh.Trimesh(), node_name="e", geom_name="aempty")
        s.add_geometry(mesh("tet"), node_name="t", geom_name="btet", transform=T)
        s.add_geometry(mesh("thirds"), node_name="x", geom_name="cbox", transform=R)
    elif name == "multi":
        s.add_geometry(mesh("facecolor"), node_name="f", geom_name="fc", transform=T)
        s.add_geometry(mesh("vertexcolor"), node_name="v", geom_name="vc", transform=R)
        s.add_geometry(mesh("ico"), node_name="i", geom_name="ico")
    else:
        raise KeyError(name)
    return s


SCENES = ["instanced", "nested", "empty_first", "multi"]


def cloud(name):
    import trimesh
    g = np.random.default_rng(5)
    P = g.normal(size=(20, 3)) * [1, 100, 0.01]
    if name == "pc":
        return trimesh.PointCloud(P)
    return trimesh.PointCloud(P, colors=np.c_[g.integers(0, 255, (20, 3)), np.full(20, 255)].astype(np.uint8))


def path(name):
    import trimesh
    if name == "square":
        return trimesh.load_path(np.array([[0, 0], [2, 0], [2, 1.5], [0, 1.5], [0, 0]], float))
    if name == "two_loops":
        from trimesh.path.entities import Line
        v = np.array([[0, 0], [4, 0], [4, 4], [0, 4], [1, 1], [2, 1], [2, 2], [1, 2]], float)
        return trimesh.path.Path2D(entities=[Line([0, 1, 2, 3, 0]), Line([4, 5, 6, 7, 4])], vertices=v, process=False)
    if name == "arcs":
        # a closed outline made of a line and a major (270 degree) arc, plus a minor arc loop: the sweep direction
        # and the large-arc flag of the writers both matter
        from trimesh.path.entities import Line, Arc
        import math
        r = 2.0
        a = [math.radians(x) for x in (45, 180, 315)]
        v = [[r * math.cos(t), r * math.sin(t)] for t in a]                  # start, mid, end of the major arc
        v += [[6.0, 0.0], [7.0, 1.0], [8.0, 0.0]]                             # a half circle ...
        return trimesh.path.Path2D(entities=[Arc([0, 1, 2]), Line([2, 0]), Arc([3, 4, 5]), Line([5, 3])],
                                   vertices=np.array(v, float), process=False)
    if name == "poly3d":
        return trimesh.load_path(np.array([[0, 0, 0], [1, 0, .5], [1, 2, 1], [0, 0, 0]], float))
    raise KeyError(name)


MESH_FORMATS = [("stl", {}), ("stl_ascii", {}), ("ply", {}), ("ply", {"encoding": "ascii"}),
                ("ply", {"vertex_normal": True}), ("off", {}), ("off", {"digits": 4}), ("obj", {}),
                ("obj", {"digits": 5}), ("obj", {"include_color": False}), ("obj", {"include_normals": True}),
                ("glb", {}), ("glb", {"include_normals": True}), ("gltf", {}), ("3mf", {}), ("dae", {}),
                ("dict", {}), ("dict64", {})]
SCENE_FORMATS = [("glb", {}), ("gltf", {}), ("3mf", {}), ("dict", {})]
F32 = {"stl", "ply", "glb", "gltf"}


def cases(ctx):
    rng = ctx.rng
    for ft, kw in MESH_FORMATS:
        for name in MESHES:
            if name == "bigindex" and ft in ("dae", "3mf", "stl_ascii"):
                continue
            yield {"kind": "mesh", "geom": name, "fmt": ft, "opts": kw}
    for ft, kw in SCENE_FORMATS:
        for name in SCENES:
            yield {"kind": "scene", "geom": name, "fmt": ft, "opts": kw}
    for name in ("pc", "pc_color"):
        for ft in ("xyz", "ply", "glb"):
            yield {"kind": "cloud", "geom": name, "fmt": ft, "opts": {}}
    for name in ("square", "two_loops", "arcs", "poly3d"):
        for ft in ("dxf", "svg", "dict"):
            if name == "poly3d" and ft in ("svg", "dxf"):
                continue
            yield {"kind": "path", "geom": name, "fmt": ft, "opts": {}}
    for name in ("empty",):
        for ft in ("stl", "ply", "off", "obj", "glb", "dict"):
            yield {"kind": "mesh", "geom": name, "fmt": ft, "opts": {}}
    # attached per-vertex / per-face data of every numeric type the PLY writer has a name for
    for code in ("i1", "u1", "i2", "u2", "i4", "i8", "u4", "u8", "f4", "f8"):
        for enc in ("binary", "ascii"):
            yield {"kind": "ply_attr", "code": code, "encoding": enc, "fmt": "ply"}
    # model-side byte comparisons
    for name in ("single", "tet", "extreme", "thirds", "ico", "soup"):
        yield {"kind": "stl_bytes", "geom": name}
        yield {"kind": "glb_frame", "geom": name}
    for name in SCENES:
        yield {"kind": "glb_frame", "scene": name}
    while True:
        k = rng.choice(["rows", "b64", "stl_random", "mesh_random"])
        ctx.count("kind:" + k)
        if k == "rows":
            nr, nc = rng.randint(1, 5), rng.randint(1, 4)
            yield {"kind": "rows", "values": [[rng.choice([0.0, -1.5, 1e-9, 123456.789, 1 / 3, -2e5]) * rng.choice([1, 1e-3, 7])
                                               for _ in range(nc)] for _ in range(nr)],
                   "digits": rng.choice([0, 3, 8, 10]), "col": rng.choice([" ", ",", ";"]), "row": rng.choice(["\n", "|"]),
                   "ints": rng.random() < 0.3}
        elif k == "b64":
            yield {"kind": "b64", "bytes": [rng.randrange(256) for _ in range(rng.randint(0, 40))]}
        elif k == "stl_random":
            n = rng.randint(0, 6)
            yield {"kind": "stl_random", "hdr": [rng.randrange(256) for _ in range(80)],
                   "recs": [[[rng.randrange(2 ** 32) for _ in range(12)], rng.randrange(65536)] for _ in range(n)],
                   "damage": rng.choice([None, None, "truncate", "extend", "count"])}
        else:
            nv = rng.randint(3, 12)
            yield {"kind": "mesh", "geom": {"v": [[rng.choice([-1, 1]) * rng.random() * 10.0 ** rng.randint(-3, 4) for _ in range(3)]
                                                  for _ in range(nv)],
                                            "f": [[rng.randrange(nv) for _ in range(3)] for _ in range(rng.randint(1, 10))]},
                   "fmt": None, "opts": {}, "pick": rng.randrange(len(MESH_FORMATS))}


# --------------------------------------------------------------------------- implementation side
def _load(data, ft, scene=False):
    import trimesh
    if ft in ("dict", "dict64"):
        return trimesh.load(data, process=False)
    if ft == "gltf":
        from trimesh import resolvers
        res = resolvers.ZipResolver({k: trimesh.util.wrap_as_stream(v) for k, v in data.items()})
        return trimesh.load(trimesh.util.wrap_as_stream(data["model.gltf"]), file_type="gltf", resolver=res, process=False)
    lt = "stl" if ft == "stl_ascii" else ft
    return trimesh.load(trimesh.util.wrap_as_stream(data), file_type=lt, process=False)


def _placed(s):
    """world-placed triangles of every instance of a scene, keyed by geometry name"""
    out = []
    for node in s.graph.nodes_geometry:
        T, gname = s.graph[node]
        g = s.geometry[gname]
        if not hasattr(g, "triangles") or len(g.faces) == 0:
            continue
        tri = np.array(g.triangles)
        tri = (tri.reshape(-1, 3) @ T[:3, :3].T + T[:3, 3]).reshape(-1, 3, 3)
        out.append(tri)
    out.sort(key=lambda t: (len(t), tuple(np.round(t.reshape(-1, 3).mean(axis=0), 4))))
    return out


def _mesh_of(c):
    import trimesh
    if isinstance(c["geom"], dict):
        return trimesh.Trimesh(np.array(c["geom"]["v"], float), np.array(c["geom"]["f"]), process=False)
    return mesh(c["geom"])


def _fmt(c):
    if c.get("fmt") is None:
        return MESH_FORMATS[c["pick"]]
    return c["fmt"], c["opts"]


def run_case(c):
    import trimesh
    k = c["kind"]
    o = {}
    if k == "ply_attr":
        m = trimesh.Trimesh([[0, 0, 0], [1, 0, 0], [0, 1, 0], [0, 0, 1]], [[0, 2, 1], [0, 1, 3], [1, 2, 3], [0, 3, 2]],
                            process=False)
        dt = np.dtype(c["code"])
        hi = np.iinfo(dt).max if dt.kind in "iu" else 3
        va = np.array([1, 2, 3, hi], dtype=dt) if dt.kind in "iu" else np.array([0.5, -1.25, 3.0, 1e3], dtype=dt)
        fa = np.array([hi, 0, 7, 1], dtype=dt) if dt.kind in "iu" else np.array([2.5, 0.0, -7.0, 0.125], dtype=dt)
        m.vertex_attributes["va"] = va
        m.face_attributes["fa"] = fa
        data = m.export(file_type="ply", encoding=c["encoding"], include_attributes=True)
        r = _load(data, "ply")
        if isinstance(r, trimesh.Scene):
            r = r.dump(concatenate=True)
        o["vertices_same"] = bool(np.array_equal(r.vertices, m.vertices))
        o["faces_same"] = bool(np.array_equal(r.faces, m.faces))
        # the loader hands the extra columns back under metadata['_ply_raw'] (or as attributes)
        raw = (r.metadata or {}).get("_ply_raw", {})

        def col(elem, name, attrs):
            if name in attrs:
                return attrs[name]
            try:
                return np.asarray(raw[elem]["data"][name])
            except Exception:
                return None
        got_v, got_f = col("vertex", "va", r.vertex_attributes), col("face", "fa", r.face_attributes)
        o["va"] = None if got_v is None else bool(np.ravel(got_v).tolist() == va.tolist())
        o["fa"] = None if got_f is None else bool(np.ravel(got_f).tolist() == fa.tolist())
        return o
    if k == "mesh":
        m = _mesh_of(c)
        ft, kw = _fmt(c)
        o["fmt"] = ft
        h0, v0, f0 = m.__hash__(), np.array(m.vertices), np.array(m.faces)
        data = m.export(file_type=ft, **kw)
        o["mutated"] = bool(m.__hash__() != h0 or not np.array_equal(v0, m.vertices) or not np.array_equal(f0, m.faces))
        r = _load(data, ft)
        if isinstance(r, trimesh.Scene):
            gs = list(r.geometry.values())
            o["scene_geoms"] = len(gs)
            if len(gs) == 0:
                o["tri"] = []
                o["n"] = 0
                return o
            T = r.graph[r.graph.nodes_geometry[0]][0]
            r = gs[0].copy()
            r.apply_transform(T)
        if not hasattr(r, "faces"):
            o["n"], o["tri"], o["not_a_mesh"] = 0, [], type(r).__name__
            return o
        o["n"] = len(r.faces)
        o["tri"] = np.array(r.triangles).tolist() if len(r.faces) else []
        o["faces"] = np.array(r.faces).tolist()
        o["nv"] = len(r.vertices)
        o["kind_visual"] = r.visual.kind
        if r.visual.kind == "face":
            o["face_colors"] = np.array(r.visual.face_colors).tolist()
        if r.visual.kind == "vertex":
            o["vertex_colors"] = np.array(r.visual.vertex_colors).tolist()
            o["verts"] = np.array(r.vertices).tolist()
    elif k == "scene":
        s = scene(c["geom"])
        ft, kw = c["fmt"], c["opts"]
        hs = {n: g.__hash__() for n, g in s.geometry.items()}
        data = s.export(file_type=ft, **kw)
        o["mutated"] = any(g.__hash__() != hs[n] for n, g in s.geometry.items())
        r = _load(data, ft, scene=True)
        if not isinstance(r, trimesh.Scene):
            r = r.scene()
        o["placed"] = [t.tolist() for t in _placed(r)]
    elif k == "cloud":
        p = cloud(c["geom"])
        data = p.export(file_type=c["fmt"])
        r = _load(data, c["fmt"])
        if isinstance(r, trimesh.Scene):
            r = list(r.geometry.values())[0]
        o["points"] = np.array(r.vertices).tolist()
        o["colors"] = np.array(r.colors).tolist() if getattr(r, "colors", None) is not None and len(r.colors) else None
    elif k == "path":
        p = path(c["geom"])
        ft = c["fmt"]
        data = p.export(file_type=ft)
        if ft == "dict":
            # the documented inverse of Path.to_dict
            from trimesh.path.exchange.misc import dict_to_path
            r = (trimesh.path.Path2D if np.shape(data["vertices"])[1] == 2 else trimesh.path.Path3D)(**dict_to_path(data))
        else:
            r = trimesh.load_path(trimesh.util.wrap_as_stream(data), file_type=ft)
        o["segments"] = _segments(r)
        o["closed"] = bool(r.is_closed)
    elif k == "stl_bytes":
        m = mesh(c["geom"])
        data = m.export(file_type="stl")
        o["bytes"] = list(data)
        r = trimesh.exchange.stl.load_stl_binary(io.BytesIO(data))
        o["loaded_words"] = np.array(r["vertices"], dtype="<f4").view("<u4").reshape(-1, 9).tolist()
        o["loaded_normals"] = np.array(r["face_normals"], dtype="<f4").view("<u4").reshape(-1, 3).tolist()
        o["input_words"] = np.array(m.triangles, dtype="<f4").view("<u4").reshape(-1, 9).tolist()
        o["input_normals"] = np.array(m.face_normals, dtype="<f4").view("<u4").reshape(-1, 3).tolist()
    elif k == "glb_frame":
        g = scene(c["scene"]) if "scene" in c else mesh(c["geom"])
        data = g.export(file_type="glb")
        o["bytes"] = list(data)
        # what the real loader sees: header json + buffers
        import struct
        jl = struct.unpack("<I", data[12:16])[0]
        o["json"] = list(data[20:20 + jl])
        tree = json.loads(data[20:20 + jl])
        o["views"] = [[v["byteOffset"], v["byteLength"]] for v in tree.get("bufferViews", [])]
        o["buffer_len"] = tree["buffers"][0]["byteLength"] if tree.get("buffers") else 0
    elif k == "rows":
        arr = np.array(c["values"], dtype=np.float64)
        if c["ints"]:
            arr = arr.astype(np.int64)
        o["text"] = trimesh.util.array_to_string(arr, col_delim=c["col"], row_delim=c["row"], digits=c["digits"])
        o["tokens"] = [[("{}" if c["ints"] else "{:.%df}" % c["digits"]).format(x) for x in row] for row in arr.tolist()]
    elif k == "b64":
        b = bytes(c["bytes"])
        e = base64.b64encode(b)
        alpha = b"ABCDEFGHIJKLMNOPQRSTUVWXYZabcdefghijklmnopqrstuvwxyz0123456789+/"
        o["sextets"] = [64 if ch == ord("=") else alpha.index(bytes([ch])) for ch in e]
        # the array codec built on it
        arr = np.frombuffer(b, dtype=np.uint8)
        enc = trimesh.util.array_to_encoded(arr, encoding="base64")
        o["array_roundtrip"] = trimesh.util.encoded_to_array(enc).tolist()
    elif k == "stl_random":
        import struct
        body = b"".join(b"".join(struct.pack("<I", w) for w in ws) + struct.pack("<H", a) for ws, a in c["recs"])
        n = len(c["recs"])
        if c["damage"] == "count":
            n += 1
        data = bytes(c["hdr"]) + struct.pack("<I", n) + body
        if c["damage"] == "truncate":
            data = data[:-3] if len(data) > 90 else data[:70]
        if c["damage"] == "extend":
            data += b"\x00" * 7
        o["bytes"] = list(data)
        try:
            r = trimesh.exchange.stl.load_stl_binary(io.BytesIO(data))
            if "vertices" in r:
                o["loaded_words"] = np.array(r["vertices"], dtype="<f4").view("<u4").reshape(-1, 9).tolist()
                o["loaded_normals"] = np.array(r["face_normals"], dtype="<f4").view("<u4").reshape(-1, 3).tolist()
            else:
                o["loaded_words"], o["loaded_normals"] = [], []
            o["outcome"] = "ok"
        except trimesh.exchange.stl.HeaderError:
            o["outcome"] = "HeaderError"
    return o


def _segments(p):
    """all discretised segments of a path as sorted endpoint pairs"""
    out = []
    for d in p.discrete:
        d = np.array(d)
        for a, b in zip(d[:-1], d[1:]):
            s = sorted([tuple(np.round(a, 6).tolist()), tuple(np.round(b, 6).tolist())])
            out.append([list(s[0]), list(s[1])])
    out.sort()
    return out


# --------------------------------------------------------------------------- oracle
def _tol(ft, kw, scale):
    if ft in ("dict", "dict64"):
        return 0.0
    if ft in F32 and kw.get("encoding") != "ascii":
        return None            # bit-exact float32
    if ft in ("off", "obj"):
        d = kw.get("digits", 10 if ft == "off" else 8)
        return 0.51 * 10.0 ** -d
    return 1e-6 * max(scale, 1.0)


def oracle(c, o):
    if "err" in o:
        return {"kind": c["kind"], "fail": "raised", "err": o["err"], "fmt": c.get("fmt"),
                "geom": c["geom"] if isinstance(c.get("geom"), str) else "random"}
    k = c["kind"]

    def bad(what, **kw):
        d = {"kind": k, "check": what, "fmt": c.get("fmt")}
        if isinstance(c.get("geom"), str):
            d["geom"] = c["geom"]
        d.update(kw)
        return d
    if k == "ply_attr":
        if not (o["vertices_same"] and o["faces_same"]):
            return bad("geometry-changed-with-attached-data", code=c["code"], encoding=c["encoding"])
        # attached data the format carries must come back with the same values
        if not (o["va"] and o["fa"]):
            return bad("attached-data-changed-or-lost", code=c["code"], encoding=c["encoding"])
        return None
    if k == "mesh":
        m = _mesh_of(c)
        ft, kw = _fmt(c)
        if o["mutated"]:
            return bad("export-modified-the-geometry", fmt=ft)
        t0 = np.array(m.triangles) if len(m.faces) else np.zeros((0, 3, 3))
        t1 = np.array(o["tri"]).reshape(-1, 3, 3)
        if t1.shape != t0.shape:
            return bad("face-count-changed", fmt=ft, opts=sorted(kw))
        if len(t0) == 0:
            return None
        tol = _tol(ft, kw, float(np.abs(t0).max()))
        if tol is None:
            same = np.array_equal(t1.astype(np.float32), t0.astype(np.float32)) and np.array_equal(t1, t0.astype(np.float32).astype(np.float64))
        else:
            same = bool(np.abs(t1 - t0).max() <= tol)
        if not same:
            a = np.sort(t0.reshape(len(t0), -1), axis=0)
            b = np.sort(t1.reshape(len(t1), -1), axis=0)
            perm = bool(np.abs(a - b).max() <= (tol if tol else 1e-6 * max(1, np.abs(t0).max())))
            return bad("triangles-permuted" if perm else "coordinates-differ", fmt=ft, opts=sorted(kw))
        # colours where the exporter writes them
        name = c["geom"] if isinstance(c["geom"], str) else ""
        # colours are compared where trimesh's exporter writes them: per-face colours in binary PLY and the dict
        # forms (GLB / glTF have no per-face colours, ascii PLY and OFF write none); per-vertex colours in PLY,
        # GLB / glTF, OBJ and the dict forms
        if name == "facecolor" and (ft in ("dict", "dict64") or (ft == "ply" and kw.get("encoding") != "ascii")):
            got = o.get("face_colors")
            if got is None or not np.array_equal(np.array(got), np.array(m.visual.face_colors)):
                return bad("face-colours-lost-or-permuted", fmt=ft, opts=sorted(kw))
        if name == "vertexcolor" and ft in ("ply", "glb", "gltf", "dict", "dict64", "obj") and kw.get("include_color", True):
            got = o.get("vertex_colors")
            if got is None or o["nv"] != len(m.vertices) or not np.array_equal(np.array(got), np.array(m.visual.vertex_colors)):
                return bad("vertex-colours-lost-or-permuted", fmt=ft, opts=sorted(kw))
        return None
    if k == "scene":
        if o["mutated"]:
            return bad("export-modified-the-geometry")
        want = _placed(scene(c["geom"]))
        got = [np.array(t) for t in o["placed"]]
        if len(want) != len(got):
            return bad("instance-count-changed", want=len(want), got=len(got))
        for a, b in zip(want, got):
            if a.shape != b.shape or np.abs(a - b).max() > 1e-5 * max(1.0, np.abs(a).max()):
                return bad("instance-placement-or-triangles-differ")
        return None
    if k == "cloud":
        p = cloud(c["geom"])
        P = np.array(o["points"])
        if P.shape != p.vertices.shape:
            return bad("point-count-changed")
        tol = 0 if c["fmt"] == "dict" else 1e-6 * float(np.abs(p.vertices).max())
        if np.abs(P - p.vertices).max() > tol:
            return bad("points-differ-or-permuted")
        if c["geom"] == "pc_color" and c["fmt"] in ("ply", "glb", "dict", "xyz"):
            if o["colors"] is None or not np.array_equal(np.array(o["colors"])[:, :3], np.array(p.colors)[:, :3]):
                return bad("point-colours-lost-or-permuted")
        return None
    if k == "path":
        want = _segments(path(c["geom"]))
        got = o["segments"]
        if len(want) != len(got) or (len(want) and np.abs(np.array(want) - np.array(got)).max() > 1e-5):
            return bad("segments-differ")
        if not o["closed"]:
            return bad("closed-path-came-back-open")
        return None
    if k == "stl_bytes":
        if o["loaded_words"] != o["input_words"] or o["loaded_normals"] != o["input_normals"]:
            return bad("binary-stl-not-bit-exact")
        return None
    if k == "b64":
        if o["array_roundtrip"] != c["bytes"]:
            return bad("encoded-array-round-trip")
    return None


# --------------------------------------------------------------------------- model side
def model_request(c, o):
    if "err" in o:
        return None
    k = c["kind"]
    if k in ("stl_bytes", "stl_random"):
        return {"p": "C08", "op": "stl_decode", "bytes": o["bytes"]}
    if k == "glb_frame":
        return {"p": "C08", "op": "glb_decode", "bytes": o["bytes"]}
    if k == "rows":
        return {"p": "C08", "op": "rows_format", "col": c["col"], "row": c["row"], "rows": o["tokens"]}
    if k == "b64":
        return {"p": "C08", "op": "b64", "bytes": c["bytes"]}
    return None


def compare(c, o, m):
    if "err" in m:
        return "model error: " + str(m["err"])
    k = c["kind"]
    if k in ("stl_bytes", "stl_random"):
        ok_impl = o.get("outcome", "ok") == "ok"
        if m["ok"] != ok_impl:
            return f"stl: model accepts={m['ok']} ({m.get('error')}), loader outcome={o.get('outcome', 'ok')}"
        if m["ok"]:
            words = [r[0][3:] for r in m["recs"]]
            normals = [r[0][:3] for r in m["recs"]]
            if words != o["loaded_words"] or normals != o["loaded_normals"]:
                return "stl: model decoder and load_stl_binary return different words"
            # and the model encoder reproduces the exporter byte for byte
            rep = common.run_model([{"p": "C08", "op": "stl_encode", "hdr": m["hdr"], "recs": m["recs"]}])[0]
            if rep.get("bytes") != o["bytes"]:
                return "stl: model encoder does not reproduce the exported bytes"
        return None
    if k == "glb_frame":
        if not m["ok"]:
            return "glb: model rejects an exported file: " + str(m.get("error"))
        if m["json"] != o["json"]:
            return "glb: JSON chunk differs"
        if len(m["chunks"]) != 1 or len(m["chunks"][0]) != o["buffer_len"]:
            return "glb: binary chunk differs from buffers[0].byteLength"
        js = bytes(o["json"]).rstrip(b" ")
        rep = common.run_model([{"p": "C08", "op": "glb_encode", "json": list(js), "bin": m["chunks"][0]},
                                {"p": "C08", "op": "views", "lens": [v[1] for v in o["views"]]}])
        if rep[0].get("bytes") != o["bytes"]:
            return "glb: model encoder (padding, header arithmetic) does not reproduce the exported bytes"
        if rep[1]["views"] != o["views"] or rep[1]["total"] != o["buffer_len"]:
            return "glb: bufferViews differ from the model's tiling"
        return None
    if k == "rows":
        if m["text"] != o["text"]:
            return f"array_to_string: model {m['text']!r} impl {o['text']!r}"
        if m["parsed_back"] != o["tokens"]:
            return "rows do not parse back"
        return None
    if k == "b64":
        if m["sextets"] != o["sextets"]:
            return "base64: model and stdlib differ"
        if m["decoded"] != c["bytes"]:
            return "base64: model does not decode its own output"
    return None


def nontrivial(c, o):
    return "err" not in o and (o.get("n", 1) > 0)


# ------------------------------------------------------------------ (G) layout tables regenerated from the source

def _module_literal(path, name):
    """value of a module-level `name = <literal>` assignment (ast, nothing is executed)"""
    import ast
    tree = ast.parse(open(os.path.join(common.REPO, path)).read())
    for node in tree.body:
        if isinstance(node, ast.Assign) and any(isinstance(t, ast.Name) and t.id == name for t in node.targets):
            return node.value
    raise common.Broken("translate", f"{path}: no module-level assignment of {name}")


def _np_dtype_fields(node, path, name):
    """fields of `np.dtype([...])`: (field, type code, element count)"""
    import ast
    if not (isinstance(node, ast.Call) and ast.unparse(node.func) == "np.dtype" and node.args):
        raise common.Broken("translate", f"{path}: {name} is no longer np.dtype([...])")
    out = []
    for el in node.args[0].elts:
        parts = list(el.elts)
        fname = ast.literal_eval(parts[0])
        typ = ast.unparse(parts[1])
        typ = {"np.void": "V"}.get(typ, typ.strip("'\""))
        shape = ast.literal_eval(parts[2]) if len(parts) > 2 else 1
        count = 1
        for d_ in (shape if isinstance(shape, tuple) else (shape,)):
            count *= int(d_)
        out.append((fname, typ, count))
    return out


def translate(ctx):
    import ast
    ply_d = ast.literal_eval(_module_literal("trimesh/exchange/ply.py", "_dtypes"))
    ply_i = ast.literal_eval(_module_literal("trimesh/exchange/ply.py", "_inverse_dtypes"))
    magic = ast.literal_eval(_module_literal("trimesh/exchange/gltf.py", "_magic"))
    gl_d = ast.literal_eval(_module_literal("trimesh/exchange/gltf.py", "_dtypes"))
    gl_s = ast.literal_eval(_module_literal("trimesh/exchange/gltf.py", "_shapes"))
    stl = _np_dtype_fields(_module_literal("trimesh/exchange/stl.py", "_stl_dtype"), "stl.py", "_stl_dtype")
    stlh = _np_dtype_fields(_module_literal("trimesh/exchange/stl.py", "_stl_dtype_header"), "stl.py", "_stl_dtype_header")

    def prod(x):
        r = 1
        for d_ in (x if isinstance(x, tuple) else (x,)):
            r *= int(d_)
        return r

    def pairs(d):
        return "[" + ", ".join(f'("{k}", "{v}")' for k, v in d.items()) + "]"
    L = ["-- GENERATED by harness/props/C08.py from /repo/trimesh/exchange/{stl,ply,gltf}.py (ast, literal tables) -- do not edit",
         "namespace TV.Generated.C08", "",
         "/-- `ply._dtypes`: PLY type name -> numpy type code (the loader's table) -/",
         f"def plyDtypes : List (String × String) := {pairs(ply_d)}",
         "/-- `ply._inverse_dtypes`: numpy type code -> PLY type name (the exporter's table) -/",
         f"def plyInverse : List (String × String) := {pairs(ply_i)}",
         "/-- `gltf._magic` -/",
         f"def gltfMagic : List (String × Nat) := [" + ", ".join(f'("{k}", {v})' for k, v in magic.items()) + "]",
         "/-- `gltf._dtypes`: componentType -> little-endian numpy type code -/",
         f"def gltfDtypes : List (Nat × String) := [" + ", ".join(f'({k}, "{v}")' for k, v in gl_d.items()) + "]",
         "/-- `gltf._shapes`: accessor type -> number of components -/",
         f"def gltfShapes : List (String × Nat) := [" + ", ".join(f'("{k}", {prod(v)})' for k, v in gl_s.items()) + "]",
         "/-- `stl._stl_dtype`: (field, type code, element count) in record order -/",
         f"def stlRecord : List (String × String × Nat) := [" + ", ".join(f'("{a}", "{b}", {c})' for a, b, c in stl) + "]",
         f"def stlHeader : List (String × String × Nat) := [" + ", ".join(f'("{a}", "{b}", {c})' for a, b, c in stlh) + "]",
         "", "end TV.Generated.C08"]
    return {"C08Tables.lean": "\n".join(L) + "\n"}


def generated_obligations():
    return 5
