"""C10 - scene-level quantities equal explicit placement of every instance (scene/scene.py, transforms.py, ...)."""
import numpy as np

import common

LEVEL = "proof"
N_CASES = {"quick": 350, "thorough": 15000}
RULE = ("random scenes: forests of depth<=4 with <=8 nodes, geometries (box, tetrahedron, point cloud, path) "
        "instanced zero / one / many times, rigid or similarity edge transforms (float64-exact: power-of-two "
        "scaled signed permutations, integer translations); any interleaving of graph edits, geometry edits and "
        "delete / re-add of geometry with reads in between; then bounds, extents, centroid, area, volume, "
        "triangles, dump / to_mesh / to_geometry are compared with the explicit placement of every instance, and "
        "copy, scaled (uniform / per axis), rezero, apply_transform, +, append_scenes of >=3 scenes with shared "
        "node names, subscene, convert_units must preserve the (moved) placements and not modify the source. "
        "non-trivial = at least two instances")
TRUSTED = ["world transforms are the path products proved in C09",
           "float64 on the exact matrix family; convex_hull (qhull) checked for containment only"]
ASSUMPTIONS = ["node and geometry names chosen on concatenation are compared up to renaming"]
EXPLANATION = "Lean theorems C10_* (bounds folds, uniform scaling, base transform, instance volume) + differential run"


def _rigid(rng, scale=False):
    perm = rng.sample(range(3), 3)
    M = np.zeros((4, 4))
    for i, p in enumerate(perm):
        M[i, p] = rng.choice([-1, 1])
    if np.linalg.det(M[:3, :3]) < 0:
        M[0] *= -1
    if scale:
        M[:3, :3] *= rng.choice([.5, 2])
    M[:3, 3] = [rng.randint(-4, 4) for _ in range(3)]
    M[3, 3] = 1
    return M.tolist()


def _scene_spec(rng, similarity):
    nodes = ["world"]
    spec = []
    for i in range(rng.randint(1, 7)):
        parent = rng.choice(nodes)
        M = _rigid(rng, similarity and rng.random() < 0.6)
        if rng.random() < 0.3:
            name = f"frame{i}"
            spec.append(["frame", name, parent, M])
        else:
            name = f"n{i}"
            spec.append(["inst", name, parent, M, rng.choice(["box", "tet", "tet", "pc", "path", "vonly"])])
        nodes.append(name)
    return spec


def cases(ctx):
    rng = ctx.rng
    # >= 3 scenes sharing node names in one append_scenes call
    for _ in range(3):
        yield {"kind": "append_many", "specs": [[["inst", "part", "world", _rigid(rng), "box"]] for _ in range(3)],
               "similarity": False}
    # delete a geometry, read, re-add under the same names / transform, read
    for _ in range(3):
        yield {"kind": "readd", "spec": [["inst", "n0", "world", _rigid(rng), "box"], ["inst", "n1", "world", _rigid(rng), "tet"]],
               "similarity": False}
    # per-axis scaling of scenes whose frames all commute with diag(s): translations, half turns about the axes,
    # a quarter turn about z with sx = sy - nested two and three deep, with an instanced geometry
    def _tr(t, R=None):
        M = np.eye(4)
        if R is not None:
            M[:3, :3] = R
        M[:3, 3] = t
        return M.tolist()
    half_x, half_z = np.diag([1.0, -1.0, -1.0]), np.diag([-1.0, -1.0, 1.0])
    quarter_z = np.array([[0.0, -1.0, 0.0], [1.0, 0.0, 0.0], [0.0, 0.0, 1.0]])
    for sc, Rs in (([1.0, 2.0, 3.0], [None, half_x, half_z]), ([2.0, 2.0, 5.0], [quarter_z, half_z, None]),
                   ([0.5, 4.0, 1.0], [None, None, None])):
        yield {"kind": "transformers", "similarity": False, "seed": 1, "scale": sc, "M": _tr([1, 2, 3]), "other": [],
               "spec": [["frame", "f0", "world", _tr([1, 0, 2], Rs[0])], ["frame", "f1", "f0", _tr([0, 3, 1], Rs[1])],
                        ["inst", "n0", "f1", _tr([2, 1, 0], Rs[2]), "box"], ["inst", "n1", "f0", _tr([-1, 0, 4]), "box"],
                        ["inst", "n2", "world", _tr([0, 0, 1], Rs[1]), "tet"]]}
    while True:
        sim = rng.random() < 0.5
        k = rng.choice(["quantities", "quantities", "transformers", "edits", "append_many", "readd"])
        ctx.count("kind:" + k)
        if k == "append_many":
            names = ["part", "part", "arm", "part"]
            yield {"kind": k, "specs": [[["inst", rng.choice(names), "world", _rigid(rng, sim), rng.choice(["box", "tet"])]]
                                         + _scene_spec(rng, sim)[:2] for _ in range(rng.randint(3, 4))], "similarity": sim}
        elif k == "readd":
            yield {"kind": k, "spec": _scene_spec(rng, sim) + [["inst", "nx", "world", _rigid(rng, sim), "box"]], "similarity": sim}
        else:
            yield {"kind": k, "spec": _scene_spec(rng, sim), "similarity": sim, "seed": rng.randrange(10 ** 6),
                   "scale": rng.choice([2.0, 0.5, [2.0, 2.0, 2.0], [1.0, 2.0, 3.0]]), "M": _rigid(rng, sim),
                   "other": _scene_spec(rng, sim)}


# ------------------------------------------------------------------ implementation side

def _geom(name):
    import trimesh
    if name == "box":
        return trimesh.creation.box(extents=[1, 2, 3])
    if name == "tet":
        return trimesh.Trimesh([[0, 0, 0], [1, 0, 0], [0, 1, 0], [0, 0, 1]], [[0, 2, 1], [0, 1, 3], [1, 2, 3], [0, 3, 2]], process=False)
    if name == "vonly":
        # a mesh with vertices but no faces (concatenation must still offset the faces of what follows)
        return trimesh.Trimesh(vertices=np.array([[0, 0, 0], [1, 0, 0], [0, 1, 0], [5, 5, 5.0]]), faces=np.zeros((0, 3), dtype=np.int64),
                               process=False)
    if name == "pc":
        return trimesh.PointCloud(np.array([[0, 0, 0], [1, 2, 0], [0, 1, 3], [2, 2, 2.0]]))
    from trimesh.path.entities import Line
    return trimesh.path.Path3D(entities=[Line([0, 1, 2, 0])], vertices=np.array([[0, 0, 0], [2, 0, 0], [0, 2, 1.0]]), process=False)


def build(spec):
    import trimesh
    s = trimesh.Scene()
    handed = []          # the caller's matrices: scribbled on afterwards, the scene must hold its own copies
    for row in spec:
        if row[0] == "frame":
            A = np.array(row[3], dtype=np.float64)
            s.graph.update(frame_to=row[1], frame_from=row[2], matrix=A)
        else:
            _, name, parent, M, g = row
            A = np.array(M, dtype=np.float64)
            if g in s.geometry:
                s.graph.update(frame_to=name, frame_from=parent, matrix=A, geometry=g)
            else:
                s.add_geometry(_geom(g), node_name=name, geom_name=g, parent_node_name=parent, transform=A)
        handed.append(A)
    for A in handed:
        A += 5.0
    return s


def _tp(M, P):
    P = np.asarray(P, dtype=float)
    return (np.asarray(M)[:3, :3] @ P.T).T + np.asarray(M)[:3, 3]


def placement(s):
    """explicit placement: (geometry kind, placed points, placed triangles, |det|)"""
    out = []
    # ground truth straight from the node data (not from the cached `nodes_geometry` list)
    for n, attr in list(s.graph.transforms.node_data.items()):
        if "geometry" not in attr or attr["geometry"] not in s.geometry:
            continue
        T, g = s.graph.get(n)
        m = s.geometry[g]
        pts = _tp(T, np.asarray(m.vertices))
        tris = _tp(T, np.asarray(m.triangles).reshape(-1, 3)).reshape(-1, 3, 3) if hasattr(m, "triangles") and hasattr(m, "faces") else np.zeros((0, 3, 3))
        out.append({"g": g, "pts": pts, "tris": tris, "det": abs(np.linalg.det(np.asarray(T)[:3, :3])),
                    "area": float(getattr(m, "area", 0.0)) if hasattr(m, "faces") else 0.0,
                    "volume": float(getattr(m, "volume", 0.0)) if hasattr(m, "faces") else 0.0})
    return out


def _key(t):
    t = np.asarray(t)
    return np.sort(np.round(t.reshape(len(t), -1), 9), axis=0).tolist() if len(t) else []


def world(s):
    p = placement(s)
    pts = np.vstack([x["pts"] for x in p]) if p else np.zeros((0, 3))
    tris = np.vstack([x["tris"] for x in p]) if p else np.zeros((0, 3, 3))
    return p, pts, tris


def check_quantities(s, res, tag=""):
    p, pts, tris = world(s)
    if len(pts) == 0:
        return
    b = s.bounds
    if not np.allclose(b, [pts.min(0), pts.max(0)], atol=1e-9):
        res.append(tag + "bounds")
    if not np.allclose(s.extents, pts.max(0) - pts.min(0), atol=1e-9):
        res.append(tag + "extents")
    if not np.allclose(s.centroid, (pts.min(0) + pts.max(0)) / 2, atol=1e-9) and not np.allclose(s.centroid, b.mean(axis=0)):
        res.append(tag + "centroid")
    if len(tris):
        if _key(s.triangles) != _key(tris):
            res.append(tag + "triangles")
        tm = s.to_mesh()
        if _key(tm.triangles) != _key(tris):
            res.append(tag + "to_mesh")
        d = s.dump(concatenate=False)
        dt = [np.asarray(x.triangles) for x in d if hasattr(x, "faces")]
        if _key(np.vstack(dt) if dt else np.zeros((0, 3, 3))) != _key(tris):
            res.append(tag + "dump")
        import trimesh
        ar = sum(trimesh.triangles.area(x["tris"]).sum() for x in p if len(x["tris"]))
        if abs(s.area - ar) > 1e-9 * max(1, ar):
            res.append(tag + "area")
        vol = sum(x["volume"] * x["det"] for x in p)
        if abs(s.volume - vol) > 1e-9 * max(1, abs(vol)):
            res.append(tag + "volume")
        try:
            hull = s.convex_hull
            if not np.all(hull.bounds[0] <= pts.min(0) + 1e-9) or not np.all(hull.bounds[1] >= pts.max(0) - 1e-9):
                res.append(tag + "convex_hull")
        except Exception:
            pass


def _run_case_inner(c, keep):
    import random
    import trimesh
    res = []
    k = c["kind"]
    if k == "append_many":
        scenes = [build(sp) for sp in c["specs"]]
        W = [world(s)[2] for s in scenes]
        h = [s.__hash__() for s in scenes]
        joined = trimesh.scene.scene.append_scenes(scenes)
        exp = np.vstack([w for w in W if len(w)]) if any(len(w) for w in W) else np.zeros((0, 3, 3))
        if _key(world(joined)[2]) != _key(exp):
            res.append("append_scenes")
        check_quantities(joined, res, "joined:")
        if [s.__hash__() for s in scenes] != h:
            res.append("append_scenes-modified-source")
        out = {"failed": res, "instances": sum(len(s.graph.nodes_geometry) for s in scenes)}
        # node renaming, with the identifiers the code draws made predictable ("#0", "#1", ...)
        try:
            import itertools as _it
            import trimesh.scene.scene as SS
            scenes2 = [build(sp) for sp in c["specs"]]
            ins = [[[str(a), str(b)] for a, b, _ in s.graph.to_edgelist()] for s in scenes2]
            cnt, saved = _it.count(), SS.util.unique_id
            SS.util.unique_id = lambda *a_, **k_: "#%d" % next(cnt)
            try:
                j2 = SS.append_scenes(scenes2)
            finally:
                SS.util.unique_id = saved
            out["append_tie"] = {"inputs": ins, "result": [[str(a), str(b)] for a, b, _ in j2.graph.to_edgelist()],
                                 "base": str(j2.graph.base_frame)}
        except Exception as e_:
            out["append_tie"] = {"err": repr(e_)[:200]}
        return out
    s = build(c["spec"])
    keep.append(s)
    if k == "readd":
        _ = s.bounds, s.area
        names = [n for n in s.graph.nodes_geometry]
        if not names:
            return {"failed": [], "instances": 0}
        node = names[-1]
        T, g = s.graph[node]
        parent = s.graph.transforms.parents.get(node, s.graph.base_frame)
        edgeM = np.array(s.graph.transforms.edge_data[(parent, node)]["matrix"])
        s.delete_geometry(g)
        _ = s.bounds if len(s.graph.nodes_geometry) else None
        check_quantities(s, res, "deleted:")
        s.add_geometry(_geom("box").apply_scale(2.0), geom_name=g, node_name=node, parent_node_name=parent, transform=edgeM)
        check_quantities(s, res, "readded:")
        return {"failed": res, "instances": len(s.graph.nodes_geometry)}
    check_quantities(s, res)
    if k == "quantities":
        return {"failed": res, "instances": len(s.graph.nodes_geometry)}
    p, pts, W = world(s)
    h0 = s.__hash__()
    if k == "transformers" and len(W):
        cpy = s.copy()
        if _key(world(cpy)[2]) != _key(W):
            res.append("copy")
        sc = c["scale"]
        t = s.scaled(sc)
        exp = W * np.asarray(sc)
        uniform = not isinstance(sc, list) or len(set(sc)) == 1
        if not np.allclose(_key(world(t)[2]), _key(exp), atol=1e-7):
            # C10_scaled_per_axis_partial: exact whenever diag(s) commutes with the linear part of every edge;
            # only the other case is the recorded finding
            S_ = np.diag(np.asarray(sc, dtype=float)) if not uniform else None
            commuting = (not uniform) and all(
                np.allclose(S_ @ np.asarray(a_.get("matrix", np.eye(4)))[:3, :3],
                            np.asarray(a_.get("matrix", np.eye(4)))[:3, :3] @ S_, atol=1e-12)
                for a_ in s.graph.transforms.edge_data.values())
            res.append("scaled_uniform" if uniform else
                       ("scaled_per_axis_commuting_frames" if commuting else "scaled_per_axis"))
        else:
            check_quantities(t, res, "scaled:")
        M = np.array(c["M"])
        s2 = s.copy()
        s2.apply_transform(M)
        if _key(world(s2)[2]) != _key(_tp(M, W.reshape(-1, 3)).reshape(-1, 3, 3)):
            res.append("apply_transform")
        o = build(c["other"])
        Wo = world(o)[2]
        a = s + o
        if _key(world(a)[2]) != _key(np.vstack([W, Wo]) if len(Wo) else W):
            res.append("add")
        s3 = s.copy()
        s3.rezero()
        if not np.allclose(_key(world(s3)[2]), _key(W - s.bounds[0]), atol=1e-9) and \
                not np.allclose(_key(world(s3)[2]), _key(W - s.bounds.mean(axis=0)), atol=1e-9):
            res.append("rezero")
        s4 = s.copy()
        s4.units = "meters"
        s5 = s4.convert_units("millimeters")
        if not np.allclose(_key(world(s5)[2]), _key(W * 1000.0), atol=1e-6):
            res.append("convert_units")
        names = [n for n in s.graph.nodes if n != s.graph.base_frame]
        if names:
            root = names[0]
            sub = s.subscene(root)
            inside = s.graph.transforms.successors(root)
            inv = np.linalg.inv(np.array(s.graph.get(root)[0]))
            def rel(rows):
                return np.vstack([_tp(inv, x["tris"].reshape(-1, 3)).reshape(-1, 3, 3) for x in rows]) if rows else np.zeros((0, 3, 3))
            pn = [n for n, a in s.graph.transforms.node_data.items() if "geometry" in a and a["geometry"] in s.geometry]
            rows_all = [x for n, x in zip(pn, p) if n in inside and len(x["tris"])]
            rows_noroot = [x for n, x in zip(pn, p) if n in inside and n != root and len(x["tris"])]
            got = _key(world(sub)[2])
            if got != _key(rel(rows_all)):
                res.append("subscene-root-instance-dropped" if got == _key(rel(rows_noroot)) else "subscene")
        if s.__hash__() != h0:
            res.append("transformer-modified-source")
    elif k == "edits" and len(W):
        r = random.Random(c["seed"])
        for _ in range(r.randint(1, 4)):
            what = r.choice(["graph", "geom_inplace", "geom_transform", "remove_node"])
            names = [n for n in s.graph.nodes if n != s.graph.base_frame]
            if what == "graph" and names:
                n = r.choice(names)
                parent = s.graph.transforms.parents.get(n)
                if parent is not None:
                    s.graph.update(frame_to=n, frame_from=parent, matrix=np.array(_rigid(r, c["similarity"])),
                                   **({"geometry": s.graph[n][1]} if s.graph[n][1] else {}))
            elif what == "geom_inplace" and s.geometry:
                g = s.geometry[r.choice(sorted(s.geometry))]
                g.vertices[0] += [1.0, 0.5, -2.0]
            elif what == "geom_transform" and s.geometry:
                g = s.geometry[r.choice(sorted(s.geometry))]
                g.apply_transform(np.array(_rigid(r)))
            elif what == "remove_node" and len(names) > 1:
                # only leaves: removing an inner node disconnects its children from the base frame, after which
                # scene quantities raise "no path" (a clean refusal, outside the statement)
                leaves = [n for n in names if not any(p == n for p in s.graph.transforms.parents.values())]
                if leaves:
                    s.graph.transforms.remove_node(r.choice(leaves))
            check_quantities(s, res, "after-" + what + ":")
    return {"failed": res, "instances": len(s.graph.nodes_geometry)}


def run_case(c):
    keep = []
    o = _run_case_inner(c, keep)
    if keep:
        # snapshot of the final scene for the Lean model: world transform and geometry points of every instance
        s = keep[0]
        try:
            inst = []
            for n, attr in list(s.graph.transforms.node_data.items()):
                if "geometry" not in attr or attr["geometry"] not in s.geometry:
                    continue
                T, g = s.graph.get(n)
                V = np.asarray(s.geometry[g].vertices, dtype=np.float64)
                if len(V) and V.shape[1] == 3:
                    inst.append({"M": np.asarray(T, dtype=np.float64).tolist(), "pts": V.tolist()})
            if inst and sum(len(i["pts"]) for i in inst) <= 400:
                o["model_scene"] = {"instances": inst, "bounds": np.asarray(s.bounds).tolist()}
        except Exception:
            pass
    return o


def _q(x):
    n, d = float(x).as_integer_ratio()
    return [n, d]


STATS = {}
BIG = 10 ** 6


def _append_ids(tie):
    names = sorted({n for sc in tie["inputs"] for e in sc for n in e} | {tie["base"]})
    return {n: i for i, n in enumerate(names)}


def model_request(c, o):
    if isinstance(o, dict) and "inputs" in o.get("append_tie", {}):
        tie = o["append_tie"]
        ids = _append_ids(tie)
        return {"p": "C10", "op": "append", "scenes": [[ids[n] for e in sc for n in e] for sc in tie["inputs"]],
                "common": [ids[tie["base"]]], "big": BIG}
    ms = o.get("model_scene") if isinstance(o, dict) else None
    if not ms:
        return None
    return {"p": "C10", "instances": [{"L": [_q(x) for row in np.array(i["M"])[:3, :3] for x in row],
                                       "t": [_q(x) for x in np.array(i["M"])[:3, 3]],
                                       "pts": [[_q(x) for x in p] for p in i["pts"]]} for i in ms["instances"]]}


def compare(c, o, m):
    if "err" in m:
        return "model error: " + str(m["err"])
    if "renamed" in m:
        import re
        tie = o["append_tie"]
        ids = _append_ids(tie)

        def ident(name):
            k_ = re.search(r"#(\d+)$", name)
            if k_ and name not in ids:
                return BIG + int(k_.group(1))
            return ids.get(name, -1)
        want = {(r[i], r[i + 1]) for r in m["renamed"] for i in range(0, len(r), 2)}
        got = {(ident(a), ident(b)) for a, b in tie["result"]}
        if want != got:
            return "append_scenes: edges after renaming differ from the model: only in model %r, only in code %r" % (
                sorted(want - got)[:4], sorted(got - want)[:4])
        STATS["append_renamings_compared"] = STATS.get("append_renamings_compared", 0) + 1
        return None
    from fractions import Fraction
    f = lambda q: float(Fraction(q[0], q[1]))  # noqa
    ms = o["model_scene"]
    mb = [[f(x) for x in v] for v in m["bounds"]]
    sc = max(1.0, float(np.abs(ms["bounds"]).max()))
    if not np.allclose(mb, ms["bounds"], atol=1e-9 * sc):
        return f"scene.bounds {ms['bounds']} differ from the model's fold over the placed copies {mb}"
    # per-node corners (min / max of the rotated points + translation) must enclose exactly the placed points
    for pl, (lo, hi) in zip(m["placed"], m["corners"]):
        P = np.array([[f(x) for x in p] for p in pl])
        lo, hi = np.array([f(x) for x in lo]), np.array([f(x) for x in hi])
        if np.abs(P.min(0) - lo).max() > 0 or np.abs(P.max(0) - hi).max() > 1e-12 * sc:
            return "model: node corners differ from the corners of the placed copy"
    return None


def oracle(c, o):
    if "err" in o:
        return {"kind": c["kind"], "fail": "raised", "err": o["err"]}
    sigs = []
    for f in sorted(set(o["failed"])):
        sigs.append({"kind": c["kind"], "fail": "quantity-differs-from-explicit-placement", "quantity": f.split(":")[-1],
                     "stage": f.split(":")[0] if ":" in f else "", "similarity": c["similarity"]})
    return sigs or None


def nontrivial(c, o):
    return "err" not in o and o.get("instances", 0) >= 2
