"""C11 - plane sections lie on plane and surface; slices partition the solid (intersections.py, base.py, ...)."""
import itertools

import numpy as np

import common

LEVEL = "proof"
N_CASES = {"quick": 260, "thorough": 12000}
RULE = ("meshes with integer / dyadic coordinates (box, tetrahedron, icosphere, cylinder, annulus with a hole, two "
        "bodies, non-convex L block, randomly rotated copies) x planes with integer normals (also non-unit: scaled "
        "by 1, 3, 0.25) and origins including planes exactly through vertices and along edges / faces, planes "
        "missing the solid, several planes at once, multiplane sections at several heights, face subsets, every "
        "available triangulation engine for caps. checks: endpoints on the plane and on the surface, section "
        "length vs single-plane section, closed loops in general position, slice on the positive side, areas of "
        "opposite slices add up, capped volumes add up, capped halves of convex solids watertight. non-trivial = "
        "the plane actually cuts the mesh")
TRUSTED = ["polygon assembly and cap triangulation (shapely, earcut / triangle) are outside the model: their outputs "
           "are judged by area / volume / watertightness", "nearest.on_surface is used as the surface membership test"]
ASSUMPTIONS = ["a face lying exactly in the plane belongs to exactly one of the two opposite slices"]
EXPLANATION = "Lean theorems C11_* (27-pattern case table, crossing points, partition identities) + differential run"


def _meshes():
    import trimesh
    box = trimesh.creation.box(extents=[2, 2, 2])
    ico = trimesh.creation.icosphere(subdivisions=1)
    cyl = trimesh.creation.cylinder(radius=1, height=2, sections=12)
    ann = trimesh.creation.annulus(r_min=.5, r_max=1, height=1, sections=8)
    tet = trimesh.Trimesh([[0, 0, 0], [2, 0, 0], [0, 2, 0], [0, 0, 2]], [[0, 2, 1], [0, 1, 3], [1, 2, 3], [0, 3, 2]], process=False)
    two = trimesh.util.concatenate([box.copy(), box.copy().apply_translation([5, 0, 0])])
    from props import C03
    a = C03._box((0, 0, 0), (2, 1, 1))
    b = C03._box((0, 1, 0), (1, 2, 1))
    V, F = C03._merge([a, b])
    ell = trimesh.Trimesh(np.array(V, dtype=float), np.array(F), process=False)     # two touching boxes: not used for caps
    # lopsided solids: most of the surface far from where a plane near the tip cuts
    cone = trimesh.creation.cone(radius=1, height=10, sections=12)
    rod = trimesh.util.concatenate([trimesh.creation.icosphere(subdivisions=1),
                                    trimesh.creation.box(extents=[0.2, 0.2, 9]).apply_translation([0, 0, 5.2])])
    return {"box": box, "ico": ico, "cyl": cyl, "ann": ann, "tet": tet, "two": two, "cone_long": cone, "rod_ball": rod}


_M = None


def meshes():
    global _M
    if _M is None:
        _M = _meshes()
    return _M


ORIGINS = [[0, 0, 0], [1, 1, 1], [1, 0, 0], [0.5, 0.25, 0.125], [0, 0, 1], [2, 0, 0], [0, 0, 5], [0.3, 0.2, 0.1],
           [0, 0, 8.5], [0.05, 0, 9.3]]


def cases(ctx):
    rng = ctx.rng
    normals = [n for n in itertools.product([-1, 0, 1], repeat=3) if n != (0, 0, 0)]
    # every sign pattern of one triangle (the model's 27-row table against the code), on the three axes, with
    # unit and non-unit normals, and with the triangle's winding either way
    for sg in itertools.product([-1, 0, 1], repeat=3):
        for axis in range(3):
            yield {"kind": "pattern", "signs": list(sg), "axis": axis, "scale": [1, 3, 0.25][axis], "flip": bool(axis % 2),
                   "h": [1.0, 0.5, 2.0][(axis + sum(sg)) % 3]}
    # planes that miss the solid, alone and followed by a cutting plane (capping must not scramble the mesh)
    for name in ("ico", "cyl", "box"):
        yield {"kind": "slice", "mesh": name, "normal": [0, 0, 1], "origin": [0, 0, -5], "scale": 1, "cap": True}
        yield {"kind": "multi_slice", "mesh": name, "planes": [[[0, 0, 1], [0, 0, -5]], [[1, 0, 0], [0.1, 0, 0]]], "cap": True}
    # caps of prisms with convex / concave holes, every engine, generic pose (each half against its exact volume)
    for poly in ("plain", "round_hole", "c_hole"):
        for eng in ("earcut", "triangle", "manifold", None):
            for frac in (0.25, 0.6):
                yield {"kind": "cap_engines", "poly": poly, "engine": eng, "frac": frac, "pose": 3 if poly != "plain" else 0}
    for name in ("ico", "cyl"):
        for sc in (1, 3, 0.25):
            yield {"kind": "multiplane", "mesh": name, "normal": [0, 0, 1], "scale": sc, "heights": [-0.5, 0.0, 0.3, 0.7]}
        # the same mesh object sectioned again along the same direction from another origin
        yield {"kind": "multiplane", "mesh": name, "normal": [0, 0, 1], "scale": 1, "heights": [-0.5, 0.0, 0.3],
               "origin": [0, 0, 0.2], "prior_origin": [0, 0, -0.35]}
    # planes near the light end of lopsided solids, looking either way
    for name in ("cone_long", "rod_ball"):
        for z in (8.5, 9.3, 0.5):
            for sgn in (1, -1):
                yield {"kind": "slice", "mesh": name, "normal": [0, 0, sgn], "origin": [0, 0, z], "scale": 1, "cap": name == "cone_long"}
    while True:
        k = rng.choice(["section", "slice", "slice", "multiplane", "multi_slice", "subset", "cap_engines"])
        if k == "cap_engines":
            ctx.count("kind:" + k)
            yield {"kind": k, "poly": rng.choice(["plain", "round_hole", "c_hole"]), "engine": rng.choice(["earcut", "triangle", "manifold", None]),
                   "frac": rng.choice([0.1, 0.25, 0.5, 0.8]), "pose": rng.randrange(50)}
            continue
        name = rng.choice(list(meshes()))
        n = list(rng.choice(normals))
        o = list(rng.choice(ORIGINS))
        ctx.count("kind:" + k)
        if k == "section":
            yield {"kind": k, "mesh": name, "normal": n, "origin": o, "scale": rng.choice([1, 1, 3, 0.25])}
        elif k == "slice":
            yield {"kind": k, "mesh": name, "normal": n, "origin": o, "scale": rng.choice([1, 1, 2]), "cap": rng.random() < 0.6}
        elif k == "multiplane":
            yield {"kind": k, "mesh": name, "normal": n, "scale": rng.choice([1, 3, 0.25]),
                   "heights": sorted(rng.choice([-0.7, -0.3, 0.0, 0.11, 0.35, 0.6, 0.9]) for _ in range(3)),
                   "origin": list(rng.choice(ORIGINS[:8])), "prior_origin": rng.choice([None, list(rng.choice(ORIGINS[:8]))])}
        elif k == "multi_slice":
            yield {"kind": k, "mesh": name, "planes": [[list(rng.choice(normals)), list(rng.choice(ORIGINS))] for _ in range(2)],
                   "cap": rng.random() < 0.6}
        else:
            nf = len(meshes()[name].faces)
            yield {"kind": k, "mesh": name, "normal": n, "origin": o, "faces": sorted(rng.sample(range(nf), max(1, nf // 3)))}


def _general(m, n, o):
    nn = np.array(n, float) / np.linalg.norm(n)
    d = np.dot(m.vertices - o, nn)
    return bool(np.abs(d).min() > 1e-6)


def run_case(c):
    import trimesh
    from trimesh import intersections
    k = c["kind"]
    o = {}
    if k == "pattern":
        ax = c["axis"]
        base = np.array([[0.0, 0.0], [2.0, 0.5], [0.5, 2.0]])
        V = np.zeros((3, 3))
        V[:, [i for i in range(3) if i != ax]] = base
        V[:, ax] = np.array(c["signs"], float) * c["h"] + 0.25
        F = np.array([[0, 2, 1]] if c["flip"] else [[0, 1, 2]])
        n = np.zeros(3)
        n[ax] = c["scale"]
        org = np.zeros(3)
        org[ax] = 0.25
        tm = trimesh.Trimesh(V, F, process=False)
        lines = intersections.mesh_plane(tm, n, org)
        o["nlines"] = len(lines)
        o["seg_len"] = float(np.linalg.norm(lines[:, 0] - lines[:, 1], axis=1).sum()) if len(lines) else 0.0
        v2, f2, _ = intersections.slice_faces_plane(V, F, n, org)
        o["nfaces"] = len(f2)
        o["area"] = float(trimesh.triangles.area(v2[f2]).sum()) if len(f2) else 0.0
        o["area0"] = float(tm.area)
        o["min_side"] = float(np.dot(v2[f2].reshape(-1, 3) - org, n).min()) if len(f2) else 0.0
        v3, f3, _ = intersections.slice_faces_plane(V, F, -n, org)
        o["area_opp"] = float(trimesh.triangles.area(v3[f3]).sum()) if len(f3) else 0.0
        return o
    if k == "cap_engines":
        from shapely.geometry import Polygon
        polys = {"plain": Polygon([(0, 0), (6, 0), (6, 4), (0, 4)]),
                 "round_hole": Polygon([(0, 0), (10, 0), (10, 10), (0, 10)], [[(4, 4), (6, 4), (6, 6), (4, 6)]]),
                 "c_hole": Polygon([(0, 0), (10, 0), (10, 10), (0, 10)],
                                   [[(2, 2), (8, 2), (8, 4), (4, 4), (4, 6), (8, 6), (8, 8), (2, 8)]])}
        poly = polys[c["poly"]]
        H = 3.0
        prism = trimesh.creation.extrude_polygon(poly, H, engine="earcut")
        T = np.eye(4)
        if c["pose"]:
            g = np.random.default_rng(c["pose"])
            T = trimesh.transformations.random_rotation_matrix(rand=g.uniform(size=3))
            T[:3, 3] = g.uniform(-2, 2, 3)
        prism.apply_transform(T)
        nrm = T[:3, :3] @ np.array([0.0, 0.0, 1.0])
        org = T[:3, :3] @ np.array([0.0, 0.0, c["frac"] * H]) + T[:3, 3]
        kw = {} if c["engine"] is None else {"engine": c["engine"]}
        up = prism.slice_plane(org, nrm, cap=True, **kw)
        dn = prism.slice_plane(org, -nrm, cap=True, **kw)
        A, P = float(poly.area), float(poly.length)
        o.update({"A": A, "P": P, "H": H,
                  "up": {"volume": float(up.volume), "area": float(up.area), "watertight": bool(up.is_watertight),
                         "winding": bool(up.is_winding_consistent)},
                  "dn": {"volume": float(dn.volume), "area": float(dn.area), "watertight": bool(dn.is_watertight),
                         "winding": bool(dn.is_winding_consistent)}})
        return o
    m = meshes()[c["mesh"]]
    if k in ("section", "subset"):
        n = np.array(c["normal"], float) * c.get("scale", 1)
        org = np.array(c["origin"], float)
        nn = n / np.linalg.norm(n)
        kw = {"local_faces": np.array(c["faces"])} if k == "subset" else {}
        lines = intersections.mesh_plane(m, n, org, **kw)
        o["nlines"] = len(lines)
        if k == "section" and len(m.faces) <= 400:
            l2, idx = intersections.mesh_plane(m, n, org, return_faces=True)
            o["seg_faces"] = [int(i) for i in idx]
            o["segs"] = np.array(l2).tolist()
            o["plane"] = [n.tolist(), org.tolist()]
        if len(lines):
            pts = lines.reshape(-1, 3)
            o["off_plane"] = float(np.abs(np.dot(pts - org, nn)).max())
            o["off_surface"] = float(m.nearest.on_surface(pts)[1].max())
            o["length"] = float(np.linalg.norm(lines[:, 0] - lines[:, 1], axis=1).sum())
        if k == "section":
            sec = m.section(plane_origin=org, plane_normal=n)
            o["section_none"] = sec is None
            if sec is not None:
                o["section_length"] = float(sec.length)
                o["general"] = _general(m, n, org)
                o["closed"] = bool(sec.is_closed)
            # reference: the same plane with a unit normal
            ref = intersections.mesh_plane(m, nn, org)
            o["ref_length"] = float(np.linalg.norm(ref[:, 0] - ref[:, 1], axis=1).sum()) if len(ref) else 0.0
        else:
            full = intersections.mesh_plane(m, n, org)
            o["subset_of_full"] = len(lines) <= len(full)
    elif k == "multiplane":
        n = np.array(c["normal"], float) * c["scale"]
        nn = n / np.linalg.norm(n)
        org = np.array(c.get("origin") or [0.0, 0.0, 0.0], dtype=float)
        if c.get("prior_origin") is not None:
            # an earlier call on the same mesh object, same direction, other origin: its results are discarded
            m.section_multiplane(plane_origin=np.array(c["prior_origin"], dtype=float), plane_normal=n,
                                 heights=np.array(c["heights"]))
        secs = m.section_multiplane(plane_origin=org, plane_normal=n, heights=np.array(c["heights"]))
        res = []
        for h, s in zip(c["heights"], secs):
            # reference: the single-plane section at the same plane (unit normal), assembled the same way
            single = m.section(plane_origin=org + nn * h, plane_normal=nn)
            sl = 0.0 if single is None else float(single.length)
            if s is None:
                res.append({"h": h, "none": True, "single_length": sl})
                continue
            p3 = s.to_3D()
            pts = np.asarray(p3.vertices)
            res.append({"h": h, "none": False, "length": float(s.length), "single_length": sl,
                        "off_plane": float(np.abs(np.dot(pts - (org + nn * h), nn)).max()),
                        "off_surface": float(m.nearest.on_surface(pts)[1].max())})
        o["sections"] = res
    elif k == "slice":
        n = np.array(c["normal"], float) * c["scale"]
        org = np.array(c["origin"], float)
        nn = n / np.linalg.norm(n)
        pos, neg = m.slice_plane(org, n), m.slice_plane(org, -n)
        o["area_pos"] = 0.0 if pos is None or len(pos.faces) == 0 else float(pos.area)
        o["area_neg"] = 0.0 if neg is None or len(neg.faces) == 0 else float(neg.area)
        o["area"] = float(m.area)
        o["wrong_side"] = bool(pos is not None and len(pos.vertices) and (np.dot(pos.vertices - org, nn) < -1e-8).any())
        d = np.dot(m.vertices - org, nn)
        on = np.abs(d) < 1e-8
        o["onplane_area"] = float(m.area_faces[on[m.faces].all(axis=1)].sum())
        o["general"] = bool(not on.any())
        o["cuts"] = bool((d > 1e-8).any() and (d < -1e-8).any())
        if len(m.faces) <= 400:
            # the raw slicer on the un-normalised plane, for the Lean model of the pieces
            v2, f2, _ = intersections.slice_faces_plane(np.array(m.vertices), np.array(m.faces), n, org)
            o["slice_tris"] = np.array(v2)[np.array(f2)].tolist() if len(f2) else []
            o["plane"] = [n.tolist(), org.tolist()]
        if c["cap"] and m.is_watertight:
            cp, cn = m.slice_plane(org, n, cap=True), m.slice_plane(org, -n, cap=True)
            o["vol_pos"] = 0.0 if cp is None or len(cp.faces) == 0 else float(cp.volume)
            o["vol_neg"] = 0.0 if cn is None or len(cn.faces) == 0 else float(cn.volume)
            o["volume"] = float(m.volume)
            o["cap_watertight"] = [bool(x.is_watertight) for x in (cp, cn) if x is not None and len(x.faces)]
            # a plane missing the solid must return it unchanged (area / triangle set)
            if not o["cuts"] and (d > 1e-8).all():
                o["miss_area"] = float(cp.area)
    elif k == "multi_slice":
        ns = np.array([p[0] for p in c["planes"]], float)
        os_ = np.array([p[1] for p in c["planes"]], float)
        r = m.slice_plane(os_, ns, cap=c["cap"] and m.is_watertight)
        o["nfaces"] = 0 if r is None else len(r.faces)
        if r is not None and len(r.faces):
            nn = ns / np.linalg.norm(ns, axis=1)[:, None]
            o["wrong_side"] = bool(any((np.dot(r.vertices - oo, n1) < -1e-8).any() for n1, oo in zip(nn, os_)))
            # sequential reference
            seq = m
            for n1, oo in zip(ns, os_):
                seq = seq.slice_plane(oo, n1, cap=c["cap"] and m.is_watertight)
                if seq is None or len(seq.faces) == 0:
                    break
            o["seq_area"] = 0.0 if seq is None or len(seq.faces) == 0 else float(seq.area)
            o["area"] = float(r.area)
            if c["cap"] and m.is_watertight:
                o["volume"] = float(r.volume)
                o["seq_volume"] = 0.0 if seq is None or len(seq.faces) == 0 else float(seq.volume)
                o["watertight"] = bool(r.is_watertight)
                o["convex_base"] = c["mesh"] in ("box", "ico", "cyl", "tet")
    return o


def oracle(c, o):
    if "err" in o:
        return {"kind": c["kind"], "fail": "raised", "err": o["err"], "mesh": c.get("mesh")}
    k = c["kind"]
    if k == "cap_engines":
        h_up, h_dn = (1 - c["frac"]) * o["H"], c["frac"] * o["H"]
        for part, h in (("up", h_up), ("dn", h_dn)):
            q = o[part]
            sig = {"kind": k, "poly": c["poly"], "engine": c["engine"] or "default"}
            if c["poly"] == "plain" and not (q["watertight"] and q["winding"]):
                # the statement promises closed halves for convex solids only (earcut leaves T-junctions on
                # caps with holes: same volume and area, not edge-matched)
                return dict(sig, check="capped-half-not-a-closed-solid")
            if abs(q["volume"] - o["A"] * h) > 1e-8 * max(1.0, o["A"] * h):
                return dict(sig, check="capped-half-volume-differs-from-exact")
            if abs(q["area"] - (2 * o["A"] + o["P"] * h)) > 1e-8 * max(1.0, q["area"]):
                return dict(sig, check="capped-half-area-differs-from-exact")
        return None
    if k == "pattern":
        if o["min_side"] < -1e-12:
            return {"kind": k, "check": "slice-reaches-the-negative-side", "signs": c["signs"]}
        if abs(o["area"] + o["area_opp"] - o["area0"]) > 1e-12:
            return {"kind": k, "check": "opposite-slices-do-not-add-up", "signs": c["signs"]}
        return None

    def bad(what, **kw):
        d = {"kind": k, "check": what}
        d.update(kw)
        return d
    if k in ("section", "subset"):
        if o["nlines"]:
            if o["off_plane"] > 1e-8:
                return bad("section-point-off-plane")
            if o["off_surface"] > 1e-8:
                return bad("section-point-off-surface")
        if k == "section":
            if o["nlines"] and abs(o["length"] - o["ref_length"]) > 1e-9 * max(1, o["ref_length"]):
                return bad("section-differs-for-scaled-normal", scale=c["scale"])
            if not o["section_none"] and o.get("general") and meshes()[c["mesh"]].is_watertight and not o["closed"]:
                return bad("section-not-closed-in-general-position")
    elif k == "multiplane":
        for s in o["sections"]:
            if s["none"]:
                if s["single_length"] > 1e-9:
                    return bad("multiplane-section-missing", scale=c["scale"])
                continue
            if s["off_plane"] > 1e-8 or s["off_surface"] > 1e-8:
                return bad("multiplane-point-off-plane-or-surface", scale=c["scale"])
            if abs(s["length"] - s["single_length"]) > 1e-8 * max(1, s["single_length"]):
                return bad("multiplane-differs-from-single-plane", scale=c["scale"])
    elif k == "slice":
        if o["wrong_side"]:
            return bad("slice-has-points-on-the-negative-side")
        if abs(o["area_pos"] + o["area_neg"] - o["area"]) > 1e-9 * max(1, o["area"]) and o["onplane_area"] == 0:
            return bad("areas-of-opposite-slices-do-not-add-up")
        if "volume" in o:
            if abs(o["vol_pos"] + o["vol_neg"] - o["volume"]) > 1e-9 * max(1, o["volume"]):
                return bad("capped-volumes-do-not-add-up", general=o["general"], cuts=o["cuts"])
            if c["mesh"] in ("box", "ico", "tet", "cyl") and o["general"] and not all(o["cap_watertight"]):
                return bad("capped-half-of-convex-solid-not-watertight", cuts=o["cuts"])
            if "miss_area" in o and abs(o["miss_area"] - o["area"]) > 1e-9:
                return bad("missing-plane-changed-the-mesh")
    elif k == "multi_slice":
        if o.get("wrong_side"):
            return bad("slice-has-points-on-the-negative-side")
        if "seq_area" in o and abs(o["area"] - o["seq_area"]) > 1e-8 * max(1, o["seq_area"]):
            return bad("multi-plane-slice-differs-from-sequential-slices", cap=c["cap"])
        if "seq_volume" in o and abs(o["volume"] - o["seq_volume"]) > 1e-8 * max(1, abs(o["seq_volume"])):
            return bad("multi-plane-capped-volume-differs-from-sequential", cap=c["cap"])
    return None


def _q(x):
    n, d = float(x).as_integer_ratio()
    return [n, d]


STATS = {}


def model_request(c, o):
    if c["kind"] == "pattern":
        return {"p": "C11", "op": "pattern", "signs": c["signs"]}
    if c["kind"] == "slice" and "slice_tris" in o:
        import trimesh
        T = np.array(meshes()[c["mesh"]].triangles, dtype=np.float64)
        return {"p": "C11", "op": "slice", "normal": [_q(x) for x in o["plane"][0]], "origin": [_q(x) for x in o["plane"][1]],
                "tol": _q(trimesh.tol.merge), "tris": [[[_q(x) for x in p] for p in t] for t in T]}
    if c["kind"] == "section" and "segs" in o:
        import trimesh
        T = np.array(meshes()[c["mesh"]].triangles, dtype=np.float64)
        mm = meshes()[c["mesh"]]
        return {"p": "C11", "op": "section", "normal": [_q(x) for x in o["plane"][0]], "origin": [_q(x) for x in o["plane"][1]],
                "tol": _q(trimesh.tol.merge), "tris": [[[_q(x) for x in p] for p in t] for t in T],
                "verts": [[_q(x) for x in v] for v in np.array(mm.vertices, dtype=np.float64)],
                "faces": np.array(mm.faces).tolist()}
    return None


def compare(c, o, m):
    if "err" in m:
        return "model error: " + str(m["err"])
    if "err" in o:
        return None
    if c["kind"] == "slice":
        from fractions import Fraction
        f = lambda q: float(Fraction(q[0], q[1]))  # noqa

        if any(p == "in_plane" for p in m["pieces"]):
            return None        # faces lying in the plane are decided by their normal in the code
        W = np.array([[[f(x) for x in p] for p in t] for ps in m["pieces"] for t in ps]).reshape(-1, 3, 3)
        G = np.array(o["slice_tris"]).reshape(-1, 3, 3)
        if len(W) != len(G):
            return f"slice pieces differ from the model: {len(G)} vs {len(W)} triangles"
        if len(W):
            # tolerant matching: same corners up to a cyclic rotation (orientation kept), each triangle used once
            from scipy.spatial import cKDTree
            tol = 1e-9 * max(1.0, float(np.abs(W).max()))
            tree = cKDTree(G.mean(axis=1))
            used = set()
            for w in W:
                hit = None
                for gi in tree.query_ball_point(w.mean(axis=0), 10 * tol + 1e-12):
                    if gi in used:
                        continue
                    if min(np.abs(w - np.roll(G[gi], r, axis=0)).max() for r in range(3)) <= tol:
                        hit = gi
                        break
                if hit is None:
                    return f"slice pieces differ from the model: the model's piece {w.tolist()} is not among the code's"
                used.add(hit)
        return None
    if c["kind"] == "section":
        from fractions import Fraction
        f = lambda q: float(Fraction(q[0], q[1]))  # noqa
        impl = {}
        for i, sg in zip(o["seg_faces"], o["segs"]):
            impl.setdefault(i, []).append(sg)
        for i, ms in enumerate(m["segments"]):
            got = impl.get(i, [])
            if ms is None:
                if got:
                    return f"face {i}: the code emits a segment, the model's case table none"
                continue
            if len(got) != 1:
                return f"face {i}: the model emits one segment, the code {len(got)}"
            a = np.array([[f(x) for x in p] for p in ms])
            b = np.array(got[0])
            # unordered pair of endpoints: the better of the two matchings
            err = min(np.abs(a - b).max(), np.abs(a - b[::-1]).max())
            if err > 1e-9 * max(1.0, np.abs(a).max()):
                return f"face {i}: segment endpoints differ: model {a.tolist()} code {b.tolist()}"
        # global structure: in general position the segment of a face joins the two crossed edges the model names,
        # and on a closed surface the model's count (two ends per crossed edge) is the theorem's conclusion
        if m.get("general"):
            V = np.array(meshes()[c["mesh"]].vertices, dtype=np.float64)
            for i, es in enumerate(m["seg_edges"]):
                got = impl.get(i, [])
                if len(es) not in (0, 2) or (len(es) == 2) != (len(got) == 1):
                    return f"face {i}: crossed edges {es} but {len(got)} segment(s) from the code"
                if len(es) == 2:
                    on = []
                    for p in np.array(got[0]):
                        hit = [k for k, (a_, b_) in enumerate(es)
                               if np.linalg.norm(np.cross(V[b_] - V[a_], p - V[a_])) <= 1e-9 * max(1.0, np.abs(V).max()) ** 2
                               and -1e-9 <= np.dot(p - V[a_], V[b_] - V[a_]) / np.dot(V[b_] - V[a_], V[b_] - V[a_]) <= 1 + 1e-9]
                        on.append(hit)
                    if not ((0 in on[0] and 1 in on[1]) or (1 in on[0] and 0 in on[1])):
                        return f"face {i}: the code's segment does not join the two crossed edges {es}"
            if m.get("closed") and not m["ends_twice"]:
                return "model: a crossed edge of a closed surface is not the end of exactly two segments"
            STATS["sections_loop_structure_compared"] = STATS.get("sections_loop_structure_compared", 0) + 1
        return None
    if m["segments"] != o["nlines"]:
        return f"mesh_plane on signs {c['signs']}: model emits {m['segments']} segment(s), code {o['nlines']}"
    if sum(1 for x in c["signs"] if x == 0) < 3:
        if m["kept"] != o["nfaces"]:
            return f"slice_faces_plane on signs {c['signs']}: model keeps {m['kept']} face(s), code {o['nfaces']}"
        whole = abs(o["area"] - o["area0"]) < 1e-12
        if m["inside"] != whole and o["nfaces"]:
            return f"slice_faces_plane on signs {c['signs']}: model inside={m['inside']}, code kept the whole face={whole}"
    return None


def nontrivial(c, o):
    return "err" not in o and ("up" in o or o.get("nlines", 0) > 0 or o.get("cuts") or o.get("nfaces", 0) > 0 or "sections" in o)


# ------------------------------------------------------------------ (G) the case table of mesh_plane, from the source

def translate(ctx):
    """constants of `intersections.mesh_plane.triangle_cases` by ast: the base code, the shifts, the length of the
    lookup array and the codes switched on for each of the three returned masks"""
    import ast
    import os
    tree = ast.parse(open(os.path.join(common.REPO, "trimesh/intersections.py")).read())
    fn = None
    for node in ast.walk(tree):
        if isinstance(node, ast.FunctionDef) and node.name == "triangle_cases":
            fn = node
    if fn is None:
        raise common.Broken("translate", "intersections.py: triangle_cases not found")
    base = shifts = keylen = None
    current, masks = [], {}
    for st in fn.body:
        src = ast.unparse(st)
        if isinstance(st, ast.Assign) and src.startswith("coded = "):
            v = st.value
            if not (isinstance(v, ast.BinOp) and isinstance(v.op, ast.Add) and isinstance(v.right, ast.Constant)):
                raise common.Broken("translate", "triangle_cases: `coded = zeros + const` changed shape: " + src)
            base = int(v.right.value)
        elif isinstance(st, ast.For) and "coded +=" in src:
            rng_ = ast.literal_eval(st.iter.args[0]) if isinstance(st.iter, ast.Call) else None
            body = st.body[0]
            if not (rng_ == 3 and isinstance(body, ast.AugAssign) and isinstance(body.value, ast.BinOp)
                    and isinstance(body.value.op, ast.LShift)):
                raise common.Broken("translate", "triangle_cases: the shift loop changed shape: " + src)
            expr = ast.unparse(body.value.right)
            shifts = [int(eval(expr, {"i": i})) for i in range(rng_)]          # `3 - i`: arithmetic on the loop index only
            if "signs_sorted[:, i]" not in ast.unparse(body.value.left):
                raise common.Broken("translate", "triangle_cases: the loop no longer shifts the sorted signs")
        elif isinstance(st, ast.Assign) and src.startswith("key = np.zeros("):
            keylen = int(ast.literal_eval(st.value.args[0]))
            current = []
        elif isinstance(st, ast.Assign) and src.startswith("key[:] = False"):
            current = []
        elif isinstance(st, ast.Assign) and src.startswith("key[") and src.endswith("= True"):
            idx = ast.literal_eval(st.targets[0].slice)
            current = current + ([int(x) for x in idx] if isinstance(idx, list) else [int(idx)])
        elif isinstance(st, ast.Assign) and ast.unparse(st.value) == "key[coded]":
            masks[st.targets[0].id] = list(current)
    ret = [n.id for n in fn.body[-1].value.elts] if isinstance(fn.body[-1], ast.Return) else []
    if None in (base, shifts, keylen) or ret != ["basic", "one_vertex", "one_edge"] or set(masks) != set(ret):
        raise common.Broken("translate", f"triangle_cases: could not recover the case table ({base}, {shifts}, {keylen}, {masks}, {ret})")
    L = ["-- GENERATED by harness/props/C11.py from /repo/trimesh/intersections.py::mesh_plane.triangle_cases (ast) -- do not edit",
         "namespace TV.Generated.C11",
         f"def codeBase : Int := {base}", f"def shifts : List Nat := {shifts}", f"def keyLen : Nat := {keylen}",
         f"def basicKeys : List Int := {masks['basic']}", f"def oneVertexKeys : List Int := {masks['one_vertex']}",
         f"def oneEdgeKeys : List Int := {masks['one_edge']}", "end TV.Generated.C11"]
    return {"C11Table.lean": "\n".join(L) + "\n"}


def generated_obligations():
    return 1
