"""C12 - accelerated ray and proximity queries equal exhaustive evaluation (ray/*.py, proximity.py, triangles.py)."""
import math
from fractions import Fraction

import numpy as np

import common

LEVEL = "proof"
N_CASES = {"quick": 170, "thorough": 6000}
EPS = 1e-3            # barycentric margin that defines "general position"
RULE = ("meshes: box, slab with large faces, icosphere, block torus (genus 1), two bodies, each also under a random "
        "rotation + translation (generic float64 coordinates) and in other units of length (x 1e-3, 1e-2, 1e3) x batches of 6-14 rays: axis aligned, oblique, origins "
        "inside the bounds, origins just past a face, rays from different origins converging on one surface point, "
        "duplicated rays; both engines (r-tree ray_triangle and embree); intersects_id / intersects_location / "
        "intersects_first / intersects_any, single and multiple hits; contains_points on batches with repeated "
        "points and points on one line; nearest.on_surface / signed_distance / vertex. Every float64 input is sent "
        "as an exact rational to the Lean model, which evaluates all triangles; only queries the model finds in "
        "general position (margin %g from edges, vertices, the origin and the surface) are judged. non-trivial = "
        "at least one judged query" % EPS)
TRUSTED = ["inside = odd number of crossings along a ray in general position (Jordan), evaluated by the model",
           "rtree / embree C libraries are exercised, not modelled",
           "float64 -> rational conversion by float.as_integer_ratio"]
ASSUMPTIONS = ["queries within the margin of an edge, a vertex, the ray origin or the surface are out of scope (not judged)",
               "meshes translated 1e6 .. 1e7 units from the origin: containment points from which the library's own test ray passes within float resolution of an edge are not generated (with the mesh near the origin they are, and pass)",
               "mesh sizes from 1e-3 to 1e3: below that the engines' absolute tolerances (1e-8) reach the margin itself"]
EXPLANATION = "Lean theorems C12_* about the exhaustive rational model + every judged query compared with it"

_M = {}
STATS = {}


def _st(k, n=1):
    STATS[k] = STATS.get(k, 0) + n


def _base(name):
    import trimesh
    if name == "box":
        return trimesh.creation.box(extents=[1, 2, 1.5])
    if name == "slab":
        return trimesh.creation.box(extents=[8, 8, 0.5])
    if name == "ico":
        return trimesh.creation.icosphere(subdivisions=1)
    if name == "torus":
        from props import C03
        V, F = C03._torus_blocks()
        return trimesh.Trimesh(np.array(V, dtype=float), np.array(F), process=False)
    if name == "annulus":
        return trimesh.creation.annulus(0.5, 1.0, 1.0, sections=12)
    if name == "two":
        return trimesh.util.concatenate([trimesh.creation.box(),
                                         trimesh.creation.icosphere(subdivisions=0).apply_translation([3, .25, .5])])
    raise KeyError(name)


BASES = ["box", "slab", "ico", "torus", "two", "annulus"]


def mesh(name):
    """'box' or 'box/r17' (rotated + translated by a matrix derived from the number)"""
    if name not in _M:
        import trimesh
        name, _, far = name.partition("/o")
        name0, _, sexp = name.partition("/s")
        b, _, r = name0.partition("/r")
        m = _base(b).copy()
        if r:
            g = np.random.default_rng(int(r))
            q, _ = np.linalg.qr(g.normal(size=(3, 3)))
            if np.linalg.det(q) < 0:
                q[:, 0] *= -1
            T = np.eye(4)
            T[:3, :3] = q
            T[:3, 3] = g.uniform(-2, 2, 3)
            m.apply_transform(T)
        if sexp:
            m.apply_scale(10.0 ** int(sexp))       # the same scene in another unit of length
        if far:
            # the same mesh far from the origin of the coordinate system (its size is unchanged)
            m.apply_translation(np.array([1.0, -2.0, 0.5]) * 10.0 ** int(far))
        m = trimesh.Trimesh(np.array(m.vertices), np.array(m.faces), process=False)
        _M[name + ("/o" + far if far else "")] = m
        name = name + ("/o" + far if far else "")
    return _M[name]


def engines(m):
    from trimesh.ray import ray_triangle
    out = {"numpy": ray_triangle.RayMeshIntersector}
    try:
        from trimesh.ray import ray_pyembree
        out["embree"] = ray_pyembree.RayMeshIntersector
    except BaseException:
        pass
    return out


def _r(x):
    return round(float(x), 6)


def cases(ctx):
    rng = ctx.rng
    # containment of points from which the library's first test direction runs through an edge of a non-convex solid
    # (forward and backward hit counts of different parity): one point per edge, both sides, both engines
    d0 = np.array([0.4395064455, 0.617598629942, 0.652231566745])
    for name in ("annulus", "torus", "annulus/r7"):
        m = mesh(name)
        sz = float(np.linalg.norm(m.extents))
        E = m.edges_unique
        for eng in ("numpy", "embree"):
            for sgn in (-1.0, 1.0):
                pts = []
                for i, (a, b) in enumerate(m.vertices[E]):
                    q = a + (0.5 if i % 2 else 0.25) * (b - a)
                    pts.append([float(x) for x in (q - sgn * (0.07 + 0.05 * (i % 3)) * sz * d0)])
                yield {"kind": "contains", "mesh": name, "engine": eng, "points": pts,
                       "dirs": [[0.31, 0.52, 0.79], [-0.62, 0.27, 0.73]]}
    while True:
        name = rng.choice(BASES)
        if rng.random() < 0.5:
            name += "/r%d" % rng.randrange(40)
        if rng.random() < 0.3:
            name += "/s%d" % rng.choice([-3, -3, -2, 3])
        elif rng.random() < 0.25:
            name += "/o%d" % rng.choice([6, 6, 7])
        m = mesh(name)
        lo, hi = m.bounds
        ctr, ext = (lo + hi) / 2, hi - lo
        kind = rng.choice(["rays", "rays", "rays", "contains", "nearest"])
        ctx.count("kind:" + kind)
        eng = rng.choice(["numpy", "embree"])

        def pt(f):
            return [float(ctr[i] + rng.uniform(-f, f) * ext[i]) if "/s" in name else _r(ctr[i] + rng.uniform(-f, f) * ext[i])
                    for i in range(3)]

        def direction():
            k = rng.random()
            if k < 0.3:
                d = [0.0, 0.0, 0.0]
                d[rng.randrange(3)] = rng.choice([-1.0, 1.0])
                return d
            v = [rng.gauss(0, 1) for _ in range(3)]
            n = math.sqrt(sum(x * x for x in v))
            return [_r(x / n) for x in v]
        if kind == "rays":
            rays = []
            for _ in range(rng.randint(4, 9)):
                k = rng.choice(["outside", "outside", "inside", "past", "converge", "dup"])
                ctx.count("ray:" + k)
                d = direction()
                if k == "outside":
                    o = pt(0.45)
                    o = [_r(o[i] - d[i] * 1.5 * float(np.linalg.norm(ext))) for i in range(3)]
                    rays.append([o, d])
                elif k == "inside":
                    rays.append([pt(0.4), d])
                elif k == "past":
                    # origin a little behind / in front of a face, looking along an oblique direction
                    f = rng.randrange(len(m.faces))
                    c = m.triangles_center[f] + m.face_normals[f] * rng.choice([-0.05, 0.05, -0.2])
                    rays.append([[_r(x) for x in c], d])
                elif k == "converge":
                    f = rng.randrange(len(m.faces))
                    w = np.array([0.5, 0.3, 0.2])
                    tgt = (m.triangles[f] * w[:, None]).sum(axis=0)
                    for _ in range(rng.randint(2, 3)):
                        o = np.array(pt(0.45)) + np.array(direction()) * 2.0 * float(np.linalg.norm(ext))
                        dd = tgt - o
                        rays.append([[float(x) for x in o], [float(x) for x in dd / np.linalg.norm(dd)]])
                else:
                    if rays:
                        rays.append(list(rng.choice(rays)))
            if not rays:
                continue
            # direction vectors need not be unit vectors: any positive multiple is the same ray
            # (powers of two keep the float64 components exact multiples)
            if rng.random() < 0.35:
                k = rng.choice([-30, -14, 9, 20, 30])
                ctx.count("direction-length:2^%d" % k)
                rays = [[r[0], [x * 2.0 ** k for x in r[1]]] for r in rays]
            yield {"kind": "rays", "mesh": name, "engine": eng, "rays": rays}
        elif kind == "contains":
            pts = [pt(0.6) for _ in range(rng.randint(4, 8))]
            # repeated points, and points on one line parallel to a coordinate axis
            pts.append(list(rng.choice(pts)))
            base = rng.choice(pts)
            ax = rng.randrange(3)
            for s in (0.11, -0.23):
                q = list(base)
                q[ax] = _r(q[ax] + s * ext[ax])
                pts.append(q)
            # points from which the library's own first test direction grazes an edge or passes through a vertex
            # (the query point itself stays far from the surface): edge / vertex point minus a multiple of it
            d0 = np.array([0.4395064455, 0.617598629942, 0.652231566745])
            E = m.edges_unique
            # (not for meshes placed 1e6 .. 1e7 away from the origin: there the constructed point is only within float
            # resolution, ~1e-9, of the grazing position, which is inside the excluded margin around the edge while the
            # library's barycentric tolerance stays absolute)
            for _ in range(rng.randint(8, 14) if "/o" not in name else 0):
                a, b = m.vertices[E[rng.randrange(len(E))]]
                q = a + rng.choice([0.0, 0.5, rng.random()]) * (b - a)
                t = rng.choice([-1, 1]) * rng.uniform(0.03, 0.6) * float(np.linalg.norm(ext))
                pts.append([float(x) for x in (q - t * d0)])
            yield {"kind": "contains", "mesh": name, "engine": eng, "points": pts,
                   "dirs": [[0.31, 0.52, 0.79], [-0.62, 0.27, 0.73]]}
        else:
            pts = [pt(rng.choice([0.3, 0.6, 1.5])) for _ in range(rng.randint(4, 8))]
            yield {"kind": "nearest", "mesh": name, "points": pts, "dirs": [[0.31, 0.52, 0.79], [-0.62, 0.27, 0.73]]}


def run_case(c):
    m = mesh(c["mesh"])
    k = c["kind"]
    o = {"scale": float(np.linalg.norm(m.extents)), "nfaces": len(m.faces)}
    if k == "rays":
        E = engines(m)[c["engine"]](m)
        O = np.array([r[0] for r in c["rays"]], dtype=np.float64)
        D = np.array([r[1] for r in c["rays"]], dtype=np.float64)
        it, ir, loc = E.intersects_id(O, D, multiple_hits=True, return_locations=True)
        o["multi"] = [[int(a), int(b)] + [float(x) for x in p] for a, b, p in zip(ir, it, loc)]
        it0, ir0 = E.intersects_id(O, D, multiple_hits=True, return_locations=False)
        o["multi_ids"] = sorted([int(a), int(b)] for a, b in zip(ir0, it0))
        l2, ir2, it2 = E.intersects_location(O, D)
        o["location"] = sorted([int(a), int(b)] for a, b in zip(ir2, it2))
        it1, ir1 = E.intersects_id(O, D, multiple_hits=False)
        o["single"] = sorted([int(a), int(b)] for a, b in zip(ir1, it1))
        o["first"] = [int(x) for x in E.intersects_first(O, D)]
        o["any"] = [bool(x) for x in E.intersects_any(O, D)]
        # broad phase of the r-tree engine on the unit directions ray_triangle_id works with
        from trimesh import util as tutil
        from trimesh.ray import ray_triangle
        Du = tutil.unitize(D)
        tree = m.triangles_tree
        o["dunit"] = Du.tolist()
        o["rbounds"] = ray_triangle.ray_bounds(O, Du, tree.bounds).tolist()
        cand, rid = ray_triangle.ray_triangle_candidates(O, Du, tree)
        o["cands"] = [sorted(int(c_) for c_, r_ in zip(cand, rid) if r_ == j) for j in range(len(O))]
    elif k == "contains":
        E = engines(m)[c["engine"]](m)
        o["contains"] = [bool(x) for x in E.contains_points(np.array(c["points"], dtype=np.float64))]
    else:
        P = np.array(c["points"], dtype=np.float64)
        cp, dist, tid = m.nearest.on_surface(P)
        o["closest"] = [[float(x) for x in p] for p in cp]
        o["distance"] = [float(x) for x in dist]
        o["tid"] = [int(x) for x in tid]
        o["signed"] = [float(x) for x in m.nearest.signed_distance(P)]
        from trimesh import proximity
        from trimesh.constants import tol as ttol
        o["nearby"] = [sorted(int(x) for x in c_) for c_ in proximity.nearby_faces(m, P)]
        o["radius"] = [float(x) + ttol.merge for x in np.ravel(m.kdtree.query(P)[0])]
        vd, vi = m.nearest.vertex(P)
        o["vertex_distance"] = [float(x) for x in np.ravel(vd)]
        o["vertex_brute"] = [float(np.linalg.norm(m.vertices - p, axis=1).min()) for p in P]
    return o


def oracle(c, o):
    if "err" in o:
        return {"kind": c["kind"], "fail": "raised", "err": o["err"], "engine": c.get("engine")}
    if c["kind"] == "nearest":
        for a, b in zip(o["vertex_distance"], o["vertex_brute"]):
            if abs(a - b) > 1e-9 * max(1.0, o["scale"]):
                return {"kind": "nearest", "check": "nearest-vertex-is-not-the-nearest"}
    return None


def _q(x):
    n, d = float(x).as_integer_ratio()
    return [n, d]


def _qp(p):
    return [_q(x) for x in p]


def _f(q):
    return float(Fraction(q[0], q[1]))


def model_request(c, o):
    if "err" in o:
        return None
    m = mesh(c["mesh"])
    req = {"p": "C12", "op": "query", "tris": [[_qp(v) for v in t] for t in m.triangles.tolist()],
           "eps": _q(EPS), "eps_s": _q(EPS * o["scale"])}
    if c["kind"] == "rays":
        # the margin from the origin is a distance: in ray-parameter units it is divided by |d|
        req["rays"] = [[_qp(r[0]), _qp(r[1]), _q(EPS * o["scale"] / float(np.linalg.norm(r[1])))] for r in c["rays"]]
        req["brays"] = [[_qp(r[0]), _qp(du)] for r, du in zip(c["rays"], o["dunit"])]
        # the padding / clamp distance is the default of the real function, not a copy of it
        import inspect
        from trimesh.ray import ray_triangle
        req["buf"] = _q(float(inspect.signature(ray_triangle.ray_bounds).parameters["buffer_dist"].default))
    else:
        req["rays"] = [[_qp(p), _qp(d)] for p in c["points"] for d in c["dirs"]]
        req["points"] = [_qp(p) for p in c["points"]]
        req["tids"] = o.get("tid", [])
        if "radius" in o:
            req["radii"] = [_q(x) for x in o["radius"]]
    return req


def _general(r):
    return not r["near"] and not r["in_plane"]


def _inside(c, m, j):
    """exact containment of point j from the first direction in general position; None if neither is"""
    nd = len(c["dirs"])
    for k in range(nd):
        r = m["rays"][j * nd + k]
        if _general(r):
            return bool(r["parity"])
    return None


def model_oracle(c, o, m):
    if "err" in m:
        raise RuntimeError(m["err"])
    k = c["kind"]
    sc = o["scale"]          # tolerances and margins relative to the size of the mesh

    def bad(what, **kw):
        d = {"kind": k, "check": what}
        if "engine" in c:
            d["engine"] = c["engine"]
        d.update(kw)
        return d
    if k == "rays":
        per = {}
        for row in o["multi"]:
            per.setdefault(row[0], []).append(row)
        for j, (ray, r) in enumerate(zip(c["rays"], m["rays"])):
            if not _general(r):
                _st("rays_not_general_position")
                continue
            want = sorted(h[0] for h in r["hits"])
            _st("rays_judged:%s" % c["engine"])
            _st("rays_judged_hits:%d" % min(len(want), 4))
            got_rows = per.get(j, [])
            got = sorted(x[1] for x in got_rows)
            if got != want:
                return bad("missed-hit" if set(want) - set(got) else "spurious-or-repeated-hit", ray=j,
                           query="intersects_id(multiple, locations)")
            for name in ("multi_ids", "location"):
                g2 = sorted(b for a, b in o[name] if a == j)
                if g2 != want:
                    return bad("missed-hit" if set(want) - set(g2) else "spurious-or-repeated-hit", ray=j, query=name)
            s_of = {h[0]: _f(h[1]) for h in r["hits"]}
            od, dd = np.array(ray[0]), np.array(ray[1])
            for row in got_rows:
                p = od + s_of[row[1]] * dd
                if np.linalg.norm(np.array(row[2:]) - p) > 1e-6 * sc:
                    return bad("location-not-on-ray-and-triangle", ray=j)
            first = r["first"]
            if o["first"][j] != first:
                return bad("first-hit-is-not-the-nearest", ray=j, query="intersects_first")
            single = [b for a, b in o["single"] if a == j]
            if single != ([first] if first >= 0 else []):
                return bad("first-hit-is-not-the-nearest", ray=j, query="intersects_id(single)")
            if o["any"][j] != bool(want):
                return bad("intersects_any-wrong", ray=j)
        return None
    if k == "contains":
        for j in range(len(c["points"])):
            if _f(m["points"][j]["d2"]) < (EPS * sc) ** 2:
                continue
            ins = _inside(c, m, j)
            _st("contains_judged:%s" % ins)
            if ins is not None and o["contains"][j] != ins:
                return bad("containment-differs-from-exact-classification", point=j, exact=ins)
        return None
    for j in range(len(c["points"])):
        mp = m["points"][j]
        d = math.sqrt(_f(mp["d2"]))
        if abs(o["distance"][j] - d) > 1e-9 * sc:
            return bad("distance-is-not-the-minimum-over-all-triangles", point=j,
                       closer=bool(o["distance"][j] < d))
        own_p, own_d2 = mp["own"]
        if abs(math.sqrt(_f(own_d2)) - d) > 1e-9 * sc:
            return bad("reported-triangle-does-not-attain-the-minimum", point=j)
        if np.linalg.norm(np.array(o["closest"][j]) - np.array([_f(x) for x in own_p])) > 1e-7 * sc:
            return bad("closest-point-is-not-the-closest-point-of-the-reported-triangle", point=j)
        if np.linalg.norm(np.array(o["closest"][j]) - np.array(c["points"][j])) - d > 1e-9 * sc:
            return bad("closest-point-farther-than-distance", point=j)
        if d < EPS * sc:
            continue
        if abs(abs(o["signed"][j]) - d) > 1e-9 * sc:
            return bad("signed-distance-magnitude", point=j)
        ins = _inside(c, m, j)
        _st("signed_judged:%s" % ins)
        if ins is not None and (o["signed"][j] > 0) != ins:
            return bad("signed-distance-sign", point=j, inside=ins)
    return None


def compare(c, o, m):
    """model of the broad phase (ray_bounds, r-tree candidates, nearby_faces) against the code"""
    sc = o["scale"]
    if c["kind"] == "rays":
        for j, (b, box) in enumerate(zip(m.get("broad", []), o["rbounds"])):
            mb = [_f(x) for x in b["box"][0]] + [_f(x) for x in b["box"][1]]
            if max(abs(x - y) for x, y in zip(mb, box)) > 1e-9 * max(1.0, sc, max(abs(v) for v in box)):
                return "ray_bounds differs from the model for ray %d: %r vs %r" % (j, mb, box)
            if b["pruned"] != b["hits"]:
                return "model: pruning lost a hit for ray %d (contradicts C12_pruning_lossless)" % j
            missing = set(b["hits"]) - set(o["cands"][j])
            if missing:
                return "triangles hit by ray %d are not among ray_triangle_candidates: %r" % (j, sorted(missing))
            _st("broad_phase_rays_compared")
    elif c["kind"] == "nearest":
        for j, nb in enumerate(m.get("nearby", [])):
            idx = m["points"][j].get("idx")
            if idx is None:
                continue
            if idx not in nb:
                return "model: nearbyFaces lost the minimising triangle for point %d" % j
            # every triangle attaining the minimum distance is an equally good answer; the one the model picked
            # must be among the code's candidates unless it lies within rounding of the cube's boundary
            if idx not in o["nearby"][j] and abs(math.sqrt(_f(m["points"][j]["d2"])) - o["radius"][j]) > 1e-9 * sc:
                return "minimising triangle %d of point %d is not among nearby_faces" % (idx, j)
            _st("nearby_faces_points_compared")
    return None


def nontrivial(c, o):
    return "err" not in o


# ------------------------------------------------------------------ (G) barycentric coordinates traced from the source

BARY_ARGS = ["a1", "a2", "a3", "b1", "b2", "b3", "c1", "c2", "c3", "p1", "p2", "p3"]


def translate(ctx):
    """`triangles.points_to_barycentric` (both methods) run on one symbolic triangle and point: each coordinate is a
    rational function; numerators and denominators are printed for Lean"""
    import numpy as real_np
    from translate.poly import NPProxy, Poly, RF, sym_array, Branch
    import trimesh.triangles as T
    saved = T.np
    T.np = NPProxy()
    out = {}
    try:
        tri = sym_array(BARY_ARGS[:9], (1, 3, 3))
        pt = sym_array(BARY_ARGS[9:], (1, 3))
        for method in ("cramer", "cross"):
            o = real_np.asarray(T.points_to_barycentric(tri, pt, method=method), dtype=object)[0]
            if not all(isinstance(x, RF) for x in o[1:]):
                raise common.Broken("translate", f"points_to_barycentric({method}) no longer divides by one denominator")
            if not (o[1].d == o[2].d):
                raise common.Broken("translate", f"points_to_barycentric({method}): the two weights have different denominators")
            first = RF.lift(o[0]) if hasattr(RF, "lift") else o[0]
            out[method] = (o[1].n, o[2].n, o[1].d, o[0])
    except Branch as b:
        raise common.Broken("translate", "points_to_barycentric is no longer straight-line: " + str(b))
    finally:
        T.np = saved
    args = " ".join(BARY_ARGS)
    L = ["-- GENERATED by harness/props/C12.py: symbolic trace of /repo/trimesh/triangles.py::points_to_barycentric -- do not edit",
         "import Mathlib.Algebra.Field.Basic", "namespace TV.Generated.C12", "variable {K : Type} [Field K]", ""]
    for method, (n1, n2, d, w0) in out.items():
        L.append(f"/-- numerator of the weight of corner b ({method} method) -/")
        L.append(f"def {method}Num1 ({args} : K) : K :=\n  {n1.lean()}\n")
        L.append(f"/-- numerator of the weight of corner c ({method} method) -/")
        L.append(f"def {method}Num2 ({args} : K) : K :=\n  {n2.lean()}\n")
        L.append(f"/-- common denominator ({method} method) -/")
        L.append(f"def {method}Den ({args} : K) : K :=\n  {d.lean()}\n")
    L.append("end TV.Generated.C12")
    return {"C12Bary.lean": "\n".join(L) + "\n"}


def generated_obligations():
    return 2
