"""C13 - voxel encodings interchangeable; run-length codecs lossless (voxel/runlength.py, encoding.py, base.py, binvox)."""
import io
import itertools

import numpy as np
import common

LEVEL = "proof"
N_CASES = {"quick": 4000, "thorough": 150000}
RULE = ("run-length data as random (value,count) lists incl. zero counts and counts at 126..130, 254..257, 510, 600 "
        "with count dtypes int8/uint8/int16/uint16/int64; index sets sorted / unsorted / repeated, list or array; "
        "Encoding API: 4 encodings x (identity, transpose, flip, flat, reshape) views x 13 reads against the dense "
        "numpy array; voxel grids with random affine transforms; binvox export/reload. thorough adds every boolean "
        "sequence of length<=10 and every ternary sequence of length<=6. non-trivial = decoded sequence has >=2 runs")
TRUSTED = ["np.repeat / np.cumsum / fancy indexing are the dense specification the encoded operations are compared to",
           "the lazy Encoding views are compared with the dense specification only (correspondence), their index "
           "maps ravel/unravel/transpose/flip are proved in Lean"]
ASSUMPTIONS = ["strip of an all-empty run-length array is handled above runlength.py (Encoding.is_empty); only the "
               "model/implementation agreement is checked there",
               "dense_to_brle of an empty array raises IndexError in the implementation; not generated"]
EXPLANATION = "Lean theorems C13_* over the model of runlength.py + differential run vs implementation"

DTYPES = {"int8": 127, "uint8": 255, "int16": 32767, "uint16": 65535, "int64": 2**63 - 1}
LONG = [126, 127, 128, 130, 254, 255, 256, 257, 510, 511, 600]


def _count(rng):
    r = rng.random()
    if r < 0.15:
        return 0
    if r < 0.85:
        return rng.randint(1, 4)
    return rng.choice(LONG)


def _pairs(rng, vals, n=None):
    n = rng.randint(0, 6) if n is None else n
    return [[rng.choice(vals), _count(rng)] for _ in range(n)]


def _idx(rng, n):
    if n == 0:
        return []
    k = rng.randint(0, 6)
    idx = [rng.randrange(n) for _ in range(k)]
    mode = rng.choice(["sorted", "unsorted", "repeated"])
    if mode == "sorted":
        idx = sorted(set(idx))
    elif mode == "repeated" and idx:
        idx = idx + [idx[0]]
    return idx


STATS = {}


def cases(ctx):
    rng = ctx.rng
    # encoded data held in the narrow count dtype whose running totals pass the range of that dtype
    for dt_, big in (("uint8", 200), ("int8", 100), ("uint16", 40000)):
        yield {"kind": "brle_ops", "brle": [big, big, 3, 5], "dtype": dt_, "idx": [0, big - 1, big, 2 * big - 1, 2 * big + 4],
               "idx_list": False, "mask": [1] * (2 * big + 8)}
        yield {"kind": "rle_ops", "rle": [[0, big], [1, big], [0, 4], [1, 4]], "dtype": dt_,
               "idx": [0, big - 1, big, 2 * big - 1, 2 * big + 5], "idx_list": True, "mask": [1] * (2 * big + 8)}
    if ctx.tier == "thorough":
        for n in range(1, 11):
            for bits in itertools.product([0, 1], repeat=n):
                yield {"kind": "brle_dense", "runs": [[b, 1] for b in bits], "dtype": "uint8"}
        for n in range(1, 7):
            for vals in itertools.product([0, 1, 2], repeat=n):
                yield {"kind": "rle_dense", "runs": [[v, 1] for v in vals], "dtype": "uint8"}
    while True:
        k = rng.choice(["rle_dense", "brle_dense", "rle_ops", "rle_ops", "brle_ops", "brle_ops", "binvox", "grid",
                        "enc", "enc", "enc", "enc", "enc", "enc", "viewmap", "addr"])
        ctx.count("kind:" + k)
        dt = rng.choice(list(DTYPES))
        if k == "rle_dense":
            runs = [[v, max(1, c)] for v, c in _pairs(rng, [0, 1, 2, 7], rng.randint(1, 6))]
            yield {"kind": k, "runs": runs, "dtype": dt}
        elif k == "brle_dense":
            runs = [[v, max(1, c)] for v, c in _pairs(rng, [0, 1], rng.randint(1, 6))]
            yield {"kind": k, "runs": runs, "dtype": dt}
        elif k == "rle_ops":
            binary = rng.random() < 0.4
            rle = _pairs(rng, [0, 1] if binary else [0, 0, 1, 2, 5])
            n = sum(c for _, c in rle)
            yield {"kind": k, "rle": rle, "dtype": dt, "idx": _idx(rng, n), "idx_list": rng.random() < 0.5,
                   "mask": [int(rng.random() < 0.5) for _ in range(n)] if n <= 40 else [1] * n}
        elif k == "brle_ops":
            brle = [_count(rng) for _ in range(rng.randint(1, 7))]
            n = sum(brle)
            yield {"kind": k, "brle": brle, "dtype": dt, "idx": _idx(rng, n), "idx_list": rng.random() < 0.5,
                   "mask": [int(rng.random() < 0.5) for _ in range(n)] if n <= 40 else [1] * n}
        elif k == "binvox":
            nside = rng.choice([2, 2, 3, 3, 4, 7])     # binvox stores cubic grids; 7^3 > 255: long runs
            shape = [nside] * 3
            p = rng.choice([0.0, 0.2, 0.5, 0.9, 1.0])
            n = shape[0] * shape[1] * shape[2]
            yield {"kind": k, "shape": shape, "bits": [int(rng.random() < p) for _ in range(n)]}
        elif k == "grid":
            shape = [rng.randint(1, 3) for _ in range(3)]
            n = shape[0] * shape[1] * shape[2]
            scale = [rng.choice([0.5, 1, 2, 4]) for _ in range(3)]
            if rng.random() < 0.5:
                scale = [scale[0]] * 3
            perm = rng.choice(list(itertools.permutations(range(3))))
            sign = [rng.choice([1, -1]) for _ in range(3)]
            yield {"kind": k, "shape": shape, "bits": [int(rng.random() < 0.5) for _ in range(n)], "scale": scale,
                   "perm": list(perm), "sign": sign, "t": [rng.randint(-5, 5) for _ in range(3)]}
        elif k == "addr":
            # points_to_indices / indices_to_points with dyadic pitch and origin (exact in float64), points at cell
            # centres, strictly inside cells and exactly half way between two cells (np.round: ties to even)
            pitch = rng.choice([0.5, 1.0, 2.0, 0.25, 4.0])
            origin = [rng.randint(-8, 8) * 0.5 for _ in range(3)]
            idx = [[rng.randint(-6, 6) for _ in range(3)] for _ in range(rng.randint(2, 6))]
            pts = []
            for ix in idx:
                off = [rng.choice([0.0, 0.25, -0.25, 0.5, -0.5, 0.375]) for _ in range(3)]
                pts.append([(ix[d] + off[d]) * pitch + origin[d] for d in range(3)])
            yield {"kind": k, "pitch": pitch, "origin": origin, "indices": idx, "points": pts}
        elif k == "viewmap":
            shape = rng.choice([[5], [2, 3], [2, 2, 3], [1, 4], [3, 1, 2], [2, 3, 4], [3, 3, 3], [4, 1, 3, 2]])
            nd = len(shape)
            n = int(np.prod(shape))
            idx = [[rng.randrange(s) for s in shape] for _ in range(rng.randint(1, 6))]
            axes = sorted(rng.sample(range(nd), rng.randint(1, nd)))
            perm = list(range(nd))
            rng.shuffle(perm)
            divs = [d for d in range(1, n + 1) if n % d == 0]
            a = rng.choice(divs)
            new_shape = [a, n // a] if rng.random() < 0.6 else [n]
            yield {"kind": k, "shape": shape, "idx": idx, "axes": axes, "perm": perm, "new_shape": new_shape,
                   "flat_idx": [rng.randrange(n) for _ in range(4)], "data": [rng.randint(0, 3) for _ in range(n)]}
        else:
            shape = rng.choice([[5], [2, 3], [2, 2, 3], [1, 4], [3, 1, 2], [2, 3, 4], [3, 3, 3], [2, 2, 2]])
            n = int(np.prod(shape))
            p = rng.choice([0.0, 0.3, 0.5, 0.7, 1.0])
            enc = rng.choice(["dense", "sparse", "rle", "brle"])
            nd = len(shape)
            views = []
            for _ in range(rng.choice([0, 1, 1, 2, 2, 3])):
                v = rng.choice(["transpose", "transpose", "flip", "flat", "reshape"])
                views.append([v, rng.randrange(10 ** 6)])
            yield {"kind": "enc", "shape": shape, "bits": [int(rng.random() < p) for _ in range(n)], "enc": enc,
                   "views": views, "seed": rng.randrange(10 ** 6), "nd": nd}


# ------------------------------------------------------------------ implementation side

def _expand(runs):
    out = []
    for v, c in runs:
        out.extend([v] * c)
    return out


def _dec_rle(pairs):
    return _expand(pairs)


def _dec_brle(cs):
    out, b = [], 0
    for c in cs:
        out.extend([b] * int(c))
        b = 1 - b
    return out


def _ints(a):
    return [int(x) for x in np.asarray(a).reshape(-1)]


def _try(f):
    try:
        return f()
    except Exception as e:  # noqa
        from common import err_kind
        return {"err": err_kind(e)}


def _view_maps(c):
    """index maps of the real lazy view classes on a dense base (what gather_nd / sparse_indices go through)"""
    from trimesh.voxel import encoding as E
    shape = tuple(c["shape"])
    arr = np.array(c["data"], dtype=np.int64).reshape(shape)
    base = E.DenseEncoding(arr)
    I = np.array(c["idx"], dtype=np.int64)
    K = np.array(c["flat_idx"], dtype=np.int64)
    o = {}
    fl = E.FlippedEncoding(base, tuple(c["axes"]))
    o["flip_to"] = np.asarray(fl._to_base_indices(I)).tolist()
    o["flip_from"] = np.asarray(fl._from_base_indices(I)).tolist()
    o["flip_entries"] = [int(np.flip(arr, tuple(c["axes"]))[tuple(i)]) for i in c["idx"]]
    ft = E.FlattenedEncoding(base)
    o["flat_to"] = np.asarray(ft._to_base_indices(K)).tolist()
    o["flat_from"] = np.asarray(ft._from_base_indices(I)).reshape(-1).tolist()
    sh = E.ShapedEncoding(base, tuple(c["new_shape"]))
    o["shaped_from"] = np.asarray(sh._from_base_indices(K)).tolist()
    tr = E.TransposedEncoding(base, c["perm"])
    o["transposed_shape"] = [int(x) for x in tr.shape]
    o["transpose_to"] = np.asarray(tr._to_base_indices(I)).tolist()
    o["transpose_from"] = np.asarray(tr._from_base_indices(I)).tolist()
    o["entries"] = [int(arr[tuple(i)]) for i in c["idx"]]
    return o


def run_case(c):
    from trimesh.voxel import runlength as rl
    k = c["kind"]
    if k == "viewmap":
        return _view_maps(c)
    if k == "addr":
        from trimesh.voxel import ops
        return {"to_index": np.asarray(ops.points_to_indices(np.array(c["points"]), pitch=c["pitch"], origin=np.array(c["origin"]))).tolist(),
                "to_point": np.asarray(ops.indices_to_points(np.array(c["indices"]), pitch=c["pitch"], origin=np.array(c["origin"]))).tolist()}
    if k == "rle_dense":
        d = np.array(_expand(c["runs"]), dtype=np.int64)
        r = rl.dense_to_rle(d, dtype=getattr(np, c["dtype"]))
        return {"rle": np.asarray(r).reshape(-1, 2).tolist(), "dense": _ints(rl.rle_to_dense(r)),
                "count_dtype_ok": True}
    if k == "brle_dense":
        d = np.array(_expand(c["runs"]), dtype=bool)
        r = rl.dense_to_brle(d, dtype=getattr(np, c["dtype"]))
        return {"brle": _ints(r), "dense": _ints(rl.brle_to_dense(r))}
    if k == "rle_ops":
        dt = getattr(np, c["dtype"])
        # the encoded data as the library itself hands it out: in the (narrow) count dtype when everything fits -
        # e.g. what dense_to_brle(dtype=np.uint8) returns - every other case as int64
        flat_ = [x for pr in c["rle"] for x in pr]
        narrow = bool(flat_) and max(flat_) <= np.iinfo(dt).max and min(flat_) >= 0 and sum(c_ for _, c_ in c["rle"]) % 2 == 0
        STATS["rle_ops_stored_narrow" if narrow else "rle_ops_stored_int64"] = STATS.get("rle_ops_stored_narrow" if narrow else "rle_ops_stored_int64", 0) + 1
        rle = np.array(c["rle"], dtype=dt if narrow else np.int64).reshape(-1)
        idx = c["idx"] if c["idx_list"] else np.array(c["idx"], dtype=np.int64)
        mask = np.array(c["mask"], dtype=bool)
        o = {}
        o["dense"] = _try(lambda: _ints(rl.rle_to_dense(rle)))
        o["rle_to_rle"] = _try(lambda: np.asarray(rl.rle_to_rle(rle, dtype=dt)).reshape(-1, 2).tolist())
        o["length"] = _try(lambda: int(rl.rle_length(rle)))
        o["reverse"] = _try(lambda: np.asarray(rl.rle_reverse(rle)).reshape(-1, 2).tolist())
        o["sparse"] = _try(lambda: (lambda iv: [[int(a), int(b)] for a, b in zip(np.asarray(iv[0]).reshape(-1), np.asarray(iv[1]).reshape(-1))])(rl.rle_to_sparse(rle)))
        o["gather"] = _try(lambda: _ints(rl.rle_gather_1d(rle, idx)) if len(c["idx"]) else [])
        o["mask"] = _try(lambda: [int(x) for x in rl.rle_mask(rle, mask)])
        o["strip"] = _try(lambda: (lambda sp: {"data": np.asarray(sp[0]).reshape(-1, 2).tolist(), "pad": [int(sp[1][0]), int(sp[1][1])]})(rl.rle_strip(rle)))
        o["to_brle"] = _try(lambda: _ints(rl.rle_to_brle(rle)))
        return o
    if k == "brle_ops":
        dt = getattr(np, c["dtype"])
        narrow = bool(c["brle"]) and max(c["brle"]) <= np.iinfo(dt).max and sum(c["brle"]) % 2 == 0
        STATS["brle_ops_stored_narrow" if narrow else "brle_ops_stored_int64"] = STATS.get("brle_ops_stored_narrow" if narrow else "brle_ops_stored_int64", 0) + 1
        b = np.array(c["brle"], dtype=dt if narrow else np.int64)
        idx = c["idx"] if c["idx_list"] else np.array(c["idx"], dtype=np.int64)
        mask = np.array(c["mask"], dtype=bool)
        o = {}
        o["dense"] = _try(lambda: _ints(rl.brle_to_dense(b)))
        o["brle_to_brle"] = _try(lambda: _ints(rl.brle_to_brle(b, dtype=dt)))
        o["length"] = _try(lambda: int(rl.brle_length(b)))
        o["reverse"] = _try(lambda: _ints(rl.brle_reverse(b)))
        o["sparse"] = _try(lambda: _ints(rl.brle_to_sparse(b)))
        o["gather"] = _try(lambda: _ints(rl.brle_gather_1d(b, idx)) if len(c["idx"]) else [])
        o["mask"] = _try(lambda: [int(x) for x in rl.brle_mask(b, mask)])
        o["strip"] = _try(lambda: (lambda sp: {"data": _ints(sp[0]), "pad": [int(sp[1][0]), int(sp[1][1])]})(rl.brle_strip(b)))
        o["not"] = _try(lambda: _ints(rl.brle_logical_not(b)))
        o["to_rle"] = _try(lambda: np.asarray(rl.brle_to_rle(b, dtype=dt)).reshape(-1, 2).astype(np.int64).tolist())
        o["merge"] = _try(lambda: _ints(rl.merge_brle_lengths(b)))
        return o
    if k == "binvox":
        import trimesh
        from trimesh.exchange import binvox
        d = np.array(c["bits"], dtype=bool).reshape(c["shape"])
        vg = trimesh.voxel.VoxelGrid(d)
        data = binvox.export_binvox(vg)
        body = data[data.index(b"data\n") + 5:]
        pairs = [[body[i], body[i + 1]] for i in range(0, len(body), 2)]
        back = binvox.load_binvox(io.BytesIO(data))
        return {"body": pairs, "shape_back": list(back.shape), "dense_back": _ints(back.matrix),
                "header": data[:data.index(b"data\n")].decode("ascii", "replace")}
    if k == "grid":
        import trimesh
        d = np.array(c["bits"], dtype=bool).reshape(c["shape"])
        M = np.zeros((4, 4))
        for i in range(3):
            M[i, c["perm"][i]] = c["sign"][i] * c["scale"][i]
        M[:3, 3] = c["t"]
        M[3, 3] = 1
        vg = trimesh.voxel.VoxelGrid(d, transform=M)
        idx = np.argwhere(np.ones(c["shape"], dtype=bool))
        pts = vg.indices_to_points(idx)
        back = vg.points_to_indices(pts)
        # the index <-> point maps are inverse for every cell of the lattice, also outside the stored block
        # (negative and beyond-the-end indices), and points in the layer around the block are not filled
        sh = np.array(c["shape"])
        wide = np.array(list(itertools.product(*[range(-3, int(n) + 3) for n in sh])))
        wpts = vg.indices_to_points(wide)
        wide_ok = bool(np.array_equal(vg.points_to_indices(wpts), wide))
        jit = np.array([0.3, -0.3, 0.2]) * 1.0
        wide_jit_ok = bool(np.array_equal(vg.points_to_indices(vg.indices_to_points(wide + jit)), wide))
        inside = ((wide >= 0) & (wide < sh)).all(axis=1)
        exp_filled = np.zeros(len(wide), dtype=bool)
        exp_filled[inside] = d[tuple(wide[inside].T)]
        outside_ok = bool(np.array_equal(np.asarray(vg.is_filled(wpts), dtype=bool), exp_filled))
        # history: after the queries above the grid is moved / rescaled / stripped in place; the two maps must still
        # be inverse of one another and `is_filled` must still find exactly the filled cells
        hist = {}
        import trimesh as _tm
        for how in ("translate", "scale", "strip", "apply_transform"):
            g2 = _tm.voxel.VoxelGrid(d.copy(), transform=M.copy())
            _ = g2.points_to_indices(g2.indices_to_points(idx)), g2.is_filled(pts)        # warm the cached inverse
            try:
                if how == "translate":
                    g2.apply_translation([3.0, -2.0, 0.5]) if hasattr(g2, "apply_translation") else g2.transform.__class__.apply_translation(g2._transform, [3.0, -2.0, 0.5])
                elif how == "scale":
                    g2.apply_scale(2.0)
                elif how == "strip":
                    g2 = g2.strip() or g2
                else:
                    T_ = np.eye(4)
                    T_[:3, 3] = [1.0, 2.0, -3.0]
                    g2.apply_transform(T_)
                sp = np.asarray(g2.sparse_indices)
                ok_inv = bool(len(sp) == 0 or np.array_equal(g2.points_to_indices(g2.indices_to_points(sp)), sp))
                ok_fill = bool(len(sp) == 0 or np.asarray(g2.is_filled(g2.indices_to_points(sp)), dtype=bool).all())
                ok_pts = bool(len(sp) == 0 or np.allclose(np.asarray(g2.points), g2.indices_to_points(sp)))
                hist[how] = bool(ok_inv and ok_fill and ok_pts)
            except Exception as e_:
                hist[how] = "exc:" + type(e_).__name__
        return {"roundtrip": bool(np.array_equal(back, idx)) and wide_ok and wide_jit_ok, "outside_ok": outside_ok,
                "history": hist,
                "volume": float(vg.volume), "filled": int(vg.filled_count),
                "points0": pts[0].tolist(), "is_filled": _ints(vg.is_filled(pts)),
                "sparse": sorted(map(tuple, np.asarray(vg.sparse_indices).tolist())),
                "pts_centers": sorted(map(tuple, np.asarray(vg.points).tolist()))}
    if k == "enc":
        return run_enc(c)
    raise ValueError(k)


READS = ["dense", "shape", "size", "sum", "is_empty", "sparse_indices", "sparse_values", "gather_nd", "get_value",
         "mask", "stripped", "copy", "rle_data", "brle_data"]


def _build_enc(c):
    import random
    from trimesh.voxel import encoding as E
    d = np.array(c["bits"], dtype=bool).reshape(c["shape"])
    flat = d.reshape(-1)
    name = c["enc"]
    if name == "dense":
        e = E.DenseEncoding(d.copy())
    elif name == "sparse":
        e = E.SparseEncoding.from_dense(d.copy())
    elif name == "rle":
        e = E.RunLengthEncoding.from_dense(flat.astype(np.int64))
        e = e.reshape(d.shape) if d.ndim > 1 else e
    else:
        e = E.BinaryRunLengthEncoding.from_dense(flat.astype(bool))
        e = e.reshape(d.shape) if d.ndim > 1 else e
    dd = d
    chain = []
    for v, s in c["views"]:
        r = random.Random(s)
        if v == "transpose":
            if dd.ndim < 2:
                continue
            perm = list(range(dd.ndim))
            r.shuffle(perm)
            e, dd = e.transpose(perm), dd.transpose(perm)
            chain.append("transpose" + ("3cycle" if dd.ndim == 3 and sum(p == i for i, p in enumerate(perm)) == 0 else ""))
        elif v == "flip":
            ax = r.randrange(dd.ndim)
            e, dd = e.flip(ax), np.flip(dd, ax)
            chain.append("flip")
        elif v == "flat":
            e, dd = e.flat, dd.reshape(-1)
            chain.append("flat")
        elif v == "reshape":
            if dd.size % 2 or dd.size == 0:
                continue
            e, dd = e.reshape((2, -1)), dd.reshape((2, -1))
            chain.append("reshape")
    return e, dd, chain


def run_enc(c):
    """every read of the Encoding API against the dense numpy array it represents"""
    import random
    from common import err_kind
    from trimesh.voxel import runlength as rl
    try:
        e, dd, chain = _build_enc(c)
    except Exception as ex:
        return {"build_err": err_kind(ex), "chain": [v for v, _ in c["views"]], "reads": {}}
    r = random.Random(c["seed"])
    idx = np.array([[r.randrange(s) for s in dd.shape] for _ in range(4)], dtype=np.int64).reshape(4, dd.ndim)
    mk = np.array([r.random() < 0.5 for _ in range(dd.size)], dtype=bool).reshape(dd.shape)
    res = {}

    def chk(what, f):
        try:
            res[what] = "ok" if f() else "wrong"
        except Exception as ex:
            res[what] = "exc:" + err_kind(ex)
    chk("dense", lambda: np.array_equal(np.asarray(e.dense).astype(bool), dd))
    chk("shape", lambda: tuple(e.shape) == dd.shape)
    chk("size", lambda: int(e.size) == dd.size)
    chk("sum", lambda: int(e.sum) == int(dd.sum()))
    chk("is_empty", lambda: bool(e.is_empty) == (not dd.any()))
    chk("sparse_indices", lambda: sorted(map(tuple, np.asarray(e.sparse_indices).reshape(-1, dd.ndim).tolist()))
        == sorted(map(tuple, np.argwhere(dd).tolist())))
    chk("sparse_values", lambda: len(np.asarray(e.sparse_values).reshape(-1)) == int(dd.sum())
        and bool(np.all(np.asarray(e.sparse_values) != 0)))
    chk("gather_nd", lambda: np.array_equal(np.asarray(e.gather_nd(idx)).astype(bool), dd[tuple(idx.T)]))
    chk("get_value", lambda: bool(e.get_value(tuple(idx[0]))) == bool(dd[tuple(idx[0])]))
    chk("mask", lambda: np.array_equal(np.asarray(e.mask(mk)).astype(bool).reshape(-1), dd[mk]))

    def strip():
        enc, pad = e.stripped
        if not dd.any():
            return int(np.asarray(enc.dense).sum()) == 0
        nz = np.argwhere(dd)
        lo, hi = nz.min(0), nz.max(0) + 1
        exp = dd[tuple(slice(a, b) for a, b in zip(lo, hi))]
        epad = np.c_[lo, np.array(dd.shape) - hi]
        return np.array_equal(np.asarray(enc.dense).astype(bool), exp) and np.array_equal(np.asarray(pad), epad)
    chk("stripped", strip)
    chk("copy", lambda: np.array_equal(np.asarray(e.copy().dense).astype(bool), dd))
    if dd.ndim == 1 and dd.size:
        chk("rle_data", lambda: np.array_equal(rl.rle_to_dense(e.run_length_data()).astype(bool), dd))
        chk("brle_data", lambda: np.array_equal(rl.brle_to_dense(e.binary_run_length_data()), dd))
    return {"chain": chain, "reads": res, "empty": bool(not dd.any()), "full": bool(dd.all())}


# ------------------------------------------------------------------ oracle (property on the implementation)

def oracle(c, o):
    k = c["kind"]
    if "err" in o:
        return {"kind": k, "fail": "raised", "err": o["err"]}
    if k == "addr":
        from trimesh.voxel import ops
        back = np.asarray(ops.points_to_indices(np.array(o["to_point"]), pitch=c["pitch"], origin=np.array(c["origin"]))).tolist()
        if back != c["indices"]:
            return {"kind": k, "fail": "points-indices-not-inverse"}
        return None
    if k == "viewmap":
        # the property's own statement for views: reading the view = reading the dense numpy result
        arr = np.array(c["data"], dtype=np.int64).reshape(c["shape"])
        for n_, i_ in enumerate(c["idx"]):
            if o["flip_entries"][n_] != int(arr[tuple(o["flip_to"][n_])]):
                return {"kind": k, "fail": "flip-index-map-reads-another-entry"}
        flat = arr.reshape(-1)
        for n_, q in enumerate(c["flat_idx"]):
            if int(arr[tuple(o["flat_to"][n_])]) != int(flat[q]):
                return {"kind": k, "fail": "flat-index-map-reads-another-entry"}
            if int(arr.reshape(c["new_shape"])[tuple(o["shaped_from"][n_])]) != int(flat[q]):
                return {"kind": k, "fail": "reshape-index-map-reads-another-entry"}
        return None
    if k == "rle_dense":
        d = _expand(c["runs"])
        if o["dense"] != d or _dec_rle(o["rle"]) != d:
            return {"kind": k, "fail": "roundtrip"}
        if any(cnt > DTYPES[c["dtype"]] or cnt < 0 for _, cnt in o["rle"]):
            return {"kind": k, "fail": "count-exceeds-dtype"}
    elif k == "brle_dense":
        d = _expand(c["runs"])
        if o["dense"] != d or _dec_brle(o["brle"]) != d:
            return {"kind": k, "fail": "roundtrip"}
        if any(cnt > DTYPES[c["dtype"]] or cnt < 0 for cnt in o["brle"]):
            return {"kind": k, "fail": "count-exceeds-dtype"}
    elif k in ("rle_ops", "brle_ops"):
        if k == "rle_ops":
            d = _dec_rle(c["rle"])
            dec = {"rle_to_rle": _dec_rle, "reverse": _dec_rle}
            binary = all(v in (0, 1) for v, _ in c["rle"])
        else:
            d = _dec_brle(c["brle"])
            dec = {"brle_to_brle": _dec_brle, "reverse": _dec_brle, "not": _dec_brle, "merge": _dec_brle, "to_rle": _dec_rle}
            binary = True
        n = len(d)
        mx = DTYPES[c["dtype"]]

        def bad(op, why):
            return {"kind": k, "op": op, "fail": why}
        for op, v in o.items():
            if isinstance(v, dict) and "err" in v:
                if op == "to_brle" and not binary and v["err"] == "value":
                    continue
                if op in ("strip",) and not any(d):
                    continue
                return bad(op, "raised:" + v["err"])
        if o["dense"] != d:
            return bad("dense", "wrong")
        if o["length"] != n:
            return bad("length", "wrong")
        for op in ("rle_to_rle", "brle_to_brle"):
            if op in o:
                if dec[op](o[op]) != d:
                    return bad(op, "wrong")
                cnts = [x[1] for x in o[op]] if op == "rle_to_rle" else o[op]
                if any(x > mx for x in cnts):
                    return bad(op, "count-exceeds-dtype")
        if dec["reverse"](o["reverse"]) != d[::-1]:
            return bad("reverse", "wrong")
        if k == "rle_ops":
            if o["sparse"] != [[i, v] for i, v in enumerate(d) if v != 0]:
                return bad("sparse", "wrong")
            if binary and o["to_brle"] != {"err": "value"} and _dec_brle(o["to_brle"]) != d:
                return bad("to_brle", "wrong")
        else:
            if o["sparse"] != [i for i, v in enumerate(d) if v]:
                return bad("sparse", "wrong")
            if c["brle"] and _dec_brle(o["not"]) != [1 - v for v in d]:
                return bad("not", "wrong")
            if _dec_brle(o["merge"]) != d:
                return bad("merge", "wrong")
            if _dec_rle(o["to_rle"]) != d:
                return bad("to_rle", "wrong")
        if o["gather"] != [d[i] for i in c["idx"]]:
            return bad("gather", "wrong")
        if len(c["mask"]) == n and o["mask"] != [v for v, m in zip(d, c["mask"]) if m]:
            return bad("mask", "wrong")
        if any(d):
            nz = [i for i, v in enumerate(d) if v]
            exp, pad = d[nz[0]:nz[-1] + 1], [nz[0], n - 1 - nz[-1]]
            got = _dec_rle(o["strip"]["data"]) if k == "rle_ops" else _dec_brle(o["strip"]["data"])
            if got != exp or o["strip"]["pad"] != pad:
                return bad("strip", "wrong")
    elif k == "binvox":
        d = np.array(c["bits"], dtype=bool).reshape(c["shape"])
        if o["shape_back"] != list(d.shape) or o["dense_back"] != _ints(d):
            return {"kind": k, "fail": "reload-differs"}
        if any(cnt > 255 or cnt < 0 or v not in (0, 1) for v, cnt in o["body"]):
            return {"kind": k, "fail": "body-byte-range"}
    elif k == "grid":
        n = sum(c["bits"])
        vol = n * c["scale"][0] * c["scale"][1] * c["scale"][2]
        if not o["roundtrip"]:
            return {"kind": k, "fail": "points-indices-not-inverse"}
        if not o.get("outside_ok", True):
            return {"kind": k, "fail": "is_filled-wrong-around-the-grid"}
        if abs(o["volume"] - vol) > 1e-9 * max(1, vol) or o["filled"] != n:
            return {"kind": k, "fail": "volume"}
        if o["is_filled"] != c["bits"]:
            return {"kind": k, "fail": "is_filled"}
        for how, ok_ in o.get("history", {}).items():
            if ok_ is not True:
                return {"kind": k, "fail": "maps-not-inverse-after-in-place-edit", "edit": how, "result": str(ok_)}
    elif k == "enc":
        if "build_err" in o:
            sg = {"kind": k, "enc": c["enc"], "view": "+".join(sorted(set(o["chain"]))) or "id", "read": "build",
                  "fail": "exc:" + o["build_err"], "nd": len(c["shape"]), "content": "any"}
            for a in set(o["chain"]):
                sg["has_" + a] = True
            return sg
        view = "+".join(sorted(set(o["chain"]))) or "id"
        sigs = []
        for read in READS:
            v = o["reads"].get(read)
            if v and v != "ok":
                sg = {"kind": k, "enc": c["enc"], "view": view, "read": read, "fail": v,
                      "nd": len(c["shape"]),
                      "content": "empty" if o["empty"] else ("full" if o["full"] else "mixed")}
                for a in set(o["chain"]):
                    sg["has_" + a] = True
                sigs.append(sg)
        return sigs or None
    return None


# ------------------------------------------------------------------ model side

def model_request(c, o):
    k = c["kind"]
    m = DTYPES.get(c.get("dtype", "uint8"), 255)
    if k == "rle_dense":
        return {"p": "C13", "op": "dense_to_rle", "m": m, "d": _expand(c["runs"])}
    if k == "brle_dense":
        return {"p": "C13", "op": "dense_to_brle", "m": m, "d": _expand(c["runs"])}
    if k == "rle_ops":
        return {"p": "C13", "op": "rle_ops", "m": m, "rle": c["rle"], "idx": c["idx"], "mask": c["mask"]}
    if k == "brle_ops":
        return {"p": "C13", "op": "brle_ops", "m": m, "brle": c["brle"], "idx": c["idx"], "mask": c["mask"]}
    if k == "addr":
        if "err" in o:
            return None

        def q(x):
            n_, d_ = float(x).as_integer_ratio()
            return [n_, d_]
        return {"p": "C13", "op": "grid", "pitch": q(c["pitch"]), "origin": [q(x) for x in c["origin"]],
                "points": [[q(x) for x in p_] for p_ in c["points"]], "indices": c["indices"]}
    if k == "viewmap":
        if "err" in o:
            return None
        return {"p": "C13", "op": "viewmap", "shape": c["shape"], "new_shape": c["new_shape"], "axes": c["axes"],
                "perm": c["perm"], "idx": c["idx"], "flat_idx": c["flat_idx"], "data": c["data"]}
    if k == "binvox":
        # binvox flattens the (x, z, y)-ordered grid; use the implementation's own flattening order
        d = np.array(c["bits"], dtype=bool).reshape(c["shape"])
        flat = d.transpose((0, 2, 1)).reshape(-1)
        return {"p": "C13", "op": "binvox", "d": [int(x) for x in flat]}
    return None


def compare(c, o, m):
    if "err" in m and len(m) == 1:
        return "model error: " + str(m["err"])
    k = c["kind"]
    if k == "addr":
        from fractions import Fraction
        if m["to_index"] != o["to_index"]:
            return f"points_to_indices: impl={o['to_index']} model={m['to_index']}"
        mp = [[float(Fraction(x[0], x[1])) for x in p_] for p_ in m["to_point"]]
        if mp != o["to_point"]:
            return f"indices_to_points: impl={o['to_point']} model={mp}"
        return None
    if k == "viewmap":
        pairs = [("flip_to", "flip"), ("flip_from", "flip"), ("flat_to", "unravel"), ("flat_from", "ravel"),
                 ("shaped_from", "unravel_new"), ("transposed_shape", "transposed_shape"),
                 ("transpose_to", "take_perm"), ("transpose_from", "take_inv"), ("entries", "entries")]
        if not all(m["in_range"]):
            return "generator produced an out-of-range index"
        for a, b in pairs:
            if o[a] != m[b]:
                return f"view index map {a}: impl={o[a]} model {b}={m[b]}"
        return None
    if k == "rle_dense":
        return None if m["rle"] == o["rle"] else f"rle model={m['rle'][:8]} impl={o['rle'][:8]}"
    if k == "brle_dense":
        return None if m["brle"] == o["brle"] else f"brle model={m['brle'][:8]} impl={o['brle'][:8]}"
    if k == "binvox":
        return None if m["body"] == o["body"] else f"binvox body model={m['body'][:6]} impl={o['body'][:6]}"
    if k in ("rle_ops", "brle_ops"):
        for op, v in o.items():
            mv = m.get(op)
            if op == "strip":
                if isinstance(v, dict) and "err" in v:
                    continue
                if m["strip"] != v["data"] or m["pad"] != v["pad"]:
                    return f"strip model={m['strip']},{m['pad']} impl={v}"
                continue
            if isinstance(v, dict) and "err" in v:
                if not (isinstance(mv, dict) and "err" in mv):
                    return f"{op}: impl raised {v['err']}, model returned {mv}"
                continue
            if isinstance(mv, dict) and "err" in mv:
                return f"{op}: model error, impl returned {str(v)[:80]}"
            if mv != v:
                return f"{op}: model={str(mv)[:120]} impl={str(v)[:120]}"
    return None


def nontrivial(c, o):
    k = c["kind"]
    if k in ("rle_dense", "brle_dense"):
        return len(c["runs"]) >= 2
    if k == "rle_ops":
        return len([1 for _, n in c["rle"] if n]) >= 2
    if k == "brle_ops":
        return len([1 for n in c["brle"] if n]) >= 2
    return True


def translate(ctx):
    """by ast from voxel/ops.py: the in-place arithmetic `points_to_indices` / `indices_to_points` apply to the
    points, in order, and the rounding expression of `points_to_indices`"""
    import ast
    import os
    tree = ast.parse(open(os.path.join(common.REPO, "trimesh/voxel/ops.py")).read())
    out = {}
    for name in ("points_to_indices", "indices_to_points"):
        fn = next((f for f in tree.body if isinstance(f, ast.FunctionDef) and f.name == name), None)
        if fn is None:
            raise common.Broken("translate", f"voxel/ops.py: {name} not found")
        ops, final = [], None

        def visit(stmts, guard):
            nonlocal final
            for st in stmts:
                if isinstance(st, ast.If):
                    visit(st.body, ast.unparse(st.test))
                    visit(st.orelse, "not " + ast.unparse(st.test))
                elif isinstance(st, ast.AugAssign) and ast.unparse(st.target) == "points":
                    op = {ast.Sub: "-=", ast.Add: "+=", ast.Mult: "*=", ast.Div: "/="}.get(type(st.op))
                    val = ast.unparse(st.value).replace("float(pitch)", "pitch")
                    ops.append(f"{op} {val} | {guard}")
                elif isinstance(st, ast.Assign) and ast.unparse(st.targets[0]) == "points" and ops:
                    ops.append("reassigned: " + ast.unparse(st.value))
                elif isinstance(st, ast.Assign) and ast.unparse(st.targets[0]) == "indices" and "points" in ast.unparse(st.value):
                    final = ast.unparse(st.value)
        visit(fn.body, "always")
        out[name] = (ops, final)
    q = lambda s_: '"' + s_.replace('"', "'") + '"'
    L = ["-- GENERATED by harness/props/C13.py from /repo/trimesh/voxel/ops.py (ast) -- do not edit",
         "namespace TV.Generated.C13",
         "/-- in-place arithmetic on the points in `points_to_indices`, in order (operation | guard) -/",
         "def pointsToIndicesOps : List String := [" + ", ".join(q(o) for o in out["points_to_indices"][0]) + "]",
         "/-- the expression that turns the scaled points into indices -/",
         "def pointsToIndicesFinal : String := " + q(out["points_to_indices"][1] or "missing"),
         "/-- in-place arithmetic on the points in `indices_to_points`, in order -/",
         "def indicesToPointsOps : List String := [" + ", ".join(q(o) for o in out["indices_to_points"][0]) + "]",
         "end TV.Generated.C13"]
    return {"C13Table.lean": "\n".join(L) + "\n"}


def generated_obligations():
    return 1
