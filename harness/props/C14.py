"""C14 - paths rebuild the same regions from segments in any order (path/traversal.py, polygons.py, path.py, arc.py ...)."""
import math
from fractions import Fraction

import numpy as np

import common

LEVEL = "proof"
N_CASES = {"quick": 260, "thorough": 8000}
RULE = ("families of disjoint / nested simple closed curves: rectangles and convex / concave polygons (dyadic "
        "coordinates), circles and slots made of three-point arcs (control point anywhere on the arc, spans up to "
        "330 degrees), closed-circle entities; every curve split into 1-4 polylines / 2-4 arcs, each entity in "
        "either direction, entities shuffled; then (a) closed, path / body / polygon counts, nesting, area, "
        "length against the exact values, (b) a similarity (rotation, scale 0.5-3, optional mirror, translation) "
        "applied after reading a random subset of derived values, compared with s^2 / s scaling and with a "
        "freshly built path, (c) export to DXF / SVG / dict and re-import. The implementation's discretised "
        "loops and its entity walk (order + direction) are sent to the Lean model as exact rationals: loop "
        "areas, chaining, signed piece sums and arc centres must agree. non-trivial = at least two entities")
TRUSTED = ["networkx cycle search, shapely polygon validity / containment and the DXF / SVG text layers are exercised, "
           "not modelled", "arc discretisation: vertices must lie on the circle, area is bounded by the circle's"]
ASSUMPTIONS = ["curves of one family are disjoint (nested or side by side), never touching"]
EXPLANATION = "Lean theorems C14_* (shoelace under permutation / reversal / splitting / affine maps, arc centre) + differential run"

STATS = {}


def _st(k, n=1):
    STATS[k] = STATS.get(k, 0) + n


def rect(x0, y0, x1, y1):
    return {"t": "poly", "pts": [[x0, y0], [x1, y0], [x1, y1], [x0, y1]]}


def circle(cx, cy, r):
    return {"t": "circle", "c": [cx, cy], "r": r}


FAMILIES = {
    "rect": [rect(0, 0, 4, 3)],
    "rect_hole": [rect(0, 0, 10, 10), rect(2, 2, 4, 4)],
    "rect_two_holes": [rect(0, 0, 10, 10), rect(2, 2, 4, 4), rect(6, 6, 8, 9)],
    "nested3": [rect(0, 0, 10, 10), rect(1, 1, 9, 9), rect(3, 3, 5, 5)],
    "side_by_side": [rect(0, 0, 2, 2), rect(5, 0, 7, 2)],
    "pentagon": [{"t": "poly", "pts": [[0, 0], [4, 0], [5, 2], [2, 5], [-1, 2]]}],
    "concave": [{"t": "poly", "pts": [[0, 0], [6, 0], [6, 6], [3, 2], [0, 6]]}],
    "circle": [circle(1, 2, 1.5)],
    "circle_in_rect": [rect(-4, -4, 4, 4), circle(0.5, 0.25, 2)],
    "rect_in_circle": [circle(0, 0, 4), rect(-1, -1, 1, 1.5)],
    "annulus": [circle(0, 0, 3), circle(0, 0, 1.25)],
    "slot": [{"t": "slot", "c": [0, 0], "half": 2.0, "r": 1.0}],
    "nested4_mixed": [rect(-8, -8, 8, 8), circle(0, 0, 6), rect(-3, -3, 3, 3), circle(0, 0, 1)],
    # curves whose vertex cycle has only three nodes
    "triangle": [{"t": "poly", "pts": [[0, 0], [4, 0], [1, 3]]}],
    "triangle_hole": [rect(0, 0, 10, 10), {"t": "poly", "pts": [[2, 2], [6, 2], [3, 5]]}],
    "half_disc": [{"t": "halfdisc", "c": [1.0, -2.0], "r": 2.0}],
    "half_disc_in_rect": [rect(-5, -5, 5, 5), {"t": "halfdisc", "c": [0.0, 0.0], "r": 2.0}],
}


def _inside(a, b):
    return (a[0] > b[0]).all() and (a[1] < b[1]).all()


def _bbox(s):
    if s["t"] == "poly":
        p = np.array(s["pts"], float)
        return p.min(0), p.max(0)
    if s["t"] == "circle":
        c = np.array(s["c"], float)
        return c - s["r"], c + s["r"]
    if s["t"] == "halfdisc":
        c = np.array(s["c"], float)
        return c - [s["r"], 0.0], c + [s["r"], s["r"]]
    c = np.array(s["c"], float)
    return c - [s["half"] + s["r"], s["r"]], c + [s["half"] + s["r"], s["r"]]


def _exact(s):
    """(area, length, has_arcs) of one curve"""
    if s["t"] == "poly":
        p = np.array(s["pts"], float)
        a = 0.5 * abs(np.dot(p[:, 0], np.roll(p[:, 1], -1)) - np.dot(p[:, 1], np.roll(p[:, 0], -1)))
        return a, float(np.linalg.norm(p - np.roll(p, -1, axis=0), axis=1).sum()), False
    if s["t"] == "circle":
        return math.pi * s["r"] ** 2, 2 * math.pi * s["r"], True
    if s["t"] == "halfdisc":
        return math.pi * s["r"] ** 2 / 2, math.pi * s["r"] + 2 * s["r"], True
    return math.pi * s["r"] ** 2 + 4 * s["half"] * s["r"], 2 * math.pi * s["r"] + 4 * s["half"], True


def expected(fam):
    shapes = FAMILIES[fam]
    bb = [_bbox(s) for s in shapes]
    depth = [sum(_inside(bb[i], bb[j]) for j in range(len(shapes)) if j != i) for i in range(len(shapes))]
    area = sum(_exact(s)[0] * (1 if d % 2 == 0 else -1) for s, d in zip(shapes, depth))
    length = sum(_exact(s)[1] for s in shapes)
    shells = [i for i, d in enumerate(depth) if d % 2 == 0]
    # holes of a shell: curves directly inside it (depth + 1, contained)
    regions = []
    for i in shells:
        holes = [j for j in range(len(shapes)) if depth[j] == depth[i] + 1 and _inside(bb[j], bb[i])]
        regions.append(len(holes))
    return {"area": area, "length": length, "bodies": len(shells), "curves": len(shapes),
            "holes": sorted(regions), "arcs": any(_exact(s)[2] for s in shapes)}


def build(c):
    """the Path2D of a case: every curve split / reversed / shuffled as the case says"""
    import trimesh
    from trimesh.path.entities import Line, Arc
    verts, ents = [], []

    def add(p):
        verts.append([float(p[0]), float(p[1])])
        return len(verts) - 1
    for s, plan in zip(FAMILIES[c["family"]], c["plans"]):
        if s["t"] == "poly":
            n = len(s["pts"])
            base = [add(p) for p in s["pts"]]
            idx = base + [base[0]]
            bounds = [0] + plan["cuts"] + [n]
            for (a, b), rev in zip(zip(bounds[:-1], bounds[1:]), plan["rev"]):
                pts = idx[a:b + 1]
                ents.append(Line(points=pts[::-1] if rev else pts))
        elif s["t"] == "circle":
            cx, cy, r = s["c"][0], s["c"][1], s["r"]
            if plan.get("closed"):
                a0 = plan["angles"][0]
                ids = [add((cx + r * math.cos(a0 + t), cy + r * math.sin(a0 + t))) for t in (0, 2.0, 4.0)]
                ents.append(Arc(points=ids, closed=True))
                continue
            ang = plan["angles"]
            ends = [add((cx + r * math.cos(a), cy + r * math.sin(a))) for a in ang]
            k = len(ang)
            for i in range(k):
                a0, a1 = ang[i], ang[(i + 1) % k]
                if a1 <= a0:
                    a1 += 2 * math.pi
                am = a0 + plan["mid"][i] * (a1 - a0)
                mid = add((cx + r * math.cos(am), cy + r * math.sin(am)))
                pts = [ends[i], mid, ends[(i + 1) % k]]
                ents.append(Arc(points=pts[::-1] if plan["rev"][i] else pts))
        elif s["t"] == "halfdisc":
            # one three-point arc (upper half circle, control point anywhere on it) and its chord
            cx, cy, r = s["c"][0], s["c"][1], s["r"]
            a, b = add((cx + r, cy)), add((cx - r, cy))
            am = plan["mid"][0] * math.pi
            mid = add((cx + r * math.cos(am), cy + r * math.sin(am)))
            arc, chord = [a, mid, b], [b, a]
            ents.append(Arc(points=arc[::-1] if plan["rev"][0] else arc))
            ents.append(Line(points=chord[::-1] if plan["rev"][1] else chord))
        else:  # slot: two lines and two half-circle arcs
            cx, cy, h, r = s["c"][0], s["c"][1], s["half"], s["r"]
            p = [add(q) for q in ((cx - h, cy - r), (cx + h, cy - r), (cx + h, cy + r), (cx - h, cy + r))]
            m1 = add((cx + h + r * math.cos(plan["mid"][0] * math.pi - math.pi / 2), cy + r * math.sin(plan["mid"][0] * math.pi - math.pi / 2)))
            m2 = add((cx - h + r * math.cos(plan["mid"][1] * math.pi + math.pi / 2), cy + r * math.sin(plan["mid"][1] * math.pi + math.pi / 2)))
            raw = [("L", [p[0], p[1]]), ("A", [p[1], m1, p[2]]), ("L", [p[2], p[3]]), ("A", [p[3], m2, p[0]])]
            for (kind, pts), rev in zip(raw, plan["rev"]):
                pts = pts[::-1] if rev else pts
                ents.append(Line(points=pts) if kind == "L" else Arc(points=pts))
    order = c["order"]
    ents = [ents[i] for i in order]
    return trimesh.path.Path2D(entities=ents, vertices=np.array(verts, float), process=False)


def _n_entities(fam, plans):
    n = 0
    for s, plan in zip(FAMILIES[fam], plans):
        if s["t"] == "poly":
            n += len(plan["cuts"]) + 1
        elif s["t"] == "circle":
            n += 1 if plan.get("closed") else len(plan["angles"])
        elif s["t"] == "halfdisc":
            n += 2
        else:
            n += 4
    return n


def cases(ctx):
    rng = ctx.rng
    fams = sorted(FAMILIES)
    while True:
        fam = rng.choice(fams)
        plans = []
        for s in FAMILIES[fam]:
            if s["t"] == "poly":
                n = len(s["pts"])
                k = rng.randint(1, min(4, n))
                cuts = sorted(rng.sample(range(1, n), k - 1)) if k > 1 else []
                plans.append({"cuts": cuts, "rev": [rng.random() < 0.5 for _ in range(k)]})
            elif s["t"] == "circle":
                if rng.random() < 0.15:
                    plans.append({"closed": True, "angles": [rng.uniform(0, 6)]})
                    continue
                k = rng.randint(2, 4)
                # unequal spans: up to ~330 degrees for one arc
                w = [rng.choice([0.2, 1, 1, 3, 6]) for _ in range(k)]
                tot = sum(w)
                a0 = rng.uniform(0, 1)
                ang, acc = [], 0.0
                for x in w:
                    ang.append(a0 + 2 * math.pi * acc / tot)
                    acc += x
                plans.append({"angles": ang, "mid": [rng.choice([0.5, 0.5, 0.08, 0.92, 0.3]) for _ in range(k)],
                              "rev": [rng.random() < 0.5 for _ in range(k)]})
            elif s["t"] == "halfdisc":
                plans.append({"mid": [rng.choice([0.5, 0.15, 0.85])], "rev": [rng.random() < 0.5 for _ in range(2)]})
            else:
                plans.append({"mid": [rng.choice([0.5, 0.2, 0.8]) for _ in range(2)], "rev": [rng.random() < 0.5 for _ in range(4)]})
        n = _n_entities(fam, plans)
        order = list(range(n))
        rng.shuffle(order)
        th = rng.choice([0.0, 0.3, -1.2, 2.5, math.pi / 2])
        c = {"family": fam, "plans": plans, "order": order,
             "reads": sorted(rng.sample(["discrete", "polygons_full", "area", "paths", "enclosure_directed", "length", "bounds", "polygons_closed"],
                                        rng.randint(0, 5))),
             "T": {"theta": th, "scale": rng.choice([0.5, 1.0, 2.0, 3.0]), "mirror": rng.random() < 0.3,
                   "offset": [rng.choice([0, 1.5, -4.25]), rng.choice([0, 2.0, 7.5])]},
             "via": rng.choice(["apply_transform", "apply_transform", "apply_scale", "apply_translation"])}
        ctx.count("family:" + fam)
        ctx.count("entities:%d" % min(n, 8))
        yield c


def _matrix(T):
    from trimesh import transformations as tf
    M = tf.planar_matrix(offset=T["offset"], theta=T["theta"])
    S = np.diag([T["scale"], T["scale"], 1.0])
    if T["mirror"]:
        S = S @ np.diag([-1.0, 1.0, 1.0])
    return M @ S


def _measure(p):
    polys = p.polygons_full
    return {"closed": bool(p.is_closed), "n_paths": len(p.paths), "bodies": int(p.body_count),
            "n_full": len(polys), "area": float(p.area), "length": float(p.length),
            "holes": sorted(len(g.interiors) for g in polys)}


def _walk(p):
    """per path: the entities in walk order as (stored polyline points, reversed?) for polyline-only paths"""
    out = []
    for path in p.paths:
        es = []
        ok = True
        pts_prev_end = None
        seq = [p.entities[i] for i in path]
        if not all(type(e).__name__ == "Line" for e in seq):
            out.append(None)
            continue
        # orientation: choose flags so that consecutive entities chain (first entity by looking at the second)
        ends = [(int(e.points[0]), int(e.points[-1])) for e in seq]
        flags = []
        for i, (a, b) in enumerate(ends):
            if len(seq) == 1:
                flags.append(False)
            elif i == 0:
                nxt = ends[1]
                flags.append(not (b in nxt))
            else:
                prev_end = ends[i - 1][0] if flags[i - 1] else ends[i - 1][1]
                flags.append(a != prev_end)
        for e, f in zip(seq, flags):
            es.append([[[float(x) for x in p.vertices[j]] for j in e.points], bool(f)])
        out.append(es)
    return out


def run_case(c):
    import trimesh
    p = build(c)
    o = {"n_entities": len(p.entities)}
    o["m0"] = _measure(p)
    o["discrete0"] = [np.array(d).tolist() for d in p.discrete]
    o["poly_areas0"] = [float(g.area) for g in p.polygons_closed]
    o["walk"] = _walk(p)
    # shells and holes: the containment matrix of the closed polygons (as shapely decides it), the roots and the
    # root -> hole edges the library reports
    try:
        polys = list(p.polygons_closed)
        if all(g is not None for g in polys) and len(polys) <= 12:
            o["contains"] = [[bool(i != j and polys[i].contains(polys[j])) for j in range(len(polys))] for i in range(len(polys))]
            o["roots"] = sorted(int(x) for x in p.root)
            o["shell_edges"] = sorted([int(a), int(b)] for a, b in p.enclosure_directed.edges())
    except Exception as e_:
        o["enclosure_err"] = repr(e_)[:200]
    # arcs: centre / radius as computed by the library for every arc entity
    arcs = []
    for e in p.entities:
        if type(e).__name__ == "Arc":
            ctr = e.center(p.vertices)
            arcs.append({"pts": p.vertices[e.points].tolist(), "center": np.array(ctr.center).tolist(), "radius": float(ctr.radius)})
    o["arcs"] = arcs
    # vertices of discretised arcs must lie on their circle
    off = 0.0
    for s in FAMILIES[c["family"]]:
        if s["t"] == "circle":
            ctr, r = np.array(s["c"], float), s["r"]
            for d in p.discrete:
                d = np.array(d)
                rr = np.linalg.norm(d - ctr, axis=1)
                if abs(rr.mean() - r) < 0.2 * r and np.ptp(rr) < 0.2 * r:
                    off = max(off, float(np.abs(rr - r).max()))
    o["off_circle"] = off
    # transform after reading derived values
    q = build(c)
    for name in c["reads"]:
        getattr(q, name)
    T = c["T"]
    M = _matrix(T)
    if c["via"] == "apply_scale":
        q.apply_scale(T["scale"])
        Meff, s, det_sign = np.diag([T["scale"], T["scale"], 1.0]), T["scale"], 1
    elif c["via"] == "apply_translation":
        q.apply_translation(T["offset"])
        Meff, s, det_sign = np.eye(3), 1.0, 1
        Meff[:2, 2] = T["offset"]
    else:
        q.apply_transform(M)
        Meff, s = M, T["scale"]
    o["scale"] = s
    o["m1"] = _measure(q)
    fresh = trimesh.path.Path2D(entities=[e.copy() for e in q.entities], vertices=np.array(q.vertices), process=False)
    o["m1_fresh"] = _measure(fresh)
    exp_v = (np.c_[np.array(build(c).vertices), np.ones(len(q.vertices))] @ Meff.T)[:, :2]
    o["vertices_moved_ok"] = bool(np.allclose(q.vertices, exp_v, atol=1e-9))
    o["poly_bounds1"] = sorted(np.round(np.array(g.bounds), 6).tolist() for g in q.polygons_full)
    o["poly_bounds1_fresh"] = sorted(np.round(np.array(g.bounds), 6).tolist() for g in fresh.polygons_full)
    # export / re-import
    rt = {}
    for ft in ("dxf", "svg", "dict"):
        try:
            ex = p.export(file_type=ft)
            if ft == "dict":
                from trimesh.path.exchange.misc import dict_to_path
                r = trimesh.path.Path2D(**dict_to_path(ex))
            else:
                r = trimesh.load_path(trimesh.util.wrap_as_stream(ex), file_type=ft)
            rt[ft] = _measure(r)
        except Exception as e:
            rt[ft] = {"err": common.err_kind(e)}
    o["roundtrip"] = rt
    return o


def oracle(c, o):
    if "err" in o:
        return {"fail": "raised", "err": o["err"], "family": c["family"]}
    E = expected(c["family"])
    sigs = []

    def bad(what, **kw):
        d = {"check": what, "arcs": E["arcs"]}
        d.update(kw)
        sigs.append(d)

    def judge(m, area, length, stage, atol=1e-9):
        if not m["closed"]:
            return bad("not-closed", stage=stage)
        if m["n_paths"] != E["curves"]:
            return bad("number-of-closed-curves", stage=stage)
        if m["bodies"] != E["bodies"] or m["n_full"] != E["bodies"]:
            return bad("number-of-regions", stage=stage)
        if m["holes"] != E["holes"]:
            return bad("nesting-of-shells-and-holes", stage=stage)
        if E["arcs"]:
            # discretised arcs: inscribed polygons, so a little less than the smooth value (holes the other way)
            if abs(m["area"] - area) > 0.02 * abs(area):
                return bad("area", stage=stage)
        elif abs(m["area"] - area) > atol * max(1, abs(area)):
            return bad("area", stage=stage)
        if abs(m["length"] - length) > max(atol, 1e-9) * max(1, length):
            return bad("length", stage=stage)
    judge(o["m0"], E["area"], E["length"], "built")
    if o["off_circle"] > 1e-9:
        bad("discretised-arc-vertex-off-the-circle")
    s = o["scale"]
    if not o["vertices_moved_ok"]:
        bad("transform-moved-vertices-wrongly", via=c["via"])
    judge(o["m1"], E["area"] * s * s, E["length"] * s, "transformed", atol=1e-7)
    m1, mf = o["m1"], o["m1_fresh"]
    if abs(m1["area"] - mf["area"]) > 1e-7 * max(1, abs(mf["area"])) or abs(m1["length"] - mf["length"]) > 1e-7 * max(1, mf["length"]) \
            or m1["holes"] != mf["holes"] or not np.allclose(o["poly_bounds1"], o["poly_bounds1_fresh"], atol=1e-5):
        bad("values-after-transform-differ-from-a-fresh-path", reads=bool(c["reads"]), via=c["via"])
    # the same drawing whatever was cached: area exactly s^2 times the built one (also with arcs)
    if abs(m1["area"] - o["m0"]["area"] * s * s) > 1e-7 * max(1, abs(m1["area"])):
        bad("area-does-not-scale-with-s2", reads=bool(c["reads"]), via=c["via"])
    for ft, m in o["roundtrip"].items():
        if "err" in m:
            bad("reimport-raised", fmt=ft, err=m["err"])
            continue
        m0 = o["m0"]
        if m["n_full"] != m0["n_full"] or m["holes"] != m0["holes"] or not m["closed"] or \
                abs(m["area"] - m0["area"]) > 1e-4 * max(1, abs(m0["area"])) or \
                abs(m["length"] - m0["length"]) > 1e-4 * max(1, m0["length"]):
            bad("reimport-changed-the-regions", fmt=ft)
    return sigs or None


def _q(x):
    n, d = float(x).as_integer_ratio()
    return [n, d]


def model_request(c, o):
    if "err" in o:
        return None
    loops = []
    for d in o["discrete0"]:
        d = [list(p) for p in d]
        if d[0] != d[-1] and max(abs(a - b) for a, b in zip(d[0], d[-1])) < 1e-9:
            d[-1] = d[0]          # a full circle comes back to its start up to rounding of cos / sin
        loops.append([[_q(x) for x in p] for p in d])
    pieces = [[[[[_q(x) for x in p] for p in pts], rev] for pts, rev in w] for w in o["walk"] if w is not None]
    req = {"p": "C14", "op": "loops", "loops": loops, "pieces": pieces,
           "arcs": [[[_q(x) for x in p] for p in a["pts"]] for a in o["arcs"]]}
    if "contains" in o:
        req["contains"] = o["contains"]
    return req


def compare(c, o, m):
    if "err" in m:
        return "model error: " + str(m["err"])
    if "err" in o:
        return None

    def f(q):
        return float(Fraction(q[0], q[1]))
    if "contains" in o:
        en = m["enclosure"]
        if not en["laminar"]:
            return "containment of the closed polygons is not a laminar strict order (nested / disjoint curves expected)"
        if sorted(en["roots"]) != o["roots"]:
            return f"roots (shells): impl={o['roots']} model={sorted(en['roots'])}"
        if sorted(en["edges"]) != o["shell_edges"]:
            return f"shell -> hole edges: impl={o['shell_edges']} model={sorted(en['edges'])}"
        STATS["enclosures_compared"] = STATS.get("enclosures_compared", 0) + 1
    for a, mc in zip(o["arcs"], m["arc_centers"]):
        if mc is None:
            return "arc centre: the model finds the control points collinear"
        ctr = [f(x) for x in mc[0]]
        if max(abs(x - y) for x, y in zip(ctr, a["center"])) > 1e-9 * max(1.0, a["radius"]) or \
                abs(math.sqrt(f(mc[1])) - a["radius"]) > 1e-9 * max(1.0, a["radius"]):
            return f"arc centre / radius: model {ctr} {math.sqrt(f(mc[1]))} impl {a['center']} {a['radius']}"
    if not all(m["closed"]):
        return "a discretised loop is not closed"
    got = sorted(abs(f(a)) / 2 for a in m["area2"])
    want = sorted(o["poly_areas0"])
    if len(got) != len(want) or any(abs(a - b) > 1e-9 * max(1, b) for a, b in zip(got, want)):
        return f"loop areas: model {got} impl {want}"
    if not all(m["pieces_chained"]):
        return "the entity walk reported by `paths` does not chain"
    walked = [w for w in o["walk"] if w is not None]
    for a, b in zip(m["pieces_area2"], m["pieces_signed_sum"]):
        if a != b:
            return "joined loop area differs from the signed sum of its pieces"
    pa = sorted(abs(f(a)) / 2 for a in m["pieces_area2"])
    if walked and not E_arcs(c):
        if any(abs(a - b) > 1e-9 * max(1, b) for a, b in zip(pa, want)):
            return f"areas from the entity walk {pa} differ from polygons_closed {want}"
    return None


def E_arcs(c):
    return expected(c["family"])["arcs"]


def nontrivial(c, o):
    return "err" not in o and o.get("n_entities", 0) >= 2


# ------------------------------------------------------------------ (G) the arc centre traced from the source

def translate(ctx):
    from translate import trace_arc
    nx, ny, d = trace_arc.trace()
    args = " ".join(trace_arc.ARGS)
    L = ["-- GENERATED by harness/props/C14.py: symbolic trace of /repo/trimesh/path/arc.py::arc_center (2D) -- do not edit",
         "import Mathlib.Algebra.Field.Basic", "namespace TV.Generated.C14", "variable {K : Type} [Field K]", "",
         "/-- numerator of the x coordinate of the centre -/", f"def centerNumX ({args} : K) : K :=\n  {nx.lean()}\n",
         "/-- numerator of the y coordinate of the centre -/", f"def centerNumY ({args} : K) : K :=\n  {ny.lean()}\n",
         "/-- common denominator -/", f"def centerDen ({args} : K) : K :=\n  {d.lean()}\n",
         "end TV.Generated.C14"]
    return {"C14Arc.lean": "\n".join(L) + "\n"}


def generated_obligations():
    return 1
