"""C16 - convex hulls and bounding volumes contain what they bound (convex.py, bounds.py, nsphere.py, parent.py)."""
import itertools
import math
from fractions import Fraction

import numpy as np

import common

LEVEL = "proof"
N_CASES = {"quick": 150, "thorough": 5000}
RULE = ("point sets: gaussian clouds (5-60 points), integer lattices (coplanar / cocircular ties), clusters with "
        "spread 1e-2 ... 1e-5 of the extent, flat-ish clouds, clouds scaled by 1e-3 ... 1e5, clouds far from the "
        "origin, points on a sphere, cylinder vertices, elongated clouds; as PointCloud, as the hull mesh, and as a "
        "non-convex mesh (torus, L-shaped union); randomly rotated / translated. Queries: convex_hull, bounds, "
        "bounding_box_oriented, oriented_bounds (ordered / unordered, given normal, angle_digits), apply_obb (with "
        "and without normal), bounding_sphere / minimum_nsphere, bounding_cylinder; oriented_bounds_2D on planar clouds "
        "(rigid, tight, centred, not larger than the axis-aligned box: Python oracle only). Every 3D output is converted to "
        "exact rationals and judged by the Lean checkers of Model/Bounds.lean (hullCheck, aabbCheck, obbCheck, "
        "sphereCheck + minimality certificate, cylCheck). non-trivial = the checker ran on a real output")
TRUSTED = ["qhull / scipy optimisers are not modelled: each output is certified per run by the proved checker",
           "the minimality certificate (support points + weights) is found by scipy nnls in the harness; only an "
           "accepted certificate is a proof of minimality, a missing one is reported as 'not shown minimal'",
           "float64 -> rational conversion by float.as_integer_ratio"]
ASSUMPTIONS = ["tolerances: hull planes 1e-9, rigidity 1e-9, box / sphere 1e-6, cylinder 1e-5, each times the scale "
               "of the coordinates; sphere minimality is judged only for gaussian clouds (general position)",
               "a vertex no face uses counts as part of the geometry for the hull and the volumes built on it (they are computed "
               "from all vertices); Trimesh.bounds is documented as the bounds of the faces, so axis-aligned queries are not "
               "judged on meshes with such a vertex"]
EXPLANATION = "Lean theorems C16_* (checker soundness, convexity, minimality certificate) + checkers run on real outputs"

STATS = {}


def _st(k, n=1):
    STATS[k] = STATS.get(k, 0) + n


KINDS = ["random", "lattice", "cluster", "flat", "scaled", "far", "sphere", "cyl", "long", "torus", "ell", "dented", "loose"]
QUERIES = ["hull", "aabb", "obb", "obb_opts", "apply_obb", "sphere", "cylinder"]


def cloud(kind, seed, spread=None):
    import trimesh
    g = np.random.default_rng(seed)
    if kind == "random":
        return g.normal(size=(int(g.integers(5, 60)), 3))
    if kind == "lattice":
        n = int(g.integers(2, 4))
        return np.array(list(itertools.product(range(n), repeat=3)), float) * g.choice([1.0, 0.5, 3.0])
    if kind == "cluster":
        spread = spread or 10.0 ** -int(g.integers(2, 6))
        return np.vstack([g.normal(size=(12, 3)) * spread + c for c in g.normal(size=(4, 3))])
    if kind == "flat":
        return g.normal(size=(40, 3)) * [1, 1, 1e-3]
    if kind == "scaled":
        return g.normal(size=(30, 3)) * 10.0 ** int(g.integers(-3, 6))
    if kind == "far":
        return g.normal(size=(30, 3)) + np.array([1e5, -2e5, 3e5])
    if kind == "sphere":
        return trimesh.creation.icosphere(subdivisions=1).vertices * g.uniform(.5, 3) + g.normal(size=3)
    if kind == "cyl":
        return np.array(trimesh.creation.cylinder(radius=1, height=3, sections=12).vertices)
    if kind == "long":
        return g.normal(size=(25, 3)) * [6, 1, 0.5] + g.normal(size=3) * 3
    raise KeyError(kind)


def geometry(c):
    """the geometry object of a case and the points it must bound"""
    import trimesh
    from trimesh import transformations as tf
    g = np.random.default_rng(c["seed"] + 7)
    if c["cloud"] in ("dented", "loose"):
        # meshes that pass the tolerance test `is_convex` without being their own hull: a subdivided box with one
        # vertex inside a face pushed in by a few millionths of its size, and a box carrying a vertex no face uses
        box = trimesh.creation.box(extents=np.array([2.0, 1.0, 3.0]) * float(g.choice([1.0, 1e-2, 40.0])))
        if c["cloud"] == "dented":
            box = box.subdivide().subdivide()
            V = np.array(box.vertices)
            ext = box.extents
            inside = np.nonzero((np.abs(np.abs(V) - ext / 2) < 1e-12 * ext.max()).sum(axis=1) == 1)[0]
            k_ = int(inside[int(g.integers(len(inside)))])
            V[k_] -= np.sign(V[k_]) * (np.abs(np.abs(V[k_]) - ext / 2) < 1e-12 * ext.max()) * 5e-6 * ext.max()
            geom = trimesh.Trimesh(V, np.array(box.faces), process=False)
        else:
            V = np.vstack([np.array(box.vertices), box.extents * [1.5, 0.1, -0.2]])
            geom = trimesh.Trimesh(V, np.array(box.faces), process=False)
    elif c["cloud"] in ("torus", "ell"):
        from props import C03
        if c["cloud"] == "torus":
            V, F = C03._torus_blocks()
        else:
            V, F = C03._merge([C03._box((0, 0, 0), (2, 1, 1)), C03._box((0, 1, 0), (1, 2, 1))])
        geom = trimesh.Trimesh(np.array(V, float), np.array(F), process=False)
    else:
        P = cloud(c["cloud"], c["seed"], c.get("spread"))
        geom = trimesh.PointCloud(P)
    if c.get("move"):
        T = tf.random_rotation_matrix(rand=g.uniform(size=3))
        T[:3, 3] = g.normal(size=3) * 3
        geom.apply_transform(T)
    if c.get("as") == "hullmesh" and isinstance(geom, trimesh.PointCloud):
        h = geom.convex_hull
        geom = trimesh.Trimesh(np.array(h.vertices), np.array(h.faces), process=False)
    # history on the same object: another bounding query first (they share the cached hull), then possibly a
    # mirror placement, and only then the query that is judged
    if c.get("before"):
        _ = getattr(geom, {"sphere": "bounding_sphere", "hull": "convex_hull", "obb": "bounding_box_oriented",
                           "cyl": "bounding_cylinder"}[c["before"]])
    if c.get("edit"):
        # after that query some points are moved in place (out of the old hull) and the geometry is translated, with
        # nothing read in between: the volumes asked for next must bound the points as they are now
        ext_ = float(np.ptp(np.array(geom.vertices), axis=0).max())
        for i_ in (0, len(geom.vertices) // 2):
            geom.vertices[i_] = np.array(geom.vertices[i_]) + np.array([1.5, -2.0, 2.5]) * ext_
        geom.apply_translation(np.array([0.5, -1.0, 2.0]) * ext_)
    if c.get("mirror"):
        M = np.diag([1.0, 1.0, -1.0, 1.0])
        M[:3, 3] = [0.5, -1.0, 2.0]
        geom.apply_transform(M)
    return geom, np.array(geom.vertices, dtype=np.float64)


def cases(ctx):
    rng = ctx.rng
    # every kind of point set through the hull checker once; clusters at every spread (qhull's repair path)
    for kind in KINDS:
        yield {"cloud": kind, "seed": 11, "query": "hull", "move": False, "as": "cloud"}
    for kind in ("random", "torus", "long"):
        for q in ("hull", "obb", "cylinder", "sphere"):
            for asx in ("cloud", "hullmesh"):
                yield {"cloud": kind, "seed": 12, "query": q, "move": True, "as": asx, "before": "sphere", "mirror": False}
                yield {"cloud": kind, "seed": 12, "query": q, "move": True, "as": asx, "before": "hull", "mirror": True}
    for kind in ("random", "long", "torus"):
        for q in ("hull", "obb", "cylinder", "sphere"):
            for bf in ("hull", "sphere", "obb"):
                yield {"cloud": kind, "seed": 41, "query": q, "move": False, "as": "cloud", "before": bf, "edit": True, "mirror": False}
    for kind in ("dented", "loose"):
        for q in ("hull", "obb", "cylinder", "sphere"):
            for mv in (False, True):
                yield {"cloud": kind, "seed": 31, "query": q, "move": mv, "as": "cloud", "before": None, "mirror": False}
    for k in range(2, 7):
        for mv in (False, True):
            yield {"cloud": "cluster", "seed": 20 + k, "query": "hull", "move": mv, "as": "cloud", "spread": 10.0 ** -k}
    for nrm in ([0, 0, 1], [1, 2, 3]):
        for kind in ("random", "far", "torus"):
            yield {"cloud": kind, "seed": 5, "query": "apply_obb", "move": True, "as": "cloud", "normal": nrm}
            yield {"cloud": kind, "seed": 5, "query": "obb_opts", "move": True, "as": "cloud", "normal": nrm,
                   "ordered": True, "angle_digits": 1}
    for kind2 in ("random", "lattice", "circle", "long", "far"):
        yield {"cloud": kind2, "seed": 3, "query": "obb2d", "move": False, "as": "cloud"}
    while True:
        if rng.random() < 0.12:
            ctx.count("query:obb2d")
            yield {"cloud": rng.choice(["random", "lattice", "circle", "long", "far", "cluster2"]), "seed": rng.randrange(10 ** 6),
                   "query": "obb2d", "move": False, "as": "cloud"}
            continue
        kind = rng.choice(KINDS)
        q = rng.choice(QUERIES)
        if kind == "loose" and q in ("aabb", "apply_obb"):
            # `Trimesh.bounds` is documented as the bounds of the faces: a vertex no face uses is outside its contract
            q = "hull"
        c = {"cloud": kind, "seed": rng.randrange(10 ** 6), "query": q, "move": rng.random() < 0.5,
             "as": rng.choice(["cloud", "hullmesh"]), "before": rng.choice([None, None, "sphere", "hull", "obb", "cyl"]),
             "mirror": rng.random() < 0.25, "edit": rng.random() < 0.2}
        if q == "obb_opts":
            c["ordered"] = rng.random() < 0.5
            c["angle_digits"] = rng.choice([1, 2, 0])
            c["normal"] = rng.choice([None, [0, 0, 1], [1, 1, 0], [0.3, -0.5, 0.8]])
        if q == "apply_obb":
            c["normal"] = rng.choice([None, None, [0, 0, 1], [1, 2, 3]])
        ctx.count("query:" + q)
        ctx.count("cloud:" + kind)
        yield c


def cloud2d(kind, seed):
    g = np.random.default_rng(seed)
    if kind == "random":
        return g.normal(size=(int(g.integers(4, 40)), 2))
    if kind == "lattice":
        n = int(g.integers(2, 5))
        return np.array(list(itertools.product(range(n), range(n + 1))), float) @ np.array([[0.8, 0.6], [-0.6, 0.8]])
    if kind == "circle":
        a = np.linspace(0, 2 * np.pi, 17)[:-1]
        return np.c_[np.cos(a), np.sin(a)] * g.uniform(0.5, 3) + g.normal(size=2)
    if kind == "long":
        return g.normal(size=(25, 2)) * [7, 0.3] @ np.array([[0.6, 0.8], [-0.8, 0.6]]) + g.normal(size=2) * 4
    if kind == "far":
        return g.normal(size=(20, 2)) + [1e5, -3e5]
    return np.vstack([g.normal(size=(8, 2)) * 1e-4 + c for c in g.normal(size=(4, 2))])


def run_case(c):
    import trimesh
    from trimesh import bounds, nsphere
    if c["query"] == "obb2d":
        P = cloud2d(c["cloud"], c["seed"])
        T, rect = bounds.oriented_bounds_2D(P)
        Q = (np.c_[P, np.ones(len(P))] @ np.array(T).T)[:, :2]
        R = np.array(T)[:2, :2]
        return {"n": len(P), "span": float(np.ptp(P, axis=0).max()), "mag": float(np.abs(P).max()),
                "rigid": float(np.abs(R @ R.T - np.eye(2)).max()), "det": float(np.linalg.det(R)),
                "last_row": np.array(T)[2].tolist(), "rect": np.array(rect).tolist(), "T2": np.array(T).tolist(),
                "excess": float((np.abs(Q) - np.array(rect) / 2).max()),
                "slack": (np.array(rect) / 2 - np.abs(Q).max(axis=0)).tolist(),
                "center": ((Q.max(axis=0) + Q.min(axis=0)) / 2).tolist(),
                "axis_area": float(np.prod(np.ptp(P, axis=0)))}
    geom, P = geometry(c)
    q = c["query"]
    span = float(np.ptp(P, axis=0).max())
    o = {"n": len(P), "span": span, "mag": float(np.abs(P).max())}
    if q == "hull":
        h = geom.convex_hull
        o["hv"] = np.array(h.vertices).tolist()
        o["hf"] = np.array(h.faces).tolist()
        o["is_convex"] = bool(h.is_convex)
        o["is_watertight"] = bool(h.is_watertight)
    elif q == "aabb":
        b = geom.bounds
        o["lo"], o["hi"] = b[0].tolist(), b[1].tolist()
        bb = geom.bounding_box
        o["bb_extents"] = np.array(bb.primitive.extents).tolist()
        o["bb_center"] = np.array(bb.primitive.transform)[:3, 3].tolist()
    elif q == "obb":
        obb = geom.bounding_box_oriented
        T = np.linalg.inv(np.array(obb.primitive.transform))
        o["T"], o["extents"] = T.tolist(), np.array(obb.primitive.extents).tolist()
        o["prim_T"] = np.array(obb.primitive.transform).tolist()
    elif q == "obb_opts":
        kw = {"ordered": c["ordered"], "angle_digits": c["angle_digits"]}
        if c["normal"] is not None:
            kw["normal"] = np.array(c["normal"], float)
        T, ext = bounds.oriented_bounds(geom, **kw)
        o["T"], o["extents"] = np.array(T).tolist(), np.array(ext).tolist()
    elif q == "apply_obb":
        g2 = geom.copy()
        kw = {"normal": np.array(c["normal"], float)} if c["normal"] is not None else {}
        T = g2.apply_obb(**kw)
        o["T"] = np.array(T).tolist()
        o["after"] = np.array(g2.vertices).tolist()
        b = g2.bounds
        o["extents"] = (b[1] - b[0]).tolist()
        o["center_after"] = b.mean(axis=0).tolist()
    elif q == "sphere":
        s = geom.bounding_sphere
        o["center"] = np.array(s.primitive.center).tolist()
        o["radius"] = float(s.primitive.radius)
        c2, r2 = nsphere.minimum_nsphere(P)
        o["center2"], o["radius2"] = np.array(c2).tolist(), float(r2)
    elif q == "cylinder":
        cy = geom.bounding_cylinder
        M = np.array(cy.primitive.transform)
        o["center"] = M[:3, 3].tolist()
        o["axis"] = M[:3, 2].tolist()
        o["radius"], o["height"] = float(cy.primitive.radius), float(cy.primitive.height)
    return o


def oracle(c, o):
    if "err" in o:
        return {"query": c["query"], "fail": "raised", "err": o["err"], "cloud": c["cloud"]}
    if c["query"] == "obb2d":
        sc = max(o["span"], o["mag"] * 1e-6, 1e-300)

        def bad2(what):
            return {"query": "obb2d", "check": what, "cloud": c["cloud"]}
        if o["rigid"] > 1e-9 or abs(abs(o["det"]) - 1) > 1e-9 or o["last_row"] != [0.0, 0.0, 1.0]:
            return bad2("transform-not-rigid")
        if o["excess"] > 1e-6 * sc:
            return bad2("points-outside-the-reported-rectangle")
        if max(abs(x) for x in o["slack"]) > 1e-6 * sc or max(abs(x) for x in o["center"]) > 1e-6 * sc:
            return bad2("rectangle-not-tight-or-not-centred")
        if o["rect"][0] * o["rect"][1] > o["axis_area"] * (1 + 1e-9) + 1e-12:
            return bad2("rectangle-larger-than-the-axis-aligned-box")
        return None
    if c["query"] == "apply_obb":
        sc = max(o["span"], 1e-12)
        if max(abs(x) for x in o["center_after"]) > 1e-6 * max(sc, o["mag"] * 1e-3):
            return {"query": "apply_obb", "check": "geometry-not-centred-at-origin", "normal": c["normal"] is not None}
    if c["query"] == "aabb":
        lo, hi = np.array(o["lo"]), np.array(o["hi"])
        if not np.allclose(o["bb_extents"], hi - lo, atol=1e-9 * max(1, o["mag"])) or \
                not np.allclose(o["bb_center"], (lo + hi) / 2, atol=1e-9 * max(1, o["mag"])):
            return {"query": "aabb", "check": "bounding_box-primitive-differs-from-bounds"}
    return None


def _q(x):
    n, d = float(x).as_integer_ratio()
    return [n, d]


def _qp(p):
    return [_q(x) for x in p]


def _certificate(P, c, r):
    """support points and convex weights certifying minimality (found numerically, checked exactly in Lean)"""
    from scipy.optimize import nnls
    d = np.linalg.norm(P - c, axis=1)
    sup = np.nonzero(d > r * (1 - 1e-7))[0][:12]
    if len(sup) == 0:
        return None
    Q = P[sup]
    big = 1e3
    A = np.vstack([(Q - c).T / max(r, 1e-300), big * np.ones(len(sup))])
    b = np.concatenate([np.zeros(3), [big]])
    w, _ = nnls(A, b)
    keep = w > 1e-12
    if not keep.any():
        return None
    Q, w = Q[keep], w[keep]
    fw = [Fraction(float(x)) for x in w]
    tot = sum(fw)
    fw = [x / tot for x in fw]
    cq = [Fraction(float(x)) for x in c]
    d2 = [sum((Fraction(float(a)) - b_) ** 2 for a, b_ in zip(q, cq)) for q in Q]
    delta = max(Fraction(0), Fraction(float(r)) ** 2 - min(d2))
    return {"weights": [[x.numerator, x.denominator] for x in fw], "support": [_qp(q) for q in Q],
            "delta": [delta.numerator, delta.denominator], "n_support": int(len(Q))}


def model_request(c, o):
    if "err" in o:
        return None
    if c["query"] == "obb2d":
        # the planar problem embedded in z = 0: the verified 3D box checker (C16_obb_contains) applies as it is
        P2 = cloud2d(c["cloud"], c["seed"])
        T = np.array(o["T2"])
        sgn = 1.0 if o["det"] > 0 else -1.0          # a mirrored planar frame is completed to a right-handed one
        sc = max(o["span"], o["mag"] * 1e-6, 1e-300)
        return {"p": "C16", "op": "obb", "points": [_qp([p[0], p[1], 0.0]) for p in P2],
                "rows": [_qp([T[0, 0], T[0, 1], 0.0]), _qp([T[1, 0], T[1, 1], 0.0]), _qp([0.0, 0.0, sgn])],
                "t": _qp([T[0, 2], T[1, 2], 0.0]), "extents": _qp([o["rect"][0], o["rect"][1], 0.0]),
                "eps": _q(1e-6 * max(sc, 1e-9))}
    geom, P = geometry(c)
    q = c["query"]
    sc = max(o["span"], o["mag"] * 1e-6, 1e-300)
    req = {"p": "C16", "points": [_qp(p) for p in P]}
    if q == "hull":
        req.update({"op": "hull", "hull_vertices": [_qp(p) for p in o["hv"]], "hull_faces": o["hf"],
                    "eps": _q(1e-9 * max(o["span"], o["mag"]))})
    elif q == "aabb":
        req.update({"op": "aabb", "lo": _qp(o["lo"]), "hi": _qp(o["hi"])})
    elif q in ("obb", "obb_opts", "apply_obb"):
        T = np.array(o["T"])
        # rigidity is judged at 1e-9, containment at 1e-6 of the scale: two requests folded into one by using the
        # larger tolerance for the box and checking rigidity separately in model_oracle
        req.update({"op": "obb", "rows": [_qp(r) for r in T[:3, :3]], "t": _qp(T[:3, 3]),
                    "extents": _qp(o["extents"]), "eps": _q(1e-6 * max(sc, 1e-9))})
    elif q == "sphere":
        req.update({"op": "sphere", "center": _qp(o["center"]), "radius": _q(o["radius"]),
                    "eps": _q(1e-6 * sc)})
        cert = _certificate(P, np.array(o["center"]), o["radius"])
        if cert:
            req.update({"weights": cert["weights"], "support": cert["support"], "delta": cert["delta"]})
    elif q == "cylinder":
        req.update({"op": "cylinder", "center": _qp(o["center"]), "axis": _qp(o["axis"]),
                    "radius": _q(o["radius"]), "height": _q(o["height"]), "eps": _q(1e-5 * sc)})
    return req


def model_oracle(c, o, m):
    if "err" in m:
        raise RuntimeError(m["err"])
    q = c["query"]
    _st("checked:" + q)

    def bad(what, **kw):
        d = {"query": q, "check": what, "cloud": c["cloud"]}
        d.update(kw)
        return d
    if q == "obb2d":
        if not m["rigid"]:
            return bad("transform-not-rigid")
        if not m["inside"]:
            return bad("points-outside-the-reported-rectangle")
        return None
    if q == "hull":
        if not m["ok"]:
            why = [k for k in ("indexed", "vertices_are_inputs", "all_below", "watertight", "winding", "volume_positive")
                   if not m[k]]
            return bad("hull-rejected-by-checker", failed=why)
        if not o["is_convex"] or not o["is_watertight"]:
            return bad("hull-reports-itself-not-convex-or-open")
        return None
    if q == "aabb":
        return None if m["ok"] else bad("bounds-not-exact")
    if q in ("obb", "obb_opts", "apply_obb"):
        T = np.array(o["T"])
        R = T[:3, :3]
        if np.abs(R @ R.T - np.eye(3)).max() > 1e-9 or abs(np.linalg.det(R) - 1) > 1e-9 or not m["rigid"]:
            return bad("transform-not-rigid")
        if not m["inside"]:
            return bad("geometry-not-inside-reported-extents", normal=c.get("normal") is not None)
        return None
    if q == "sphere":
        if not m["ok"]:
            return bad("sphere-does-not-contain-the-points")
        if abs(o["radius"] - o["radius2"]) > 1e-9 * max(1, o["radius"]):
            return bad("bounding_sphere-differs-from-minimum_nsphere")
        if c["cloud"] in ("random", "long", "scaled", "far"):
            _st("minimality_judged")
            if m["minimal"]:
                _st("minimality_certified_in_lean")
            else:
                # no accepted certificate: find the true minimum ball by enumeration of support sets
                geom, P = geometry(c)
                tb = _min_ball(P)
                if tb is None:
                    _st("minimality_undecided")
                elif o["radius"] > tb[0] * (1 + 1e-7):
                    return bad("sphere-not-minimal", true_support=tb[1])
                else:
                    _st("minimal_but_certificate_not_found")
        return None
    if q == "cylinder":
        return None if m["ok"] else bad("cylinder-does-not-contain-the-points")
    return None


def _min_ball(P):
    """exact-enough minimum enclosing ball by enumerating support sets of 2, 3, 4 hull points:
    (radius, number of support points) or None when there are too many hull points"""
    from scipy.spatial import ConvexHull
    H = P[ConvexHull(P).vertices]
    if len(H) > 30:
        return None
    best = None

    def consider(ctr, k):
        nonlocal best
        r = float(np.linalg.norm(H - ctr, axis=1).max())
        rs = float(np.linalg.norm(sel - ctr, axis=1).min())
        if r <= rs * (1 + 1e-10) and (best is None or r < best[0] * (1 - 1e-12)):
            best = (r, k)
    for k in (2, 3, 4):
        for idx in itertools.combinations(range(len(H)), k):
            sel = H[list(idx)]
            a = sel[0]
            A = 2 * (sel[1:] - a)
            b = ((sel[1:] ** 2).sum(axis=1) - (a ** 2).sum())
            # centre = a + span(sel[1:] - a) combination: least-norm solution restricted to the affine hull
            B = sel[1:] - a
            try:
                lam = np.linalg.solve(A @ B.T, b - A @ a)
            except np.linalg.LinAlgError:
                continue
            consider(a + B.T @ lam, k)
        if best is not None:
            # a ball with fewer support points that already encloses everything is the minimum
            return best
    return best


def compare(c, o, m):
    return None


def nontrivial(c, o):
    return "err" not in o
