"""C17 - copies are faithful and share no mutable state with the original."""
import copy as pycopy

import numpy as np

import common

LEVEL = "proof"
N_CASES = {"quick": 500, "thorough": 20000}
RULE = ("geometry objects mesh (plain / face colours / vertex colours / texture / attributes / overrides), primitives "
        "(box, sphere, cylinder, capsule, extrusion with non-default sections / subdivisions), 2D and 3D paths, point "
        "cloud, scene (nested graph, instanced geometry, metadata, camera), voxel grid; states: values computed or "
        "not, edited in place before the copy; copy routes: .copy(), copy.copy, copy.deepcopy (+ include_cache); "
        "then (a) every public observable of the copy equals the original's, (b) the object graphs of the two are "
        "walked (numpy buffers by memory, dicts / lists by identity) and shipped to the Lean disjointness checker, "
        "(c) one of ~12 edits is applied to one side and every observable of the other is re-read. non-trivial = "
        "the object carries at least one optional datum (colours, attributes, metadata, parameters)")
TRUSTED = ["the object-graph walker (what counts as reachable mutable state: ndarray buffers, dict, list, set, "
           "bytearray and objects with __dict__ / __slots__)", "C-level state of rtree / embree objects is not walked"]
ASSUMPTIONS = ["read-only numpy arrays and immutable scalars / strings / tuples of those may be shared",
               "cached derived values (the _cache store; shared on purpose by copy.copy / include_cache=True) are "
               "results, not state: they are not part of the walked graph, staleness of such values is judged by the "
               "edit-and-reread step"]
EXPLANATION = "Lean frame theorem over a heap of cells + verified disjointness checker + edit-and-reread on real objects"

KINDS = ["mesh", "mesh_fcol", "mesh_vcol", "mesh_tex", "mesh_pbr", "mesh_attr", "mesh_over", "box", "sphere", "cylinder", "capsule",
         "extrusion", "path2d", "path3d", "points", "scene", "voxel"]
ROUTES = ["copy", "copy.copy", "deepcopy"]
EDITS = ["vertex_inplace", "vertex_assign", "face_inplace", "transform", "color_inplace", "metadata_nested", "metadata_key",
         "attribute_inplace", "param", "graph_update", "graph_remove_geom", "entity_inplace", "voxel_transform", "density",
         "generated_color_inplace"]


def cases(ctx):
    rng = ctx.rng
    for kind in KINDS:
        for route in ROUTES:
            yield {"kind": kind, "route": route, "computed": True, "pre_edit": False, "edit": "vertex_inplace",
                   "side": "copy", "seed": 1}
    for kind in KINDS:
        for seed in range(6):
            yield {"kind": kind, "route": ROUTES[seed % 3], "computed": True, "pre_edit": True, "edit": "vertex_inplace",
                   "side": "copy", "seed": seed}
    for kind in ("mesh", "mesh_fcol", "mesh_vcol"):
        for paint in ("vertex_after_face_read", "face_after_vertex_read", "vertex"):
            for route in ("copy", "deepcopy"):
                yield {"kind": kind, "route": route, "computed": False, "pre_edit": False, "edit": "color_inplace",
                       "side": "copy", "seed": 1, "paint": paint}
    # colours generated from the stored ones (or the defaults) are read before the copy, then one side paints into
    # the generated array in place: the other side's colours, colour kind and transparency must not change
    for kind in ("mesh", "mesh_fcol", "mesh_vcol", "box"):
        for route in ("copy", "deepcopy", "copy_cache"):
            for side in ("copy", "original"):
                yield {"kind": kind, "route": route, "computed": False, "pre_edit": False, "colors_read": True,
                       "edit": "generated_color_inplace", "side": side, "seed": 1}
    while True:
        kind = rng.choice(KINDS)
        ctx.count("kind:" + kind)
        yield {"kind": kind, "route": rng.choice(ROUTES + ["copy_cache"]), "computed": rng.random() < 0.6,
               "pre_edit": rng.random() < 0.3, "edit": rng.choice(EDITS), "side": rng.choice(["copy", "original"]),
               "seed": rng.randrange(10 ** 6), "colors_read": rng.random() < 0.4,
               "paint": rng.choice([None, None, "vertex_after_face_read", "face_after_vertex_read", "vertex"])}


# ------------------------------------------------------------------ building objects

def build(kind):
    import trimesh
    from trimesh.path.entities import Line, Arc
    if kind.startswith("mesh"):
        m = trimesh.creation.box(extents=[1, 2, 3])
        m = trimesh.Trimesh(np.array(m.vertices), np.array(m.faces), process=False)
        m.metadata["info"] = {"tags": ["a", "b"], "n": 1}
        if kind == "mesh_fcol":
            m.visual.face_colors = (np.arange(12)[:, None] * [3, 5, 7, 0] % 251 + [0, 0, 0, 255]).astype(np.uint8)
        elif kind == "mesh_vcol":
            m.visual.vertex_colors = (np.arange(8)[:, None] * [3, 5, 7, 0] % 251 + [0, 0, 0, 255]).astype(np.uint8)
        elif kind == "mesh_tex":
            from PIL import Image
            img = Image.fromarray((np.arange(48).reshape(4, 4, 3) * 5 % 255).astype(np.uint8))
            uv = np.array(m.vertices)[:, :2] / 3.0
            m.visual = trimesh.visual.TextureVisuals(uv=uv, image=img)
        elif kind == "mesh_pbr":
            from PIL import Image
            img = Image.fromarray((np.arange(48).reshape(4, 4, 3) * 7 % 255).astype(np.uint8))
            uv = np.array(m.vertices)[:, :2] / 3.0
            # boundary values: factors stored as exactly zero, a cut-off of zero, non-default flags
            mat = trimesh.visual.material.PBRMaterial(name="m0", baseColorTexture=img, metallicFactor=0.0, roughnessFactor=0.0,
                                                      alphaCutoff=0.0, doubleSided=True, emissiveFactor=[0.0, 0.5, 1.0],
                                                      baseColorFactor=[10, 20, 30, 255])
            m.visual = trimesh.visual.TextureVisuals(uv=uv, material=mat)
        elif kind == "mesh_attr":
            m.face_attributes["fa"] = np.arange(12) * 10
            m.vertex_attributes["va"] = np.arange(8) * 7.0
        elif kind == "mesh_over":
            m.density = 2.5
            m.center_mass = [0.1, 0.2, 0.3]
        return m
    if kind == "box":
        return trimesh.primitives.Box(extents=[1, 2, 3], transform=trimesh.transformations.translation_matrix([1, 0, 2]))
    if kind == "sphere":
        return trimesh.primitives.Sphere(radius=1.5, center=[1, 2, 3], subdivisions=2)
    if kind == "cylinder":
        return trimesh.primitives.Cylinder(radius=1.0, height=3.0, sections=7)
    if kind == "capsule":
        return trimesh.primitives.Capsule(radius=0.5, height=2.0, sections=9)
    if kind == "extrusion":
        from shapely.geometry import Polygon
        return trimesh.primitives.Extrusion(polygon=Polygon([(0, 0), (2, 0), (2, 1), (0, 1)]), height=1.5)
    if kind == "path2d":
        pts = np.array([[0, 0], [4, 0], [4, 2], [0, 2], [1, .5], [2, .5], [1, 1.5]], dtype=float)
        p = trimesh.path.Path2D(entities=[Line([0, 1, 2]), Line([2, 3, 0]), Line([4, 5, 6, 4])], vertices=pts, process=False)
        p.metadata["info"] = {"layer": ["x"]}
        return p
    if kind == "path3d":
        pts = np.array([[0, 0, 0], [4, 0, 1], [4, 2, 1], [0, 2, 0]], dtype=float)
        return trimesh.path.Path3D(entities=[Line([0, 1, 2]), Line([2, 3, 0])], vertices=pts, process=False)
    if kind == "points":
        return trimesh.PointCloud(np.arange(18, dtype=float).reshape(6, 3) % 5,
                                  colors=(np.arange(24).reshape(6, 4) * 9 % 255).astype(np.uint8))
    if kind == "scene":
        m = trimesh.creation.box()
        s = trimesh.Scene()
        s.add_geometry(m, node_name="n1", geom_name="g", transform=trimesh.transformations.translation_matrix([1, 0, 0]))
        s.add_geometry(m, node_name="n2", geom_name="g", parent_node_name="n1",
                       transform=trimesh.transformations.translation_matrix([0, 2, 0]))
        s.add_geometry(trimesh.creation.icosphere(subdivisions=1), node_name="n3", geom_name="h")
        s.metadata["info"] = {"tags": ["s"], "n": 2}
        return s
    if kind == "voxel":
        d = np.zeros((3, 3, 2), dtype=bool)
        d[0, 1, 1] = d[1, 2, 0] = d[2, 0, 0] = True
        return trimesh.voxel.VoxelGrid(d, transform=trimesh.transformations.scale_and_translate(2.0, [1, 0, 0]))
    raise ValueError(kind)


def compute(o, kind):
    try:
        if kind.startswith("mesh") or kind in ("box", "sphere", "cylinder", "capsule", "extrusion"):
            _ = o.volume, o.face_normals, o.bounds, o.area, o.edges_unique
        elif kind.startswith("path"):
            _ = o.length, o.bounds, o.paths
            if kind == "path2d":
                _ = o.area, o.polygons_full
        elif kind == "scene":
            _ = o.bounds, o.graph.to_flattened()
        elif kind == "voxel":
            _ = o.points, o.volume
        elif kind == "points":
            _ = o.bounds
    except Exception:
        pass


def do_copy(o, route):
    if route == "copy":
        return o.copy()
    if route == "copy_cache":
        try:
            return o.copy(include_cache=True)
        except TypeError:
            return o.copy()
    if route == "copy.copy":
        return pycopy.copy(o)
    return pycopy.deepcopy(o)


# ------------------------------------------------------------------ observables

def _arr(a):
    a = np.asarray(a)
    return [list(a.shape), str(a.dtype), np.round(a.astype(float), 9).reshape(-1).tolist()] if a.dtype != object else None


def observe(o, kind):
    """every public value the property speaks about, as plain JSON"""
    r = {"type": type(o).__name__}
    md = getattr(o, "metadata", None)
    r["metadata"] = common.jsonable({k: v for k, v in (md or {}).items() if k not in ("processed",)})
    if kind.startswith("mesh") or kind in ("box", "sphere", "cylinder", "capsule", "extrusion"):
        r["vertices"], r["faces"] = _arr(o.vertices), _arr(o.faces)
        r["volume"], r["area"] = round(float(o.volume), 9), round(float(o.area), 9)
        r["center_mass"] = _arr(o.center_mass)
        r["density"] = float(o.density)
        r["visual_kind"] = o.visual.kind
        if o.visual.kind == "face":
            r["colors"] = _arr(o.visual.face_colors)
        elif o.visual.kind == "vertex":
            r["colors"] = _arr(o.visual.vertex_colors)
        if o.visual.kind in (None, "face", "vertex") and hasattr(o.visual, "main_color"):
            # everything a colour visual reports, generated arrays included
            r["face_colors"], r["vertex_colors"] = _arr(o.visual.face_colors), _arr(o.visual.vertex_colors)
            r["main_color"], r["transparency"] = _arr(o.visual.main_color), bool(o.visual.transparency)
            r["visual_kind_after"] = o.visual.kind
        elif o.visual.kind == "texture":
            r["uv"] = _arr(o.visual.uv)
            img = getattr(o.visual.material, "image", None)
            r["image"] = _arr(np.asarray(img)) if img is not None else None
            mat = o.visual.material
            pars = {}
            for name in ("name", "metallicFactor", "roughnessFactor", "alphaCutoff", "alphaMode", "doubleSided", "emissiveFactor",
                         "baseColorFactor", "glossiness", "ambient", "diffuse", "specular"):
                if hasattr(mat, name):
                    v = getattr(mat, name)
                    pars[name] = None if v is None else (np.asarray(v).tolist() if np.ndim(v) else (v if isinstance(v, (str, bool)) else float(v)))
            r["material"] = pars
        r["face_attributes"] = {k: _arr(v) for k, v in getattr(o, "face_attributes", {}).items()}
        r["vertex_attributes"] = {k: _arr(v) for k, v in getattr(o, "vertex_attributes", {}).items()}
        if hasattr(o, "primitive"):
            pr = {}
            for k in ("extents", "radius", "height", "transform", "center", "sections", "subdivisions"):
                if hasattr(o.primitive, k):
                    v = getattr(o.primitive, k)
                    pr[k] = _arr(v) if v is not None else None
            r["primitive"] = pr
    elif kind.startswith("path"):
        r["vertices"] = _arr(o.vertices)
        r["entities"] = [[type(e).__name__, np.asarray(e.points).tolist(), bool(getattr(e, "closed", False))] for e in o.entities]
        r["length"] = round(float(o.length), 9)
        if kind == "path2d":
            r["area"] = round(float(o.area), 9)
    elif kind == "points":
        r["vertices"], r["colors"] = _arr(o.vertices), _arr(o.colors)
    elif kind == "scene":
        r["geometry"] = {k: [_arr(g.vertices), _arr(g.faces)] for k, g in o.geometry.items()}
        r["flat"] = {k: [np.round(np.array(v["transform"]), 9).tolist(), v["geometry"]] for k, v in sorted(o.graph.to_flattened().items())}
        r["base"] = o.graph.base_frame
        r["bounds"] = _arr(o.bounds)
    elif kind == "voxel":
        r["matrix"], r["transform"] = _arr(o.matrix), _arr(o.transform)
        r["points"] = _arr(o.points)
    return r


# ------------------------------------------------------------------ object graph walk (for the Lean checker)

def walk(root, limit=4000):
    """reachable mutable cells: ('buf', address) for writable numpy memory, ('obj', id) for dict/list/set"""
    seen, cells, stack = set(), set(), [root]
    import types
    while stack and len(seen) < limit:
        x = stack.pop()
        if id(x) in seen:
            continue
        seen.add(id(x))
        if isinstance(x, np.ndarray):
            base = x
            while isinstance(base.base, np.ndarray):
                base = base.base
            if x.flags.writeable and x.size:
                cells.add(("buf", base.__array_interface__["data"][0]))
            if x.dtype == object:
                stack.extend(x.ravel().tolist())
            continue
        if isinstance(x, (str, bytes, int, float, complex, bool, type(None), types.FunctionType, types.ModuleType,
                          types.BuiltinFunctionType, type, np.generic, types.MethodType)):
            continue
        if isinstance(x, dict):
            cells.add(("obj", id(x)))
            stack.extend(x.values())
            continue
        if isinstance(x, (list, set, bytearray)):
            cells.add(("obj", id(x)))
            if not isinstance(x, bytearray):
                stack.extend(x)
            continue
        if isinstance(x, (tuple, frozenset)):
            stack.extend(x)
            continue
        mod = type(x).__module__ or ""
        if not (mod.startswith("trimesh") or mod.startswith("collections") or mod.startswith("PIL") or mod.startswith("shapely")):
            continue
        if mod.startswith("shapely"):
            continue          # immutable geometry values
        d = getattr(x, "__dict__", None)
        if d is not None:
            # cached derived values are results, not state of the object: not walked - except the cache of a visual,
            # whose generated colour arrays are handed out writeable and adopted as data when edited in place
            stack.extend(v for k, v in d.items() if k not in ("_cache",) or mod.startswith("trimesh.visual"))
        for sl in getattr(type(x), "__slots__", ()):
            if hasattr(x, sl):
                stack.append(getattr(x, sl))
        if hasattr(x, "items") and callable(getattr(x, "items")) and not isinstance(x, dict):
            try:
                stack.extend(v for _, v in x.items())
            except Exception:
                pass
    return cells


# ------------------------------------------------------------------ edits

def apply_edit(o, kind, edit, seed):
    """returns True when the edit applies to this kind of object"""
    import trimesh
    T = trimesh.transformations.translation_matrix([0.5, -1, 2])
    if edit == "vertex_inplace" and hasattr(o, "vertices") and not hasattr(o, "primitive"):
        o.vertices[0] += 1.25
        return True
    if edit == "vertex_assign" and hasattr(o, "vertices") and not hasattr(o, "primitive") and kind != "points":
        o.vertices = np.array(o.vertices) * 2.0
        return True
    if edit == "face_inplace" and kind.startswith("mesh"):
        o.faces[0] = o.faces[0][::-1]
        return True
    if edit == "transform" and hasattr(o, "apply_transform"):
        o.apply_transform(T if kind != "path2d" else np.array([[1, 0, .5], [0, 1, -1], [0, 0, 1.0]]))
        return True
    if edit == "color_inplace":
        if kind == "mesh_fcol":
            o.visual.face_colors[0] = [9, 9, 9, 255]
            return True
        if kind == "mesh_vcol":
            o.visual.vertex_colors[0] = [9, 9, 9, 255]
            return True
        if kind == "points":
            o.colors[0] = [9, 9, 9, 255]
            return True
        if kind in ("mesh_tex", "mesh_pbr"):
            o.visual.uv[0] += 0.25
            return True
    if edit == "generated_color_inplace" and kind in ("mesh", "mesh_fcol", "mesh_vcol", "mesh_attr", "mesh_over", "box",
                                                      "sphere", "cylinder", "capsule", "extrusion"):
        # paint into the colour array the visual generates (the kind it does not store)
        if o.visual.kind == "face":
            o.visual.vertex_colors[0] = [7, 6, 5, 100]
        else:
            o.visual.face_colors[0] = [7, 6, 5, 100]
        return True
    if edit == "metadata_nested" and isinstance(getattr(o, "metadata", None), dict) and "info" in o.metadata:
        o.metadata["info"][next(iter(o.metadata["info"]))].append("edited")
        return True
    if edit == "metadata_key" and isinstance(getattr(o, "metadata", None), dict):
        o.metadata["new_key"] = 1
        return True
    if edit == "attribute_inplace" and kind == "mesh_attr":
        o.face_attributes["fa"][0] = -1
        o.vertex_attributes["va"][0] = -1
        return True
    if edit == "param" and hasattr(o, "primitive"):
        if hasattr(o.primitive, "radius"):
            o.primitive.radius = float(o.primitive.radius) * 2
        elif hasattr(o.primitive, "extents"):
            o.primitive.extents = np.array(o.primitive.extents) * 2
        else:
            o.primitive.height = float(o.primitive.height) * 2
        return True
    if edit == "graph_update" and kind == "scene":
        o.graph.update("n2", "n1", matrix=T, geometry="g")
        return True
    if edit == "graph_remove_geom" and kind == "scene":
        o.delete_geometry("h")
        return True
    if edit == "entity_inplace" and kind.startswith("path"):
        o.entities[0].points[0] = o.entities[0].points[1]
        return True
    if edit == "voxel_transform" and kind == "voxel":
        o.apply_transform(T)
        return True
    if edit == "density" and (kind.startswith("mesh") or hasattr(o, "primitive")):
        o.density = 7.0
        return True
    return False


def run_case(c):
    kind = c["kind"]
    a = build(kind)
    if c["computed"]:
        compute(a, kind)
    if c["pre_edit"]:
        # an edit made through the API between the reads above and the copy (nothing is read in between): the copy
        # must report the edited state, not values remembered from before the edit
        pre = ["vertex_inplace", "param", "graph_update", "transform", "voxel_transform", "entity_inplace"]
        r0 = c["seed"] % len(pre)
        for e_ in pre[r0:] + pre[:r0]:
            try:
                if apply_edit(a, kind, e_, 0):
                    break
            except Exception:
                pass
    if c.get("paint") and kind.startswith("mesh") and kind not in ("mesh_tex", "mesh_pbr"):
        # colours painted in place right before the copy, after the other colour kind was read
        if c["paint"] == "vertex_after_face_read":
            _ = a.visual.face_colors
            a.visual.vertex_colors[0] = [9, 8, 7, 255]
        elif c["paint"] == "face_after_vertex_read":
            _ = a.visual.vertex_colors
            a.visual.face_colors[0] = [9, 8, 7, 255]
        elif c["paint"] == "vertex":
            a.visual.vertex_colors[1] = [1, 2, 3, 255]
    if c.get("colors_read") and hasattr(a, "visual") and hasattr(a.visual, "face_colors") and \
            getattr(a.visual, "kind", None) in (None, "face", "vertex"):
        _ = a.visual.face_colors, a.visual.vertex_colors
    # the original is NOT observed before the copy: reading its values can change its internal state
    # (lazily adopted colours, caches) and the copy must be faithful in whatever state the original is
    b = do_copy(a, c["route"])
    obs_b = observe(b, kind)
    obs_a = observe(a, kind)
    wa, wb = walk(a), walk(b)
    shared = sorted(wa & wb)
    numbering = {cell: i for i, cell in enumerate(sorted(wa | wb))}
    res = {"faithful_diff": _diff(obs_a, obs_b), "shared": [list(x) for x in shared[:6]], "n_shared": len(shared),
           "cells_a": sorted(numbering[x] for x in wa), "cells_b": sorted(numbering[x] for x in wb)}
    # what is shared, described by the attribute path it is reachable through (for the signature)
    if shared:
        res["shared_where"] = _where(a, shared)
    # edit one side, re-read the other (including values computed later)
    target, other = (b, a) if c["side"] == "copy" else (a, b)
    before = observe(other, kind)
    applied = False
    try:
        applied = apply_edit(target, kind, c["edit"], c["seed"])
    except Exception as e:
        res["edit_err"] = common.err_kind(e)
    res["edit_applied"] = applied
    if applied:
        after = observe(other, kind)
        res["other_changed"] = _diff(before, after)
    return res


def _diff(x, y, path=""):
    if isinstance(x, dict) and isinstance(y, dict):
        out = []
        for k in sorted(set(x) | set(y)):
            if k not in x or k not in y:
                out.append(f"{path}/{k}")
            else:
                out += _diff(x[k], y[k], f"{path}/{k}")
        return out
    return [] if x == y else [path or "/"]


def _where(a, shared):
    """attribute names of `a` whose sub-graph contains a shared cell"""
    out = []
    d = dict(getattr(a, "__dict__", {}))
    for k, v in d.items():
        try:
            if walk(v) & set(map(tuple, shared)):
                out.append(k)
        except Exception:
            pass
    return sorted(out)


def oracle(c, o):
    if "err" in o:
        return {"kind": c["kind"], "route": c["route"], "fail": "raised", "err": o["err"]}
    sigs = []
    if o["faithful_diff"]:
        sigs.append({"kind": c["kind"], "route": c["route"], "fail": "copy-not-faithful", "what": sorted({p.split("/")[1] + ("/" + p.split("/")[2] if p.count("/") > 1 and p.split("/")[1] == "primitive" else "") for p in o["faithful_diff"]})[0],
                     "pre_edit": c["pre_edit"]})
    if o["n_shared"]:
        sigs.append({"kind": c["kind"], "route": c["route"], "fail": "shares-mutable-state", "where": ",".join(o.get("shared_where", []))})
    if o.get("other_changed"):
        sigs.append({"kind": c["kind"], "route": c["route"], "fail": "edit-leaks-to-the-other-object", "edit": c["edit"],
                     "what": sorted({p.split("/")[1] for p in o["other_changed"]})[0]})
    return sigs or None


# ------------------------------------------------------------------ model side: the verified disjointness checker

def model_request(c, o):
    if "err" in o or "cells_a" not in o:
        return None
    return {"p": "C17", "op": "disjoint", "a": o["cells_a"], "b": o["cells_b"]}


def compare(c, o, m):
    if "err" in m:
        return "model error: " + str(m["err"])
    # the Lean checker's verdict on the walked graphs must agree with the harness's own intersection
    if m["disjoint"] != (o["n_shared"] == 0):
        return f"checker verdict {m['disjoint']} but {o['n_shared']} shared cells"
    return None


def nontrivial(c, o):
    return c["kind"] not in ("mesh", "path3d")
