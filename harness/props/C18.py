"""C18 - repair and subdivision keep the surface and restore validity (repair.py, remesh.py, base.py, graph.py)."""
import itertools

import math
from fractions import Fraction

import numpy as np

import common

LEVEL = "proof"
N_CASES = {"quick": 700, "thorough": 20000}
RULE = ("manifold meshes of genus 0-1, one or several bodies (different sizes), open or closed: tetrahedron, box, "
        "icosahedron, block torus, bodies of unequal volume; fix_normals after re-winding face subsets (quick: "
        "random subsets incl. whole bodies; thorough: all 2^n subsets for n<=12) with normals cached or not; "
        "fill_holes after removing every single face / pair of faces; subdivide of all faces or face subsets, "
        "subdivide_to_size for edge bounds between 0.2 and 2x the longest edge, subdivide_loop. non-trivial = the "
        "operation changed the face array")
TRUSTED = ["networkx BFS / cycle_basis order (the winding theorem is order independent, checked by correspondence)",
           "float64 evaluation on dyadic coordinates"]
ASSUMPTIONS = ["fix_normals is judged on watertight inputs that are re-windings of an oriented manifold"]
EXPLANATION = "Lean theorems C18_* (subdivision identities, edge-pairing preservation) + differential run"


def _bases():
    import trimesh
    tet = trimesh.Trimesh([[0, 0, 0], [1, 0, 0], [0, 1, 0], [0, 0, 1]], [[0, 2, 1], [0, 1, 3], [1, 2, 3], [0, 3, 2]], process=False)
    box = trimesh.creation.box(extents=[1, 2, 1])
    ico = trimesh.creation.icosphere(subdivisions=0)
    from props import C03
    V, F = C03._torus_blocks()
    torus = trimesh.Trimesh(np.array(V, dtype=float), np.array(F), process=False)
    big = trimesh.creation.box(extents=[2, 2, 2])
    small = trimesh.creation.icosphere(subdivisions=0, radius=0.4).apply_translation([5, 0, 0])
    mid = trimesh.creation.box().apply_translation([0, 5, 0])
    three = trimesh.util.concatenate([big, mid, small])
    two = trimesh.util.concatenate([tet.copy(), tet.copy().apply_translation([5, 0, 0])])
    # two boxes stacked face to face, vertices not merged: different edges share midpoints
    stacked = trimesh.util.concatenate([trimesh.creation.box(), trimesh.creation.box().apply_translation([0, 0, 1])])
    stacked = trimesh.Trimesh(np.array(stacked.vertices), np.array(stacked.faces), process=False)
    # the same shapes in another unit of length
    ico_small = trimesh.creation.icosphere(subdivisions=1, radius=1e-4)
    box_big = trimesh.creation.box(extents=[1e3, 2e3, 1e3])
    return {"tet": tet, "box": box, "ico": ico, "torus": torus, "three": three, "two": two, "stacked": stacked,
            "ico_small": ico_small, "box_big": box_big}


_B = None


def bases():
    global _B
    if _B is None:
        _B = _bases()
    return _B


def cases(ctx):
    rng = ctx.rng
    B = bases()
    # whole bodies re-wound (each body of a multi-body mesh, alone and in combination)
    for name in ("three", "two"):
        m = B[name]
        comps = [sorted(int(i) for i in c) for c in
                 __import__("trimesh").graph.connected_components(m.face_adjacency, nodes=np.arange(len(m.faces)))]
        for k in range(1, len(comps) + 1):
            for sel in itertools.combinations(range(len(comps)), k):
                yield {"kind": "fix_normals", "base": name, "flip": sorted(i for s in sel for i in comps[s]), "cache": False}
    for name in ("ico_small", "box_big"):
        n = len(B[name].faces)
        for rem in [(0,), (5,), (0, 1), (7, 8)]:
            yield {"kind": "fill_holes", "base": name, "remove": list(rem)}
            yield {"kind": "fill_holes", "base": name, "remove": list(rem), "history": "read_invert"}
    yield {"kind": "subdivide", "base": "stacked", "iterations": 1}
    yield {"kind": "subdivide", "base": "stacked", "iterations": 2}
    for name in ("tet", "box", "ico"):
        n = len(B[name].faces)
        pairs = list(itertools.combinations(range(n), 2))
        for rem in [(i,) for i in range(n)] + (pairs if ctx.tier == "thorough" else rng.sample(pairs, min(len(pairs), 25))):
            yield {"kind": "fill_holes", "base": name, "remove": list(rem)}
            if len(rem) == 1 and rem[0] % 3 == 0:
                yield {"kind": "fill_holes", "base": name, "remove": list(rem), "history": "read_invert"}
    if ctx.tier == "thorough":
        for name in ("tet", "box"):
            n = len(B[name].faces)
            for k in range(n + 1):
                for sub in itertools.combinations(range(n), k):
                    yield {"kind": "fix_normals", "base": name, "flip": list(sub), "cache": False}
    while True:
        k = rng.choice(["fix_normals", "fix_normals", "subdivide", "to_size", "loop", "subdivide_subset"])
        name = rng.choice(list(B))
        n = len(B[name].faces)
        ctx.count("kind:" + k)
        if k == "fix_normals":
            flip = [i for i in range(n) if rng.random() < rng.choice([0.1, 0.5, 0.9])]
            yield {"kind": k, "base": name, "flip": flip, "cache": rng.random() < 0.5}
        elif k == "subdivide":
            yield {"kind": k, "base": name, "iterations": rng.choice([1, 1, 2])}
        elif k == "subdivide_subset":
            how = rng.choice(["some", "some", "all", "body", "mask"])
            if how == "some":
                faces = sorted(rng.sample(range(n), rng.randint(1, n)))
            elif how == "body":
                # every face of one connected body (the whole mesh when it has one body)
                import trimesh
                comps = trimesh.graph.connected_components(B[name].face_adjacency, nodes=np.arange(n), min_len=1)
                faces = sorted(int(i) for i in comps[rng.randrange(len(comps))])
            else:
                faces = list(range(n))
            ctx.count("subset:" + how)
            yield {"kind": k, "base": name, "faces": faces, "as_mask": how == "mask"}
        elif k == "to_size":
            yield {"kind": k, "base": name, "factor": rng.choice([0.2, 0.3, 0.5, 0.9, 1.0, 1.1, 1.2, 1.5, 2.0]),
                   "max_iter": rng.choice([10, 10, 3])}
        else:
            yield {"kind": k, "base": name, "iterations": 1}


def _trikey(m):
    return sorted(tuple(sorted(map(tuple, np.round(t, 9).tolist()))) for t in np.asarray(m.triangles))


def run_case(c):
    import trimesh
    base = bases()[c["base"]]
    k = c["kind"]
    o = {"base_area": float(base.area), "base_volume": float(base.volume), "base_euler": int(base.euler_number)}
    if k == "fix_normals":
        F = np.array(base.faces)
        for i in c["flip"]:
            F[i] = F[i][::-1]
        m = trimesh.Trimesh(np.array(base.vertices), F, process=False)
        if c["cache"]:
            _ = m.face_normals, m.vertex_normals, m.edges, m.volume
        v0, k0 = np.array(m.vertices), _trikey(m)
        # what fix_winding works on: adjacent pairs, whether their shared edge runs the same way, and the
        # search tree it walks (the same networkx calls, in the same order, as repair.fix_winding)
        if len(F) <= 400:
            import networkx as nx
            from trimesh.geometry import faces_to_edges
            from trimesh.grouping import group_rows
            from trimesh import repair
            m2 = trimesh.Trimesh(np.array(base.vertices), F.copy(), process=False)
            adj = np.array(m2.face_adjacency)
            same = []
            for pr in adj:
                e = faces_to_edges(F[pr])
                ov = group_rows(np.sort(e, axis=1), require_count=2)
                ep = e[ov[0]]
                same.append(bool(ep[0][0] == ep[1][0]))
            tree = []
            if not m2.is_winding_consistent:
                g_all = nx.from_edgelist(adj)
                for comp in nx.connected_components(g_all):
                    g = g_all.subgraph(comp)
                    start = next(iter(g.nodes()))
                    tree.extend([int(a), int(b)] for a, b in nx.bfs_edges(g, start))
            repair.fix_winding(m2)
            F2 = np.array(m2.faces)
            o["winding_model"] = {"adj": adj.tolist(), "same": same, "tree": tree, "n": len(F),
                                  "impl_flips": [bool(np.array_equal(F2[i], F[i][::-1]) and not np.array_equal(F2[i], F[i]))
                                                 for i in range(len(F))],
                                  "impl_other_change": bool(any(not np.array_equal(F2[i], F[i]) and
                                                                not np.array_equal(F2[i], F[i][::-1]) for i in range(len(F)))),
                                  "impl_consistent": bool(m2.is_winding_consistent)}
        m.fix_normals()
        o.update({"watertight": bool(m.is_watertight), "winding": bool(m.is_winding_consistent), "volume": float(m.volume),
                  "verts_same": bool(np.array_equal(v0, m.vertices)), "tris_same": _trikey(m) == k0,
                  "body_volumes": sorted(float(b.volume) for b in m.split(only_watertight=False)),
                  "base_body_volumes": sorted(float(b.volume) for b in base.split(only_watertight=False))})
        fr = trimesh.Trimesh(np.array(m.vertices), np.array(m.faces), process=False)
        o["normals_fresh"] = bool(np.allclose(m.face_normals, fr.face_normals))
    elif k == "fill_holes":
        keep = np.ones(len(base.faces), dtype=bool)
        keep[c["remove"]] = False
        m = trimesh.Trimesh(np.array(base.vertices), np.array(base.faces)[keep], process=False)
        if c.get("history") == "read_invert":
            # derived values are read on the open mesh, then it is turned inside-out, then the holes are filled:
            # the result must be the closed surface, inside-out
            _ = m.is_watertight, m.edges_unique, m.face_adjacency, m.euler_number
            m.invert()
        r = m.fill_holes()
        o.update({"returned": bool(r), "watertight": bool(m.is_watertight), "winding": bool(m.is_winding_consistent),
                  "volume": float(m.volume), "nfaces": len(m.faces), "base_nfaces": len(base.faces)})
        # is the hole a triangle or a quad (in scope) ?
        be = np.array(base.faces)[~keep]
        o["hole_vertices"] = len(set(be.reshape(-1).tolist()))
    elif k in ("subdivide", "loop"):
        s = base
        for _ in range(c["iterations"]):
            s = s.subdivide() if k == "subdivide" else s.subdivide_loop(iterations=1)
        if k == "subdivide" and c["iterations"] == 1 and len(base.faces) <= 200:
            o["tris0"] = np.array(base.triangles).tolist()
            o["tris1"] = np.array(s.triangles).tolist()
        o.update({"verts_kept": bool(np.allclose(np.array(s.vertices)[:len(base.vertices)], base.vertices)) if k == "subdivide" else True,
                  "area": float(s.area), "volume": float(s.volume), "watertight": bool(s.is_watertight),
                  "winding": bool(s.is_winding_consistent), "euler": int(s.euler_number), "nfaces": len(s.faces),
                  "expect_faces": len(base.faces) * 4 ** c["iterations"],
                  "bodies": int(s.body_count), "base_bodies": int(base.body_count),
                  "nverts": len(s.vertices),
                  "expect_verts": (len(base.vertices) + len(base.edges_unique)) if c["iterations"] == 1 and k == "subdivide" else None})
    elif k == "subdivide_subset":
        if c.get("as_mask"):
            fi = np.zeros(len(base.faces), dtype=bool)
            fi[c["faces"]] = True
        else:
            fi = np.array(c["faces"])
        s = base.subdivide(face_index=fi)
        sel = np.array(base.faces)[c["faces"]]
        sel_edges = {tuple(sorted(e)) for f in sel.tolist() for e in ((f[0], f[1]), (f[1], f[2]), (f[2], f[0]))}
        # selected faces closed under adjacency = whole bodies: then no T-junction is created
        adj = np.array(base.face_adjacency)
        chosen = set(c["faces"])
        whole = all((a in chosen) == (b in chosen) for a, b in adj.tolist())
        o.update({"verts_kept": bool(np.allclose(np.array(s.vertices)[:len(base.vertices)], base.vertices)),
                  "area": float(s.area), "nfaces": len(s.faces), "expect_faces": len(base.faces) + 3 * len(c["faces"]),
                  "nverts": len(s.vertices), "expect_verts": len(base.vertices) + len(sel_edges),
                  "whole_bodies": bool(whole), "watertight": bool(s.is_watertight), "winding": bool(s.is_winding_consistent),
                  "euler": int(s.euler_number), "volume": float(s.volume),
                  "base_watertight": bool(base.is_watertight)})
    elif k == "to_size":
        longest = float(base.edges_unique_length.max())
        me = c["factor"] * longest
        o["bound"] = me
        if len(base.faces) <= 300:
            o["tris0"] = np.array(base.triangles).tolist()
        try:
            t = base.subdivide_to_size(max_edge=me, max_iter=c["max_iter"])
            o.update({"raised": False, "max_edge": float(t.edges_unique_length.max()), "area": float(t.area),
                      "nfaces": len(t.faces)})
        except ValueError:
            o["raised"] = True
    return o


def oracle(c, o):
    if "err" in o:
        return {"kind": c["kind"], "fail": "raised", "err": o["err"]}
    k = c["kind"]

    def bad(what, **kw):
        d = {"kind": k, "check": what, "base": c["base"]}
        d.update(kw)
        return d
    closed_base = c["base"] != "open"
    if k == "fix_normals":
        if not (o["verts_same"] and o["tris_same"]):
            return bad("moved-a-vertex-or-changed-the-triangle-set")
        if not (o["watertight"] and o["winding"]):
            return bad("not-consistently-wound")
        if any(v <= 0 for v in o["body_volumes"]) or not np.allclose(o["body_volumes"], o["base_body_volumes"], atol=1e-9):
            return bad("body-with-non-positive-volume", whole_bodies=len(set(c["flip"])) > 0)
    elif k == "fill_holes":
        in_scope = (len(c["remove"]) == 1) or o["hole_vertices"] == 4      # a triangle hole, or two faces forming a quad
        if in_scope:
            # a missing triangle is refilled by itself (same volume); a non-planar quad can be closed by either
            # diagonal, so only validity is required there
            sgn = -1.0 if c.get("history") == "read_invert" else 1.0
            same_volume = abs(sgn * o["volume"] - o["base_volume"]) < 1e-9 * max(1.0, abs(o["base_volume"])) if len(c["remove"]) == 1 else sgn * o["volume"] > 0
            if not (o["watertight"] and o["winding"] and same_volume):
                return bad("hole-not-closed-with-correctly-wound-faces", removed=len(c["remove"]), history=c.get("history"),
                           hole_vertices=o["hole_vertices"], base_faces=o["base_nfaces"])
    elif k in ("subdivide", "loop"):
        if not (o["watertight"] and o["winding"] and o["euler"] == o["base_euler"] and o["nfaces"] == o["expect_faces"]):
            return bad("validity-or-euler-number-changed")
        if o.get("bodies") != o.get("base_bodies") or (o.get("expect_verts") is not None and o["nverts"] != o["expect_verts"]):
            return bad("bodies-welded-or-vertex-count-wrong")
        if k == "subdivide":
            if not o["verts_kept"]:
                return bad("original-vertices-not-kept")
            if abs(o["area"] - o["base_area"]) > 1e-9 * max(1.0, o["base_area"]) or \
                    abs(o["volume"] - o["base_volume"]) > 1e-9 * max(1.0, abs(o["base_volume"])):
                return bad("area-or-volume-changed")
    elif k == "subdivide_subset":
        if not o["verts_kept"] or abs(o["area"] - o["base_area"]) > 1e-9 * max(1.0, o["base_area"]) or o["nfaces"] != o["expect_faces"]:
            return bad("subset-subdivision-changed-the-surface")
        if o["nverts"] != o["expect_verts"]:
            return bad("subset-subdivision-not-one-new-vertex-per-edge", whole_bodies=o["whole_bodies"])
        if o["whole_bodies"] and o["base_watertight"]:
            if not (o["watertight"] and o["winding"] and o["euler"] == o["base_euler"]
                    and abs(o["volume"] - o["base_volume"]) <= 1e-9 * max(1.0, abs(o["base_volume"]))):
                return bad("subdividing-whole-bodies-broke-validity")
    elif k == "to_size":
        if not o["raised"]:
            if o["max_edge"] > o["bound"] * (1 + 1e-12):
                return bad("edge-longer-than-bound", factor=c["factor"])
            if abs(o["area"] - o["base_area"]) > 1e-9 * max(1.0, o["base_area"]):
                return bad("area-changed")
    return None


def _q(x):
    n, d = float(x).as_integer_ratio()
    return [n, d]


def model_request(c, o):
    if "err" not in o and "winding_model" in o:
        wm = o["winding_model"]
        return {"p": "C18", "op": "winding", "adj": wm["adj"], "same": wm["same"], "tree": wm["tree"], "n": wm["n"]}
    if "err" not in o and c["kind"] == "to_size" and "tris0" in o:
        b2 = Fraction(o["bound"]) ** 2
        return {"p": "C18", "op": "to_size", "tris": [[[_q(x) for x in p] for p in t] for t in o["tris0"]],
                "m2": [b2.numerator, b2.denominator], "fuel": c["max_iter"]}
    if "err" in o or "tris0" not in o:
        return None
    return {"p": "C18", "tris": [[[_q(x) for x in p] for p in t] for t in o["tris0"]]}


def compare(c, o, m):
    if "err" in m:
        return "model error: " + str(m["err"])
    from fractions import Fraction
    f = lambda q: float(Fraction(q[0], q[1]))  # noqa
    if c["kind"] == "to_size":
        if m["tie"]:
            STATS["to_size_ties_skipped"] = STATS.get("to_size_ties_skipped", 0) + 1
            return None          # a longest edge within 1e-9 of the bound: float rounding may decide either way
        if m["ok"] == o["raised"]:
            return "subdivide_to_size: code %s, model %s" % ("raised" if o["raised"] else "returned",
                                                              "succeeds" if m["ok"] else "runs out of iterations")
        if m["ok"]:
            if m["count"] != o["nfaces"]:
                return f"subdivide_to_size: {o['nfaces']} faces, the model's face-by-face recursion gives {m['count']}"
            if abs(math.sqrt(f(m["max_edge2"])) - o["max_edge"]) > 1e-9 * max(1.0, o["max_edge"]):
                return "subdivide_to_size: longest remaining edge differs from the model"
        STATS["to_size_compared"] = STATS.get("to_size_compared", 0) + 1
        return None
    if "winding_model" in o:
        wm = o["winding_model"]
        if not m["tree_order"]:
            return "fix_winding: the edges handed out by the search are not in tree order (a child seen before)"
        if wm["impl_other_change"]:
            return "fix_winding changed a face other than by reversing it"
        if m["flips"] != wm["impl_flips"]:
            return "fix_winding reversed a different set of faces than the traversal model: %r vs %r" % (
                [i for i, b in enumerate(wm["impl_flips"]) if b], [i for i, b in enumerate(m["flips"]) if b])
        if closed_orientable(c) and not (m["consistent"] and wm["impl_consistent"]):
            return "fix_winding: adjacent pairs left inconsistent on an orientable surface (contradicts C18_fix_winding)"
        STATS["winding_traversals_compared"] = STATS.get("winding_traversals_compared", 0) + 1
        return None
    if Fraction(*m["vol"]) != Fraction(*m["vol_sub"]):
        return "model: subdivision changed the signed volume"
    want = sorted(tuple(sorted(tuple(round(f(x), 12) for x in p) for p in t)) for t in m["children"])
    got = sorted(tuple(sorted(tuple(round(x, 12) for x in p) for p in t)) for t in o["tris1"])
    if want != got:
        return "subdivide: the set of child triangles differs from the model's four children per face"
    # orientation: every child has the parent's (quarter) area vector - compare summed area vectors per direction
    A1 = np.array(o["tris1"])
    av1 = np.cross(A1[:, 1] - A1[:, 0], A1[:, 2] - A1[:, 0]).sum(axis=0)
    av0 = np.array([[f(x) for x in v] for v in m["area_vecs"]]).sum(axis=0)
    if np.abs(av1 - av0).max() > 1e-9 * max(1.0, np.abs(av0).max()):
        return "subdivide: children are not wound like their parents"
    return None


def closed_orientable(c):
    return True      # every base mesh of this module is an orientable surface (flips only reverse faces)


STATS = {}


def nontrivial(c, o):
    return "err" not in o


def translate(ctx):
    """by ast: the column pattern `remesh.subdivide` stacks into the child faces and the column order in which
    `geometry.faces_to_edges` lists the edges of a face (which midpoint `mid_idx[:, k]` is)"""
    import ast
    import os
    tree = ast.parse(open(os.path.join(common.REPO, "trimesh/remesh.py")).read())
    fn = next((f for f in tree.body if isinstance(f, ast.FunctionDef) and f.name == "subdivide"), None)
    if fn is None:
        raise common.Broken("translate", "remesh.py: subdivide not found")
    pattern = None
    for st in ast.walk(fn):
        if isinstance(st, ast.Assign) and ast.unparse(st.targets[0]) == "f" and "column_stack" in ast.unparse(st.value):
            call = st.value
            while isinstance(call, ast.Call) and not (isinstance(call.func, ast.Attribute) and call.func.attr == "column_stack"):
                call = call.func.value if isinstance(call.func, ast.Attribute) else None
            if call is None or not call.args or not isinstance(call.args[0], (ast.List, ast.Tuple)):
                raise common.Broken("translate", "remesh.subdivide: column_stack of a literal list expected")
            pattern = []
            for e in call.args[0].elts:
                src = ast.unparse(e)
                for arr, kind in (("faces_subset", "false"), ("mid_idx", "true")):
                    if src.startswith(arr + "[:, ") and src.endswith("]"):
                        pattern.append((kind, int(src[len(arr) + 4:-1])))
                        break
                else:
                    raise common.Broken("translate", f"remesh.subdivide: unexpected column {src}")
            tail = ast.unparse(st.value)
            if not tail.endswith(".reshape((-1, 3))"):
                raise common.Broken("translate", "remesh.subdivide: child faces no longer reshaped to (-1, 3)")
    if pattern is None:
        raise common.Broken("translate", "remesh.subdivide: assignment of the stacked child faces not found")
    src = ast.unparse(fn)
    if "mid_idx = inverse.reshape((-1, 3)) + len(vertices)" not in src or \
            "edges = np.sort(faces_to_edges(faces_subset), axis=1)" not in src:
        raise common.Broken("translate", "remesh.subdivide: midpoint indexing changed (edges / mid_idx)")
    gtree = ast.parse(open(os.path.join(common.REPO, "trimesh/geometry.py")).read())
    gfn = next((f for f in gtree.body if isinstance(f, ast.FunctionDef) and f.name == "faces_to_edges"), None)
    cols = None
    for st in ast.walk(gfn) if gfn is not None else []:
        if isinstance(st, ast.Assign) and ast.unparse(st.targets[0]) == "edges":
            s_ = ast.unparse(st.value)
            if s_.startswith("faces[:, [") and s_.endswith("]].reshape((-1, 2))"):
                cols = [int(x) for x in s_[len("faces[:, ["):-len("]].reshape((-1, 2))")].split(",")]
    if cols is None:
        raise common.Broken("translate", "geometry.faces_to_edges: edge column list not found")
    L = ["-- GENERATED by harness/props/C18.py from /repo/trimesh/remesh.py and geometry.py (ast) -- do not edit",
         "namespace TV.Generated.C18",
         "/-- columns stacked into the child faces by `subdivide`: (taken from `mid_idx`?, column) -/",
         "def childPattern : List (Bool × Nat) := [" + ", ".join(f"({k}, {c_})" for k, c_ in pattern) + "]",
         "/-- `faces_to_edges`: the face columns listed as edge end points, pair by pair -/",
         "def edgeColumns : List Nat := [" + ", ".join(str(c_) for c_ in cols) + "]",
         "end TV.Generated.C18"]
    return {"C18Table.lean": "\n".join(L) + "\n"}


def generated_obligations():
    return 1
