#!/bin/bash
# run the quick check of every claimed property on the unchanged tree and leave fresh evidence files
cd "$(dirname "$0")/.."
if ! git -C /repo diff --quiet; then echo "/repo has local changes"; exit 2; fi
for p in $(/venv/bin/python -c "import json; print(' '.join(c['property_id'] for c in json.load(open('MANIFEST.json'))['checks']))"); do
  /venv/bin/python harness/vcheck.py $p --tier quick 2>&1 | grep -v KNOWN-FINDING | tail -1 | cut -c1-160
done
python3-vt - <<'PY'
import json, jsonschema, glob
sch=json.load(open('/root/.vp/EVIDENCE.schema.json'))
m=json.load(open('/verif/MANIFEST.json')); jsonschema.validate(m, json.load(open('/root/.vp/MANIFEST.schema.json')))
for c in m['checks']:
    e=json.load(open('/verif/'+c['evidence_file'])); jsonschema.validate(e, sch)
    cov=e['coverage']; assert cov['obligations']==cov['discharged']>0, (c['property_id'], cov['obligations'], cov['discharged'])
    assert e.get('violations',0)==0, c['property_id']
print('manifest + evidence valid for', len(m['checks']), 'checks')
PY
