#!/venv/bin/python
"""run every seeded change in /verif/seeded against the check of its property (quick tier, scratch evidence),
record the result in its meta.json (`detected_by`) and print the table for DESIGN.md.
the checkout (TRIMESH_REPO, default /repo) must be clean; each patch is applied, checked and undone straight away."""
import glob, json, os, re, subprocess, sys, time
VERIF = os.path.dirname(os.path.dirname(os.path.abspath(__file__)))
REPO = os.environ.get("TRIMESH_REPO", "/repo")     # a scratch checkout when run in isolation (vp run --with-repo)
only = sys.argv[1:] 
rows = []
for d in sorted(glob.glob(os.path.join(VERIF, "seeded", "C*-*"))):
    name = os.path.basename(d)
    if only and name not in only and name.split("-")[0] not in only:
        continue
    prop = name.split("-")[0]
    patch = os.path.join(d, "patch.diff")
    meta_p = os.path.join(d, "meta.json")
    meta = json.load(open(meta_p))
    if subprocess.run(["git", "-C", REPO, "diff", "--quiet"]).returncode != 0:
        print(REPO + " has local changes"); sys.exit(2)
    ap = subprocess.run(["git", "-C", REPO, "apply", patch], capture_output=True, text=True)
    if ap.returncode != 0:
        ap = subprocess.run(["git", "-C", REPO, "apply", "-3", patch], capture_output=True, text=True)
    if ap.returncode != 0:
        rows.append((name, "patch-does-not-apply", "", 0)); print(name, "patch does not apply", ap.stderr[:200]); 
        subprocess.run(["git", "-C", REPO, "checkout", "--", "."]); continue
    t0 = time.time()
    env = dict(os.environ, VERIF_EVIDENCE_DIR="/tmp/verif-scratch-evidence")
    try:
        r = subprocess.run(["/venv/bin/python", os.path.join(VERIF, "harness/vcheck.py"), prop, "--tier", "quick"],
                           capture_output=True, text=True, env=env, timeout=3000)
        out, rc = r.stdout + r.stderr, r.returncode
    except subprocess.TimeoutExpired:
        out, rc = "timeout", 2
    finally:
        subprocess.run(["git", "-C", REPO, "checkout", "--", "."])
        subprocess.run(["git", "-C", REPO, "reset", "-q"])
    wall = time.time() - t0
    vio = [l for l in out.splitlines() if l.startswith("VIOLATION")]
    fail = [l.strip() for l in out.splitlines() if l.strip().startswith(("failing:", "broken:", "disagreement:"))]
    how = "missed"
    if rc == 1 and vio:
        how = "no-failing-input-found" if vio[0].endswith("no-failing-input-found") else "failing-input"
        if any(f.startswith("broken:") for f in fail):
            how += "+broken-obligation"
    elif rc == 2:
        how = "infrastructure-error"
    meta["detected_by"] = {"check": f"harness/vcheck.py {prop} --tier quick", "result": how, "exit": rc,
                           "first": (fail[0][:300] if fail else ""), "wall_s": round(wall, 1)}
    json.dump(meta, open(meta_p, "w"), indent=1)
    rows.append((name, how, fail[0][:140] if fail else "", wall))
    print(name, how, "%.0fs" % wall, (fail[0][:160] if fail else ""), flush=True)
print("\n| seeded change | files | result of the property's quick check | first report |")
print("|---|---|---|---|")
for name, how, first, wall in rows:
    meta = json.load(open(os.path.join(VERIF, "seeded", name, "meta.json")))
    print(f"| {name} | {', '.join(meta.get('files', []))} | {how} | {first.replace('|', '/')} |")
