#!/bin/bash
# usage: seedtest.sh <patch.diff> <prop> [tier]   -- apply a seeded change to /repo, run the check, undo
set -u
patch=$1; prop=$2; tier=${3:-quick}
cd /repo || exit 2
if ! git diff --quiet; then echo "/repo has local changes"; exit 2; fi
git apply "$patch" || { echo "patch does not apply"; exit 2; }
cd /verif
VERIF_EVIDENCE_DIR=/tmp/verif-scratch-evidence /venv/bin/python harness/vcheck.py $prop --tier $tier ${SEEDTEST_ARGS:-} 2>&1 | grep -v "^KNOWN-FINDING" | tail -${SEEDTEST_TAIL:-6}
rc=${PIPESTATUS[0]}
git -C /repo checkout -- .
echo "exit=$rc"
