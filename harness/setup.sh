#!/bin/bash
# MANIFEST.setup_cmd: build the framework from files on disk only (offline).
# 1. regenerate every Generated/*.lean from /repo's current source, 2. lake build everything.
set -e
cd "$(dirname "$0")/.."
/venv/bin/python harness/translate_all.py
cd lean
lake build TrimeshVerif tvdriver 2>&1 | tail -5
