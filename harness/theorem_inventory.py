#!/usr/bin/env python3
"""print a markdown inventory of the property theorems (name + first sentence of the doc comment) per property"""
import glob, os, re
root = os.path.join(os.path.dirname(os.path.dirname(os.path.abspath(__file__))), "lean", "TrimeshVerif", "Props")
for f in sorted(glob.glob(os.path.join(root, "C*.lean"))):
    src = open(f).read()
    prop = os.path.basename(f)[:-5]
    items = []
    for m in re.finditer(r"(?:/--((?:(?!-/).)*?)-/\s*)?^theorem\s+(\S+)", src, flags=re.S | re.M):
        doc = (m.group(1) or "").strip().replace("\n", " ")
        doc = re.sub(r"\s+", " ", doc)
        first = re.split(r"(?<=[a-z\)\]])[:.;] ", doc)[0][:230]
        items.append((m.group(2), first))
    print(f"**{prop}** ({len(items)} theorems)\n")
    for name, doc in items:
        print(f"* `{name}` — {doc}" if doc else f"* `{name}`")
    print()
