"""Exact multivariate polynomials / rational functions used to trace straight-line numpy code symbolically,
and a numpy proxy that keeps object arrays of them.  Not sympy on purpose: several trimesh functions switch
to a separate sympy code path when they see a sympy type, and it is the numpy path that must be traced."""
from fractions import Fraction

import numpy as real_np


class Branch(Exception):
    """the traced code tried to branch on a symbolic value"""


class Poly:
    __slots__ = ("t",)

    def __init__(self, terms=None):
        self.t = {k: v for k, v in (terms or {}).items() if v != 0}

    # -- constructors
    @staticmethod
    def const(c):
        if isinstance(c, Poly):
            return c
        if isinstance(c, (bool, real_np.bool_)):
            raise Branch("boolean in arithmetic")
        if isinstance(c, (int, real_np.integer)):
            return Poly({(): Fraction(int(c))})
        if isinstance(c, Fraction):
            return Poly({(): c})
        if isinstance(c, (float, real_np.floating)):
            f = Fraction(float(c))
            if f.denominator > 10**6 and Fraction(float(c)).limit_denominator(10**6) != f:
                g = f.limit_denominator(1000)
                if abs(float(g) - float(c)) < 1e-15:
                    f = g
                else:
                    raise Branch(f"non-dyadic float constant {c!r} in traced code")
            return Poly({(): f})
        raise TypeError(type(c))

    @staticmethod
    def var(name):
        return Poly({((name, 1),): Fraction(1)})

    # -- arithmetic
    def __add__(self, o):
        if isinstance(o, real_np.ndarray):
            return NotImplemented
        o = Poly.const(o)
        t = dict(self.t)
        for k, v in o.t.items():
            t[k] = t.get(k, 0) + v
        return Poly(t)
    __radd__ = __add__

    def __neg__(self):
        return Poly({k: -v for k, v in self.t.items()})

    def __pos__(self):
        return self

    def __sub__(self, o):
        if isinstance(o, real_np.ndarray):
            return NotImplemented
        return self + (-Poly.const(o))

    def __rsub__(self, o):
        return Poly.const(o) - self

    def __mul__(self, o):
        if isinstance(o, real_np.ndarray):
            return NotImplemented
        if isinstance(o, RF):
            return RF(self) * o
        o = Poly.const(o)
        t = {}
        for k1, v1 in self.t.items():
            for k2, v2 in o.t.items():
                d = dict(k1)
                for n, e in k2:
                    d[n] = d.get(n, 0) + e
                k = tuple(sorted(d.items()))
                t[k] = t.get(k, 0) + v1 * v2
        return Poly(t)
    __rmul__ = __mul__

    def __truediv__(self, o):
        if isinstance(o, real_np.ndarray):
            return NotImplemented
        o = Poly.const(o) if not isinstance(o, RF) else o
        if isinstance(o, Poly) and o.is_const():
            c = o.t.get((), Fraction(0))
            if c == 0:
                raise ZeroDivisionError
            return Poly({k: v / c for k, v in self.t.items()})
        return RF(self) / o

    def __rtruediv__(self, o):
        return RF(Poly.const(o)) / self

    def __pow__(self, n):
        if isinstance(n, Poly) and n.is_const():
            n = n.t.get((), Fraction(0))
        n = Fraction(n)
        if n.denominator != 1 or n < 0:
            raise Branch(f"non-polynomial power {n}")
        r = Poly.const(1)
        for _ in range(int(n)):
            r = r * self
        return r

    def is_const(self):
        return all(k == () for k in self.t)

    def constant(self):
        if not self.is_const():
            raise Branch("symbolic value used as a constant")
        return self.t.get((), Fraction(0))

    # -- anything data dependent is a branch
    _compare_hook = None     # set by a tracer that records a data-dependent comparison and fixes its outcome

    def _branch(self, other=None, *a, **k):
        if self.is_const():
            return NotImplemented
        if Poly._compare_hook is not None:
            return Poly._compare_hook(self, other)
        raise Branch("comparison / truth value of a symbolic quantity")
    __lt__ = __le__ = __gt__ = __ge__ = _branch

    def __bool__(self):
        if self.is_const():
            return self.constant() != 0
        raise Branch("truth value of a symbolic quantity")

    def __abs__(self):
        if self.is_const():
            return Poly.const(abs(self.constant()))
        raise Branch("abs of a symbolic quantity")

    def __eq__(self, o):
        if isinstance(o, real_np.ndarray):
            return NotImplemented
        try:
            return (self - o).t == {}
        except TypeError:
            return False

    def __hash__(self):
        return hash(tuple(sorted(self.t.items())))

    def __float__(self):
        return float(self.constant())

    def variables(self):
        return sorted({n for k in self.t for n, _ in k})

    def subs(self, env):
        """evaluate with Fractions / Polys for variables"""
        r = Poly.const(0)
        for k, v in self.t.items():
            term = Poly.const(v)
            for n, e in k:
                term = term * (Poly.const(env[n]) if not isinstance(env[n], Poly) else env[n]) ** e
            r = r + term
        return r

    def degree(self):
        return max((sum(e for _, e in k) for k in self.t), default=0)

    def __repr__(self):
        return "Poly(%s)" % self.lean() if len(self.t) < 8 else "Poly(<%d terms>)" % len(self.t)

    # -- Lean printer: term by term, coefficients as ((p : K) / q)
    def lean(self, K="K"):
        if not self.t:
            return f"(0 : {K})"
        out = []
        for k in sorted(self.t):
            c = self.t[k]
            mon = " * ".join(f"{n} ^ {e}" if e > 1 else n for n, e in k)
            if c.denominator == 1:
                cs = f"({c.numerator} : {K})"
            else:
                cs = f"(({c.numerator} : {K}) / {c.denominator})"
            out.append(f"{cs} * {mon}" if mon else cs)
        return " + ".join(out)


class RF:
    """rational function num / den (no normalisation beyond constants)"""

    def __init__(self, num, den=None):
        if isinstance(num, RF) and den is None:
            self.n, self.d = num.n, num.d
            return
        self.n = Poly.const(num)
        self.d = Poly.const(1) if den is None else Poly.const(den)

    @staticmethod
    def lift(x):
        return x if isinstance(x, RF) else RF(Poly.const(x))

    def __add__(self, o):
        if isinstance(o, real_np.ndarray):
            return NotImplemented
        o = RF.lift(o)
        if self.d == o.d:
            return RF(self.n + o.n, self.d)
        return RF(self.n * o.d + o.n * self.d, self.d * o.d)
    __radd__ = __add__

    def __neg__(self):
        return RF(-self.n, self.d)

    def __sub__(self, o):
        if isinstance(o, real_np.ndarray):
            return NotImplemented
        return self + (-RF.lift(o))

    def __rsub__(self, o):
        return RF.lift(o) - self

    def __mul__(self, o):
        if isinstance(o, real_np.ndarray):
            return NotImplemented
        o = RF.lift(o)
        return RF(self.n * o.n, self.d * o.d)
    __rmul__ = __mul__

    def __truediv__(self, o):
        if isinstance(o, real_np.ndarray):
            return NotImplemented
        o = RF.lift(o)
        return RF(self.n * o.d, self.d * o.n)

    def __rtruediv__(self, o):
        return RF.lift(o) / self

    def __pow__(self, n):
        n = int(Fraction(n))
        r = RF(1)
        for _ in range(n):
            r = r * self
        return r

    def _branch(self, *a, **k):
        raise Branch("comparison of a symbolic quantity")
    __lt__ = __le__ = __gt__ = __ge__ = _branch

    def __bool__(self):
        raise Branch("truth value of a symbolic quantity")

    def __abs__(self):
        raise Branch("abs of a symbolic quantity")

    def equals(self, o):
        o = RF.lift(o)
        return self.n * o.d == o.n * self.d

    def __repr__(self):
        return f"RF({self.n!r} / {self.d!r})"


def sym_array(names, shape):
    a = real_np.empty(len(names), dtype=object)
    for i, n in enumerate(names):
        a[i] = Poly.var(n)
    return a.reshape(shape)


def to_obj(x):
    """numpy array of numbers -> object array of Poly constants"""
    a = real_np.asarray(x)
    if a.dtype == object:
        return a
    f = real_np.vectorize(Poly.const, otypes=[object])
    return f(a) if a.shape else real_np.array(Poly.const(a.item()), dtype=object)


class NPProxy:
    """stands in for the module-global `np` of the traced module: keeps dtype object, refuses branches"""

    def __init__(self, branch_hook=None):
        self._branch_hook = branch_hook

    def __getattr__(self, k):
        return getattr(real_np, k)

    def asanyarray(self, a, dtype=None, **kw):
        b = real_np.asanyarray(a)
        if b.dtype == object:
            return b
        if any(isinstance(x, (Poly, RF)) for x in real_np.ravel(real_np.asarray(a, dtype=object))):
            return real_np.asarray(a, dtype=object)
        return real_np.asanyarray(a, dtype=dtype, **kw)
    asarray = asanyarray

    def array(self, a, dtype=None, **kw):
        b = real_np.array(a, dtype=object)
        if any(isinstance(x, (Poly, RF)) for x in b.ravel()):
            return b
        return to_obj(real_np.array(a, dtype=dtype if dtype is not None else None))

    def zeros(self, shape, dtype=None, **kw):
        z = real_np.empty(shape, dtype=object)
        z.fill(Poly.const(0))
        return z

    def ones(self, shape, dtype=None, **kw):
        z = real_np.empty(shape, dtype=object)
        z.fill(Poly.const(1))
        return z

    def eye(self, n, dtype=None, **kw):
        z = self.zeros((n, n))
        for i in range(n):
            z[i, i] = Poly.const(1)
        return z

    def identity(self, n, dtype=None):
        return self.eye(n)

    def zeros_like(self, a, dtype=None, **kw):
        return self.zeros(real_np.shape(a))

    def cross(self, a, b, axis=-1):
        a, b = real_np.asarray(a, dtype=object), real_np.asarray(b, dtype=object)
        out = real_np.empty(real_np.broadcast_shapes(a.shape, b.shape), dtype=object)
        out[..., 0] = a[..., 1] * b[..., 2] - a[..., 2] * b[..., 1]
        out[..., 1] = a[..., 2] * b[..., 0] - a[..., 0] * b[..., 2]
        out[..., 2] = a[..., 0] * b[..., 1] - a[..., 1] * b[..., 0]
        return out

    def dot(self, a, b):
        a, b = real_np.asarray(a, dtype=object), real_np.asarray(b, dtype=object)
        if a.dtype != object:
            a = to_obj(a)
        if b.dtype != object:
            b = to_obj(b)
        return real_np.dot(a, b)

    def matmul(self, a, b):
        return self.dot(a, b)

    def outer(self, a, b):
        return real_np.outer(real_np.asarray(a, dtype=object), real_np.asarray(b, dtype=object))

    def prod(self, a, axis=None):
        r = Poly.const(1)
        for x in real_np.ravel(real_np.asarray(a, dtype=object)):
            r = r * x
        return r

    def abs(self, x):
        if self._branch_hook is not None:
            return self._branch_hook("abs", x)
        raise Branch("np.abs of a symbolic quantity")

    def ptp(self, x, *a, **k):
        if self._branch_hook is not None:
            return self._branch_hook("ptp", x)
        raise Branch("np.ptp of a symbolic quantity")

    def sqrt(self, x):
        raise Branch("np.sqrt in traced code")

    def mod(self, a, b):
        return real_np.mod(a, b)

    def column_stack(self, t):
        return real_np.column_stack([real_np.asarray(x, dtype=object) for x in t])

    def vstack(self, t):
        return real_np.vstack([real_np.asarray(x, dtype=object) for x in t])

    def allclose(self, *a, **k):
        raise Branch("np.allclose in traced code")
