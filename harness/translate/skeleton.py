"""Resource skeleton extraction for C20: Python ast -> `TV.Load.Stmt` lists.

Only what matters for "a file the loader opened itself is closed on every path" is kept:
  x = open(...)                          -> .openFile
  was_opened = True                      -> .setFlag
  if arg.was_opened: arg.file_obj.close()-> .closeIfFlag
  raise / return                         -> .raise / .ret
  if / elif / else                       -> .branch [then, else]
  for / while                            -> .branch [[], body]            (zero or one iteration)
  try / finally, try / except            -> .tryFinally / .tryExcept
  arg = _parse_file_args(...)            -> the skeleton of `_parse_file_args`, inlined (its `return` ends the
                                            inlined part only)
  any other statement containing a call that is not on the PURE list -> .mayRaise
Everything else is dropped.  The PURE list (calls assumed not to raise) is part of the trusted base.
"""
import ast

PURE = {
    # predicates and string / path helpers evaluated before any parsing of file content
    "isinstance", "hasattr", "len", "str", "getattr", "deepcopy",
    "util.is_pathlib", "util.is_file", "util.is_instance_named", "util.is_sequence", "util.split_extension",
    "os.path.abspath", "os.path.expanduser", "os.path.isfile", "os.path.exists",
    "resolvers.FilePathResolver", "file_obj.absolute", "file_type.lower", "LoadSource",
    "path_formats", "mesh_formats", "available_formats", "kwargs.update",
}


# what the type tests on the caller's `file_obj` evaluate to in the two scenarios the skeletons are generated for.
# Keys are the exact source text of the test; an unknown test keeps both branches.
SCENARIOS = {
    "path": {      # file_obj is a str / pathlib path: the only case in which the loader opens a file itself
        "isinstance(file_obj, str)": True, "isinstance(file_obj, dict)": False, "isinstance(file_obj, Path)": False,
        "util.is_file(file_obj) and file_type is None": False, "util.is_file(arg.file_obj)": True,
        "util.is_instance_named(file_obj, ['Polygon', 'MultiPolygon'])": False,
        "util.is_instance_named(file_obj, 'MultiLineString')": False,
    },
    "other": {     # file_obj is an open file object, a dict, a shapely object, an array ...
        "isinstance(file_obj, str)": False,
    },
}


def _name(f):
    try:
        return ast.unparse(f)
    except Exception:
        return "?"


def _calls(node):
    return [n for n in ast.walk(node) if isinstance(n, ast.Call)]


def _impure(node):
    return any(_name(c.func) not in PURE for c in _calls(node))


class Extractor:
    def __init__(self, functions, scenario):
        self.functions = functions       # name -> ast.FunctionDef that may be inlined
        self.scenario = scenario
        self.notes = []

    def block(self, stmts, inline_depth=0):
        out = []
        for st in stmts:
            out.extend(self.stmt(st, inline_depth))
        return out

    def stmt(self, st, d):
        src = _name(st)
        if isinstance(st, (ast.Import, ast.ImportFrom, ast.Pass, ast.Global, ast.Nonlocal)):
            return []
        if isinstance(st, ast.Expr) and isinstance(st.value, ast.Constant):
            return []                     # docstring
        if isinstance(st, ast.Raise):
            return [("raise",)]
        if isinstance(st, ast.Return):
            pre = [("mayRaise",)] if st.value is not None and _impure(st.value) else []
            return pre + [("ret",)]
        if isinstance(st, ast.If):
            t = ast.unparse(st.test)
            if t.endswith("was_opened") and all("close()" in _name(x) for x in st.body) and not st.orelse:
                return [("closeIfFlag",)]
            if t in self.scenario:
                return self.block(st.body if self.scenario[t] else st.orelse, d)
            pre = [("mayRaise",)] if _impure(st.test) else []
            return pre + [("branch", [self.block(st.body, d), self.block(st.orelse, d)])]
        if isinstance(st, (ast.For, ast.While)):
            head = st.iter if isinstance(st, ast.For) else st.test
            pre = [("mayRaise",)] if _impure(head) else []
            return pre + [("branch", [[], self.block(st.body, d) + self.block(st.orelse, d)])]
        if isinstance(st, ast.Try):
            body = self.block(st.body, d) + self.block(st.orelse, d)
            if st.handlers:
                # every handler in these functions catches BaseException or a superset of what may be raised is
                # NOT assumed: a typed handler may not catch, so both alternatives are kept
                hs = [self.block(h.body, d) for h in st.handlers]
                typed = any(h.type is not None and _name(h.type) != "BaseException" for h in st.handlers)
                node = ("tryExcept", body, [("branch", hs + ([[("raise",)]] if typed else []))])
                body = [node]
            if st.finalbody:
                return [("tryFinally", body, self.block(st.finalbody, d))]
            return body
        if isinstance(st, ast.With):
            self.notes.append("with-statement treated as its body: " + src[:60])
            return ([("mayRaise",)] if any(_impure(i.context_expr) for i in st.items) else []) + self.block(st.body, d)
        # simple statements
        if isinstance(st, (ast.Assign, ast.AnnAssign, ast.AugAssign, ast.Expr, ast.Delete, ast.Assert)):
            value = getattr(st, "value", None)
            if isinstance(st, ast.Assign) and isinstance(value, ast.Call) and _name(value.func) == "open":
                return [("openFile",)]
            if isinstance(st, ast.Assign) and _name(st.targets[0]).endswith("was_opened"):
                if isinstance(value, ast.Constant) and value.value is True:
                    return [("setFlag",)]
                if isinstance(value, ast.Constant) and value.value is False:
                    return []
                self.notes.append("was_opened assigned a non-literal: " + src[:80])
                return [("mayRaise",)]
            if isinstance(value, ast.Call) and _name(value.func) in self.functions and d < 2:
                inner = self.block(self.functions[_name(value.func)].body, d + 1)
                # a `return` inside the inlined callee only ends the callee
                return [("inlined", inner)]
            if any(_name(c.func) == "open" for c in _calls(st)):
                self.notes.append("open() in an unexpected position: " + src[:80])
                return [("openFile",), ("mayRaise",)]
            return [("mayRaise",)] if _impure(st) else []
        if isinstance(st, (ast.FunctionDef, ast.ClassDef)):
            return []
        self.notes.append("unhandled statement kind %s: %s" % (type(st).__name__, src[:60]))
        return [("mayRaise",)]


def to_lean(prog, indent=2):
    def one(s):
        k = s[0]
        if k in ("openFile", "setFlag", "closeIfFlag", "mayRaise", "raise", "ret"):
            return "." + k
        if k == "branch":
            return ".branch [" + ", ".join(block(a) for a in s[1]) + "]"
        if k == "tryFinally":
            return ".tryFinally " + block(s[1]) + " " + block(s[2])
        if k == "tryExcept":
            return ".tryExcept " + block(s[1]) + " " + block(s[2])
        raise ValueError(k)

    def block(b):
        return "[" + ", ".join(one(x) for x in b) + "]"
    return block(prog)


def flatten_inlined(prog, problems):
    """replace ("inlined", callee) by the callee's statements.  The callee may `ret` only as the last statement
    of its top-level block (then the ret is dropped) or inside branches whose every path ends the callee:
    early returns inside the callee are turned into 'skip the rest of the callee' by nesting the remainder of
    the callee's block in the other alternative."""
    def fix_callee(block):
        # returns a block where `ret` means 'callee finished' has been eliminated
        out = []
        for i, s in enumerate(block):
            rest = block[i + 1:]
            if s[0] == "ret":
                return out                         # drop unreachable rest
            if s[0] == "branch":
                alts = [fix_callee(a + rest) if _has_ret(a) else None for a in s[1]]
                if any(a is not None for a in alts):
                    # alternatives containing a return swallow the rest; the others continue with the rest
                    new_alts = [a if a is not None else fix_callee(list(orig) + rest) for a, orig in zip(alts, s[1])]
                    return out + [("branch", new_alts)]
                out.append(("branch", [fix_callee(a) for a in s[1]]))
            elif s[0] in ("tryFinally", "tryExcept"):
                if _has_ret(s[1]) or _has_ret(s[2]):
                    problems.append("return inside try in an inlined callee")
                out.append(s)
            else:
                out.append(s)
        return out

    def walk(block):
        out = []
        for s in block:
            if s[0] == "inlined":
                out.extend(walk(fix_callee(s[1])))
            elif s[0] == "branch":
                out.append(("branch", [walk(a) for a in s[1]]))
            elif s[0] in ("tryFinally", "tryExcept"):
                out.append((s[0], walk(s[1]), walk(s[2])))
            else:
                out.append(s)
        return out
    return walk(prog)


def _has_ret(block):
    for s in block:
        if s[0] == "ret":
            return True
        if s[0] == "branch" and any(_has_ret(a) for a in s[1]):
            return True
        if s[0] in ("tryFinally", "tryExcept") and (_has_ret(s[1]) or _has_ret(s[2])):
            return True
    return False


def count(prog, kind):
    n = 0
    for s in prog:
        if s[0] == kind:
            n += 1
        if s[0] == "branch":
            n += sum(count(a, kind) for a in s[1])
        if s[0] in ("tryFinally", "tryExcept"):
            n += count(s[1], kind) + count(s[2], kind)
        if s[0] == "inlined":
            n += count(s[1], kind)
    return n


def simplify(block):
    """drop empty branches / statements that cannot matter (keeps the generated terms readable)"""
    out = []
    for s in block:
        if s[0] == "branch":
            alts = [simplify(a) for a in s[1]]
            if all(a == [] for a in alts):
                continue
            uniq = []
            for a in alts:
                if a not in uniq:
                    uniq.append(a)
            out.append(("branch", uniq) if len(uniq) > 1 else None)
            if out[-1] is None:
                out.pop()
                out.extend(uniq[0])
        elif s[0] in ("tryFinally", "tryExcept"):
            b, f = simplify(s[1]), simplify(s[2])
            if not b and s[0] == "tryExcept":
                continue
            out.append((s[0], b, f))
        else:
            out.append(s)
    return out


def extract(sources):
    """sources: {function name: (path, python source)}; returns {name_scenario: skeleton}, notes, problems"""
    funcs = {}
    for name, (path, src) in sources.items():
        tree = ast.parse(src)
        found = [n for n in ast.walk(tree) if isinstance(n, ast.FunctionDef) and n.name == name]
        if not found:
            raise KeyError(f"function {name} not found in {path}")
        funcs[name] = found[0]
    problems, notes, out = [], [], {}
    for scen, table in SCENARIOS.items():
        ex = Extractor({"_parse_file_args": funcs["_parse_file_args"]} if "_parse_file_args" in funcs else {}, table)
        for name, fn in funcs.items():
            raw = ex.block(fn.body)
            out[f"{name}__{scen}"] = simplify(flatten_inlined(raw, problems))
        notes += ex.notes
    return out, notes, problems
