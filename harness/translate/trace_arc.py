"""symbolic trace of `trimesh.path.arc.arc_center` (C14): the centre is a rational function of the three control
points; square roots (used only for the radius and the collinearity test) become fresh symbols and the one
comparison (`denom < tol.merge`, the collinear exit) is answered False"""
import numpy as real_np

import common
from translate.poly import NPProxy, Poly, RF, sym_array, Branch

ARGS = ["x0", "y0", "x1", "y1", "x2", "y2"]


class _Proxy(NPProxy):
    def __init__(self):
        super().__init__()
        self.k = 0
        self.compares = 0

    def sqrt(self, x):
        arr = real_np.asarray(x, dtype=object)
        out = real_np.empty(arr.shape, dtype=object)
        for idx in real_np.ndindex(arr.shape):
            out[idx] = Poly.var("q%d" % self.k)
            self.k += 1
        return out if arr.shape else out[()]

    def dot(self, a, b):
        return real_np.dot(real_np.asarray(a, dtype=object), real_np.asarray(b, dtype=object))

    def prod(self, a, axis=None):
        r = Poly.const(1)
        for x in real_np.asarray(a, dtype=object).ravel():
            r = r * x
        return r


def trace():
    """(numerator x, numerator y, denominator) of the centre as Polys in x0 .. y2"""
    import trimesh.path.arc as A
    saved_np, saved_hook = A.np, Poly._compare_hook
    saved_rf = {k: getattr(RF, k) for k in ("__lt__", "__le__", "__gt__", "__ge__")}
    proxy = _Proxy()
    A.np = proxy

    def hook(self, other=None, *a, **k):
        proxy.compares += 1
        return False
    Poly._compare_hook = hook
    for k in saved_rf:
        setattr(RF, k, hook)
    try:
        info = A.arc_center(sym_array(ARGS, (3, 2)), return_normal=False, return_angle=False)
        c = info.center if hasattr(info, "center") else info["center"]
    except Branch as b:
        raise common.Broken("translate", "arc_center is no longer straight-line up to its collinearity test: " + str(b))
    finally:
        A.np = saved_np
        Poly._compare_hook = saved_hook
        for k, v in saved_rf.items():
            setattr(RF, k, v)
    c = list(real_np.asarray(c, dtype=object))
    if len(c) != 2 or not all(isinstance(x, RF) for x in c) or not (c[0].d == c[1].d):
        raise common.Broken("translate", "arc_center: the centre is no longer two quotients with one denominator")
    for p in (c[0].n, c[1].n, c[0].d):
        if any(v.startswith("q") for v in p.variables()):
            raise common.Broken("translate", "arc_center: the centre now depends on a square root")
    return c[0].n, c[1].n, c[0].d
