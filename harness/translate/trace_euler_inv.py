"""symbolic trace of `transformations.euler_from_matrix` (C19): both branches of all 24 conventions.

The real function is run on a symbolic 3x3 matrix; `np.sqrt` returns the symbol `sq` (its radicand is
recorded), `np.arctan2(y, x)` returns a record of its two arguments (negation folds into `y`), and the one
data-dependent comparison (`sy > _EPS` / `cy > _EPS`) is answered as requested."""
import numpy as real_np

import common
from translate import poly
from translate.poly import Poly, RF, Branch
from translate.trace_transforms import TFProxy

M_NAMES = [f"m{r}{c}" for r in range(3) for c in range(3)]


class Atan:
    """arctan2(y, x) with symbolic arguments; -arctan2(y, x) = arctan2(-y, x)"""

    def __init__(self, y, x):
        self.y, self.x = Poly.const(y), Poly.const(x)

    def __neg__(self):
        return Atan(-self.y, self.x)


class _Proxy(TFProxy):
    def __init__(self, regular):
        super().__init__()
        self.regular = regular
        self.radicands = []
        self.n_compare = 0

    def sqrt(self, x):
        if isinstance(x, Poly):
            self.radicands.append(x)
            return Poly.var("sq")
        return super().sqrt(x)

    def arctan2(self, y, x):
        return Atan(y, x)


def trace():
    """{axes: {"regular": (rad, [(y, x) | None] * 3), "gimbal": (rad, [...])}}; None stands for the constant 0"""
    import trimesh.transformations as TF
    out = {}
    M = poly.sym_array(M_NAMES, (3, 3))
    saved_np, saved_hook = TF.np, getattr(Poly, "_compare_hook", None)
    try:
        for axes in sorted(TF._AXES2TUPLE):
            out[axes] = {}
            for branch in ("regular", "gimbal"):
                proxy = _Proxy(branch == "regular")
                TF.np = proxy

                def cmp_hook(self, other, proxy=proxy):
                    proxy.n_compare += 1
                    return proxy.regular
                Poly._compare_hook = cmp_hook
                try:
                    res = TF.euler_from_matrix(M, axes)
                except Branch as b:
                    raise common.Broken("translate", f"euler_from_matrix('{axes}') is no longer straight-line apart "
                                                     "from its gimbal test: " + str(b))
                if proxy.n_compare != 1 or len(proxy.radicands) != 1:
                    raise common.Broken("translate", f"euler_from_matrix('{axes}') no longer makes exactly one "
                                                     f"comparison on one square root ({proxy.n_compare}, {len(proxy.radicands)})")
                items = []
                for r in res:
                    if isinstance(r, Atan):
                        items.append((r.y, r.x))
                    elif isinstance(r, (int, float)) and float(r) == 0.0:
                        items.append(None)
                    elif isinstance(r, Poly) and r == 0:
                        items.append(None)
                    else:
                        raise common.Broken("translate", f"euler_from_matrix('{axes}') returns something that is "
                                                         "neither arctan2(...) nor 0: " + repr(r)[:80])
                out[axes][branch] = (proxy.radicands[0], items)
    finally:
        TF.np = saved_np
        Poly._compare_hook = saved_hook
    return out


REL = {"i": ("c_i", "s_i"), "j": ("c_j", "s_j"), "k": ("c_k", "s_k")}


def reduce_rel(p):
    """p = nf + sum_a q[a] * (c_a^2 + s_a^2 - 1) with no s_a^2 left in nf; returns (nf, q)"""
    q = {a: Poly.const(0) for a in REL}
    p = Poly.const(p)
    changed = True
    while changed:
        changed = False
        for mon, coef in list(p.t.items()):
            d = dict(mon)
            for a, (c, s) in REL.items():
                if d.get(s, 0) >= 2:
                    d2 = dict(d)
                    d2[s] -= 2
                    if d2[s] == 0:
                        del d2[s]
                    t = Poly({tuple(sorted(d2.items())): coef})
                    rel = Poly.var(c) ** 2 + Poly.var(s) ** 2 - 1
                    p = p - t * rel
                    q[a] = q[a] + t
                    changed = True
                    break
            if changed:
                break
    return p, q


# ------------------------------------------------------------------ identities and Lean text

def _split_var(p, z):
    """p = rest + z * quo with no z in rest"""
    rest, quo = {}, {}
    for mon, coef in p.t.items():
        d = dict(mon)
        if d.get(z, 0) >= 1:
            d[z] -= 1
            if d[z] == 0:
                del d[z]
            k = tuple(sorted(d.items()))
            quo[k] = quo.get(k, 0) + coef
        else:
            rest[mon] = rest.get(mon, 0) + coef
    return Poly(rest), Poly(quo)


def certificate(p, zero_var=None):
    """write p = q_i * rel_i + q_j * rel_j + q_k * rel_k (+ q_g * zero_var) exactly; returns the q's, or None
    when p is not in the ideal reachable by these rewrites (the identity does not hold)"""
    q = {a: Poly.const(0) for a in REL}
    qg = Poly.const(0)
    p = Poly.const(p)
    # which variable of angle j is eliminated by squaring: the one that is not the zero variable
    elim = {a: s for a, (c, s) in REL.items()}
    if zero_var == "s_j":
        elim["j"] = "c_j"
    for _ in range(10000):
        if zero_var is not None:
            p, quo = _split_var(p, zero_var)
            qg = qg + quo
        hit = False
        for mon, coef in list(p.t.items()):
            d = dict(mon)
            for a, (c, s) in REL.items():
                e = elim[a]
                if d.get(e, 0) >= 2:
                    d2 = dict(d)
                    d2[e] -= 2
                    if d2[e] == 0:
                        del d2[e]
                    t = Poly({tuple(sorted(d2.items())): coef})
                    p = p - t * (Poly.var(c) ** 2 + Poly.var(s) ** 2 - 1)
                    q[a] = q[a] + t
                    hit = True
                    break
            if hit:
                break
        if not hit:
            break
    if p.t:
        return None
    return q, qg


def lean_lc(q, qg=None, zero_name="hg"):
    parts = [f"({q[a].lean()}) * h{a}" for a in ("i", "j", "k") if q[a].t]
    if qg is not None and qg.t:
        parts.append(f"({qg.lean()}) * {zero_name}")
    return "linear_combination " + (" + ".join(parts) if parts else "(0 : K) * hi")


def generate(fw_euler, axes2tuple):
    """Lean text of Generated/C19Inverse.lean: traced defs of euler_from_matrix (both branches, 24 conventions) and,
    for each, the lemma that on `M = euler_matrix(ai, aj, ak)` the arguments handed to arctan2 are a common multiple
    of (sin, cos) of the angles that went in (regular branch) and that the gimbal branch returns angles that rebuild
    `M`.  The statements are a fixed template; only the linear-combination certificates depend on the trace."""
    inv = trace()
    L = ["-- GENERATED by harness/props/C19.py (translate/trace_euler_inv.py): symbolic trace of",
         "-- /repo/trimesh/transformations.py::euler_from_matrix, composed with the traced euler_matrix -- do not edit",
         "import TrimeshVerif.Generated.C19Trace", "import Mathlib.Tactic.LinearCombination", "import Mathlib.Tactic.Ring",
         "set_option linter.unusedSimpArgs false", "set_option linter.unusedVariables false",
         "namespace TV.Generated.C19Inv", "open TV.Mat3 TV.Generated.C19",
         "variable {K : Type} [Field K]", ""]
    mvars = {n: Poly.var("M." + n) for n in M_NAMES}
    mvars["sq"] = Poly.var("sq")
    hyps = "(hi : c_i ^ 2 + s_i ^ 2 = 1) (hj : c_j ^ 2 + s_j ^ 2 = 1) (hk : c_k ^ 2 + s_k ^ 2 = 1)"
    cs = "c_i s_i c_j s_j c_k s_k"
    for axes in sorted(inv):
        rep = bool(axes2tuple[axes][2])
        M = fw_euler[axes]
        env = {f"m{r}{c}": M[r][c] for r in range(3) for c in range(3)}
        env["sq"] = Poly.var("sq")
        mcall = f"(euler_{axes} {cs})"
        for br, tag in (("regular", "r"), ("gimbal", "g")):
            rad, items = inv[axes][br]
            L.append(f"/-- radicand of the square root in euler_from_matrix(M, '{axes}'), {br} branch -/")
            L.append(f"def {tag}_{axes}_rad (M : M3 K) : K :=\n  {rad.subs(mvars).lean()}\n")
            for n, it in enumerate(items):
                if it is None:
                    continue
                L.append(f"def {tag}_{axes}_y{n} (M : M3 K) (sq : K) : K :=\n  {it[0].subs(mvars).lean()}")
                L.append(f"def {tag}_{axes}_x{n} (M : M3 K) (sq : K) : K :=\n  {it[1].subs(mvars).lean()}\n")
        # ---- regular branch
        rad, items = inv[axes]["regular"]
        if any(it is None for it in items):
            raise common.Broken("translate", f"euler_from_matrix('{axes}') regular branch returns a constant angle")
        # repeated-axis conventions with odd parity negate all three angles after reading them, so the middle
        # angle comes out in (-pi, 0): the common factor is -sin(aj) there (positive exactly on that range)
        sigma = -1 if (rep and axes2tuple[axes][1]) else 1
        scale = (Poly.var("s_j") if rep else Poly.var("c_j")) * sigma
        want = {"rad": scale * scale,
                "y0": scale * Poly.var("s_i"), "x0": scale * Poly.var("c_i"),
                "y1": Poly.var("sq") * sigma if rep else Poly.var("s_j"), "x1": Poly.var("c_j") if rep else Poly.var("sq"),
                "y2": scale * Poly.var("s_k"), "x2": scale * Poly.var("c_k")}
        got = {"rad": rad.subs(env)}
        for n, it in enumerate(items):
            got[f"y{n}"] = it[0].subs(env)
            got[f"x{n}"] = it[1].subs(env)
        unf = f"r_{axes}_rad, " + ", ".join(f"r_{axes}_{v}{n}" for n in range(3) for v in "yx") + f", euler_{axes}"
        stmts, proofs = [], []
        for key in ("rad", "y0", "x0", "y1", "x1", "y2", "x2"):
            cert = certificate(got[key] - want[key])
            lhs = f"r_{axes}_rad {mcall}" if key == "rad" else f"r_{axes}_{key} {mcall} sq"
            stmts.append(f"{lhs} = {want[key].lean()}")
            proofs.append("  · simp only [" + unf + "] <;>\n    " +
                          (lean_lc(*cert[:1]) if cert else "ring  -- identity not found by the translator"))
        L.append(f"/-- regular branch of euler_from_matrix(euler_matrix(ai, aj, ak, '{axes}'), '{axes}'): the radicand is "
                 f"{'sin' if rep else 'cos'}(aj)^2 and the\n    arguments of the three arctan2 calls are that factor times "
                 "(sin, cos) of ai and ak, and (sin aj, cos aj) with the\n    positive root in place of the factor -/")
        L.append(f"theorem r_{axes}_spec ({cs} sq : K) {hyps} :\n    " + " ∧\n    ".join(stmts) + " := by")
        L.append("  refine ⟨?_, ?_, ?_, ?_, ?_, ?_, ?_⟩")
        L.extend(proofs)
        L.append("")
        # ---- gimbal branch: one outer angle is 0, the other comes from arctan2(y, x); rebuild the matrix
        radg, itemsg = inv[axes]["gimbal"]
        zero_slots = [n for n, it in enumerate(itemsg) if it is None]
        if zero_slots not in ([0], [2]) or itemsg[1] is None:
            raise common.Broken("translate", f"euler_from_matrix('{axes}') gimbal branch no longer zeroes one outer angle")
        z = zero_slots[0]
        nz = 2 - z
        X = f"(g_{axes}_x{nz} {mcall} 0)"
        Y = f"(g_{axes}_y{nz} {mcall} 0)"
        args = [None, None, None]
        args[z] = "1 0"
        args[nz] = f"{X} {Y}"
        args[1] = "c_j s_j"
        zero_var = "s_j" if rep else "c_j"
        gx = itemsg[nz][1].subs(env).subs({**{v: Poly.var(v) for v in cs.split()}, "sq": Poly.const(0)})
        gy = itemsg[nz][0].subs(env).subs({**{v: Poly.var(v) for v in cs.split()}, "sq": Poly.const(0)})
        # the matrix rebuilt from the returned angles
        senv = {v: Poly.var(v) for v in cs.split()}
        ci, si, ck, sk = ("c_i", "s_i", "c_k", "s_k")
        if z == 2:
            senv.update({ci: gx, si: gy, ck: Poly.const(1), sk: Poly.const(0)})
        else:
            senv.update({ck: gx, sk: gy, ci: Poly.const(1), si: Poly.const(0)})
        unfg = f"g_{axes}_x{nz}, g_{axes}_y{nz}, euler_{axes}"
        bullets = []
        for r in range(3):
            for c in range(3):
                diff = M[r][c].subs(senv) - M[r][c]
                cert = certificate(diff, zero_var)
                bullets.append("  · simp only [" + unfg + "] <;>\n    " +
                               (lean_lc(cert[0], cert[1]) if cert else "ring  -- identity not found by the translator"))
        ucert = certificate(gx * gx + gy * gy - 1, zero_var)
        L.append(f"/-- gimbal branch ('{axes}', {'sin' if rep else 'cos'} aj = 0): the angles it returns - one outer angle 0, the other "
                 "arctan2(y, x) with\n    x^2 + y^2 = 1 - rebuild the matrix they were read from -/")
        L.append(f"theorem g_{axes}_spec ({cs} : K) {hyps} (hg : {zero_var} = 0) :\n"
                 f"    {X} ^ 2 + {Y} ^ 2 = 1 ∧\n    euler_{axes} {args[0]} {args[1]} {args[2]} = euler_{axes} {cs} := by")
        L.append("  refine ⟨?_, ?_⟩")
        L.append("  · simp only [" + unfg + "] <;>\n    " +
                 (lean_lc(ucert[0], ucert[1]) if ucert else "ring  -- identity not found by the translator"))
        L.append("  · apply M3.ext'")
        L.extend("  " + b.replace("\n", "\n  ") for b in bullets)
        L.append("")
    L.append("end TV.Generated.C19Inv")
    return "\n".join(L) + "\n"
