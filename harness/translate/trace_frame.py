"""symbolic trace of `Trimesh.moment_inertia_frame` -> `inertia.transform_inertia` (C03 frame law)"""
import numpy as real_np

import common
from translate.poly import NPProxy, Poly, Branch

R_NAMES = ["r11", "r12", "r13", "r21", "r22", "r23", "r31", "r32", "r33"]
ARGS = R_NAMES + ["p1", "p2", "p3", "c1", "c2", "c3", "m", "i00", "i01", "i02", "i11", "i12", "i22"]


class _FakeMesh:
    """stands for `self`: only `mass_properties` is read by moment_inertia_frame"""

    def __init__(self, props):
        self.mass_properties = props


def _multi_dot(arrays):
    out = arrays[0]
    for a in arrays[1:]:
        out = real_np.dot(out, a)
    return out


def trace():
    """returns the 3x3 array of Polys in ARGS that moment_inertia_frame returns for the frame (R | p), centre
    of mass c, mass m and the symmetric inertia tensor (i00 .. i22) at the centre of mass"""
    import trimesh.base as B
    import trimesh.inertia as I
    v = {n: Poly.var(n) for n in ARGS}
    T = real_np.empty((4, 4), dtype=object)
    for r in range(3):
        for c in range(3):
            T[r, c] = v[R_NAMES[3 * r + c]]
        T[r, 3] = v["p%d" % (r + 1)]
        T[3, r] = Poly.const(0)
    T[3, 3] = Poly.const(1)
    inertia = real_np.empty((3, 3), dtype=object)
    for (r, c), n in {(0, 0): "i00", (0, 1): "i01", (0, 2): "i02", (1, 1): "i11", (1, 2): "i12", (2, 2): "i22"}.items():
        inertia[r, c] = inertia[c, r] = v[n]
    props = {"center_mass": real_np.array([v["c1"], v["c2"], v["c3"]], dtype=object), "inertia": inertia,
             "mass": v["m"]}
    saved = (B.np, I.np, getattr(I, "multi_dot", None))
    proxy = NPProxy()
    B.np = proxy
    I.np = proxy
    if saved[2] is not None:
        I.multi_dot = _multi_dot          # numpy's multi_dot insists on numeric dtypes; same product, left to right
    try:
        out = B.Trimesh.moment_inertia_frame(_FakeMesh(props), T)
    except Branch as b:
        raise common.Broken("translate", "moment_inertia_frame / transform_inertia is no longer straight-line: " + str(b))
    finally:
        B.np, I.np = saved[0], saved[1]
        if saved[2] is not None:
            I.multi_dot = saved[2]
    out = real_np.asarray(out, dtype=object)
    if out.shape != (3, 3):
        raise common.Broken("translate", "moment_inertia_frame no longer returns a 3x3 tensor")
    return out
