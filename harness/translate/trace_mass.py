"""symbolic trace of the real `trimesh.triangles.mass_properties` (C03, used by C04 too)"""
import numpy as real_np

import common
from translate.poly import NPProxy, Poly, RF, sym_array, Branch

NAMES = ["a1", "a2", "a3", "b1", "b2", "b3", "c1", "c2", "c3"]


class _Never:
    """result of np.abs(volume): the recorded branch `abs(volume) < threshold` is taken as False"""
    def __lt__(self, o):
        return False

    def __le__(self, o):
        return False


class _Extent:
    """result of np.ptp(coordinates) / np.abs(triangles) and what is derived from it (max, powers, multiples): a non-negative size
    of the coordinates that only enters the threshold of the "no volume" branch"""
    def max(self, *a, **k):
        return self

    def __pow__(self, o):
        return self

    def __mul__(self, o):
        return self
    __rmul__ = __mul__


def trace():
    """returns the ten per-face integrands (divisors included) as Polys in a1..c3, recovered from the
    outputs of the real function on one symbolic triangle; checks linearity on two triangles"""
    import trimesh.triangles as T
    branches = []

    def hook(kind, x):
        if kind == "ptp" or (isinstance(x, real_np.ndarray) and x.ndim >= 2):
            # spread / magnitude of the coordinates of all triangles: only used to scale the threshold
            return _Extent()
        branches.append(kind)
        return _Never()
    saved = T.np
    T.np = NPProxy(branch_hook=hook)
    try:
        def integrands(tri):
            zero = real_np.array([Poly.const(0)] * 3, dtype=object)
            del branches[:]
            res = T.mass_properties(tri, density=Poly.const(1), center_mass=zero)
            if branches:
                raise common.Broken("translate", "with a centre-of-mass override mass_properties now branches on "
                                                 f"the data ({branches}): the override may no longer be honoured")
            I = res.inertia
            i4 = (I[1, 1] + I[2, 2] - I[0, 0]) / 2
            i5 = (I[0, 0] + I[2, 2] - I[1, 1]) / 2
            i6 = (I[0, 0] + I[1, 1] - I[2, 2]) / 2
            del branches[:]
            res3 = T.mass_properties(tri, density=Poly.const(1), center_mass=None, skip_inertia=True)
            if branches != ["abs"]:
                raise common.Broken("translate", f"unexpected data-dependent branches {branches}")
            firsts = []
            for k in range(3):
                rf = res3.center_mass[k]
                if not isinstance(rf, RF) or not (rf.d == res3.volume):
                    raise common.Broken("translate", "center_mass is no longer first_moment / volume")
                firsts.append(rf.n)
            if not (res.volume == res3.volume):
                raise common.Broken("translate", "volume depends on the centre-of-mass override")
            for (r, c) in ((0, 1), (1, 2), (0, 2)):
                if not (I[r, c] == I[c, r]):
                    raise common.Broken("translate", "inertia tensor is not symmetric")
            return [res.volume] + firsts + [i4, i5, i6, -I[0, 1], -I[1, 2], -I[0, 2]], res, res3
        F, res, res3 = integrands(sym_array(NAMES, (1, 3, 3)))
        # linearity: two triangles give the sum of the per-face integrands
        n2 = [n + "x" for n in NAMES]
        tri2 = real_np.concatenate([sym_array(NAMES, (1, 3, 3)), sym_array(n2, (1, 3, 3))])
        F2, _, _ = integrands(tri2)
        for i in range(10):
            second = F[i].subs({n: Poly.var(n + "x") for n in NAMES})
            if not (F2[i] == F[i] + second):
                raise common.Broken("translate", f"integrand {i} is not a sum over faces")
        # density / override behaviour of the post-processing, traced with symbols
        rho = Poly.var("rho")
        cm = real_np.array([Poly.var("k1"), Poly.var("k2"), Poly.var("k3")], dtype=object)
        del branches[:]
        r = T.mass_properties(sym_array(NAMES, (1, 3, 3)), density=rho, center_mass=cm)
        if branches:
            raise common.Broken("translate", f"override path branches on the data: {branches}")
        post = {"mass": r.mass, "volume": r.volume, "center_mass": list(r.center_mass), "inertia": r.inertia}
    except Branch as b:
        raise common.Broken("translate", "mass_properties is no longer straight-line: " + str(b))
    finally:
        T.np = saved
    return F, post
