"""symbolic traces of trimesh.transformations (C19, C04): the real functions run on exact polynomials;
angles enter as (c, s) symbols, unit axes as symbols with the relation |u|^2 = 1 stated in Lean,
sqrt(2/n) in quaternion_matrix as a symbol `r` with r^2 * n = 2."""
from fractions import Fraction

import numpy as real_np

import common
from translate import poly
from translate.poly import NPProxy, Poly, RF, Branch


class _Never:
    def __lt__(self, o):
        return False

    def __gt__(self, o):
        return True


class _AbsResult:
    def max(self):
        return _Never()


def _angle_parts(p):
    """an angle expression must be coef * symbol"""
    if isinstance(p, RF):
        raise Branch("rational angle")
    p = Poly.const(p)
    if len(p.t) != 1:
        raise Branch("angle expression is not a multiple of one symbol")
    (mon, coef), = p.t.items()
    if len(mon) != 1 or mon[0][1] != 1:
        raise Branch("angle expression is not linear")
    name = mon[0][0]
    a = abs(coef)
    suffix = {Fraction(1): "", Fraction(1, 2): "h"}.get(a)
    if suffix is None:
        raise Branch(f"unsupported angle multiple {coef}")
    return name + suffix, (1 if coef > 0 else -1)


class TFProxy(NPProxy):
    """numpy stand-in for trimesh.transformations"""

    def __init__(self):
        super().__init__(branch_hook=lambda k, x: _AbsResult())
        self.relations = []
        self.compares = 0

    def sin(self, a):
        n, sg = _angle_parts(a)
        return Poly.var("s_" + n) * sg

    def cos(self, a):
        n, _ = _angle_parts(a)
        return Poly.var("c_" + n)

    def sqrt(self, x):
        arr = real_np.asarray(x, dtype=object)
        out = real_np.empty(arr.shape, dtype=object)
        for idx in real_np.ndindex(arr.shape):
            v = arr[idx]
            if not isinstance(v, RF):
                raise Branch("sqrt of a non-rational expression")
            self.relations.append(("r^2 * den = num", v.n, v.d))
            out[idx] = Poly.var("r")
        return out if arr.shape else out[()]

    def diag(self, v):
        v = list(v)
        z = self.zeros((len(v), len(v)))
        for i, x in enumerate(v):
            z[i, i] = Poly.const(x) if not isinstance(x, (Poly, RF)) else x
        return z

    def einsum(self, spec, a, b):
        a, b = real_np.asarray(a, dtype=object), real_np.asarray(b, dtype=object)
        if spec == "ij,ij->i":
            return real_np.array([sum((a[i, j] * b[i, j] for j in range(a.shape[1])), Poly.const(0))
                                  for i in range(a.shape[0])], dtype=object)
        if spec == "ij,ik->ikj":
            out = real_np.empty((a.shape[0], b.shape[1], a.shape[1]), dtype=object)
            for i in range(a.shape[0]):
                for k in range(b.shape[1]):
                    for j in range(a.shape[1]):
                        out[i, k, j] = a[i, j] * b[i, k]
            return out
        raise Branch("unsupported einsum " + spec)

    def ascontiguousarray(self, a, **kw):
        return real_np.asarray(a, dtype=object)

    def column_stack(self, t):
        return real_np.column_stack([poly.to_obj(x) if real_np.asarray(x).dtype != object else real_np.asarray(x, dtype=object)
                                     for x in t])

    def ones(self, shape, dtype=None, **kw):
        return super().ones(shape)

    def negative(self, a):
        return -real_np.asarray(a, dtype=object)


def _with_proxy(fn):
    import trimesh.transformations as TF
    saved_np, saved_hook = TF.np, getattr(Poly, "_compare_hook", None)
    proxy = TFProxy()
    TF.np = proxy

    def cmp_hook(self, other):
        proxy.compares += 1
        return False
    Poly._compare_hook = cmp_hook
    saved_unit = TF.unit_vector
    TF.unit_vector = lambda d, axis=None, out=None: real_np.asarray(d, dtype=object)   # |u| = 1 is a hypothesis
    try:
        return fn(TF, proxy)
    except Branch as b:
        raise common.Broken("translate", "transformations function is no longer straight-line: " + str(b))
    finally:
        TF.np = saved_np
        TF.unit_vector = saved_unit
        Poly._compare_hook = saved_hook


def _mat(M, n=3):
    M = real_np.asarray(M, dtype=object)
    return [[Poly.const(M[i, j]) if not isinstance(M[i, j], Poly) else M[i, j] for j in range(M.shape[1])]
            for i in range(M.shape[0])]


def trace_all():
    def run(TF, proxy):
        out = {}
        ang = Poly.var("a")
        u = real_np.array([Poly.var("u1"), Poly.var("u2"), Poly.var("u3")], dtype=object)
        p = real_np.array([Poly.var("p1"), Poly.var("p2"), Poly.var("p3")], dtype=object)
        out["rotation"] = _mat(TF.rotation_matrix(ang, u))
        out["rotation_point"] = _mat(TF.rotation_matrix(ang, u, p))
        # quaternions
        q = real_np.array([Poly.var("w"), Poly.var("x"), Poly.var("y"), Poly.var("z")], dtype=object)
        proxy.relations.clear()
        Q = TF.quaternion_matrix(q)
        Q = real_np.asarray(Q, dtype=object)
        if Q.ndim == 3:
            Q = Q[0]
        out["quaternion_matrix"] = _mat(Q)
        out["quaternion_matrix_relations"] = list(proxy.relations)
        q0 = real_np.array([Poly.var("w0"), Poly.var("x0"), Poly.var("y0"), Poly.var("z0")], dtype=object)
        q1 = real_np.array([Poly.var("w1"), Poly.var("x1"), Poly.var("y1"), Poly.var("z1")], dtype=object)
        out["quaternion_multiply"] = [Poly.const(x) for x in TF.quaternion_multiply(q1, q0)]
        # euler conventions
        out["euler"] = {}
        out["quat_from_euler"] = {}
        ai, aj, ak = Poly.var("i"), Poly.var("j"), Poly.var("k")
        for axes in sorted(TF._AXES2TUPLE):
            out["euler"][axes] = _mat(TF.euler_matrix(ai, aj, ak, axes))
            out["quat_from_euler"][axes] = [Poly.const(x) for x in TF.quaternion_from_euler(ai, aj, ak, axes)]
        out["axes2tuple"] = {k: list(v) for k, v in TF._AXES2TUPLE.items()}
        out["next_axis"] = list(TF._NEXT_AXIS)
        # points
        M4 = poly.sym_array([f"m{i}{j}" for i in range(4) for j in range(4)], (4, 4))
        P3 = poly.sym_array(["x1", "x2", "x3"], (1, 3))
        out["transform_points_3d"] = [Poly.const(v) for v in real_np.asarray(TF.transform_points(P3, M4), dtype=object)[0]]
        out["transform_points_3d_notranslate"] = [Poly.const(v) for v in
                                                  real_np.asarray(TF.transform_points(P3, M4, translate=False), dtype=object)[0]]
        M3 = poly.sym_array([f"n{i}{j}" for i in range(3) for j in range(3)], (3, 3))
        P2 = poly.sym_array(["y1", "y2"], (1, 2))
        out["transform_points_2d"] = [Poly.const(v) for v in real_np.asarray(TF.transform_points(P2, M3), dtype=object)[0]]
        out["translation"] = _mat(TF.translation_matrix(real_np.array([Poly.var("t1"), Poly.var("t2"), Poly.var("t3")], dtype=object)))
        return out
    return _with_proxy(run)
