#!/venv/bin/python
"""run the translator of every property (Generated/*.lean are not committed)"""
import importlib, os, sys, glob
HERE = os.path.dirname(os.path.abspath(__file__))
sys.path.insert(0, HERE)
import common
bad = 0
for f in sorted(glob.glob(os.path.join(HERE, "props", "C*.py"))):
    prop = os.path.basename(f)[:-3]
    mod = importlib.import_module("props." + prop)
    if not hasattr(mod, "translate"):
        continue
    try:
        gen = mod.translate(common.Ctx(prop, "quick", 0)) or {}
        for rel, text in gen.items():
            common.write_if_changed(os.path.join(common.GENERATED, rel), text)
        print(prop, "generated", sorted(gen))
    except Exception as e:
        bad += 1
        print(prop, "translate failed:", repr(e))
sys.exit(0)
