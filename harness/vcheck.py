#!/venv/bin/python
"""Entry point of every check:   vcheck.py Cxx [--tier quick|thorough] [--replay file]

exit 0  property held on everything explored (known findings are printed, not alarms)
exit 1  VIOLATION property=<id> replay=<path> [no-failing-input-found]
exit 2  the check's own infrastructure failed
"""
import argparse
import importlib
import itertools
import json
import os
import sys
import time
import warnings
import logging

warnings.simplefilter("ignore")
logging.disable(logging.CRITICAL)
os.environ.setdefault("PYTHONWARNINGS", "ignore")

HERE = os.path.dirname(os.path.abspath(__file__))
sys.path.insert(0, HERE)
import common  # noqa: E402
from common import Broken, Ctx  # noqa: E402

_MOD = None


def _worker(case):
    return _eval_case(_MOD, case)


def _eval_case(mod, case):
    """run the implementation on one case and evaluate the property oracle on its behaviour"""
    try:
        obs = mod.run_case(case)
    except Exception as e:  # an exception is an observable outcome, never an infrastructure failure
        obs = {"err": common.err_kind(e), "trace": common.tb_short(e)}
    obs = common.jsonable(obs)
    try:
        sig = mod.oracle(case, obs)
    except Exception as e:
        sig = {"kind": "oracle-crash", "err": common.err_kind(e), "trace": common.tb_short(e)}
    return obs, common.jsonable(sig)


def load_corpus(prop):
    path = os.path.join(HERE, "corpus", prop + ".jsonl")
    try:
        return [json.loads(l) for l in open(path) if l.strip()]
    except OSError:
        return []


def main():
    global _MOD
    ap = argparse.ArgumentParser()
    ap.add_argument("prop")
    ap.add_argument("--tier", default=os.environ.get("VERIF_TIER", "quick"), choices=["quick", "thorough"])
    ap.add_argument("--replay")
    ap.add_argument("--no-lean", action="store_true", help="debug: skip translate/build/audit")
    a = ap.parse_args()
    prop = a.prop
    if a.no_lean:
        os.environ.setdefault("VERIF_EVIDENCE_DIR", "/tmp/verif-scratch-evidence")
    seed = int(os.environ.get("VERIF_SEED", "0") or 0)
    ctx = Ctx(prop, a.tier, seed)
    mod = importlib.import_module("props." + prop)
    _MOD = mod
    findings = common.load_findings(prop)

    if a.replay:
        return replay(mod, prop, a.replay, findings)

    broken = []        # obligations that no longer check
    lean_info = {"theorems": [], "axioms": {}, "generated": [], "leanchecker": False}

    # ---- 1-3  translate, build, audit
    if not a.no_lean:
        try:
            with common.LeanLock():
                gen = {}
                if hasattr(mod, "translate"):
                    try:
                        gen = mod.translate(ctx) or {}
                    except Broken as b:
                        broken.append({"kind": b.kind, "what": b.what, "detail": b.detail})
                    except Exception as e:
                        broken.append({"kind": "translate", "what": "translator failed on the current source: "
                                       + repr(e)[:300], "detail": common.tb_short(e)})
                for rel, text in gen.items():
                    common.write_if_changed(os.path.join(common.GENERATED, rel), text)
                lean_info["generated"] = sorted(gen)
                ok, out = common.lake_build(["TrimeshVerif.Props." + prop, "tvdriver"])
                if not ok:
                    errs = common.lean_errors(out)
                    for (f, ln, msg) in errs[:5] or [("?", 0, out[-600:])]:
                        broken.append({"kind": "lean", "what": f"{f}:{ln}", "theorem": common.theorem_at(f, ln),
                                       "detail": msg})
                else:
                    try:
                        names, used = common.audit(prop)
                        lean_info["theorems"], lean_info["axioms"] = names, used
                        if a.tier == "thorough":
                            lean_info["leanchecker"] = common.leanchecker(prop)
                    except Broken as b:
                        broken.append({"kind": b.kind, "what": b.what, "detail": b.detail})
        except Exception as e:
            print("infrastructure failure in lean stage:", repr(e), file=sys.stderr)
            print(common.tb_short(e), file=sys.stderr)
            return 2

    # ---- 4  correspondence: corpus first, then generated cases
    ctx.start_budget()
    corpus = load_corpus(prop)
    gen_iter = mod.cases(ctx)
    if broken and hasattr(mod, "synth_cases"):
        gen_iter = itertools.chain(mod.synth_cases(ctx, broken), gen_iter)
    all_cases = itertools.chain(corpus, gen_iter)
    max_cases = int(os.environ.get("VERIF_CASES", getattr(mod, "N_CASES", {}).get(a.tier, 1000)))
    results = []       # (case, obs, sig)
    cut = False
    if a.tier == "thorough" and getattr(mod, "PARALLEL", True):
        import multiprocessing as mp
        pool = mp.get_context("fork").Pool(int(os.environ.get("VERIF_JOBS", "14")))
        cases_buf = []

        def tee(gen):
            for c in gen:
                cases_buf.append(c)
                yield c
        it = pool.imap(_worker, tee(itertools.islice(all_cases, max_cases)), chunksize=4)
        for i, (obs, sig) in enumerate(it):
            results.append((cases_buf[i], obs, sig))
            if ctx.left() < 0:
                cut = True
                break
        pool.terminate()
    else:
        for case in itertools.islice(all_cases, max_cases):
            obs, sig = _eval_case(mod, case)
            results.append((case, obs, sig))
            if ctx.left() < 0 and len(results) >= len(corpus):
                cut = True
                break

    # model side
    reqs, idx = [], []
    for i, (case, obs, sig) in enumerate(results):
        r = mod.model_request(case, obs) if hasattr(mod, "model_request") else None
        if r is not None:
            reqs.append(r)
            idx.append(i)
    replies = {}
    model_ran = False
    try:
        if hasattr(mod, "local_model"):
            # the "model" is the set of polynomials the translator traced from the source (the same objects
            # that were printed into Generated/*.lean), evaluated exactly in Python
            out = [mod.local_model(r) for r in reqs]
        else:
            out = common.run_model(reqs, shards=12 if a.tier == "thorough" else 4)
        replies = dict(zip(idx, out))
        model_ran = True
    except Broken as b:
        if not any(x["kind"] == "lean" for x in broken):
            broken.append({"kind": b.kind, "what": b.what, "detail": b.detail})
    except Exception as e:
        print("infrastructure failure in driver:", repr(e), file=sys.stderr)
        return 2

    # ---- 5  classify
    known_hit, violations, disagreements = {}, [], []
    n_nontrivial, distinct = 0, set()
    for i, (case, obs, sig) in enumerate(results):
        if not sig and i in replies and hasattr(mod, "model_oracle"):
            # the property itself is "the code returns what the (proved) exhaustive model returns": a difference on
            # an in-scope input is a failing input of the property, not just a broken correspondence
            try:
                sig = mod.model_oracle(case, obs, replies[i])
            except Exception as e:
                disagreements.append((case, obs, replies[i], "model_oracle crashed: " + repr(e)))
                sig = None
        if sig:
            # an oracle may report several independent failures of one case: the case is a
            # violation when any of them is not a listed finding
            sigs = sig if isinstance(sig, list) else [sig]
            unlisted = None
            for sg in sigs:
                f = common.match_finding(findings, sg)
                if f:
                    known_hit.setdefault(f["id"], f)
                elif unlisted is None:
                    unlisted = sg
            if unlisted is None:
                ctx.count("known_finding_cases")
            else:
                violations.append((case, obs, unlisted))
            continue
        if i in replies:
            try:
                d = mod.compare(case, obs, replies[i])
            except Exception as e:
                d = "compare crashed: " + repr(e)
            if d:
                disagreements.append((case, obs, replies[i], d))
        nt = mod.nontrivial(case, obs) if hasattr(mod, "nontrivial") else True
        if nt:
            dg = common.digest(case)
            if dg not in distinct:
                distinct.add(dg)
                n_nontrivial += 1

    for k_, v_ in getattr(mod, "STATS", {}).items():
        ctx.stats[k_] = ctx.stats.get(k_, 0) + v_
    for f in known_hit.values():
        print(f"KNOWN-FINDING: property={prop} {f['what']}")

    # ---- 6  decide
    status, replay_path, vline = 0, None, None
    if violations:
        case, obs, sig = violations[0]
        if hasattr(mod, "shrink"):
            try:
                case, obs, sig = mod.shrink(case, obs, sig, lambda c: _eval_case(mod, c))
            except Exception:
                pass
        replay_path = common.write_replay(prop, {
            "property": prop, "seed": seed, "tier": a.tier, "kind": "failing-input", "case": case,
            "observed": obs, "signature": sig, "broken_obligations": broken,
            "n_failing_cases": len(violations)})
        vline = f"VIOLATION property={prop} replay={replay_path}"
        status = 1
    elif broken or disagreements:
        payload = {"property": prop, "seed": seed, "tier": a.tier, "kind": "no-failing-input-found",
                   "broken_obligations": broken,
                   "disagreements": [{"case": c, "impl": o, "model": r, "diff": d}
                                     for (c, o, r, d) in disagreements[:5]],
                   "searched_cases": len(results)}
        replay_path = common.write_replay(prop, payload)
        vline = f"VIOLATION property={prop} replay={replay_path} no-failing-input-found"
        status = 1

    wall = time.time() - ctx.t0
    n_thm = len(lean_info["theorems"])
    n_gen = getattr(mod, "generated_obligations", lambda: 0)()
    samples = [{"case": c, "impl": _trim(o)} for (c, o, s) in results[:: max(1, len(results) // 3)][:3]]
    ev = {
        "property_id": prop, "tier": a.tier, "seed": seed, "level": getattr(mod, "LEVEL", "proof"),
        "coverage": {
            "obligations": n_thm + n_gen,
            "discharged": 0 if any(b["kind"] in ("lean", "audit", "translate", "leanchecker") for b in broken)
            else n_thm + n_gen,
            "checker_cmd": "cd lean && lake build TrimeshVerif.Props.%s  (kernel) ; #print axioms of every theorem"
                           % prop + (" ; lake env leanchecker TrimeshVerif.Props.%s" % prop
                                     if lean_info["leanchecker"] else ""),
            "trusted_base": getattr(mod, "TRUSTED", []) + [
                "Lean 4.33.0 kernel; axioms actually used by the property theorems: "
                + ", ".join(sorted({x for v in lean_info["axioms"].values() for x in v}) or ["none"]),
                "harness/translate + harness/props/%s.py (translator, generators, adapters, oracle) - unverified" % prop],
            "theorems": lean_info["theorems"],
            "generated_files": lean_info["generated"],
            "generated_obligations": n_gen,
            "leanchecker": lean_info["leanchecker"],
            "evaluations": len(results),
            "distinct_nontrivial": n_nontrivial,
            "model_replies_compared": len(replies),
            "traces_validated_against_impl": len(replies),
            "programs": len(results),
            "disagreements_checked": len(disagreements),
            "rule": getattr(mod, "RULE", ""),
            "samples": samples,
            "distribution": ctx.stats,
            "corpus_cases": len(corpus),
            "cut_by_budget": cut,
            "known_findings_exercised": sorted(known_hit),
            "broken_obligations": broken,
            "explanation": getattr(mod, "EXPLANATION", ""),
        },
        "assumptions": getattr(mod, "ASSUMPTIONS", []),
        "wall_s": round(wall, 2),
        "violations": len(violations) + (1 if (status == 1 and not violations) else 0),
    }
    common.write_evidence(prop, ev)
    print(f"[{prop}] tier={a.tier} seed={seed} theorems={n_thm} generated_obligations={n_gen} "
          f"cases={len(results)} model_compared={len(replies)} nontrivial={n_nontrivial} "
          f"known={sorted(known_hit)} disagreements={len(disagreements)} broken={len(broken)} "
          f"violations={len(violations)} wall={wall:.1f}s")
    if vline:
        for b in broken[:3]:
            print("  broken:", b["kind"], b["what"], (b.get("theorem") or ""), "|", str(b.get("detail"))[:300])
        for (c, o, r, d) in disagreements[:3]:
            print("  disagreement:", d, "| case:", json.dumps(c)[:300])
        for (c, o, s) in violations[:3]:
            print("  failing:", json.dumps(s)[:400])
        print(vline)
    return status


def _trim(o, n=400):
    s = json.dumps(o, default=str)
    return o if len(s) <= n else s[:n] + "..."


def replay(mod, prop, path, findings):
    if not os.path.isabs(path):
        path = os.path.join(common.VERIF, path)
    payload = json.load(open(path))
    if payload.get("kind") == "no-failing-input-found":
        print(f"[{prop}] replay names broken obligations only:")
        for b in payload.get("broken_obligations", []):
            print("  ", b["kind"], b["what"], b.get("theorem"), str(b.get("detail"))[:300])
        cases = [d["case"] for d in payload.get("disagreements", [])]
    else:
        cases = [payload["case"]]
    bad = 0
    for case in cases:
        obs, sig = _eval_case(mod, case)
        if not sig and hasattr(mod, "model_oracle") and hasattr(mod, "model_request"):
            r = mod.model_request(case, obs)
            if r is not None:
                rep = mod.local_model(r) if hasattr(mod, "local_model") else common.run_model([r], shards=1)[0]
                sig = common.jsonable(mod.model_oracle(case, obs, rep))
        print("case:", json.dumps(case)[:600])
        print("observed:", json.dumps(obs, default=str)[:600])
        if sig:
            for sg in (sig if isinstance(sig, list) else [sig]):
                f = common.match_finding(findings, sg)
                print("property FAILS on the implementation:", json.dumps(sg)[:600],
                      "(known finding %s)" % f["id"] if f else "")
                if not f:
                    bad += 1
        else:
            print("property holds on the implementation for this case")
    if bad:
        print(f"VIOLATION property={prop} replay={os.path.relpath(path, common.VERIF)}")
        return 1
    return 0


if __name__ == "__main__":
    sys.exit(main())
