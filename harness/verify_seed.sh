#!/bin/bash
# usage: verify_seed.sh <PROP> <k>   -- confirm a seeded change from /tmp/mut_<PROP>/ in a scratch worktree:
#   demo passes on the clean tree, fails with the change, and the repository's test suite still passes with it.
# Writes /tmp/verify_<PROP>_<k>.log; on success copies the artefacts to /verif/seeded/<PROP>-<k>/
set -u
P=$1; K=$2; D=${MUTDIR:-/tmp/mut_$P}; W=/tmp/vw_${P}_$K; LOG=/tmp/verify_${P}_$K.log
exec > $LOG 2>&1
git -C /repo worktree remove --force $W 2>/dev/null
git -C /repo worktree add --detach $W HEAD -q || exit 2
cd $W
echo "== demo on clean tree"; /venv/bin/python $D/demo_$K.py > /tmp/vw_${P}_$K.clean.out 2>&1; c=$?; tail -2 /tmp/vw_${P}_$K.clean.out; echo "clean_exit=$c"
git apply $D/mutant_$K.diff || { echo "APPLY FAILED"; git -C /repo worktree remove --force $W; exit 2; }
echo "== demo on mutated tree"; /venv/bin/python $D/demo_$K.py > /tmp/vw_${P}_$K.mut.out 2>&1; m=$?; tail -3 /tmp/vw_${P}_$K.mut.out; echo "mutant_exit=$m"
echo "== test suite on mutated tree"
/venv/bin/python -m pytest -q -p no:cacheprovider --timeout=900 -n 5 tests 2>&1 | tail -6 > /tmp/vw_${P}_$K.tests.out; cat /tmp/vw_${P}_$K.tests.out
# test_obb_mesh_large asserts a wall-clock bound and fails under CPU load: when it fails, run it again on its own
if grep -q "^FAILED tests/test_bounds.py::BoundsTest::test_obb_mesh_large" /tmp/vw_${P}_$K.tests.out; then
  if /venv/bin/python -m pytest -q -p no:cacheprovider tests/test_bounds.py::BoundsTest::test_obb_mesh_large > /tmp/vw_${P}_$K.obb.out 2>&1; then
    echo "test_obb_mesh_large: failed under load, passes when run alone"; sed -i '/test_obb_mesh_large/d' /tmp/vw_${P}_$K.tests.out
  fi
fi
fails=$(grep -E "^FAILED|^ERROR" /tmp/vw_${P}_$K.tests.out | grep -v "test_on_edge\|test_primitives.py::PrimitiveTest::test_primitives" | wc -l)
summary=$(grep -E "passed|failed" /tmp/vw_${P}_$K.tests.out | tail -1)
cd /; git -C /repo worktree remove --force $W
ok=0; [ $c -eq 0 ] && [ $m -ne 0 ] && [ $fails -eq 0 ] && echo "$summary" | grep -q passed && ok=1
echo "VERDICT ok=$ok clean_exit=$c mutant_exit=$m other_failures=$fails :: $summary"
if [ $ok -eq 1 ]; then
  S=/verif/seeded/$P-$K; mkdir -p $S
  cp $D/mutant_$K.diff $S/patch.diff; cp $D/demo_$K.py $S/demo.py
  /venv/bin/python - <<PY
import json
m=json.load(open("$D/meta_$K.json"))
out={"property":"$P","summary":m.get("summary"),"files":m.get("files"),"needs_to_manifest":m.get("needs_to_manifest"),
 "source":"independent sub-agent given only the property text and a scratch worktree",
 "confirmed":{"by":"harness/verify_seed.sh in scratch worktree $W (removed afterwards)","repo_head":"$(git -C /repo log --format=%h -1)",
  "demo_clean_exit":$c,"demo_mutant_exit":$m,"test_suite":"pytest -n 5 tests: $summary (known: test_on_edge fails on the clean tree)"},
 "detected_by":None}
json.dump(out,open("$S/meta.json","w"),indent=1)
PY
fi
