import Driver.Util
import TrimeshVerif.Model.Tracked
import TrimeshVerif.Generated.C02Flagged
open Lean Drv TV.Tracked
namespace Drv.C02

def jOp (j : Json) : Except String Op := do
  let l ← jArr j
  match l with
  | [k, i, kind, name, cells, vals] => do
    if (← jStr k) != "write" then throw "bad op"
    let kd ← jStr kind
    let nm ← jStr name
    let r := if kd == "m" then Route.method nm else Route.func nm
    pure (.write (← jNat i) r (← jList jNat cells) (← jList jInt vals))
  | [k, i, sel, tr] => do
    if (← jStr k) != "view" then throw "bad op"
    pure (.view (← jNat i) (← jList jNat sel) (← jBool tr))
  | [k, i] => do
    match (← jStr k) with
    | "copy" => pure (.copy (← jNat i))
    | "hash" => pure (.hash (← jNat i))
    | _ => throw "bad op"
  | _ => throw "bad op"

def handle (j : Json) : Except String Json := do
  let op ← fld j "op" jStr
  match op with
  | "program" =>
    let init ← fld j "init" (jList jInt)
    let ops ← fld j "ops" (jList jOp)
    let h0 : Heap := { bufs := [init], objs := [⟨0, List.range init.length, true, true, none⟩] }
    let (_, outs) := ops.foldl (fun (acc : Heap × List Json) o =>
      let (r, h') := step TV.Generated.c02Flagged acc.1 o
      let flags := ofList (fun (ob : Obj) => ofBool ob.dirty) h'.objs
      let stale := match o with
        | .hash i => (match r, objBytes acc.1 i with
            | some v, some b => ofBool (v != b)
            | _, _ => Json.null)
        | _ => Json.null
      (h', obj [("dirty", flags), ("stale", stale)] :: acc.2)) (h0, [])
    pure <| obj [("steps", Json.arr outs.reverse.toArray)]
  | _ => throw s!"bad-op {op}"

end Drv.C02
