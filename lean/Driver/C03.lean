import Driver.Util
import TrimeshVerif.Model.MassRat
open Lean Drv TV.MassRat
namespace Drv.C03

def jPt (j : Json) : Except String Pt := do
  match j with
  | Json.arr #[a, b, c] => pure ((← jRat a), (← jRat b), (← jRat c))
  | _ => throw "point expected"
def jFaceIdx (j : Json) : Except String (Nat × Nat × Nat) := do
  match j with
  | Json.arr #[a, b, c] => pure ((← jNat a), (← jNat b), (← jNat c))
  | _ => throw "face expected"

def trisOf (V : List Pt) (F : List (Nat × Nat × Nat)) : List Tri :=
  F.map (fun f => (V.getD f.1 (0, 0, 0), V.getD f.2.1 (0, 0, 0), V.getD f.2.2 (0, 0, 0)))

def handle (j : Json) : Except String Json := do
  let op ← fld j "op" jStr
  match op with
  | "mass" =>
    let V ← fld j "V" (jList jPt)
    let F ← fld j "F" (jList jFaceIdx)
    let den ← fld j "density" (jList jInt)
    let rho : Rat := mkRat (den.getD 0 1) (den.getD 1 1).toNat
    let cm ← fldD j "cm" (jOpt (jList jRat)) none
    let ts := trisOf V F
    let sc := sums codeFace ts
    let se := sums exactFace ts
    let p := post sc rho cm
    let frame ← fldD j "frame" (jOpt (fun f => do
      pure ((← fld f "R" (jList jRat)), (← fld f "p" (jList jRat))))) none
    let fr := match frame with
      | some (R, pp) => ofList (ofList ofRat) (frameTensor R pp p)
      | none => Json.null
    pure <| obj [("traced_volume", ofRat (sc.getD 0 0)), ("volume", ofRat (se.getD 0 0)), ("inertia_frame", fr),
      ("traced_sums", ofList ofRat sc), ("exact_sums", ofList ofRat se),
      ("mass", ofRat p.mass), ("center_mass", ofList ofRat p.centerMass),
      ("inertia", ofList (ofList ofRat) p.inertia)]
  | _ => throw s!"bad-op {op}"

end Drv.C03
