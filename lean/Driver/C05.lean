import Driver.Util
import TrimeshVerif.Model.Topology
open Lean Drv TV TV.Topology
namespace Drv.C05

def jFace (j : Json) : Except String Face := do
  match j with
  | Json.arr #[a, b, c] => pure ((← jNat a), (← jNat b), (← jNat c))
  | _ => throw "face expected"
def ofEdge (e : Edge) : Json := Json.arr #[ofNat e.1, ofNat e.2]
def ofOptNat : Option Nat → Json
  | some n => ofNat n
  | none => ofInt (-1)

def handle (j : Json) : Except String Json := do
  let op ← fld j "op" jStr
  match op with
  | "topology" =>
    let fs ← fld j "faces" (jList jFace)
    let nV ← fld j "nv" jNat
    pure <| obj [
      ("edges", ofList ofEdge (edges fs)),
      ("edges_face", ofList ofNat (edgesFace fs)),
      ("edges_sorted", ofList ofEdge (edgesSorted fs)),
      ("edges_unique", ofList ofEdge (edgesUnique fs)),
      ("edges_unique_inverse", ofList ofNat (edgesUniqueInverse fs)),
      ("adjacency", ofList (fun a => Json.arr #[ofNat a.1.1, ofNat a.1.2, ofNat a.2.1, ofNat a.2.2]) (faceAdjacency fs)),
      ("unshared", ofList (fun u => Json.arr #[ofOptNat u.1, ofOptNat u.2]) (faceAdjacencyUnshared fs)),
      ("watertight", ofBool (isWatertight fs)),
      ("winding", ofBool (isWindingConsistent fs)),
      ("referenced", ofList ofBool (referenced fs nV)),
      ("euler", ofInt (eulerNumber fs nV)),
      ("degree", ofList ofNat (vertexDegree fs nV)),
      ("vertex_faces", ofList (ofList ofNat) (vertexFaces fs nV)),
      ("neighbors", ofList (ofList ofNat) (vertexNeighbors fs nV)),
      ("face_components", ofList (ofList ofNat) (faceComponents fs)),
      ("body_count", ofNat (bodyCount fs nV))]
  | "components" =>
    let n ← fld j "n" jNat
    let es ← fld j "edges" (jList (fun p => do
      match p with
      | Json.arr #[a, b] => pure ((← jNat a), (← jNat b))
      | _ => throw "pair expected"))
    let ml ← fldD j "min_len" jNat 1
    pure <| obj [("components", ofList (ofList ofNat) (components n es ml))]
  | _ => throw s!"bad-op {op}"

end Drv.C05
