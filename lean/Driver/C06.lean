import Driver.Util
import TrimeshVerif.Model.Grouping
open Lean Drv TV TV.Grouping
namespace Drv.C06

def rowsOf (j : Json) : Except String (List (List Int)) := fld j "rows" (jList (jList jInt))

def handle (j : Json) : Except String Json := do
  let op ← fld j "op" jStr
  match op with
  | "group" =>
    let vs ← fld j "vs" (jList jInt)
    let mn ← fldD j "min" (jOpt jNat) none
    let mx ← fldD j "max" (jOpt jNat) none
    pure <| obj [("groups", ofList (ofList ofNat) (if vs.isEmpty then [[]] else group intLe vs mn mx))]
  | "hashable" =>
    let rows ← rowsOf j; let cols ← fld j "cols" jNat
    pure <| obj [("packed", ofBool (cols != 1 && cols ≤ 4 && guardOk cols rows)),
                 ("hash", ofList (ofList ofInt) (hashableRows cols rows))]
  | "group_rows" =>
    let rows ← rowsOf j; let cols ← fld j "cols" jNat
    let k ← fldD j "count" (jOpt jNat) none
    match k with
    | none => pure <| obj [("groups", ofList (ofList ofNat) (groupRows cols rows))]
    | some k => pure <| obj [("groups", ofList (ofList ofNat) (groupRowsCount cols rows k))]
  | "unique_rows" =>
    let rows ← rowsOf j; let cols ← fld j "cols" jNat
    let keep ← fldD j "keep_order" jBool false
    let r := uniqueRows cols rows keep
    pure <| obj [("unique", ofList ofNat r.1), ("inverse", ofList ofNat r.2)]
  | "unique_ordered" =>
    let vs ← fld j "vs" (jList jInt)
    let r := uniqueOrdered vs
    pure <| obj [("values", ofList ofInt r.1), ("index", ofList ofNat r.2.1), ("inverse", ofList ofNat r.2.2)]
  | "unique_bincount" =>
    let vs ← fld j "vs" (jList jNat)
    let r := uniqueBincount vs
    pure <| obj [("unique", ofList ofNat r.1), ("inverse", ofList ofNat r.2.1), ("counts", ofList ofNat r.2.2)]
  | "merge_runs" =>
    let vs ← fld j "vs" (jList jInt)
    pure <| obj [("merged", ofList ofInt (mergeRuns vs))]
  | "group_min" =>
    let gs ← fld j "groups" (jList jInt); let d ← fld j "data" (jList jInt)
    pure <| obj [("mins", ofList ofInt (groupMin gs d))]
  | "boolean_rows" =>
    let a ← fld j "a" (jList (jList jInt)); let b ← fld j "b" (jList (jList jInt))
    pure <| obj [("inter", ofList (ofList ofInt) (rowsInter a b)), ("diff", ofList (ofList ofInt) (rowsDiff a b))]
  | "unique_value_in_row" =>
    let rows ← rowsOf j
    pure <| obj [("mask", ofList (ofList ofBool) (uniqueValueInRow rows))]
  | "blocks" =>
    let d ← fld j "data" (jList jInt)
    let mn ← fld j "min_len" jNat
    let mx ← fldD j "max_len" (jOpt jNat) none
    let wrap ← fld j "wrap" jBool; let onz ← fld j "only_nonzero" jBool
    pure <| obj [("blocks", ofList (ofList ofNat) (blocks d mn mx wrap onz)),
                 ("spec", ofList (ofList ofNat) (blocksSpec d mn mx wrap onz))]
  | _ => throw s!"bad-op {op}"

end Drv.C06
