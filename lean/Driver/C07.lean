import Driver.Util
import TrimeshVerif.Model.Reindex
open Lean Drv TV TV.Reindex
namespace Drv.C07

abbrev VP := Int × Int   -- (vertex id, merge key)
abbrev M := Mesh VP Int

def jFace (j : Json) : Except String Face := do
  match j with
  | Json.arr #[a, b, c] => pure ((← jNat a), (← jNat b), (← jNat c))
  | _ => throw "face expected"
def jVP (j : Json) : Except String VP := do
  match j with
  | Json.arr #[a, b] => pure ((← jInt a), (← jInt b))
  | _ => throw "vertex payload expected"
def jMesh (j : Json) : Except String M := do
  pure { V := (← fld j "V" (jList jVP)), F := (← fld j "F" (jList jFace)), FA := (← fld j "FA" (jList jInt)) }
def ofFace (f : Face) : Json := Json.arr #[ofNat f.1, ofNat f.2.1, ofNat f.2.2]
def idOf : Option VP → Json
  | some p => ofInt p.1
  | none => ofInt (-1)
def ofMesh (m : M) : Json :=
  obj [("V", ofList (fun p => ofInt p.1) m.V), ("F", ofList ofFace m.F), ("FA", ofList ofInt m.FA),
       ("tri", ofList (fun t => Json.arr #[idOf t.1, idOf t.2.1, idOf t.2.2]) (triangles m))]
def jBools (j : Json) : Except String (List Bool) := jList jBool j

def handle (j : Json) : Except String Json := do
  let op ← fld j "op" jStr
  let m ← jMesh j
  match op with
  | "faces_bool" => pure <| ofMesh (updateFacesBool m (← fld j "mask" jBools))
  | "faces_int" => pure <| ofMesh (updateFacesIdx m (← fld j "idx" (jList jNat)))
  | "vertices_bool" => pure <| ofMesh (updateVerticesBool m (← fld j "mask" jBools))
  | "unref" => pure <| ofMesh (removeUnreferenced m)
  | "unmerge" => pure <| ofMesh (unmerge m)
  | "merge" => pure <| ofMesh (mergeVertices intLe (fun p => p.2) m)
  | "unique_faces" => pure <| obj [("mask", ofList ofBool (uniqueFacesMask m))]
  | "submesh" => pure <| ofMesh (submesh m (← fld j "idx" (jList jNat)))
  | "concat" =>
    let o ← jMesh (← j.getObjVal? "other")
    pure <| ofMesh (append m o)
  | "split" =>
    let comps ← fld j "comps" (jList (jList jNat))
    pure <| obj [("parts", ofList ofMesh (split m comps)), ("joined", ofMesh (concatenate (split m comps)))]
  | _ => throw s!"bad-op {op}"

end Drv.C07
