import Driver.Util
import TrimeshVerif.Model.Codec
open Lean Drv TV.Codec
namespace Drv.C08

def jBytes (j : Json) : Except String Bytes := do
  let l ← jList jNat j
  if l.all (· < 256) then pure l else throw "byte out of range"
def ofBytes (b : Bytes) : Json := ofList ofNat b
def jRec (j : Json) : Except String StlRec := do
  match j with
  | Json.arr #[w, a] => pure ⟨← jList jNat w, ← jNat a⟩
  | _ => throw "record expected"
def ofRec (r : StlRec) : Json := Json.arr #[ofList ofNat r.words, ofNat r.attr]
def jChar (j : Json) : Except String Char := do
  let s ← jStr j
  match s.toList with
  | [c] => pure c
  | _ => throw "single character expected"

def handle (j : Json) : Except String Json := do
  let op ← fld j "op" jStr
  match op with
  | "stl_encode" =>
    let hdr ← fld j "hdr" jBytes
    let recs ← fld j "recs" (jList jRec)
    pure <| obj [("bytes", ofBytes (encodeStl hdr recs))]
  | "stl_decode" =>
    let b ← fld j "bytes" jBytes
    match decodeStl b with
    | .ok (h, rs) => pure <| obj [("ok", ofBool true), ("hdr", ofBytes h), ("recs", ofList ofRec rs)]
    | .error e => pure <| obj [("ok", ofBool false), ("error", Json.str (reprStr e))]
  | "glb_encode" =>
    let js ← fld j "json" jBytes
    let bin ← fld j "bin" jBytes
    pure <| obj [("bytes", ofBytes (encodeGlb js bin))]
  | "glb_decode" =>
    let b ← fld j "bytes" jBytes
    match decodeGlb b with
    | .ok (js, cs) => pure <| obj [("ok", ofBool true), ("json", ofBytes js), ("chunks", ofList ofBytes cs)]
    | .error e => pure <| obj [("ok", ofBool false), ("error", Json.str (reprStr e))]
  | "views" =>
    let lens ← fld j "lens" (jList jNat)
    let items := lens.map (fun n => pad4 32 (List.replicate n 0))
    pure <| obj [("views", ofList (fun (v : Nat × Nat) => Json.arr #[ofNat v.1, ofNat v.2]) (views items)),
                 ("total", ofNat items.flatten.length)]
  | "rows_format" =>
    let col ← fld j "col" jChar
    let row ← fld j "row" jChar
    let rows ← fld j "rows" (jList (jList jStr))
    let s := formatRows col row (rows.map (·.map String.toList))
    pure <| obj [("text", Json.str (String.ofList s)),
                 ("parsed_back", ofList (ofList (fun t => Json.str (String.ofList t))) (parseRows col row s))]
  | "rows_parse" =>
    let col ← fld j "col" jChar
    let row ← fld j "row" jChar
    let s ← fld j "text" jStr
    pure <| obj [("rows", ofList (ofList (fun t => Json.str (String.ofList t))) (parseRows col row s.toList))]
  | "b64" =>
    let b ← fld j "bytes" jBytes
    let e := b64enc b
    pure <| obj [("sextets", ofList ofNat e), ("decoded", ofBytes (b64dec e))]
  | _ => throw s!"bad-op {op}"

end Drv.C08
