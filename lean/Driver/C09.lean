import Driver.Util
import TrimeshVerif.Model.Forest
import TrimeshVerif.Generated.C09Table
open Lean Drv TV.Forest
namespace Drv.C09

def jAff (j : Json) : Except String Aff := do
  let l ← jList jRat j
  if l.length != 12 then throw "12 numbers expected"
  -- row-major 3x4: a00 a01 a02 t0 a10 ...
  let a := [0, 1, 2, 4, 5, 6, 8, 9, 10].map (fun i => l.getD i 0)
  let t := [3, 7, 11].map (fun i => l.getD i 0)
  pure ⟨a, t⟩
def ofAff (m : Aff) : Json :=
  ofList ofRat ([0, 1, 2].flatMap (fun i => [Aff.get9 m.a i 0, Aff.get9 m.a i 1, Aff.get9 m.a i 2, m.t.getD i 0]))

def jOp (j : Json) : Except String (Op Nat Aff) := do
  let l ← jArr j
  match l with
  | [k, a, b, m] => do
    if (← jStr k) == "update" then pure (.update (← jNat a) (← jNat b) (← jAff m)) else throw "bad op"
  | [k, a, b] => do
    match (← jStr k) with
    | "get" => pure (.get (← jNat a) (← jNat b))
    | "updateb" => pure (.updateBase (← jNat a) (← jAff b))
    | _ => throw "bad op"
  | [k, a] => do
    match (← jStr k) with
    | "getb" => pure (.getBase (← jNat a))
    | "remove" => pure (.removeNode (← jNat a))
    | "setbase" => pure (.setBase (← jNat a))
    | _ => throw "bad op"
  | [k] => do
    match (← jStr k) with
    | "clear" => pure .clear
    | "noop" => throw "noop"
    | _ => throw "bad op"
  | _ => throw "bad op"

def isQuery : Op Nat Aff → Bool
  | .get _ _ => true
  | .getBase _ => true
  | _ => false

def handle (j : Json) : Except String Json := do
  let op ← fld j "op" jStr
  match op with
  | "history" =>
    let base ← fld j "base" jNat
    let ops ← fld j "ops" (jList (fun x => match jOp x with
      | .ok o => pure (some o)
      | .error "noop" => pure none
      | .error e => throw e))
    let (s, outs) := ops.foldl (fun (acc : Graph Nat Aff × List Json) oo =>
      match oo with
      | none => (acc.1, Json.null :: acc.2)      -- an operation skipped on both sides
      | some o =>
        let (r, s') := step TV.Generated.c09Table acc.1 o
        let out := if isQuery o then
            (match r with | some m => ofAff m | none => Json.str "err")
          else Json.null
        (s', out :: acc.2)) (Graph.init base, [])
    pure <| obj [("replies", Json.arr outs.reverse.toArray),
      ("edges", ofList (fun e => Json.arr #[ofNat e.1.1, ofNat e.1.2, ofAff e.2]) s.forest.edges),
      ("rebuilt_edges", ofList (fun e => Json.arr #[ofNat e.1.1, ofNat e.1.2, ofAff e.2])
        (fromEdgelist (toEdgelist s.forest)).edges),
      ("rebuilt_parents", ofList (fun (e : Nat × Nat) => Json.arr #[ofNat e.1, ofNat e.2])
        (fromEdgelist (toEdgelist s.forest)).parents),
      ("nodes", ofList ofNat s.forest.nodes)]
  | _ => throw s!"bad-op {op}"

end Drv.C09
