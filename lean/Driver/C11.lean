import Driver.Util
import TrimeshVerif.Model.Slice
open Lean Drv TV.Slice
namespace Drv.C11

def handle (j : Json) : Except String Json := do
  let op ← fld j "op" jStr
  match op with
  | "pattern" =>
    let s ← fld j "signs" (jList jInt)
    match s with
    | [a, b, c] =>
      if !(signs.contains a && signs.contains b && signs.contains c) then throw "bad-sign" else
      -- mesh_plane signs: +1 on the positive side; slice_faces_plane: +1 on the negative side
      pure <| obj [
        ("basic", ofBool (isBasic a b c)), ("one_vertex", ofBool (isOneVertex a b c)),
        ("one_edge", ofBool (isOneEdge a b c)), ("segments", ofNat (segments a b c)),
        ("inside", ofBool (inside (-a) (-b) (-c))), ("quad", ofBool (cutQuad (-a) (-b) (-c))),
        ("tri", ofBool (cutTri (-a) (-b) (-c))), ("kept", ofNat (keptFaces (-a) (-b) (-c)))]
    | _ => throw "three signs expected"
  | _ => throw s!"bad-op {op}"

end Drv.C11
