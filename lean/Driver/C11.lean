import Driver.Util
import TrimeshVerif.Model.Slice
import TrimeshVerif.Model.SectionLoops
open Lean Drv TV.Slice
namespace Drv.C11

def handle (j : Json) : Except String Json := do
  let op ← fld j "op" jStr
  match op with
  | "pattern" =>
    let s ← fld j "signs" (jList jInt)
    match s with
    | [a, b, c] =>
      if !(signs.contains a && signs.contains b && signs.contains c) then throw "bad-sign" else
      -- mesh_plane signs: +1 on the positive side; slice_faces_plane: +1 on the negative side
      pure <| obj [
        ("basic", ofBool (isBasic a b c)), ("one_vertex", ofBool (isOneVertex a b c)),
        ("one_edge", ofBool (isOneEdge a b c)), ("segments", ofNat (segments a b c)),
        ("inside", ofBool (inside (-a) (-b) (-c))), ("quad", ofBool (cutQuad (-a) (-b) (-c))),
        ("tri", ofBool (cutTri (-a) (-b) (-c))), ("kept", ofNat (keptFaces (-a) (-b) (-c)))]
    | _ => throw "three signs expected"
  | "section" =>
    let jV := fun (j : Json) => do
      match j with
      | Json.arr #[a, b, c] => pure (((← jRat a), (← jRat b), (← jRat c)) : TV.Slice.V)
      | _ => throw "point expected"
    let ofV := fun (p : TV.Slice.V) => Json.arr #[ofRat p.1, ofRat p.2.1, ofRat p.2.2]
    let n ← fld j "normal" jV
    let o ← fld j "origin" jV
    let tol ← fld j "tol" jRat
    let ts ← fld j "tris" (jList (fun t => do
      match t with
      | Json.arr #[a, b, c] => pure (((← jV a), (← jV b), (← jV c)) : TV.Slice.Tri)
      | _ => throw "triangle expected"))
    -- global structure (C11_section_closed_loops): vertex signs, crossed edges per face, ends per crossed edge
    let verts ← fldD j "verts" (jList jV) []
    let faces ← fldD j "faces" (jList (fun f => do
      match f with
      | Json.arr #[a, b, c] => pure (((← jNat a), (← jNat b), (← jNat c)) : TV.Topology.Face)
      | _ => throw "face expected")) []
    let sgn : Nat → Int := fun v => signR tol (sdistR n o (verts.getD v (0, 0, 0)))
    let sgnL := (List.range verts.length).map sgn
    let sgnF : Nat → Int := fun v => sgnL.getD v 0
    let es := TV.Topology.edgesSorted faces
    let ends := TV.SectionLoops.allSegEnds sgnF faces
    let ofE := fun (e : Nat × Nat) => Json.arr #[ofNat e.1, ofNat e.2]
    pure <| obj [("segments", ofList (fun (t : TV.Slice.Tri) => match sectionTri tol n o t with
      | some (p, q) => Json.arr #[ofV p, ofV q]
      | none => Json.null) ts),
      ("general", ofBool (sgnL.all (· != 0))),
      ("closed", ofBool (es.all (fun e => es.count e == 2))),
      ("seg_edges", ofList (fun f => ofList ofE (TV.SectionLoops.segEdges sgnF f)) faces),
      ("ends_twice", ofBool (es.all (fun e =>
        ends.count e == (if TV.SectionLoops.crossing sgnF e then 2 else 0))))]
  | "slice" =>
    let jV := fun (j : Json) => do
      match j with
      | Json.arr #[a, b, c] => pure (((← jRat a), (← jRat b), (← jRat c)) : TV.Slice.V)
      | _ => throw "point expected"
    let ofV := fun (p : TV.Slice.V) => Json.arr #[ofRat p.1, ofRat p.2.1, ofRat p.2.2]
    let n ← fld j "normal" jV
    let o ← fld j "origin" jV
    let tol ← fld j "tol" jRat
    let ts ← fld j "tris" (jList (fun t => do
      match t with
      | Json.arr #[a, b, c] => pure (((← jV a), (← jV b), (← jV c)) : TV.Slice.Tri)
      | _ => throw "triangle expected"))
    pure <| obj [("pieces", ofList (fun (t : TV.Slice.Tri) => match sliceTri tol n o t with
      | .inPlane => Json.str "in_plane"
      | sp => ofList (fun (x : TV.Slice.Tri) => Json.arr #[ofV x.1, ofV x.2.1, ofV x.2.2]) (keptTris t sp)) ts)]
  | _ => throw s!"bad-op {op}"

end Drv.C11
