import Driver.Util
import TrimeshVerif.Model.Query
open Lean Drv TV.Query
namespace Drv.C12

def jP (j : Json) : Except String P := do
  match j with
  | Json.arr #[a, b, c] => pure ((← jRat a), (← jRat b), (← jRat c))
  | _ => throw "point expected"
def jTri (j : Json) : Except String Tri := do
  match j with
  | Json.arr #[a, b, c] => pure ((← jP a), (← jP b), (← jP c))
  | _ => throw "triangle expected"
def ofP (p : P) : Json := Json.arr #[ofRat p.1, ofRat p.2.1, ofRat p.2.2]

/-- every triangle whose plane the ray's line crosses: (index, ray parameter, smallest barycentric weight);
    used by the harness only to decide whether a query is in general position -/
def planeHits (o d : P) (ts : List Tri) : List (Nat × Rat × Rat) :=
  ts.zipIdx.filterMap (fun ti =>
    let t := ti.1
    let n := cross (sub t.2.1 t.1) (sub t.2.2 t.1)
    let nd := dot n d
    if nd = 0 then none else
    let s := dot n (sub t.1 o) / nd
    match baryCramer t (add o (smul s d)) with
    | none => none
    | some (u, v) => some (ti.2, s, min u (min v (1 - u - v))))

/-- a triangle (non-degenerate) whose plane contains the whole ray -/
def inPlane (o d : P) (ts : List Tri) : Bool :=
  ts.any (fun t =>
    let n := cross (sub t.2.1 t.1) (sub t.2.2 t.1)
    dot n d == 0 && dot n (sub t.1 o) == 0 && !(dot n n == 0))

def handle (j : Json) : Except String Json := do
  let op ← fld j "op" jStr
  let ts ← fld j "tris" (jList jTri)
  match op with
  | "query" =>
    let rays ← fldD j "rays" (jList (fun r => do
      match r with
      | Json.arr #[o, d] => pure ((← jP o), (← jP d), (none : Option Rat))
      | Json.arr #[o, d, e] => pure ((← jP o), (← jP d), some (← jRat e))
      | _ => throw "ray expected")) []
    let eps ← fldD j "eps" jRat 0
    let epsS0 ← fldD j "eps_s" jRat 0
    let ps ← fldD j "points" (jList jP) []
    let tids ← fldD j "tids" (jList jNat) []
    -- broad phase: rays with the (unit) directions the code hands to `ray_bounds`, and its buffer
    let brays ← fldD j "brays" (jList (fun r => do
      match r with
      | Json.arr #[o, d] => pure ((← jP o), (← jP d))
      | _ => throw "ray expected")) []
    let buf ← fldD j "buf" jRat 0
    let radii ← fldD j "radii" (jList jRat) []
    let tb := treeBounds ts
    pure <| obj [
      ("broad", ofList (fun (od : P × P) =>
        let rb := rayBounds od.1 od.2 tb buf
        obj [("box", Json.arr #[ofP rb.1, ofP rb.2]),
             ("cands", ofList ofNat (candidates od.1 od.2 ts buf)),
             ("hits", ofList (fun (h : Nat × Rat) => ofNat h.1) (rayHits od.1 od.2 ts)),
             ("pruned", ofList (fun (h : Nat × Rat) => ofNat h.1) (rayHitsPruned od.1 od.2 ts buf))]) brays),
      ("nearby", ofList (fun (pr : P × Rat) => ofList ofNat (nearbyFaces pr.1 pr.2 ts)) (ps.zip radii)),
      ("rays", ofList (fun (od : P × P × Option Rat) =>
        let o := od.1; let d := od.2.1
        -- margin from the origin in ray-parameter units (per ray when the direction is not a unit vector)
        let epsS := od.2.2.getD epsS0
        let hits := rayHits o d ts
        -- plane crossings too close to an edge / vertex, or too close to the origin: not general position
        let near := (planeHits o d ts).filter (fun h =>
          (-eps < h.2.2 ∧ h.2.2 < eps ∧ -epsS < h.2.1) ∨ (-eps < h.2.2 ∧ -epsS < h.2.1 ∧ h.2.1 < epsS))
        obj [("hits", ofList (fun (h : Nat × Rat) => Json.arr #[ofNat h.1, ofRat h.2]) hits),
             ("first", match firstHit o d ts with | some h => ofInt h.1 | none => ofInt (-1)),
             ("near", ofList (fun (h : Nat × Rat × Rat) => ofNat h.1) near),
             ("in_plane", ofBool (inPlane o d ts)),
             ("parity", ofBool (containsPoint o d ts))]) rays),
      ("points", ofList (fun (pt : P × Nat) =>
        let p := pt.1
        match closestOnMesh p ts with
        | none => obj [("none", ofBool true)]
        | some (i, q, d2) =>
          let own := match ts[pt.2]? with
            | some t => let c := closestPointTri p t; Json.arr #[ofP c, ofRat (dist2 p c)]
            | none => Json.null
          obj [("idx", ofNat i), ("point", ofP q), ("d2", ofRat d2), ("own", own)])
        (ps.zip (tids ++ List.replicate (ps.length - tids.length) ts.length)))]
  | _ => throw s!"bad-op {op}"

end Drv.C12
