import Driver.Util
import TrimeshVerif.Model.RunLength
import TrimeshVerif.Model.Views
import TrimeshVerif.Model.Grid
open Lean Drv TV.RunLength
namespace Drv.C13

def ofPairs (rs : List (Int × Nat)) : Json := ofList (fun r => Json.arr #[ofInt r.1, ofNat r.2]) rs
def jPairs (j : Json) : Except String (List (Int × Nat)) :=
  jList (fun p => do
    match p with
    | Json.arr #[a, b] => pure ((← jInt a), (← jNat b))
    | _ => throw "pair expected") j
def ofBools (l : List Bool) : Json := ofList (fun b => ofNat (if b then 1 else 0)) l
def jBools (j : Json) : Except String (List Bool) := do
  let l ← jList jNat j; pure (l.map (· != 0))
def ofOpt {α} (f : α → Json) : Option α → Json
  | none => obj [("err", Json.str "index")]
  | some a => f a

def handle (j : Json) : Except String Json := do
  let op ← fld j "op" jStr
  let m ← fldD j "m" jNat 255
  match op with
  | "grid" =>
    let pitch ← fld j "pitch" jRat
    let origin ← fld j "origin" (jList jRat)
    let pts ← fld j "points" (jList (jList jRat))
    let idx ← fld j "indices" (jList (jList jInt))
    pure <| obj [
      ("to_index", ofList (fun (p : List Rat) => ofList ofInt
        ((p.zip origin).map (fun po => TV.Grid.pointToIndex pitch po.2 po.1))) pts),
      ("to_point", ofList (fun (ix : List Int) => ofList ofRat
        ((ix.zip origin).map (fun io => TV.Grid.indexToPoint pitch io.2 io.1))) idx)]
  | "viewmap" =>
    -- index maps of the lazy views on a list of multi-indices
    let shape ← fld j "shape" (jList jNat)
    let newShape ← fldD j "new_shape" (jList jNat) []
    let axes ← fldD j "axes" (jList jNat) []
    let perm ← fldD j "perm" (jList jNat) []
    let idx ← fld j "idx" (jList (jList jNat))
    let flatIdx ← fldD j "flat_idx" (jList jNat) []
    let data ← fldD j "data" (jList jInt) []
    pure <| obj [
      ("in_range", ofList (fun i => ofBool (TV.Views.inRange shape i)) idx),
      ("ravel", ofList (fun i => ofNat (TV.Views.ravel shape i)) idx),
      ("unravel", ofList (fun k => ofList ofNat (TV.Views.unravel shape k)) flatIdx),
      ("flip", ofList (fun i => ofList ofNat (TV.Views.flipIdx shape axes i)) idx),
      ("reshape_to_base", ofList (fun k => ofList ofNat (TV.Views.unravel shape k)) flatIdx),
      ("unravel_new", ofList (fun k => ofList ofNat (TV.Views.unravel newShape k)) flatIdx),
      ("take_perm", ofList (fun i => ofList ofNat (TV.Views.takeIdx perm i)) idx),
      ("take_inv", ofList (fun i => ofList ofNat (TV.Views.takeIdx (TV.Views.invPerm perm) i)) idx),
      ("transposed_shape", ofList ofNat (TV.Views.transposeShape shape perm)),
      ("entries", ofList (fun i => ofInt (TV.Views.entry 0 shape data i)) idx)]
  | "dense_to_rle" =>
    let d ← fld j "d" (jList jInt)
    let r := denseToRle m d
    pure <| obj [("rle", ofPairs r), ("dense", ofList ofInt (rleToDense r))]
  | "dense_to_brle" =>
    let d ← fld j "d" jBools
    let r := denseToBrle m d
    pure <| obj [("brle", ofList ofNat r), ("dense", ofBools (brleToDense r))]
  | "rle_ops" =>
    let rs ← fld j "rle" jPairs
    let idx ← fldD j "idx" (jList jNat) []
    let mask ← fldD j "mask" jBools []
    let st := rleStrip rs
    pure <| obj [("dense", ofList ofInt (rleToDense rs)), ("rle_to_rle", ofPairs (rleToRle m rs)),
      ("length", ofNat (rleLength rs)), ("reverse", ofPairs (rleReverse rs)),
      ("sparse", ofList (fun p => Json.arr #[ofNat p.1, ofInt p.2]) (rleToSparse rs)),
      ("gather", ofOpt (ofList ofInt) (rleGather rs idx)), ("mask", ofList ofInt (rleMask rs mask)),
      ("strip", ofPairs st.1), ("pad", Json.arr #[ofNat st.2.1, ofNat st.2.2]),
      ("to_brle", match rleToBrle rs with | some l => ofList ofNat l | none => obj [("err", Json.str "value")])]
  | "brle_ops" =>
    let ls ← fld j "brle" (jList jNat)
    let idx ← fldD j "idx" (jList jNat) []
    let mask ← fldD j "mask" jBools []
    let st := brleStrip ls
    pure <| obj [("dense", ofBools (brleToDense ls)), ("brle_to_brle", ofList ofNat (brleToBrle m ls)),
      ("length", ofNat (brleLength ls)), ("reverse", ofList ofNat (brleReverse ls)),
      ("sparse", ofList ofNat (brleToSparse ls)),
      ("gather", ofOpt ofBools (brleGather ls idx)), ("mask", ofBools (brleMask ls mask)),
      ("strip", ofList ofNat st.1), ("pad", Json.arr #[ofNat st.2.1, ofNat st.2.2]),
      ("not", ofList ofNat (brleLogicalNot ls)),
      ("to_rle", ofList (fun r => Json.arr #[ofNat (if r.1 then 1 else 0), ofNat r.2]) (brleToRle m ls)),
      ("merge", ofList ofNat (mergeBrle ls))]
  | "binvox" =>
    let d ← fld j "d" jBools
    let e := binvoxEncode d
    pure <| obj [("body", ofList (fun r => Json.arr #[ofNat r.1, ofNat r.2]) e), ("dense", ofBools (binvoxDecode e))]
  | _ => throw s!"bad-op {op}"

end Drv.C13
