import Driver.Util
import TrimeshVerif.Model.Path
import TrimeshVerif.Model.Enclosure
open Lean Drv TV.Path
namespace Drv.C14

def jP2 (j : Json) : Except String P2 := do
  match j with
  | Json.arr #[a, b] => pure ((← jRat a), (← jRat b))
  | _ => throw "2d point expected"
def ofP2 (p : P2) : Json := Json.arr #[ofRat p.1, ofRat p.2]

def handle (j : Json) : Except String Json := do
  let op ← fld j "op" jStr
  match op with
  | "loops" =>
    -- loops: each a closed vertex list; entities: stored polylines + walk direction, per loop
    let loops ← fld j "loops" (jList (jList jP2))
    let pieces ← fldD j "pieces" (jList (jList (fun e => do
      match e with
      | Json.arr #[pts, rev] => pure ((← jList jP2 pts), (← jBool rev))
      | _ => throw "piece expected"))) []
    let arcs ← fldD j "arcs" (jList (jList jP2)) []
    -- containment matrix of the closed polygons (shells and holes)
    let cont ← fldD j "contains" (jList (jList jBool)) []
    pure <| obj [
      ("enclosure", obj [("laminar", ofBool (TV.EnclosureModel.laminar cont)),
        ("degrees", ofList ofNat (TV.EnclosureModel.degs cont)),
        ("roots", ofList ofNat (TV.EnclosureModel.roots cont)),
        ("edges", ofList (fun (e : Nat × Nat) => Json.arr #[ofNat e.1, ofNat e.2]) (TV.EnclosureModel.shellEdges cont))]),
      ("arc_centers", ofList (fun (a : List P2) => match a with
        | [p0, p1, p2] => (match arcCenter p0 p1 p2 with
            | some o => Json.arr #[ofP2 o, ofRat (sqLen o p0)]
            | none => Json.null)
        | _ => Json.null) arcs),
      ("area2", ofList (fun l => ofRat (openSum l)) loops),
      ("closed", ofList (fun l => ofBool (isClosed l)) loops),
      ("sqlens", ofList (fun l => ofList ofRat (sqLens l)) loops),
      ("pieces_chained", ofList (fun es => ofBool (chained (es.map orient))) pieces),
      ("pieces_area2", ofList (fun es => ofRat (openSum (joinChain (es.map orient)))) pieces),
      ("pieces_signed_sum", ofList (fun (es : List (List P2 × Bool)) =>
          ofRat ((es.map (fun e => if e.2 then - openSum e.1 else openSum e.1)).sum)) pieces)]
  | "arc" =>
    let p0 ← fld j "p0" jP2
    let p1 ← fld j "p1" jP2
    let p2 ← fld j "p2" jP2
    match arcCenter p0 p1 p2 with
    | some o => pure <| obj [("center", ofP2 o), ("r2", ofRat (sqLen o p0))]
    | none => pure <| obj [("center", Json.null)]
  | _ => throw s!"bad-op {op}"

end Drv.C14
