import Driver.Util
import TrimeshVerif.Model.Creation
import TrimeshVerif.Model.Extrude
import TrimeshVerif.Model.RevolveGrid
open Lean Drv TV.Query TV.Creation
namespace Drv.C15

def jPair (j : Json) : Except String (Rat × Rat) := do
  match j with
  | Json.arr #[a, b] => pure ((← jRat a), (← jRat b))
  | _ => throw "pair expected"
def jTriple (j : Json) : Except String P := do
  match j with
  | Json.arr #[a, b, c] => pure ((← jRat a), (← jRat b), (← jRat c))
  | _ => throw "triple expected"
def ofFace (f : Face) : Json := Json.arr #[ofNat f.1, ofNat f.2.1, ofNat f.2.2]

def handle (j : Json) : Except String Json := do
  let op ← fld j "op" jStr
  match op with
  | "extrude" =>
    -- index model of extrude_triangulation on the cap faces the code works with
    let cap ← fld j "cap" (jList (fun f => do
      match f with
      | Json.arr #[a, b, c] => pure (((← jNat a), (← jNat b), (← jNat c)) : TV.Extrude.Face)
      | _ => throw "face expected"))
    let d := TV.Extrude.dirEdges cap
    let nodup := decide (d.Nodup)
    pure <| obj [("faces", ofList (fun (f : TV.Extrude.Face) => Json.arr #[ofNat f.1, ofNat f.2.1, ofNat f.2.2])
        (TV.Extrude.extrude cap)),
      ("boundary", ofList (fun (e : Nat × Nat) => Json.arr #[ofNat e.1, ofNat e.2]) (TV.Extrude.boundary cap)),
      ("hyp_nodup", ofBool nodup), ("hyp_noloops", ofBool (d.all (fun e => e.1 != e.2)))]
  | "revolve" =>
    let prof ← fld j "profile" (jList jPair)
    let dirs ← fld j "dirs" (jList jPair)
    let per ← fld j "per" jNat
    let slices ← fld j "slices" jNat
    let nv ← fld j "nverts" jNat
    let keep ← fld j "keep" (jList jBool)
    -- a partial revolve with caps: the cap triangulation the code appended (first cap only)
    let cap ← fldD j "cap" (jOpt (jList (fun f => do
      match f with
      | Json.arr #[a, b, c] => pure (((← jNat a), (← jNat b), (← jNat c)) : TV.RevolveGrid.Face)
      | _ => throw "face expected"))) none
    let loop ← fldD j "loop" jBool false
    let capOut := match cap with
      | none => []
      | some T =>
        if loop then
          [("cap_ok", ofBool (TV.RevolveGrid.capOkC per T && TV.RevolveGrid.capInRange per T)),
           ("open_raw", ofList ofFace (TV.RevolveGrid.openLoopRaw per slices T)),
           ("open_closed", ofBool (TV.RevolveGrid.closedB (TV.RevolveGrid.openLoopRaw per slices T)))]
        else
          [("cap_ok", ofBool (TV.RevolveGrid.capOk (per - 1) T)),
           ("open_raw", ofList ofFace (TV.RevolveGrid.openRaw per slices T)),
           ("open_closed", ofBool (TV.RevolveGrid.closedB (TV.RevolveGrid.openSurface per slices T)))]
    pure <| obj ([("vol6", ofRat (revolveVol6 prof dirs)), ("formula", ofRat (dirSum dirs * profileSum prof)),
      ("faces", ofList ofFace (revolveFaces per slices nv (fun i => keep.getD i false)))] ++ capOut)
  | "box" =>
    let ext ← fld j "extents" jTriple
    let corners ← fld j "corners" (jList (fun c => do
      match c with
      | Json.arr #[a, b, d] => pure ((← jNat a), (← jNat b), (← jNat d))
      | _ => throw "corner expected"))
    let faces ← fld j "faces" (jList (fun c => do
      match c with
      | Json.arr #[a, b, d] => pure ((← jNat a), (← jNat b), (← jNat d))
      | _ => throw "face expected"))
    pure <| obj [("vol6", ofRat (boxVol6 ext corners faces)),
      ("vertices", ofList (fun c => Json.arr #[ofRat (boxVertex ext c).1, ofRat (boxVertex ext c).2.1, ofRat (boxVertex ext c).2.2]) corners)]
  | _ => throw s!"bad-op {op}"

end Drv.C15
