import Driver.Util
import TrimeshVerif.Model.Bounds
open Lean Drv TV.Query TV.Bounds
namespace Drv.C16

def jP (j : Json) : Except String P := do
  match j with
  | Json.arr #[a, b, c] => pure ((← jRat a), (← jRat b), (← jRat c))
  | _ => throw "point expected"
def jFace (j : Json) : Except String Face := do
  match j with
  | Json.arr #[a, b, c] => pure ((← jNat a), (← jNat b), (← jNat c))
  | _ => throw "face expected"

def handle (j : Json) : Except String Json := do
  let op ← fld j "op" jStr
  let pts ← fld j "points" (jList jP)
  let eps ← fldD j "eps" jRat 0
  match op with
  | "hull" =>
    let hv ← fld j "hull_vertices" (jList jP)
    let hf ← fld j "hull_faces" (jList jFace)
    let ts := trisOf hv hf
    pure <| obj [("ok", ofBool (hullCheck eps pts hv hf)),
      ("indexed", ofBool ts.isSome),
      ("vertices_are_inputs", ofBool (hv.all (fun v => pts.contains v))),
      ("all_below", ofBool ((ts.getD []).all (fun t => pts.all (fun p => below eps t p)))),
      ("watertight", ofBool (TV.Topology.isWatertight hf)),
      ("winding", ofBool (TV.Topology.isWindingConsistent hf)),
      ("volume_positive", ofBool (decide (0 < vol6 (ts.getD []))))]
  | "aabb" =>
    let lo ← fld j "lo" jP
    let hi ← fld j "hi" jP
    pure <| obj [("ok", ofBool (aabbCheck pts lo hi))]
  | "obb" =>
    let rows ← fld j "rows" (jList jP)
    let t ← fld j "t" jP
    let ext ← fld j "extents" jP
    match rows with
    | [r0, r1, r2] =>
      let T : Rigid := ⟨r0, r1, r2, t⟩
      pure <| obj [("ok", ofBool (obbCheck eps pts T ext)), ("rigid", ofBool (T.orthoCheck eps)),
        ("inside", ofBool (pts.all (fun p => inBox eps ext (T.apply p))))]
    | _ => throw "three rows expected"
  | "sphere" =>
    let c ← fld j "center" jP
    let r ← fld j "radius" jRat
    let ws ← fldD j "weights" (jList jRat) []
    let qs ← fldD j "support" (jList jP) []
    let delta ← fldD j "delta" jRat 0
    pure <| obj [("ok", ofBool (sphereCheck eps pts c r)),
      ("minimal", ofBool (sphereMinCheck eps delta pts c r ws qs))]
  | "cylinder" =>
    let c ← fld j "center" jP
    let a ← fld j "axis" jP
    let r ← fld j "radius" jRat
    let h ← fld j "height" jRat
    pure <| obj [("ok", ofBool (cylCheck eps pts c a r h))]
  | _ => throw s!"bad-op {op}"

end Drv.C16
