import Driver.Util
import TrimeshVerif.Model.Alias
open Lean Drv TV.Alias
namespace Drv.C17
def handle (j : Json) : Except String Json := do
  let op ← fld j "op" jStr
  match op with
  | "disjoint" =>
    let a ← fld j "a" (jList jNat); let b ← fld j "b" (jList jNat)
    pure <| obj [("disjoint", ofBool (disjointB a b)), ("na", ofNat a.length), ("nb", ofNat b.length)]
  | _ => throw s!"bad-op {op}"
end Drv.C17
