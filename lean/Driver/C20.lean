import Driver.Util
import TrimeshVerif.Model.Load
open Lean Drv TV.Load
namespace Drv.C20

def handle (j : Json) : Except String Json := do
  let op ← fld j "op" jStr
  match op with
  | "scan_header" =>
    let lines ← fld j "lines" (jList (jList jStr))
    match scanHeader lines [] 0 with
    | .ok (es, k) => pure <| obj [("ok", ofBool true), ("lines", ofNat k),
        ("elements", ofList (fun (e : Elem) => Json.arr #[Json.str e.name, ofNat e.length, ofNat e.props]) es)]
    | .error e => pure <| obj [("ok", ofBool false), ("error", Json.str (reprStr e))]
  | "strided" =>
    -- interleaved glTF accessors: [n, start, stride, count, per_row] each
    let acc ← fld j "accessors" (jList (jList jInt))
    pure <| obj [("ok", ofList (fun (a : List Int) =>
      match a with
      | [n, start, stride, count, perRow] => ofBool (stridedOk n start stride count perRow)
      | _ => Json.null) acc)]
  | _ => throw s!"bad-op {op}"

end Drv.C20
