import Driver.Util
import TrimeshVerif.Model.GeomRat
import TrimeshVerif.Model.Winding
import TrimeshVerif.Model.SceneAppend
open Lean Drv TV.GeomRat
namespace Drv.Geom

def jV (j : Json) : Except String V := do
  match j with
  | Json.arr #[a, b, c] => pure ((← jRat a), (← jRat b), (← jRat c))
  | _ => throw "point expected"
def ofV (p : V) : Json := Json.arr #[ofRat p.1, ofRat p.2.1, ofRat p.2.2]
def jTri (j : Json) : Except String Tri := do
  match j with
  | Json.arr #[a, b, c] => pure ((← jV a), (← jV b), (← jV c))
  | _ => throw "triangle expected"
def ofTri (t : Tri) : Json := Json.arr #[ofV t.1, ofV t.2.1, ofV t.2.2]
def jM (j : Json) : Except String M3R := do
  match (← jList jRat j) with
  | [a, b, c, d, e, f, g, h, i] => pure ⟨a, b, c, d, e, f, g, h, i⟩
  | _ => throw "nine entries expected"

/-- C04: a placement applied to points and triangles -/
def handleC04 (j : Json) : Except String Json := do
  let L ← fld j "L" jM
  let t ← fld j "t" jV
  let pts ← fldD j "points" (jList jV) []
  let ts ← fldD j "tris" (jList jTri) []
  let L2 ← fldD j "L2" (jOpt jM) none
  let t2 ← fldD j "t2" jV (0, 0, 0)
  let moved := ts.map (mapTri (transformR L t))
  let lin := ts.map (mapTri (applyR L))
  let first (xs : List Tri) : V := xs.foldl (fun acc x => addV acc (firstR x.1 x.2.1 x.2.2)) (0, 0, 0)
  pure <| obj [
    ("points", ofList ofV (pts.map (transformR L t))),
    ("det", ofRat (detR L)),
    ("vol", ofRat (meshVolR ts)), ("vol_linear", ofRat (meshVolR lin)), ("vol_moved", ofRat (meshVolR moved)),
    ("first", ofV (first ts)), ("first_linear", ofV (first lin)), ("first_moved", ofV (first moved)),
    ("composed", match L2 with
      | some B => ofList ofV (pts.map (fun p => transformR (mulR B L) (addV (applyR B t) t2) p))
      | none => Json.null)]

/-- C10: instances (world transform + geometry points): placed copies and per-node corners -/
def handleC10 (j : Json) : Except String Json := do
  let op ← fldD j "op" jStr ""
  if op == "append" then
    -- node renaming of append_scenes on integer node ids; the k-th drawn identifier is big + k
    let scenes ← fld j "scenes" (jList (jList jNat))
    let common ← fld j "common" (jList jNat)
    let big ← fld j "big" jNat
    return obj [("renamed", ofList (ofList ofNat)
      (TV.SceneAppend.appendAll (fun k => big + k) common [] 0 scenes))]
  let insts ← fld j "instances" (jList (fun x => do
    pure (⟨← fld x "L" jM, ← fld x "t" jV, ← fld x "pts" (jList jV)⟩ : InstanceR)))
  let corners := insts.filterMap (fun i => match i.pts with
    | [] => none
    | p0 :: rest => some (nodeLowerR { i with pts := rest } p0, nodeUpperR { i with pts := rest } p0))
  let all := insts.flatMap placedR
  pure <| obj [
    ("placed", ofList (fun i => ofList ofV (placedR i)) insts),
    ("corners", ofList (fun (c : V × V) => Json.arr #[ofV c.1, ofV c.2]) corners),
    ("bounds", match all with
      | [] => Json.null
      | p :: ps => Json.arr #[ofV (lowerR p ps), ofV (upperR p ps)]),
    ("dets", ofList (fun (i : InstanceR) => ofRat (detR i.L)) insts)]

/-- C18: one to four subdivision of a triangle list -/
def jPair (j : Json) : Except String (Nat × Nat) := do
  match j with
  | Json.arr #[a, b] => pure ((← jNat a), (← jNat b))
  | _ => throw "pair expected"

/-- C18 `fix_winding`: the traversal on (adjacent pairs, same-direction flags, tree edges in search order) -/
def handleWinding (j : Json) : Except String Json := do
  let adj ← fld j "adj" (jList jPair)
  let same ← fld j "same" (jList jBool)
  let tree ← fld j "tree" (jList jPair)
  let n ← fld j "n" jNat
  let w := TV.Winding.sameDirOf (adj.zip same)
  -- the list-valued traversal (equal to `traverse` by `C18_driver_traversal`)
  let xl := TV.Winding.traverseL w n tree
  let x := TV.Winding.look xl
  pure <| obj [
    ("flips", ofList ofBool xl),
    ("tree_order", ofBool (TV.Winding.treeOrder tree [])),
    ("consistent", ofBool (TV.Winding.allConsistent w x adj))]

def handleC18 (j : Json) : Except String Json := do
  let op ← fldD j "op" jStr ""
  if op == "winding" then return (← handleWinding j)
  if op == "to_size" then
    let ts ← fld j "tris" (jList jTri)
    let m2 ← fld j "m2" jRat
    let fuel ← fld j "fuel" jNat
    let res := ts.map (toSizeR m2 fuel)
    return obj [
      ("ok", ofBool (res.all Option.isSome)),
      ("count", ofNat ((res.map (fun r => (r.getD []).length)).sum)),
      ("max_edge2", ofRat (((res.flatMap (fun r => r.getD [])).map maxEdge2R).foldl max 0)),
      ("tie", ofBool (ts.any (toSizeTie m2 (1 / 1000000000) fuel)))]
  let ts ← fld j "tris" (jList jTri)
  let sub := subdivideR ts
  let area2 (xs : List Tri) : List V := xs.map areaVecR
  pure <| obj [
    ("children", ofList ofTri sub),
    ("vol", ofRat (meshVolR ts)), ("vol_sub", ofRat (meshVolR sub)),
    ("area_vecs", ofList ofV (area2 ts))]

end Drv.Geom
