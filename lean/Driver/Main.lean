import Driver.Util
import Driver.C02
import Driver.C03
import Driver.C05
import Driver.C06
import Driver.C07
import Driver.C08
import Driver.C09
import Driver.C11
import Driver.C12
import Driver.C13
import Driver.C14
import Driver.C15
import Driver.C16
import Driver.C17
import Driver.C20
import Driver.Geom
open Lean Drv

def dispatch (j : Json) : Except String Json := do
  let p ← fld j "p" jStr
  match p with
  | "C02" => Drv.C02.handle j
  | "C03" => Drv.C03.handle j
  | "C05" => Drv.C05.handle j
  | "C06" => Drv.C06.handle j
  | "C07" => Drv.C07.handle j
  | "C08" => Drv.C08.handle j
  | "C09" => Drv.C09.handle j
  | "C11" => Drv.C11.handle j
  | "C12" => Drv.C12.handle j
  | "C13" => Drv.C13.handle j
  | "C14" => Drv.C14.handle j
  | "C15" => Drv.C15.handle j
  | "C16" => Drv.C16.handle j
  | "C17" => Drv.C17.handle j
  | "C20" => Drv.C20.handle j
  | "C04" => Drv.Geom.handleC04 j
  | "C10" => Drv.Geom.handleC10 j
  | "C18" => Drv.Geom.handleC18 j
  | _ => throw s!"bad-property {p}"

partial def loop (h : IO.FS.Stream) (out : IO.FS.Stream) : IO Unit := do
  let line ← h.getLine
  if line.isEmpty then return ()
  let reply := match Json.parse line with
    | .ok j => (match dispatch j with
        | .ok r => r
        | .error e => obj [("err", Json.str e)])
    | .error e => obj [("err", Json.str s!"parse: {e}")]
  out.putStrLn reply.compress
  loop h out

def main : IO Unit := do
  loop (← IO.getStdin) (← IO.getStdout)
