import Lean.Data.Json
open Lean
namespace Drv

def jInt (j : Json) : Except String Int := j.getInt?
def jNat (j : Json) : Except String Nat := j.getNat?
def jBool (j : Json) : Except String Bool := j.getBool?
def jStr (j : Json) : Except String String := j.getStr?
def jArr (j : Json) : Except String (List Json) := do return (← j.getArr?).toList
def jList {α} (f : Json → Except String α) (j : Json) : Except String (List α) := do
  (← jArr j).mapM f
def jOpt {α} (f : Json → Except String α) (j : Json) : Except String (Option α) :=
  if j.isNull then pure none else some <$> f j
def fld {α} (j : Json) (k : String) (f : Json → Except String α) : Except String α := do
  f (← j.getObjVal? k)
def fldD {α} (j : Json) (k : String) (f : Json → Except String α) (d : α) : Except String α :=
  match j.getObjVal? k with
  | .ok v => if v.isNull then pure d else f v
  | .error _ => pure d

def ofInt (i : Int) : Json := Json.num (JsonNumber.fromInt i)
def ofNat (n : Nat) : Json := Json.num (JsonNumber.fromNat n)
def ofList {α} (f : α → Json) (l : List α) : Json := Json.arr (l.map f).toArray
def ofBool (b : Bool) : Json := Json.bool b
def obj (kvs : List (String × Json)) : Json := Json.mkObj kvs

/-- rationals travel as [num, den] -/
def ofRat (q : Rat) : Json := Json.arr #[ofInt q.num, ofNat q.den]
def jRat (j : Json) : Except String Rat := do
  match j with
  | Json.arr #[a, b] => do
    let n ← jInt a; let d ← jNat b
    if d = 0 then throw "zero denominator" else pure (mkRat n d)
  | _ => do let n ← jInt j; pure (n : Rat)

end Drv
