import TrimeshVerif.Model.SortRuns
import TrimeshVerif.Model.Grouping
