-- root of the library: every model, proof and property file (Generated/*.lean must exist: harness/setup.sh
-- runs the translators first)
import TrimeshVerif.Props.C01
import TrimeshVerif.Props.C02
import TrimeshVerif.Props.C03
import TrimeshVerif.Props.C04
import TrimeshVerif.Props.C05
import TrimeshVerif.Props.C06
import TrimeshVerif.Props.C07
import TrimeshVerif.Props.C08
import TrimeshVerif.Props.C09
import TrimeshVerif.Props.C10
import TrimeshVerif.Props.C11
import TrimeshVerif.Props.C12
import TrimeshVerif.Props.C13
import TrimeshVerif.Props.C14
import TrimeshVerif.Props.C15
import TrimeshVerif.Props.C16
import TrimeshVerif.Props.C17
import TrimeshVerif.Props.C18
import TrimeshVerif.Props.C19
import TrimeshVerif.Props.C20
import TrimeshVerif.Model.MassRat
