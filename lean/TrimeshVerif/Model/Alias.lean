/-
Model for C17: a heap of mutable cells (array buffers, dicts, lists), objects as the sets of writable
cells reachable from them, edits as writes to reachable cells.  Core Lean only.
-/
namespace TV.Alias

abbrev Cell := Nat

/-- an object: the writable cells reachable from it (walked from the real object graph) -/
structure Obj where
  cells : List Cell
  deriving Repr

/-- everything an object can report is a function of the contents of its reachable cells -/
def observe {V : Type} (h : Cell → V) (o : Obj) : List V := o.cells.map h

def write {V : Type} (h : Cell → V) (c : Cell) (v : V) : Cell → V := fun x => if x = c then v else h x

/-- a sequence of edits: each writes one cell -/
def applyEdits {V : Type} (h : Cell → V) : List (Cell × V) → Cell → V
  | [] => h
  | (c, v) :: es => applyEdits (write h c v) es

/-- the checker run on the walked graphs of the original and the copy -/
def disjointB (a b : List Cell) : Bool := a.all (fun c => !b.contains c)

/-- a copy operation: every reachable cell `c` of the original gets the fresh cell `ren c` holding the
    same contents -/
def copyObj (ren : Cell → Cell) (a : Obj) : Obj := ⟨a.cells.map ren⟩
def copyHeap {V : Type} (ren : Cell → Cell) (a : Obj) (h : Cell → V) : Cell → V :=
  fun x => match a.cells.find? (fun c => ren c == x) with
    | some c => h c
    | none => h x

end TV.Alias
