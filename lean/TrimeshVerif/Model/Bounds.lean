/-
Verified checkers for hulls and bounding volumes over exact rationals (C16).  Core Lean only.
The implementation's outputs (qhull hull, oriented box transform, sphere, cylinder) are float64, hence
rationals; the checkers below accept or reject them, and `Props/C16.lean` proves what acceptance means.
No square roots: a distance bound `h ≤ ε·|n|` is written `h ≤ 0 ∨ h² ≤ ε²·|n|²`.
-/
import TrimeshVerif.Model.Query
import TrimeshVerif.Model.Topology
namespace TV.Bounds
open TV.Query

abbrev Face := Nat × Nat × Nat

def normal (t : Tri) : P := cross (sub t.2.1 t.1) (sub t.2.2 t.1)
/-- un-normalised signed height of `p` above the plane of `t` (positive on the side the winding faces) -/
def height (t : Tri) (p : P) : Rat := dot (normal t) (sub p t.1)
/-- `p` is at most `eps` above the plane of `t` -/
def below (eps : Rat) (t : Tri) (p : P) : Bool :=
  decide (height t p ≤ 0) || decide (height t p * height t p ≤ eps * eps * dot (normal t) (normal t))

def triOf (vs : List P) (f : Face) : Option Tri :=
  match vs[f.1]?, vs[f.2.1]?, vs[f.2.2]? with
  | some a, some b, some c => some (a, b, c)
  | _, _, _ => none

def trisOf (vs : List P) (fs : List Face) : Option (List Tri) := fs.mapM (triOf vs)

/-- six times the signed volume enclosed by a triangle list -/
def vol6 (ts : List Tri) : Rat := (ts.map (fun t => dot t.1 (cross t.2.1 t.2.2))).sum

/-- hull checker: hull vertices are input points, every input point is below every face plane (this is
    containment, convexity and outward winding at once), the faces close up with consistent winding, and
    the enclosed volume is positive -/
def hullCheck (eps : Rat) (pts : List P) (hv : List P) (hf : List Face) : Bool :=
  match trisOf hv hf with
  | none => false
  | some ts =>
    hv.all (fun v => pts.contains v) &&
    ts.all (fun t => pts.all (fun p => below eps t p)) &&
    TV.Topology.isWatertight hf && TV.Topology.isWindingConsistent hf &&
    decide (0 < vol6 ts)

/-! ### axis-aligned box -/
def leP (a b : P) : Bool := decide (a.1 ≤ b.1) && decide (a.2.1 ≤ b.2.1) && decide (a.2.2 ≤ b.2.2)
/-- `lo`/`hi` bound every point and each of the six bounds is attained -/
def aabbCheck (pts : List P) (lo hi : P) : Bool :=
  pts.all (fun p => leP lo p && leP p hi) &&
  pts.any (fun p => p.1 == lo.1) && pts.any (fun p => p.2.1 == lo.2.1) && pts.any (fun p => p.2.2 == lo.2.2) &&
  pts.any (fun p => p.1 == hi.1) && pts.any (fun p => p.2.1 == hi.2.1) && pts.any (fun p => p.2.2 == hi.2.2)

/-! ### oriented box: a 3x3 matrix given by rows and a translation -/
structure Rigid where
  r0 : P
  r1 : P
  r2 : P
  t : P

def Rigid.apply (T : Rigid) (p : P) : P := add (dot T.r0 p, dot T.r1 p, dot T.r2 p) T.t
def absR (x : Rat) : Rat := if x < 0 then -x else x
def near (eps a b : Rat) : Bool := decide (absR (a - b) ≤ eps)
/-- rows orthonormal within `eps`, right handed within `eps` -/
def Rigid.orthoCheck (eps : Rat) (T : Rigid) : Bool :=
  near eps (dot T.r0 T.r0) 1 && near eps (dot T.r1 T.r1) 1 && near eps (dot T.r2 T.r2) 1 &&
  near eps (dot T.r0 T.r1) 0 && near eps (dot T.r0 T.r2) 0 && near eps (dot T.r1 T.r2) 0 &&
  near eps (dot T.r0 (cross T.r1 T.r2)) 1
def Rigid.isExact (T : Rigid) : Prop :=
  dot T.r0 T.r0 = 1 ∧ dot T.r1 T.r1 = 1 ∧ dot T.r2 T.r2 = 1 ∧
  dot T.r0 T.r1 = 0 ∧ dot T.r0 T.r2 = 0 ∧ dot T.r1 T.r2 = 0
/-- the transform maps every point into the box of the given extents centred at the origin -/
def inBox (eps : Rat) (ext : P) (q : P) : Bool :=
  decide (absR q.1 ≤ ext.1 / 2 + eps) && decide (absR q.2.1 ≤ ext.2.1 / 2 + eps) &&
  decide (absR q.2.2 ≤ ext.2.2 / 2 + eps)
def obbCheck (eps : Rat) (pts : List P) (T : Rigid) (ext : P) : Bool :=
  T.orthoCheck eps && pts.all (fun p => inBox eps ext (T.apply p))

/-! ### sphere -/
def sphereCheck (eps : Rat) (pts : List P) (c : P) (r : Rat) : Bool :=
  decide (0 ≤ r) && pts.all (fun p => decide (dist2 p c ≤ (r + eps) * (r + eps)))

def wsum (ws : List Rat) (qs : List P) : P :=
  (List.zipWith (fun w q => smul w q) ws qs).foldl add (0, 0, 0)

/-- minimality certificate: support points `qs` (taken from the input) at squared distance at least
    `r² - delta` from the centre, and weights `ws ≥ 0` summing to 1 whose weighted mean misses the centre by
    `e`; then every enclosing ball has squared radius at least `r² - delta - |e|²` (theorem), and the
    checker asks that this is at least `(r - eps)²` -/
def sphereMinCheck (eps delta : Rat) (pts : List P) (c : P) (r : Rat) (ws : List Rat) (qs : List P) : Bool :=
  ws.length == qs.length && !qs.isEmpty &&
  ws.all (fun w => decide (0 ≤ w)) && ws.sum == 1 &&
  qs.all (fun q => pts.contains q && decide (r * r - delta ≤ dist2 q c)) &&
  (let e := sub (wsum ws qs) c
   decide ((r - eps) * (r - eps) ≤ r * r - delta - dot e e)) && decide (eps ≤ r)

/-! ### cylinder: axis direction `a` (any non-zero length) through `c`, radius `r`, height `h` -/
def cylCheck (eps : Rat) (pts : List P) (c a : P) (r h : Rat) : Bool :=
  decide (0 < dot a a) && decide (0 ≤ r) && decide (0 ≤ h) &&
  pts.all (fun p =>
    let v := sub p c
    let z := dot v a
    decide (z * z ≤ (h / 2 + eps) * (h / 2 + eps) * dot a a) &&
    decide (dot v v - z * z / dot a a ≤ (r + eps) * (r + eps)))

def lerp (p q : P) (s : Rat) : P := add p (smul s (sub q p))

end TV.Bounds
