/-
Model of the hash-validated value cache of a mesh (C01): `caching.Cache`, `cache_decorator`, in-place /
reassignment edits of the tracked data, and library mutators that keep part of the cache across the change
they make (`apply_transform`, `invert`, `process`, `unmerge_vertices`, `copy(include_cache=True)`).
Core Lean only.  `D` is the data a mesh's values are functions of (vertices, faces, overrides); the data
hash is modelled as the data itself (injective); `f k d` is the value of cached property `k` on data `d`
(a parameter: the ~60 cached functions are not modelled).
-/
namespace TV.Cache

structure St (D V : Type) where
  data : D
  cache : List (String × V)
  idCur : Option D            -- `Cache.id_current`: the data the cache was last verified against
  deriving Repr

variable {D V : Type} [DecidableEq D]

def St.init (d : D) : St D V := ⟨d, [], none⟩

/-- `Cache.verify()` (outside a lock): dump everything when the data hash changed -/
def verify (s : St D V) : St D V :=
  if s.idCur = some s.data then s else { s with cache := [], idCur := some s.data }

/-- a `@cache_decorator` property read: verify, return the stored value or compute and store it -/
def read (f : String → D → V) (s : St D V) (k : String) : V × St D V :=
  let s := verify s
  match s.cache.lookup k with
  | some v => (v, s)
  | none => (f k s.data, { s with cache := (k, f k s.data) :: s.cache })

/-- any edit of the tracked arrays (in place through a flagged route, or reassignment): only the data
    changes; the cache notices at the next verify -/
def edit (g : D → D) (s : St D V) : St D V := { s with data := g s.data }

/-- a library mutator that keeps part of the cache -/
structure Mutator (D V : Type) where
  verifiesFirst : Bool                 -- calls `Cache.verify()` before deciding what to keep
  apply : D → D                        -- the change of the data
  keep : List String                   -- the `exclude=` set of `Cache.clear`
  transport : String → D → V → V       -- how a kept value is rewritten (identity for untouched keys)
  setsId : Bool                        -- `id_set()` or the `__exit__` of `with self._cache:` afterwards

def mutate (m : Mutator D V) (s : St D V) : St D V :=
  let s := if m.verifiesFirst then verify s else s
  let d' := m.apply s.data
  { data := d',
    cache := (s.cache.filter (fun e => m.keep.contains e.1)).map (fun e => (e.1, m.transport e.1 s.data e.2)),
    idCur := if m.setsId then some d' else s.idCur }

inductive Op (D V : Type) where
  | read (k : String)
  | edit (g : D → D)
  | mutate (m : Mutator D V)

def step (f : String → D → V) (s : St D V) : Op D V → Option V × St D V
  | .read k => let r := read f s k; (some r.1, r.2)
  | .edit g => (none, edit g s)
  | .mutate m => (none, mutate m s)

def run (f : String → D → V) (s : St D V) (ops : List (Op D V)) : St D V :=
  ops.foldl (fun s op => (step f s op).2) s

/-- every stored value is the value of its key on the data the cache was verified against -/
def Coherent (f : String → D → V) (s : St D V) : Prop :=
  (s.idCur = none → s.cache = []) ∧ ∀ d0, s.idCur = some d0 → ∀ e ∈ s.cache, e.2 = f e.1 d0

/-- what a cache-keeping mutator owes: it verifies first, and every value it keeps is, after its
    transport, the value of that key on the data the cache id will point at afterwards — the changed data
    when it re-stamps the id (`id_set()` / leaving `with self._cache:`), the old data when it does not
    (the next `verify` then dumps the kept entries unless the data is back to what the id says) -/
def MutSound (f : String → D → V) (m : Mutator D V) : Prop :=
  m.keep = [] ∨ (m.verifiesFirst = true ∧
    ∀ d k, k ∈ m.keep → m.transport k d (f k d) = f k (if m.setsId then m.apply d else d))

def OpsSound (f : String → D → V) : List (Op D V) → Prop
  | [] => True
  | .mutate m :: t => MutSound f m ∧ OpsSound f t
  | _ :: t => OpsSound f t

/-! ### syntactic table obligations (data regenerated from the source) -/

def disjoint (a b : List String) : Bool := a.all (fun x => !b.contains x)

def depsOf (deps : List (String × List String)) (k : String) : List String :=
  match deps.lookup k with
  | some d => d
  | none => ["faces", "vertices", "overrides", "vcount", "fcount"]   -- unknown key: depends on everything

/-- what each cache-keeping mutator modifies (facets of the data) -/
def modifies : String → List String
  | "apply_transform" => ["vertices"]          -- (the winding-flip path keeps only the normals)
  | "invert" => ["faces"]
  | "process" => ["faces", "vertices", "vcount", "fcount"]
  | "unmerge_vertices" => ["faces", "vertices", "vcount"]
  | _ => ["faces", "vertices", "overrides", "vcount", "fcount"]

/-- (mutator, key) pairs whose kept value is justified by a transport lemma rather than by independence:
    normals under similarity transforms (C04_similarity_normals; non-similarities drop them), negated
    normals under inversion, per-face / per-vertex values under masking and un-merging (C07) -/
def registeredTransports : List (String × String) :=
  [("apply_transform", "face_normals"), ("apply_transform", "vertex_normals"),
   ("invert", "face_normals"), ("invert", "vertex_normals"),
   ("process", "face_normals"), ("process", "vertex_normals"),
   ("unmerge_vertices", "face_normals")]

/-- the obligation on one table row: (name, keep, rewrites, setsId, flipsKeepingTopology, verifiesFirst).
    A mutator that does not re-stamp the cache id may only keep values untouched (no rewrites). -/
def rowOk (deps : List (String × List String))
    (row : String × List String × List String × Bool × Bool × Bool) : Bool :=
  let name := row.1; let keep := row.2.1; let rewrites := row.2.2.1; let setsId := row.2.2.2.1
  let flipsKeeping := row.2.2.2.2.1; let verifies := row.2.2.2.2.2
  (keep.isEmpty || verifies) && !flipsKeeping && (setsId || rewrites.isEmpty) &&
  keep.all (fun k => disjoint (depsOf deps k) (modifies name) || registeredTransports.contains (name, k))

end TV.Cache
