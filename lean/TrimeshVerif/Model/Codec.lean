/-
Byte-level codecs whose layout is trimesh's own code (C08, C20).  Core Lean only.
Bytes are `Nat`s below 256, 32-bit words `Nat`s below 2^32 (a float32 is its 4 bytes: bit-exactness is
equality of words).  Follows `exchange/stl.py` (`_stl_dtype`, `_stl_dtype_header`, `export_stl`,
`load_stl_binary`), `exchange/gltf.py` (`export_glb`, `load_glb`, `_byte_pad`, `_build_views`), the packed
record layout of `exchange/ply.py` and the row/column text layout of `util.array_to_string`.
-/
namespace TV.Codec

abbrev Bytes := List Nat

def isBytes (b : Bytes) : Prop := ∀ x ∈ b, x < 256

/-! ### little-endian words -/
def le32 (n : Nat) : Bytes := [n % 256, n / 256 % 256, n / 65536 % 256, n / 16777216 % 256]
def de32 (b : Bytes) : Nat := b.getD 0 0 + 256 * b.getD 1 0 + 65536 * b.getD 2 0 + 16777216 * b.getD 3 0
def le16 (n : Nat) : Bytes := [n % 256, n / 256 % 256]
def de16 (b : Bytes) : Nat := b.getD 0 0 + 256 * b.getD 1 0

/-- split into consecutive pieces of `n` items (the last one may be short); `fuel` bounds the recursion -/
def chunksAux {α : Type} (n : Nat) : Nat → List α → List (List α)
  | 0, _ => []
  | _, [] => []
  | fuel + 1, l => l.take n :: chunksAux n fuel (l.drop n)
def chunks {α : Type} (n : Nat) (l : List α) : List (List α) := chunksAux n l.length l

/-! ### binary STL -/
structure StlRec where
  words : List Nat      -- 12 float32 words: normal (3), three corners (9)
  attr : Nat            -- uint16 attribute
  deriving DecidableEq, Repr

def StlRec.wf (r : StlRec) : Prop := r.words.length = 12 ∧ (∀ w ∈ r.words, w < 4294967296) ∧ r.attr < 65536

def encRec (r : StlRec) : Bytes := r.words.flatMap le32 ++ le16 r.attr
def decRec (b : Bytes) : StlRec := ⟨(chunks 4 (b.take 48)).map de32, de16 (b.drop 48)⟩

/-- `header.tobytes() + packed.tobytes()` -/
def encodeStl (hdr : Bytes) (recs : List StlRec) : Bytes :=
  hdr ++ le32 recs.length ++ recs.flatMap encRec

inductive StlErr | shortHeader | badLength
  deriving DecidableEq, Repr

/-- `load_stl_binary`: 84-byte header, then exactly `50 * face_count` bytes, else HeaderError -/
def decodeStl (b : Bytes) : Except StlErr (Bytes × List StlRec) :=
  if b.length < 84 then .error .shortHeader else
  let n := de32 ((b.drop 80).take 4)
  if b.length - 84 ≠ 50 * n then .error .badLength else
  .ok (b.take 80, (chunks 50 (b.drop 84)).map decRec)

/-! ### GLB framing -/
def magicGltf : Nat := 1179937895
def magicJson : Nat := 1313821514
def magicBin : Nat := 5130562

/-- `_byte_pad` -/
def pad4 (fill : Nat) (b : Bytes) : Bytes :=
  if b.length % 4 = 0 then b else b ++ List.replicate (4 - b.length % 4) fill
/-- `content += (4 - ((len(content) + 20) % 4)) * " "` -/
def padJson (b : Bytes) : Bytes := b ++ List.replicate (4 - (b.length + 20) % 4) 32

def encodeGlb (json bin : Bytes) : Bytes :=
  let c := padJson json
  le32 magicGltf ++ le32 2 ++ le32 (c.length + bin.length + 28) ++ le32 c.length ++ le32 magicJson ++ c ++
    le32 bin.length ++ le32 magicBin ++ bin

inductive GlbErr | shortHeader | badMagic | badVersion | noJson | notBinary | shortChunk
  deriving DecidableEq, Repr

/-- the `while (tell - start) < length` loop of `load_glb` (no external uris) -/
def binChunks : Nat → Bytes → Nat → Nat → Except GlbErr (List Bytes)
  | 0, _, _, _ => .ok []
  | fuel + 1, rest, consumed, length =>
    if consumed ≥ length then .ok [] else
    if rest.length < 8 then .ok [] else
    let cl := de32 (rest.take 4)
    let ct := de32 ((rest.drop 4).take 4)
    if ct ≠ magicBin then .error .notBinary else
    if (rest.drop 8).length < cl then .error .shortChunk else
    match binChunks fuel (rest.drop (8 + cl)) (consumed + 8 + cl) length with
    | .ok cs => .ok ((rest.drop 8).take cl :: cs)
    | .error e => .error e

def decodeGlb (b : Bytes) : Except GlbErr (Bytes × List Bytes) :=
  if b.length < 20 then .error .shortHeader else
  if de32 (b.take 4) ≠ magicGltf then .error .badMagic else
  if de32 ((b.drop 4).take 4) ≠ 2 then .error .badVersion else
  let length := de32 ((b.drop 8).take 4)
  let cl := de32 ((b.drop 12).take 4)
  if de32 ((b.drop 16).take 4) ≠ magicJson then .error .noJson else
  if (b.drop 20).length < cl then .error .shortChunk else      -- "JSON chunk is longer than the file!"
  let json := (b.drop 20).take cl
  let rest := b.drop (20 + cl)
  match binChunks rest.length rest 0 length with
  | .ok cs => .ok (json, cs)
  | .error e => .error e

/-! ### bufferViews: `_build_views` over the padded items -/
def viewsAux : Nat → List Bytes → List (Nat × Nat)
  | _, [] => []
  | pos, it :: rest => (pos, it.length) :: viewsAux (pos + it.length) rest
def views (items : List Bytes) : List (Nat × Nat) := viewsAux 0 items
def slice (buf : Bytes) (v : Nat × Nat) : Bytes := (buf.drop v.1).take v.2

/-! ### packed fixed-size records (PLY binary body: vertex block then face block) -/
def splitBody (nv vs nf fs : Nat) (body : Bytes) : List Bytes × List Bytes :=
  (chunks vs (body.take (nv * vs)), chunks fs ((body.drop (nv * vs)).take (nf * fs)))

/-! ### text rows: tokens joined by a column delimiter, rows by a row delimiter -/
abbrev Tok := List Char
def joinWith (d : Char) : List Tok → List Char
  | [] => []
  | [t] => t
  | t :: rest => t ++ d :: joinWith d rest
/-- split at every `d` -/
def splitAt (d : Char) : List Char → List Tok
  | [] => [[]]
  | c :: cs =>
    match splitAt d cs with
    | [] => [[]]          -- unreachable: the result is never empty
    | t :: ts => if c = d then [] :: t :: ts else (c :: t) :: ts
def formatRows (col row : Char) (rows : List (List Tok)) : List Char :=
  joinWith row (rows.map (joinWith col))
def parseRows (col row : Char) (s : List Char) : List (List Tok) :=
  (splitAt row s).map (splitAt col)

/-! ### base64 (RFC 4648 alphabet as numbers 0..63, `=` padding as 64) -/
def b64enc : Bytes → List Nat
  | a :: b :: c :: rest =>
    a / 4 :: (a % 4 * 16 + b / 16) :: (b % 16 * 4 + c / 64) :: c % 64 :: b64enc rest
  | [a, b] => [a / 4, a % 4 * 16 + b / 16, b % 16 * 4, 64]
  | [a] => [a / 4, a % 4 * 16, 64, 64]
  | [] => []
def b64dec : List Nat → Bytes
  | [w, x, 64, 64] => [w * 4 + x / 16]
  | [w, x, y, 64] => [w * 4 + x / 16, x % 16 * 16 + y / 4]
  | w :: x :: y :: z :: rest => (w * 4 + x / 16) :: (x % 16 * 16 + y / 4) :: (y % 4 * 64 + z) :: b64dec rest
  | _ => []

end TV.Codec
