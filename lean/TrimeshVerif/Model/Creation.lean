/-
Index arithmetic and tessellated measures of `creation.revolve` / `creation.box` (C15).  Core Lean only.
A profile is a list of (radius, height) points; slice `j` is the direction `d_j = (cos θ_j, sin θ_j)` (any pair
of rationals works: the identities below are polynomial).
-/
import TrimeshVerif.Model.Query
namespace TV.Creation
open TV.Query

abbrev Face := Nat × Nat × Nat
abbrev Dir := Rat × Rat

def vol6 (a b c : P) : Rat := dot a (cross b c)
/-- profile point (r, h) placed on direction d -/
def rv (p : Rat × Rat) (d : Dir) : P := (p.1 * d.1, p.1 * d.2, p.2)
def cross2 (u v : Dir) : Rat := u.1 * v.2 - u.2 * v.1

/-- the two triangles `[i, per+i, i+1]`, `[i+1, per+i, per+i+1]` of profile segment (p, q) between slices u, v -/
def quadVol6 (p q : Rat × Rat) (u v : Dir) : Rat :=
  vol6 (rv p u) (rv p v) (rv q u) + vol6 (rv q u) (rv p v) (rv q v)

def profileTerm (p q : Rat × Rat) : Rat := (p.1 + q.1) * (q.2 * p.1 - p.2 * q.1)
def profileSum : List (Rat × Rat) → Rat
  | p :: q :: rest => profileTerm p q + profileSum (q :: rest)
  | _ => 0
def sliceVol6 : List (Rat × Rat) → Dir → Dir → Rat
  | p :: q :: rest, u, v => quadVol6 p q u v + sliceVol6 (q :: rest) u v
  | _, _, _ => 0
def dirSum : List Dir → Rat
  | u :: v :: rest => cross2 u v + dirSum (v :: rest)
  | _ => 0
/-- six times the volume of the side walls of the whole revolve (caps of a partial revolve lie in planes
    through the axis and contribute nothing to the divergence sum taken from the origin) -/
def revolveVol6 : List (Rat × Rat) → List Dir → Rat
  | prof, u :: v :: rest => sliceVol6 prof u v + revolveVol6 prof (v :: rest)
  | _, _ => 0

/-- rotate about the z axis by the direction (c, s) -/
def rotZ (c s : Rat) (p : P) : P := (c * p.1 - s * p.2.1, s * p.1 + c * p.2.1, p.2.2)

/-! ### faces of `revolve`: `single` (with the dropped zero-area triangles) repeated per slice, modulo the vertex count.
    The quad of the last profile point joins it to the first point of the same two slices (`single[-2:]`). -/
def single (per : Nat) (keep : Nat → Bool) : List Face :=
  ((List.range per).flatMap (fun i => [(i, per + i, (i + 1) % per), ((i + 1) % per, per + i, per + (i + 1) % per)])).zipIdx.filterMap
    (fun fi => if keep fi.2 then some fi.1 else none)
def revolveFaces (per slices nVerts : Nat) (keep : Nat → Bool) : List Face :=
  (List.range slices).flatMap (fun j =>
    (single per keep).map (fun f => ((f.1 + j * per) % nVerts, (f.2.1 + j * per) % nVerts, (f.2.2 + j * per) % nVerts)))

/-! ### box: unit-cube corners (0/1) scaled to extents and centred -/
def boxVertex (ext : P) (c : Nat × Nat × Nat) : P :=
  (((c.1 : Rat) - 1 / 2) * ext.1, ((c.2.1 : Rat) - 1 / 2) * ext.2.1, ((c.2.2 : Rat) - 1 / 2) * ext.2.2)
def boxVol6 (ext : P) (corners : List (Nat × Nat × Nat)) (faces : List Face) : Rat :=
  (faces.map (fun f =>
    let g := fun i => boxVertex ext (corners.getD i (0, 0, 0))
    vol6 (g f.1) (g f.2.1) (g f.2.2))).sum

end TV.Creation
