/-
Executable model of `polygons.enclosure_tree` (C14) on a containment matrix `M[i][j] = polygon i contains polygon j`:
in-degrees, roots (even degree) and, for every root, the polygons of degree one more that it contains.  Core Lean only.
-/
namespace TV.EnclosureModel

def get (M : List (List Bool)) (i j : Nat) : Bool := (M.getD i []).getD j false

/-- `contains.in_degree()` -/
def degs (M : List (List Bool)) : List Nat :=
  (List.range M.length).map (fun j => ((List.range M.length).filter (fun i => get M i j)).length)

/-- polygons of even degree -/
def roots (M : List (List Bool)) : List Nat :=
  (List.range M.length).filter (fun j => (degs M).getD j 0 % 2 == 0)

/-- edges root -> hole -/
def shellEdges (M : List (List Bool)) : List (Nat × Nat) :=
  (roots M).flatMap (fun r =>
    ((List.range M.length).filter (fun c => (degs M).getD c 0 == (degs M).getD r 0 + 1 && get M r c)).map (fun c => (r, c)))

/-- the hypotheses of the shell / hole theorem on a concrete matrix -/
def laminar (M : List (List Bool)) : Bool :=
  let idx := List.range M.length
  idx.all (fun a => !get M a a) &&
  idx.all (fun a => idx.all (fun b => idx.all (fun c => !(get M a b && get M b c) || get M a c))) &&
  idx.all (fun a => idx.all (fun b => idx.all (fun c => !(get M a c && get M b c) || a == b || get M a b || get M b a)))

end TV.EnclosureModel
