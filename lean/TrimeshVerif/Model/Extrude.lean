/-
Index model of `creation.extrude_triangulation` (C15): a 2-D triangulation (the cap) becomes a bottom cap with
reversed faces, a top cap, and two wall triangles per boundary edge.  Vertices are positions: `lift l v` is cap
vertex `v` at the bottom (`l = 0`) or the top (`l = 1`) - the code gives the walls vertices of their own, which
`merge_vertices` identifies with these.  Core Lean only.
-/
namespace TV.Extrude

abbrev Face := Nat × Nat × Nat

def dirEdges (fs : List Face) : List (Nat × Nat) :=
  fs.flatMap (fun f => [(f.1, f.2.1), (f.2.1, f.2.2), (f.2.2, f.1)])

def sortE (e : Nat × Nat) : Nat × Nat := (min e.1 e.2, max e.1 e.2)

/-- `edges[group_rows(edges_sorted, require_count=1)]`: directed cap edges whose undirected edge occurs once -/
def boundary (cap : List Face) : List (Nat × Nat) :=
  (dirEdges cap).filter (fun e => ((dirEdges cap).map sortE).count (sortE e) == 1)

def lift (l v : Nat) : Nat := 2 * v + l

/-- the two wall triangles over the boundary edge `(a, b)`: `[3, 1, 2]` and `[2, 1, 0]` of the four wall
    vertices `a0, a1, b0, b1` -/
def wall (e : Nat × Nat) : List Face :=
  [(lift 1 e.2, lift 1 e.1, lift 0 e.2), (lift 0 e.2, lift 1 e.1, lift 0 e.1)]

/-- `faces_seq = [faces[:, ::-1], faces.copy(), vertical_faces]` -/
def extrude (cap : List Face) : List Face :=
  cap.map (fun f => (lift 0 f.2.2, lift 0 f.2.1, lift 0 f.1))
  ++ cap.map (fun f => (lift 1 f.1, lift 1 f.2.1, lift 1 f.2.2))
  ++ (boundary cap).flatMap wall

end TV.Extrude
