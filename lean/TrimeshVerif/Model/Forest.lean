/-
Model of `trimesh/scene/transforms.py` (C09): `EnforcedForest` (parents / edge_data / node_data, path
cache, `_hash` memo with its dirty protocol) and `SceneGraph.get` with its hash-validated cache.
Core Lean only.  Generic in the node type `N` and in the type `G` of edge matrices (any group).
The model follows the code after the `fix:` commit that drops the superseded edge on re-parenting.
-/
namespace TV.Forest

variable {N G : Type} [DecidableEq N]

/-- `EnforcedForest` data -/
structure Forest (N G : Type) where
  parents : List (N × N)          -- `parents` dict as (child, parent) entries, one per child
  edges : List ((N × N) × G)      -- `edge_data` dict: ((parent, child), matrix)
  nodes : List N                  -- keys of `node_data`
  deriving DecidableEq, Repr

/-- the group laws the edge matrices are assumed to satisfy (invertible 4x4 matrices do) -/
class LawfulGroup (G : Type) [Mul G] [One G] [Inv G] : Prop where
  mul_assoc : ∀ a b c : G, a * b * c = a * (b * c)
  one_mul : ∀ a : G, 1 * a = a
  mul_one : ∀ a : G, a * 1 = a
  inv_mul_cancel : ∀ a : G, a⁻¹ * a = 1
  mul_inv_cancel : ∀ a : G, a * a⁻¹ = 1

def Forest.empty : Forest N G := ⟨[], [], []⟩

def parentOf (f : Forest N G) (v : N) : Option N := (f.parents.find? (fun p => p.1 == v)).map (·.2)
def edgeOf (f : Forest N G) (u v : N) : Option G := (f.edges.find? (fun e => e.1 == (u, v))).map (·.2)
def hasNode (f : Forest N G) (v : N) : Bool := f.nodes.contains v

def addNode (ns : List N) (v : N) : List N := if ns.contains v then ns else ns ++ [v]

/-- `add_edge(u, v, matrix=g)` -/
def addEdge (f : Forest N G) (u v : N) (g : G) : Forest N G :=
  let edges : List ((N × N) × G) := match parentOf f v with
    | some p => if p ≠ u then f.edges.filter (fun (e : (N × N) × G) => e.1 != (p, v)) else f.edges
    | none => f.edges
  { parents := (v, u) :: f.parents.filter (fun p => p.1 != v),
    edges := ((u, v), g) :: edges.filter (fun e => e.1 != (u, v)),
    nodes := addNode (addNode f.nodes u) v }

/-- `remove_node(u)` -/
def removeNode (f : Forest N G) (u : N) : Forest N G :=
  if !hasNode f u then f else
  { parents := f.parents.filter (fun p => p.1 != u && p.2 != u),
    edges := f.edges.filter (fun e => e.1.1 != u && e.1.2 != u),
    nodes := f.nodes.filter (· != u) }

/-! ### edge-list export and rebuild (`to_edgelist` / `from_edgelist`) -/

/-- `to_edgelist`: one `(parent, child, matrix)` entry per item of `edge_data`, in dictionary order -/
def toEdgelist (f : Forest N G) : List (N × N × G) := f.edges.map (fun e => (e.1.1, e.1.2, e.2))

/-- `from_edgelist` on a fresh graph: `update(child, parent, matrix=…)` per entry, i.e. `add_edge` -/
def fromEdgelist (l : List (N × N × G)) : Forest N G :=
  l.foldl (fun f e => addEdge f e.1 e.2.1 e.2.2) Forest.empty


/-- the chain `v, parent v, parent (parent v), …` (at most `fuel + 1` nodes) -/
def ancestors (f : Forest N G) : Nat → N → List N
  | 0, v => [v]
  | fuel + 1, v => match parentOf f v with
    | some p => v :: ancestors f fuel p
    | none => [v]

/-- result of `shortest_path(u, v)` for `u ≠ v`: up from `u` to the first common ancestor, then down
    to `v`; `none` = "No path" ValueError -/
def pathTo (f : Forest N G) (u v : N) : Option (List N) :=
  let fu := ancestors f (f.parents.length) u
  let bv := ancestors f (f.parents.length) v
  match fu.find? (fun x => bv.contains x) with
  | none => none
  | some link => some (fu.takeWhile (· != link) ++ [link] ++ (bv.takeWhile (· != link)).reverse)

section group
variable [Mul G] [One G] [Inv G]

/-- matrix of one step of a path: forward edge, or inverse of the backward edge -/
def stepMatrix (f : Forest N G) (a b : N) : Option G :=
  match edgeOf f a b with
  | some g => some g
  | none => (edgeOf f b a).map (fun g => g⁻¹)

def pathProduct (f : Forest N G) : List N → Option G
  | [] => some 1
  | [_] => some 1
  | a :: b :: t => do
    let m ← stepMatrix f a b
    let r ← pathProduct f (b :: t)
    pure (m * r)

/-- `SceneGraph.get(frame_to = b, frame_from = a)` without any cache -/
def getRaw (f : Forest N G) (a b : N) : Option G :=
  if a = b then some 1
  else match edgeOf f a b with
    | some g => some g
    | none => (pathTo f a b).bind (pathProduct f)

/-- world matrix of a node: product of edge matrices from its root down to it -/
def world (f : Forest N G) : Nat → N → G
  | 0, _ => 1
  | fuel + 1, v => match parentOf f v with
    | some p => (match edgeOf f p v with
        | some g => world f fuel p * g
        | none => world f fuel p)
    | none => 1

def rootOf (f : Forest N G) (v : N) : N := (ancestors f f.parents.length v).getLastD v

/-! ### caches -/

/-- the content hash of the forest is modelled as the hashed data itself (the hash is taken to be
    injective; `parents` is determined by the keys of `edge_data`, which the hash covers) -/
abbrev Snapshot (N G : Type) := Forest N G
def snapshot (f : Forest N G) : Snapshot N G := f

/-- which mutators perform which invalidation (regenerated from the source on every run) -/
structure InvalTable where
  addEdgeResetsHash : Bool
  addEdgeClearsPathsOnNewEdge : Bool
  removeNodeResetsHash : Bool
  removeNodeClearsPaths : Bool
  clearClearsCache : Bool
  deriving DecidableEq, Repr

def InvalTable.ok (t : InvalTable) : Bool :=
  t.addEdgeResetsHash && t.addEdgeClearsPathsOnNewEdge && t.removeNodeResetsHash &&
  t.removeNodeClearsPaths && t.clearClearsCache

/-- `SceneGraph` state -/
structure Graph (N G : Type) where
  forest : Forest N G
  base : N
  hashMemo : Option (Snapshot N G)          -- `EnforcedForest._hash`
  pathCache : List ((N × N) × List N)       -- `EnforcedForest._cache`
  xCache : List ((N × N) × Option G)        -- `SceneGraph._cache` entries (value or cached error is not cached: only values)
  xCacheId : Option (Snapshot N G)          -- `Cache.id_current`

def Graph.init (base : N) : Graph N G := ⟨Forest.empty, base, none, [], [], none⟩

inductive Op (N G : Type) where
  | update (frameTo frameFrom : N) (g : G)   -- `update(frame_to, frame_from, matrix=g)`
  | updateBase (frameTo : N) (g : G)         -- `update(frame_to, matrix=g)` from the base frame
  | removeNode (u : N)                       -- `transforms.remove_node(u)`
  | setBase (b : N)                          -- `graph.base_frame = b`
  | clear                                    -- `graph.clear()`
  | get (frameTo frameFrom : N)              -- `get(frame_to, frame_from)`
  | getBase (frameTo : N)                    -- `get(frame_to)`

variable [DecidableEq G]

def doAddEdge (t : InvalTable) (s : Graph N G) (u v : N) (g : G) : Graph N G :=
  let isNew := (edgeOf s.forest u v).isNone
  { s with
    forest := addEdge s.forest u v g,
    hashMemo := if t.addEdgeResetsHash then none else s.hashMemo,
    pathCache := if isNew && t.addEdgeClearsPathsOnNewEdge then [] else s.pathCache }

def doRemoveNode (t : InvalTable) (s : Graph N G) (u : N) : Graph N G :=
  if !hasNode s.forest u then s else
  { s with
    forest := removeNode s.forest u,
    hashMemo := if t.removeNodeResetsHash then none else s.hashMemo,
    pathCache := if t.removeNodeClearsPaths then [] else s.pathCache }

/-- `EnforcedForest.__hash__`: memoised -/
def currentHash (s : Graph N G) : Snapshot N G × Graph N G :=
  match s.hashMemo with
  | some h => (h, s)
  | none => (snapshot s.forest, { s with hashMemo := some (snapshot s.forest) })

/-- cached `shortest_path` -/
def cachedPath (s : Graph N G) (a b : N) : Option (List N) × Graph N G :=
  match s.pathCache.find? (fun e => e.1 == (a, b)) with
  | some e => (some e.2, s)
  | none => match s.pathCache.find? (fun e => e.1 == (b, a)) with
    | some e => (some e.2.reverse, s)
    | none => match pathTo s.forest a b with
      | some p => (some p, { s with pathCache := ((a, b), p) :: s.pathCache })
      | none => (none, s)

/-- `SceneGraph.get(frame_to = b, frame_from = a)` with the hash-validated cache -/
def doGet (s : Graph N G) (a b : N) : Option G × Graph N G :=
  -- Cache.verify(): dump when the id changed
  let (h, s) := currentHash s
  let s := if s.xCacheId == some h then s else { s with xCache := [], xCacheId := some h }
  match s.xCache.find? (fun e => e.1 == (a, b)) with
  | some e => (e.2, s)
  | none =>
    let (r, s) :=
      if a = b then ((some 1 : Option G), s)
      else match edgeOf s.forest a b with
        | some g => (some g, s)
        | none =>
          let (p, s) := cachedPath s a b
          (p.bind (pathProduct s.forest), s)
    match r with
    | some g => (some g, { s with xCache := ((a, b), some g) :: s.xCache })
    | none => (none, s)

def step (t : InvalTable) (s : Graph N G) : Op N G → Option G × Graph N G
  | .update v u g => (none, doAddEdge t s u v g)
  | .updateBase v g => (none, doAddEdge t s s.base v g)
  | .removeNode u => (none, doRemoveNode t s u)
  | .setBase b => (none, { s with base := b })
  | .clear => (none, if t.clearClearsCache then { Graph.init s.base with base := s.base }
                      else { s with forest := Forest.empty })
  | .get b a => doGet s a b
  | .getBase b => doGet s s.base b

def run (t : InvalTable) (s : Graph N G) (ops : List (Op N G)) : Graph N G :=
  ops.foldl (fun s op => (step t s op).2) s

end group

/-! ### a concrete group for the driver: rational affine maps x ↦ A x + t (row-major 3x3 + translation) -/

structure Aff where
  a : List Rat      -- 9 entries
  t : List Rat      -- 3 entries
  deriving DecidableEq, Repr

namespace Aff
def get9 (m : List Rat) (i j : Nat) : Rat := m.getD (3 * i + j) 0
def one : Aff := ⟨[1, 0, 0, 0, 1, 0, 0, 0, 1], [0, 0, 0]⟩
def mul (x y : Aff) : Aff :=
  ⟨(List.range 9).map (fun k => let i := k / 3; let j := k % 3
      get9 x.a i 0 * get9 y.a 0 j + get9 x.a i 1 * get9 y.a 1 j + get9 x.a i 2 * get9 y.a 2 j),
   (List.range 3).map (fun i =>
      get9 x.a i 0 * y.t.getD 0 0 + get9 x.a i 1 * y.t.getD 1 0 + get9 x.a i 2 * y.t.getD 2 0 + x.t.getD i 0)⟩
def det (m : List Rat) : Rat :=
  get9 m 0 0 * (get9 m 1 1 * get9 m 2 2 - get9 m 1 2 * get9 m 2 1)
  - get9 m 0 1 * (get9 m 1 0 * get9 m 2 2 - get9 m 1 2 * get9 m 2 0)
  + get9 m 0 2 * (get9 m 1 0 * get9 m 2 1 - get9 m 1 1 * get9 m 2 0)
def inv (x : Aff) : Aff :=
  let m := x.a
  let d := det m
  let c (i j : Nat) : Rat :=   -- cofactor
    let r0 := (i + 1) % 3; let r1 := (i + 2) % 3; let c0 := (j + 1) % 3; let c1 := (j + 2) % 3
    get9 m r0 c0 * get9 m r1 c1 - get9 m r0 c1 * get9 m r1 c0
  let ai := (List.range 9).map (fun k => c (k % 3) (k / 3) / d)   -- adjugate / det
  let ti := (List.range 3).map (fun i =>
    -(get9 ai i 0 * x.t.getD 0 0 + get9 ai i 1 * x.t.getD 1 0 + get9 ai i 2 * x.t.getD 2 0))
  ⟨ai, ti⟩
instance : Mul Aff := ⟨mul⟩
instance : One Aff := ⟨one⟩
instance : Inv Aff := ⟨inv⟩
end Aff

end TV.Forest
