/-
Executable (core Lean, `Rat`) versions of the coordinate definitions behind C04 (affine maps), C10 (scene
placement and bounds) and C18 (subdivision), for the driver.  `Proofs/GeomRat.lean` shows that each of them
IS the generic-field definition used by the theorems, instantiated at ℚ; so what the driver evaluates on the
harness's inputs is the very function the theorems speak about.
-/
namespace TV.GeomRat

abbrev V := Rat × Rat × Rat
abbrev Tri := V × V × V
abbrev Face := Nat × Nat × Nat

structure M3R where
  m00 : Rat
  m01 : Rat
  m02 : Rat
  m10 : Rat
  m11 : Rat
  m12 : Rat
  m20 : Rat
  m21 : Rat
  m22 : Rat
  deriving DecidableEq, Repr

def addV (a b : V) : V := (a.1 + b.1, a.2.1 + b.2.1, a.2.2 + b.2.2)
def subV (a b : V) : V := (a.1 - b.1, a.2.1 - b.2.1, a.2.2 - b.2.2)
def smulV (s : Rat) (a : V) : V := (s * a.1, s * a.2.1, s * a.2.2)
def crossV (a b : V) : V :=
  (a.2.1 * b.2.2 - a.2.2 * b.2.1, a.2.2 * b.1 - a.1 * b.2.2, a.1 * b.2.1 - a.2.1 * b.1)

def applyR (a : M3R) (v : V) : V :=
  (a.m00 * v.1 + a.m01 * v.2.1 + a.m02 * v.2.2, a.m10 * v.1 + a.m11 * v.2.1 + a.m12 * v.2.2,
   a.m20 * v.1 + a.m21 * v.2.1 + a.m22 * v.2.2)
def mulR (a b : M3R) : M3R :=
  ⟨a.m00 * b.m00 + a.m01 * b.m10 + a.m02 * b.m20, a.m00 * b.m01 + a.m01 * b.m11 + a.m02 * b.m21,
   a.m00 * b.m02 + a.m01 * b.m12 + a.m02 * b.m22,
   a.m10 * b.m00 + a.m11 * b.m10 + a.m12 * b.m20, a.m10 * b.m01 + a.m11 * b.m11 + a.m12 * b.m21,
   a.m10 * b.m02 + a.m11 * b.m12 + a.m12 * b.m22,
   a.m20 * b.m00 + a.m21 * b.m10 + a.m22 * b.m20, a.m20 * b.m01 + a.m21 * b.m11 + a.m22 * b.m21,
   a.m20 * b.m02 + a.m21 * b.m12 + a.m22 * b.m22⟩
def detR (a : M3R) : Rat :=
  a.m00 * (a.m11 * a.m22 - a.m12 * a.m21) - a.m01 * (a.m10 * a.m22 - a.m12 * a.m20)
    + a.m02 * (a.m10 * a.m21 - a.m11 * a.m20)
/-- `p ↦ L p + t` -/
def transformR (L : M3R) (t p : V) : V := addV (applyR L p) t

def det3R (a b c : V) : Rat :=
  a.1 * (b.2.1 * c.2.2 - b.2.2 * c.2.1) - a.2.1 * (b.1 * c.2.2 - b.2.2 * c.1) + a.2.2 * (b.1 * c.2.1 - b.2.1 * c.1)
/-- signed volume of the tetrahedron (origin, a, b, c) -/
def volR (a b c : V) : Rat := det3R a b c / 6
/-- first moments of that tetrahedron -/
def firstR (a b c : V) : V :=
  (det3R a b c * (a.1 + b.1 + c.1) / 24, det3R a b c * (a.2.1 + b.2.1 + c.2.1) / 24,
   det3R a b c * (a.2.2 + b.2.2 + c.2.2) / 24)
def meshVolR (ts : List Tri) : Rat := (ts.map (fun t => volR t.1 t.2.1 t.2.2)).sum
def mapTri (f : V → V) (t : Tri) : Tri := (f t.1, f t.2.1, f t.2.2)
def areaVecR (t : Tri) : V := crossV (subV t.2.1 t.1) (subV t.2.2 t.1)

/-! ### C10: bounds of placed copies -/
def vminR (a b : V) : V := (min a.1 b.1, min a.2.1 b.2.1, min a.2.2 b.2.2)
def vmaxR (a b : V) : V := (max a.1 b.1, max a.2.1 b.2.1, max a.2.2 b.2.2)
def lowerR (p : V) (ps : List V) : V := ps.foldl vminR p
def upperR (p : V) (ps : List V) : V := ps.foldl vmaxR p
structure InstanceR where
  L : M3R
  t : V
  pts : List V
def placedR (i : InstanceR) : List V := i.pts.map (transformR i.L i.t)
/-- what `bounds_corners` computes per node: min / max of the rotated points, then the translation added -/
def nodeLowerR (i : InstanceR) (p0 : V) : V := addV (lowerR (applyR i.L p0) (i.pts.map (applyR i.L))) i.t
def nodeUpperR (i : InstanceR) (p0 : V) : V := addV (upperR (applyR i.L p0) (i.pts.map (applyR i.L))) i.t

/-! ### C18: one to four subdivision -/
def midpointR (a b : V) : V := ((a.1 + b.1) / 2, (a.2.1 + b.2.1) / 2, (a.2.2 + b.2.2) / 2)
def childrenR (a b c : V) : List Tri :=
  let m0 := midpointR a b; let m1 := midpointR b c; let m2 := midpointR c a
  [(a, m0, m2), (m0, b, m1), (m2, m1, c), (m0, m1, m2)]
def subdivideR (ts : List Tri) : List Tri := ts.flatMap (fun t => childrenR t.1 t.2.1 t.2.2)
def childFacesN (mid : Nat → Nat → Nat) (f : Face) : List Face :=
  let a := f.1; let b := f.2.1; let c := f.2.2
  let m0 := mid a b; let m1 := mid b c; let m2 := mid c a
  [(a, m0, m2), (m0, b, m1), (m2, m1, c), (m0, m1, m2)]

/-! `subdivide_to_size`, one face at a time (squared lengths) -/
def len2R (p q : V) : Rat := let d := subV q p; d.1 * d.1 + d.2.1 * d.2.1 + d.2.2 * d.2.2
def maxEdge2R (t : Tri) : Rat := max (max (len2R t.1 t.2.1) (len2R t.2.1 t.2.2)) (len2R t.2.2 t.1)
def toSizeR (m2 : Rat) : Nat → Tri → Option (List Tri)
  | 0, t => if maxEdge2R t ≤ m2 then some [t] else none
  | fuel + 1, t =>
    if maxEdge2R t ≤ m2 then some [t]
    else ((childrenR t.1 t.2.1 t.2.2).mapM (toSizeR m2 fuel)).map List.flatten
/-- does the recursion meet a longest edge within a relative `tol` of the bound (a tie the float code may break
    either way)? -/
def toSizeTie (m2 tol : Rat) : Nat → Tri → Bool
  | 0, t => decide (m2 * (1 - tol) ≤ maxEdge2R t ∧ maxEdge2R t ≤ m2 * (1 + tol))
  | fuel + 1, t =>
    decide (m2 * (1 - tol) ≤ maxEdge2R t ∧ maxEdge2R t ≤ m2 * (1 + tol)) ||
    (!decide (maxEdge2R t ≤ m2) && (childrenR t.1 t.2.1 t.2.2).any (toSizeTie m2 tol fuel))

end TV.GeomRat
