/-
Voxel grid addressing (C13): `voxel.ops.points_to_indices` / `indices_to_points` for one coordinate, over exact
rationals.  `np.round` rounds halves to the even integer.  Core Lean only.
-/
namespace TV.Grid

/-- `np.round`: nearest integer, ties to even -/
def roundHE (x : Rat) : Int :=
  let f := (x + 1 / 2).floor
  if (f : Rat) = x + 1 / 2 ∧ f % 2 ≠ 0 then f - 1 else f

/-- `indices_to_points`: `i * pitch + origin` -/
def indexToPoint (pitch origin : Rat) (i : Int) : Rat := (i : Rat) * pitch + origin

/-- `points_to_indices`: `round((p - origin) / pitch)` -/
def pointToIndex (pitch origin p : Rat) : Int := roundHE ((p - origin) / pitch)

end TV.Grid
