/-
Model of `trimesh/grouping.py` on integer data (C06).  Core Lean only.
Follows the code: bit packing with its range guard and void fallback, sort-and-compare grouping,
blocks with the wrap-around cases as written.
-/
import TrimeshVerif.Model.SortRuns
namespace TV.Grouping
open TV

/-! ### hashable_rows -/

/-- `precision = floor(64 / cols)` -/
def precision (cols : Nat) : Nat := 64 / cols

/-- `threshold = 2 ** (precision - 1) - 1` -/
def threshold (cols : Nat) : Int := 2 ^ (precision cols - 1) - 1

/-- `d_max < threshold and d_min > -threshold` -/
def guardOk (cols : Nat) (rows : List (List Int)) : Bool :=
  rows.all (fun r => r.all (fun v => decide (v < threshold cols) && decide (-(threshold cols) < v)))

/-- one step of the column loop: `hashable ^= column << (offset * precision)` on uint64 -/
def packStep (p : Nat) (acc : Nat × Nat) (y : Nat) : Nat × Nat :=
  ((acc.1 ^^^ (y <<< (acc.2 * p))) % 2 ^ 64, acc.2 + 1)

/-- pack the offset (non-negative) fields of one row -/
def packFields (p : Nat) (ys : List Nat) : Nat := (ys.foldl (packStep p) (0, 0)).1

/-- `(as_int + (threshold + 1)).astype(uint64)` then the xor loop, for one row -/
def packRow (cols : Nat) (row : List Int) : Nat :=
  packFields (precision cols) (row.map (fun v => ((v + (threshold cols + 1)) % 2 ^ 64).toNat))

/-- result of `hashable_rows` on a 2-D int64 array with `cols` columns (after the `fix:` commit a
    single column is returned flattened).  A hash is modelled as a list of integers: `[packed]`
    for the uint64 route, the row itself for the void-dtype route. -/
def hashableRows (cols : Nat) (rows : List (List Int)) : List (List Int) :=
  if cols = 1 then rows
  else if cols ≤ 4 && guardOk cols rows then rows.map (fun r => [(packRow cols r : Int)])
  else rows

/-! ### group_rows / unique_rows / unique_ordered -/

/-- `group_rows(data)` (require_count = None) -/
def groupRows (cols : Nat) (rows : List (List Int)) : List (List Nat) :=
  if rows.isEmpty then [[]]       -- `group` of an empty hash array returns one empty group (code as it is)
  else group lexLe (hashableRows cols rows) none none

/-- `group_rows(data, require_count=k)` -/
def groupRowsCount (cols : Nat) (rows : List (List Int)) (k : Nat) : List (List Nat) :=
  (groupsOf lexLe (hashableRows cols rows)).filter (fun g => g.length == k)

def uniqueRows (cols : Nat) (rows : List (List Int)) (keepOrder : Bool) : List Nat × List Nat :=
  if keepOrder then uniqueOrderedIdxInv lexLe (hashableRows cols rows)
  else uniqueIdxInv lexLe (hashableRows cols rows)

/-- `unique_ordered(data, return_index=True, return_inverse=True)` on a 1-D int array:
    (values in first-occurrence order, index, inverse) -/
def uniqueOrdered (vs : List Int) : List Int × List Nat × List Nat :=
  let r := uniqueOrderedIdxInv intLe vs
  (r.1.map (fun i => vs.getD i 0), r.1, r.2)

/-- `unique_bincount(values, return_inverse=True, return_counts=True)` on non-negative ints -/
def uniqueBincount (vs : List Nat) : List Nat × List Nat × List Nat :=
  let m := vs.foldl max 0 + 1
  let counts := (List.range m).map (fun b => vs.count b)
  let unique := (List.range m).filter (fun b => vs.count b != 0)
  let cums := (List.range m).map (fun b => ((List.range (b + 1)).filter (fun c => vs.count c != 0)).length - 1)
  if vs.isEmpty then ([], [], []) else
  (unique, vs.map (fun v => cums.getD v 0), unique.map (fun u => counts.getD u 0))

/-- `merge_runs` on integers (epsilon < 1): drop elements equal to their predecessor -/
def mergeRuns : List Int → List Int
  | [] => []
  | [x] => [x]
  | x :: y :: t => if x = y then mergeRuns (y :: t) else x :: mergeRuns (y :: t)

/-- `group_min(groups, data)`: minimum of data per group label, in ascending label order -/
def groupMin (groups : List Int) (data : List Int) : List Int :=
  let gs := groupsOf intLe groups
  gs.map (fun g => (g.map (fun i => data.getD i 0)).foldl min (data.getD (g.headD 0) 0))

/-- `boolean_rows(a, b, np.intersect1d)` as a sorted duplicate-free list of rows -/
def rowsInter (a b : List (List Int)) : List (List Int) :=
  ((a.filter (fun r => b.contains r)).mergeSort lexLe).eraseDups

/-- `boolean_rows(a, b, np.setdiff1d)` -/
def rowsDiff (a b : List (List Int)) : List (List Int) :=
  ((a.filter (fun r => !b.contains r)).mergeSort lexLe).eraseDups

/-- `unique_value_in_row(data)`: mark the entry whose value occurs exactly once in its row;
    when several do, the one with the largest value wins (loop over sorted unique values) -/
def uniqueValueInRow (rows : List (List Int)) : List (List Bool) :=
  rows.map (fun r =>
    let once := r.filter (fun v => r.count v == 1)
    match once with
    | [] => r.map (fun _ => false)
    | o :: os => let w := os.foldl max o; r.map (fun v => v == w))

/-! ### blocks -/

def rangeFromTo (s e : Nat) : List Nat := (List.range (e - s)).map (· + s)

/-- `blocks(data, min_len, max_len, wrap, only_nonzero)` on integer data, following the code:
    `infl`, `infl_len`, `infl_ok`, slices, then the wrap cases exactly as written -/
def blocks (data : List Int) (minLen : Nat) (maxLen : Option Nat) (wrap onlyNonzero : Bool) :
    List (List Nat) :=
  let n := data.length
  let nonzero := (List.range n).filter (fun i => i ≥ 1 && data.getD i 0 != data.getD (i - 1) 0)
  let infl := 0 :: nonzero ++ [n]
  let pairs := infl.zip infl.tail
  let okLen (l : Nat) : Bool := decide (minLen ≤ l) && (match maxLen with | none => true | some m => decide (l ≤ m))
  let ok (se : Nat × Nat) : Bool :=
    okLen (se.2 - se.1) && (!onlyNonzero || data.getD se.1 0 != 0)
  let blocks := (pairs.filter ok).map (fun se => rangeFromTo se.1 se.2)
  if !wrap then blocks
  else if data.head? != data.getLast? then blocks
  else if onlyNonzero && data.headD 0 == 0 then blocks
  else if blocks.length == 1 && (blocks.headD []).length == n then blocks
  else
    let first := match blocks.head? with | some (b :: _) => b == 0 | _ => false
    let last := match blocks.getLast? with | some b => b.getLast? == some (n - 1) | none => false
    if first && last then
      (blocks.getLastD [] ++ blocks.headD []) :: (blocks.tail.dropLast)
    else
      let l0 := (pairs.headD (0, 0)).2 - (pairs.headD (0, 0)).1
      let lN := (pairs.getLastD (0, 0)).2 - (pairs.getLastD (0, 0)).1
      let combined := l0 + lN
      if !(okLen combined) then blocks
      else
        let newBlock := rangeFromTo (pairs.getLastD (0, 0)).1 (pairs.getLastD (0, 0)).2
                        ++ rangeFromTo (pairs.headD (0, 0)).1 (pairs.headD (0, 0)).2
        if first then newBlock :: blocks.tail
        else if last then blocks.dropLast ++ [newBlock]
        else blocks ++ [newBlock]

/-- specification of blocks: maximal runs of equal values, cyclic when `wrap`, filtered -/
def blocksSpec (data : List Int) (minLen : Nat) (maxLen : Option Nat) (wrap onlyNonzero : Bool) :
    List (List Nat) :=
  let n := data.length
  let nonzero := (List.range n).filter (fun i => i ≥ 1 && data.getD i 0 != data.getD (i - 1) 0)
  let infl := 0 :: nonzero ++ [n]
  let rs := (infl.zip infl.tail).map (fun se => rangeFromTo se.1 se.2)
  let rs := if wrap && rs.length > 1 && data.head? == data.getLast? then
              (rs.getLastD [] ++ rs.headD []) :: rs.tail.dropLast else rs
  rs.filter (fun r =>
    decide (minLen ≤ r.length) && (match maxLen with | none => true | some m => decide (r.length ≤ m))
    && (!onlyNonzero || data.getD (r.headD 0) 0 != 0))

end TV.Grouping
