/-
Loader control-flow skeletons and header scans (C20).  Core Lean only.

`Stmt` is the resource skeleton the translator (harness/translate/skeleton.py) extracts from the Python source
of `_parse_file_args`, `load_scene`, `load_path`: only what matters for "a file the loader opened itself is
closed again on every path" is kept: opening, setting `was_opened`, statements that may raise, explicit raise /
return, branching, try/finally, try/except, and the guarded close.
-/
import TrimeshVerif.Model.Codec
namespace TV.Load

inductive Stmt where
  | openFile                                   -- file_obj = open(path, "rb")
  | setFlag                                    -- was_opened = True
  | closeIfFlag                                -- if arg.was_opened: arg.file_obj.close()
  | mayRaise                                   -- a call that may raise an ordinary exception
  | raise                                      -- raise ...
  | ret                                        -- return ...
  | branch (alts : List (List Stmt))           -- if / elif / else, loop body zero or one time
  | tryFinally (body fin : List Stmt)
  | tryExcept (body handler : List Stmt)       -- except BaseException: handler
  deriving Repr

structure St where
  opened : Bool := false     -- the loader itself has opened a file
  flag : Bool := false       -- was_opened
  closed : Bool := false
  deriving DecidableEq, Repr

inductive Status | normal | raised | returned
  deriving DecidableEq, Repr

def St.leak (s : St) : Bool := s.opened && !s.closed

mutual
/-- all executions of one statement from state `s`: the list of reachable (state, status) pairs -/
def runStmt : Stmt → St → List (St × Status)
  | .openFile, s => [({ s with opened := true, closed := false }, .normal)]
  | .setFlag, s => [({ s with flag := true }, .normal)]
  | .closeIfFlag, s => [(if s.flag then { s with closed := true } else s, .normal)]
  | .mayRaise, s => [(s, .normal), (s, .raised)]
  | .raise, s => [(s, .raised)]
  | .ret, s => [(s, .returned)]
  | .branch alts, s => runAlts alts s
  | .tryFinally body fin, s =>
    (runBlock body s).flatMap (fun r =>
      (runBlock fin r.1).map (fun f => (f.1, if f.2 = .normal then r.2 else f.2)))
  | .tryExcept body handler, s =>
    (runBlock body s).flatMap (fun r => if r.2 = .raised then runBlock handler r.1 else [r])
def runBlock : List Stmt → St → List (St × Status)
  | [], s => [(s, .normal)]
  | st :: rest, s =>
    (runStmt st s).flatMap (fun r => if r.2 = .normal then runBlock rest r.1 else [r])
def runAlts : List (List Stmt) → St → List (St × Status)
  | [], _ => []
  | a :: rest, s => runBlock a s ++ runAlts rest s
end

/-- the decidable check the generated skeletons must pass: no execution ends with a leaked file -/
def safe (prog : List Stmt) : Bool := (runBlock prog {}).all (fun r => !r.1.leak)

/-! relational semantics (what "an execution" means), against which `runBlock` is complete -/
mutual
inductive ExecStmt : Stmt → St → St → Status → Prop
  | openFile (s) : ExecStmt .openFile s { s with opened := true, closed := false } .normal
  | setFlag (s) : ExecStmt .setFlag s { s with flag := true } .normal
  | closeYes (s) (h : s.flag = true) : ExecStmt .closeIfFlag s { s with closed := true } .normal
  | closeNo (s) (h : s.flag = false) : ExecStmt .closeIfFlag s s .normal
  | callOk (s) : ExecStmt .mayRaise s s .normal
  | callRaise (s) : ExecStmt .mayRaise s s .raised
  | raise (s) : ExecStmt .raise s s .raised
  | ret (s) : ExecStmt .ret s s .returned
  | branch (alts a s s' st) (ha : a ∈ alts) (h : ExecBlock a s s' st) : ExecStmt (.branch alts) s s' st
  | finallyNormal (body fin s s1 s2 st) (hb : ExecBlock body s s1 st) (hf : ExecBlock fin s1 s2 .normal) :
      ExecStmt (.tryFinally body fin) s s2 st
  | finallyOverride (body fin s s1 s2 st st') (hb : ExecBlock body s s1 st) (hf : ExecBlock fin s1 s2 st')
      (hne : st' ≠ .normal) : ExecStmt (.tryFinally body fin) s s2 st'
  | exceptPass (body handler s s1 st) (hb : ExecBlock body s s1 st) (hne : st ≠ .raised) :
      ExecStmt (.tryExcept body handler) s s1 st
  | exceptCatch (body handler s s1 s2 st) (hb : ExecBlock body s s1 .raised) (hh : ExecBlock handler s1 s2 st) :
      ExecStmt (.tryExcept body handler) s s2 st
inductive ExecBlock : List Stmt → St → St → Status → Prop
  | nil (s) : ExecBlock [] s s .normal
  | step (st rest s s1 s2 status) (h1 : ExecStmt st s s1 .normal) (h2 : ExecBlock rest s1 s2 status) :
      ExecBlock (st :: rest) s s2 status
  | stop (st rest s s1 status) (h1 : ExecStmt st s s1 status) (hne : status ≠ .normal) :
      ExecBlock (st :: rest) s s1 status
end

/-! ### PLY header scan (`_parse_header`): one token list per line, until `end_header` -/
inductive HdrErr | eof | emptyLine | badElement | badProperty | unknownType
  deriving DecidableEq, Repr

structure Elem where
  name : String
  length : Nat
  props : Nat        -- number of property lines
  deriving DecidableEq, Repr

def knownTypes : List String :=
  ["char", "uchar", "short", "ushort", "int", "uint", "float", "double", "int8", "uint8", "int16", "uint16",
   "int32", "uint32", "float32", "float64"]

/-- returns the elements declared and the number of lines consumed.  At end of input `readline()` returns
    an empty line, whose `line[0]` raises IndexError: that is what ends the real `while True` -/
def scanHeader : List (List String) → List Elem → Nat → Except HdrErr (List Elem × Nat)
  | [], _, _ => .error .eof
  | line :: rest, acc, n =>
    if line.contains "end_header" then .ok (acc.reverse, n + 1) else
    match line with
    | [] => .error .emptyLine
    | kw :: args =>
      if (kw.splitOn "element").length > 1 then
        match args with
        | [name, len] =>
          match len.toNat? with
          | some k => scanHeader rest (⟨name, k, 0⟩ :: acc) (n + 1)
          | none => .error .badElement
        | _ => .error .badElement
      else if (kw.splitOn "property").length > 1 then
        -- the element the property belongs to is looked up only when the line is stored: a property line of
        -- another shape (not three tokens, no `list`) is skipped even before the first element
        match args with
        | [dt, _] =>
          match acc with
          | [] => .error .badProperty
          | e :: acc' =>
            if knownTypes.contains dt then scanHeader rest ({ e with props := e.props + 1 } :: acc') (n + 1)
            else .error .unknownType
        | a1 :: rest' =>
          if (a1.splitOn "list").length > 1 then
            match rest' with
            | [dc, dt, _] =>
              match acc with
              | [] => .error .badProperty
              | e :: acc' =>
                if knownTypes.contains dc && knownTypes.contains dt
                then scanHeader rest ({ e with props := e.props + 1 } :: acc') (n + 1)
                else .error .unknownType
            | _ => .error .badProperty
          else scanHeader rest acc (n + 1)
        | [] => .error .badProperty
      else scanHeader rest acc (n + 1)

/-! ### glTF interleaved (strided) accessor read: `_read_buffers`, `byteStride` branch -/

/-- the two asserted guards: `stride > 0` and `0 <= start <= start + length <= len(data)` with
    `length = (count - 1) * stride + per_row` -/
def stridedOk (n start stride count perRow : Int) : Bool :=
  decide (0 < stride) && decide (0 ≤ start) && decide (start ≤ start + ((count - 1) * stride + perRow))
    && decide (start + ((count - 1) * stride + perRow) ≤ n)

/-- byte `j` of row `i` of the `as_strided` view (shape `[count, per_row]`, strides `[stride, 1]`) over the window
    `frombuffer(data, offset=start, count=length)`: its position in `data` -/
def stridedIndex (start stride i j : Int) : Int := start + i * stride + j

end TV.Load
