/-
Executable (core Lean, `Rat`) model of `triangles.mass_properties` for the driver (C03, C04, C15):
the ten face sums are formed from the per-face polynomials *traced from the source on this run*
(Generated/C03TraceRat.lean) and, independently, from the exact tetrahedron moments; the post-processing
follows lines 287-327 of triangles.py.
-/
import TrimeshVerif.Generated.C03TraceRat
import TrimeshVerif.Generated.C03FrameRat
namespace TV.MassRat
open TV.Generated

abbrev Pt := Rat × Rat × Rat
abbrev Tri := Pt × Pt × Pt

def det3 (a b c : Pt) : Rat :=
  a.1 * (b.2.1 * c.2.2 - b.2.2 * c.2.1) - a.2.1 * (b.1 * c.2.2 - b.2.2 * c.1) + a.2.2 * (b.1 * c.2.1 - b.2.1 * c.1)

def q2 (ai aj bi bj ci cj : Rat) : Rat :=
  2 * ai * aj + 2 * bi * bj + 2 * ci * cj + ai * bj + aj * bi + ai * cj + aj * ci + bi * cj + bj * ci

/-- exact moments (1, x, y, z, x², y², z², xy, yz, zx) of the signed tetrahedron (0, a, b, c) -/
def exactFace (f : Tri) : List Rat :=
  let a := f.1; let b := f.2.1; let c := f.2.2
  let d := det3 a b c
  [d / 6, d * (a.1 + b.1 + c.1) / 24, d * (a.2.1 + b.2.1 + c.2.1) / 24, d * (a.2.2 + b.2.2 + c.2.2) / 24,
   d * q2 a.1 a.1 b.1 b.1 c.1 c.1 / 120, d * q2 a.2.1 a.2.1 b.2.1 b.2.1 c.2.1 c.2.1 / 120,
   d * q2 a.2.2 a.2.2 b.2.2 b.2.2 c.2.2 c.2.2 / 120, d * q2 a.1 a.2.1 b.1 b.2.1 c.1 c.2.1 / 120,
   d * q2 a.2.1 a.2.2 b.2.1 b.2.2 c.2.1 c.2.2 / 120, d * q2 a.2.2 a.1 b.2.2 b.1 c.2.2 c.1 / 120]

/-- the code's per-face integrands (traced) -/
def codeFace (f : Tri) : List Rat :=
  let a := f.1; let b := f.2.1; let c := f.2.2
  [C03Rat.F0 a.1 a.2.1 a.2.2 b.1 b.2.1 b.2.2 c.1 c.2.1 c.2.2, C03Rat.F1 a.1 a.2.1 a.2.2 b.1 b.2.1 b.2.2 c.1 c.2.1 c.2.2,
   C03Rat.F2 a.1 a.2.1 a.2.2 b.1 b.2.1 b.2.2 c.1 c.2.1 c.2.2, C03Rat.F3 a.1 a.2.1 a.2.2 b.1 b.2.1 b.2.2 c.1 c.2.1 c.2.2,
   C03Rat.F4 a.1 a.2.1 a.2.2 b.1 b.2.1 b.2.2 c.1 c.2.1 c.2.2, C03Rat.F5 a.1 a.2.1 a.2.2 b.1 b.2.1 b.2.2 c.1 c.2.1 c.2.2,
   C03Rat.F6 a.1 a.2.1 a.2.2 b.1 b.2.1 b.2.2 c.1 c.2.1 c.2.2, C03Rat.F7 a.1 a.2.1 a.2.2 b.1 b.2.1 b.2.2 c.1 c.2.1 c.2.2,
   C03Rat.F8 a.1 a.2.1 a.2.2 b.1 b.2.1 b.2.2 c.1 c.2.1 c.2.2, C03Rat.F9 a.1 a.2.1 a.2.2 b.1 b.2.1 b.2.2 c.1 c.2.1 c.2.2]

def addL (x y : List Rat) : List Rat := List.zipWith (· + ·) x y
def sums (face : Tri → List Rat) (fs : List Tri) : List Rat :=
  fs.foldl (fun acc f => addL acc (face f)) (List.replicate 10 0)

structure Props where
  volume : Rat
  mass : Rat
  centerMass : List Rat
  inertia : List (List Rat)

/-- post-processing of the ten sums (density `rho`, optional centre-of-mass override `cm`);
    `|volume| < tol.zero` is the exact test `volume = 0` on the rational inputs used -/
def post (S : List Rat) (rho : Rat) (cm : Option (List Rat)) : Props :=
  let s (i : Nat) : Rat := S.getD i 0
  let v := s 0
  let k : List Rat := match cm with
    | some c => c
    | none => if v = 0 then [0, 0, 0] else [s 1 / v, s 2 / v, s 3 / v]
  let k1 := k.getD 0 0; let k2 := k.getD 1 0; let k3 := k.getD 2 0
  let i00 := s 5 + s 6 - v * (k2 * k2 + k3 * k3)
  let i11 := s 4 + s 6 - v * (k1 * k1 + k3 * k3)
  let i22 := s 4 + s 5 - v * (k1 * k1 + k2 * k2)
  let i01 := -(s 7 - v * k1 * k2)
  let i12 := -(s 8 - v * k2 * k3)
  let i02 := -(s 9 - v * k1 * k3)
  { volume := v, mass := rho * v, centerMass := k,
    inertia := [[rho * i00, rho * i01, rho * i02], [rho * i01, rho * i11, rho * i12], [rho * i02, rho * i12, rho * i22]] }

/-- `moment_inertia_frame` (traced: Generated/C03FrameRat.lean) for the frame with axes `R` (row major) and
    origin `p`, from the post-processed properties (centre of mass, mass, tensor at the centre of mass) -/
def frameTensor (R p : List Rat) (pr : Props) : List (List Rat) :=
  let r (i : Nat) : Rat := R.getD i 0
  let c (i : Nat) : Rat := pr.centerMass.getD i 0
  let e (i j : Nat) : Rat := (pr.inertia.getD i []).getD j 0
  let f (g : Rat → Rat → Rat → Rat → Rat → Rat → Rat → Rat → Rat → Rat → Rat → Rat → Rat → Rat → Rat → Rat → Rat →
      Rat → Rat → Rat → Rat → Rat → Rat) : Rat :=
    g (r 0) (r 1) (r 2) (r 3) (r 4) (r 5) (r 6) (r 7) (r 8) (p.getD 0 0) (p.getD 1 0) (p.getD 2 0) (c 0) (c 1) (c 2)
      pr.mass (e 0 0) (e 0 1) (e 0 2) (e 1 1) (e 1 2) (e 2 2)
  [[f C03FrameRat.frame00, f C03FrameRat.frame01, f C03FrameRat.frame02],
   [f C03FrameRat.frame10, f C03FrameRat.frame11, f C03FrameRat.frame12],
   [f C03FrameRat.frame20, f C03FrameRat.frame21, f C03FrameRat.frame22]]

end TV.MassRat
