/-
Planar path measures over exact rationals (C14).  Core Lean only.
Follows `path/polygons.py` / shapely's signed area (shoelace form), `Path.length` on polylines, the
barycentric circumcentre formula of `path/arc.py::arc_center`, and the way `traversal.discretize_path`
chains entities (reversing those that run the other way) into one closed vertex loop.
-/
namespace TV.Path

abbrev P2 := Rat × Rat
abbrev M2 := (Rat × Rat) × (Rat × Rat)      -- rows

def cross2 (a b : P2) : Rat := a.1 * b.2 - a.2 * b.1
def sub2 (a b : P2) : P2 := (a.1 - b.1, a.2 - b.2)
def sqLen (a b : P2) : Rat := (a.1 - b.1) * (a.1 - b.1) + (a.2 - b.2) * (a.2 - b.2)

/-- twice the signed area swept by a polyline seen from the origin; for a closed loop (first = last) this
    is twice its signed area (the shoelace form) -/
def openSum : List P2 → Rat
  | a :: b :: rest => cross2 a b + openSum (b :: rest)
  | _ => 0

/-- the directed segments of a polyline -/
def segs : List P2 → List (P2 × P2)
  | a :: b :: rest => (a, b) :: segs (b :: rest)
  | _ => []

def sqLens (l : List P2) : List Rat := (segs l).map (fun s => sqLen s.1 s.2)

def isClosed (l : List P2) : Bool :=
  match l.head?, l.getLast? with
  | some a, some b => a == b
  | _, _ => false

def apply (A : M2) (t : P2) (p : P2) : P2 :=
  (A.1.1 * p.1 + A.1.2 * p.2 + t.1, A.2.1 * p.1 + A.2.2 * p.2 + t.2)
def det2 (A : M2) : Rat := A.1.1 * A.2.2 - A.1.2 * A.2.1

/-- chain pieces into one polyline: every piece starts where the previous one ended (the joint is kept once) -/
def joinChain : List (List P2) → List P2
  | [] => []
  | [p] => p
  | p :: rest => p ++ (joinChain rest).tail

/-- pieces are chained: each is non-empty and starts at the previous one's last point -/
def chained : List (List P2) → Bool
  | [] => true
  | [p] => !p.isEmpty
  | p :: q :: rest => !p.isEmpty && (p.getLast? == q.head?) && chained (q :: rest)

/-- an entity as stored (a polyline) and whether the walk traverses it backwards -/
def orient (e : List P2 × Bool) : List P2 := if e.2 then e.1.reverse else e.1

/-- three-point circle centre, barycentric form used by `arc_center` -/
def arcCenter (p0 p1 p2 : P2) : Option P2 :=
  let a2 := sqLen p2 p1      -- opposite p0
  let b2 := sqLen p0 p2      -- opposite p1
  let c2 := sqLen p1 p0      -- opposite p2
  let w0 := a2 * (b2 + c2 - a2)
  let w1 := b2 * (a2 + c2 - b2)
  let w2 := c2 * (a2 + b2 - c2)
  let s := w0 + w1 + w2
  if s = 0 then none else
  some ((w0 * p0.1 + w1 * p1.1 + w2 * p2.1) / s, (w0 * p0.2 + w1 * p1.2 + w2 * p2.2) / s)

/-- area of a region = outer shell minus its holes (absolute values: orientation of the stored loops is free) -/
def absR (x : Rat) : Rat := if x < 0 then -x else x
def regionArea2 (shell : List P2) (holes : List (List P2)) : Rat :=
  absR (openSum shell) - (holes.map (fun h => absR (openSum h))).sum

end TV.Path
