/-
Exhaustive ray / proximity queries over exact rationals (C12).  Core Lean only.
Follows `ray/ray_triangle.py::ray_triangle_id` (plane hit, Cramer barycentric inclusion, forward filter),
`triangles.closest_point` (Ericson's region cascade, tolerances taken as 0 in exact arithmetic) and
`proximity.closest_point` / `signed_distance` / `contains` as a minimum / parity over *all* triangles.
Every float64 input is a rational, so the theorems about this model cover every floating-point input.
-/
namespace TV.Query

abbrev P := Rat × Rat × Rat
abbrev Tri := P × P × P

def sub (a b : P) : P := (a.1 - b.1, a.2.1 - b.2.1, a.2.2 - b.2.2)
def add (a b : P) : P := (a.1 + b.1, a.2.1 + b.2.1, a.2.2 + b.2.2)
def smul (s : Rat) (a : P) : P := (s * a.1, s * a.2.1, s * a.2.2)
def dot (a b : P) : Rat := a.1 * b.1 + a.2.1 * b.2.1 + a.2.2 * b.2.2
def cross (a b : P) : P :=
  (a.2.1 * b.2.2 - a.2.2 * b.2.1, a.2.2 * b.1 - a.1 * b.2.2, a.1 * b.2.1 - a.2.1 * b.1)
def dist2 (a b : P) : Rat := dot (sub a b) (sub a b)

/-- barycentric coordinates (of b and c) of a point `w + a` in the plane of the triangle, Cramer's rule -/
def baryCramer (t : Tri) (p : P) : Option (Rat × Rat) :=
  let e0 := sub t.2.1 t.1; let e1 := sub t.2.2 t.1; let w := sub p t.1
  let d00 := dot e0 e0; let d01 := dot e0 e1; let d02 := dot e0 w
  let d11 := dot e1 e1; let d12 := dot e1 w
  let den := d00 * d11 - d01 * d01
  if den = 0 then none else some ((d11 * d02 - d01 * d12) / den, (d00 * d12 - d01 * d02) / den)

/-- ray (origin o, direction d) against one triangle: ray parameter and barycentric coordinates of the hit;
    `none` when parallel, behind the origin or outside the triangle -/
def rayTriangle (o d : P) (t : Tri) : Option (Rat × Rat × Rat) :=
  let n := cross (sub t.2.1 t.1) (sub t.2.2 t.1)
  let nd := dot n d
  if nd = 0 then none else
  let s := dot n (sub t.1 o) / nd
  if s ≤ 0 then none else
  match baryCramer t (add o (smul s d)) with
  | none => none
  | some (u, v) => if 0 ≤ u ∧ 0 ≤ v ∧ u + v ≤ 1 then some (s, u, v) else none

/-- all hits of a ray with a triangle list: (triangle index, ray parameter) -/
def rayHits (o d : P) (ts : List Tri) : List (Nat × Rat) :=
  ts.zipIdx.filterMap (fun ti => (rayTriangle o d ti.1).map (fun h => (ti.2, h.1)))

/-- first hit: the hit with the smallest ray parameter -/
def firstHit (o d : P) (ts : List Tri) : Option (Nat × Rat) :=
  (rayHits o d ts).foldl (fun best h => match best with
    | none => some h
    | some b => if h.2 < b.2 then some h else some b) none

/-- inside / outside by crossing parity along a direction (general position assumed by the caller) -/
def containsPoint (p dir : P) (ts : List Tri) : Bool := (rayHits p dir ts).length % 2 == 1

/-- Ericson's closest point on a triangle: barycentric weights (v, w) of b and c -/
def closestBary (p : P) (t : Tri) : Rat × Rat :=
  let a := t.1; let b := t.2.1; let c := t.2.2
  let ab := sub b a; let ac := sub c a; let ap := sub p a
  let d1 := dot ab ap; let d2 := dot ac ap
  if d1 ≤ 0 ∧ d2 ≤ 0 then (0, 0) else
  let bp := sub p b
  let d3 := dot ab bp; let d4 := dot ac bp
  if 0 ≤ d3 ∧ d4 ≤ d3 then (1, 0) else
  let vc := d1 * d4 - d3 * d2
  if vc ≤ 0 ∧ 0 ≤ d1 ∧ d3 ≤ 0 then (d1 / (d1 - d3), 0) else
  let cp := sub p c
  let d5 := dot ab cp; let d6 := dot ac cp
  if 0 ≤ d6 ∧ d5 ≤ d6 then (0, 1) else
  let vb := d5 * d2 - d1 * d6
  if vb ≤ 0 ∧ 0 ≤ d2 ∧ d6 ≤ 0 then (0, d2 / (d2 - d6)) else
  let va := d3 * d6 - d5 * d4
  if va ≤ 0 ∧ 0 ≤ d4 - d3 ∧ 0 ≤ d5 - d6 then
    let w := (d4 - d3) / ((d4 - d3) + (d5 - d6)); (1 - w, w)
  else
    let den := va + vb + vc
    (vb / den, vc / den)

def fromBary (t : Tri) (vw : Rat × Rat) : P :=
  add t.1 (add (smul vw.1 (sub t.2.1 t.1)) (smul vw.2 (sub t.2.2 t.1)))

def closestPointTri (p : P) (t : Tri) : P := fromBary t (closestBary p t)

/-- closest point on a mesh: minimum over all triangles (index, point, squared distance) -/
def closestOnMesh (p : P) (ts : List Tri) : Option (Nat × P × Rat) :=
  ts.zipIdx.foldl (fun best ti =>
    let q := closestPointTri p ti.1
    let d := dist2 p q
    match best with
    | none => some (ti.2, q, d)
    | some b => if d < b.2.2 then some (ti.2, q, d) else some b) none

/-! ### broad phase: `ray_bounds`, `ray_triangle_candidates` (r-tree of triangle boxes) -/

abbrev Box := P × P

def get (p : P) (k : Nat) : Rat := match k with | 0 => p.1 | 1 => p.2.1 | _ => p.2.2
def absQ (x : Rat) : Rat := if x < 0 then -x else x
def pmin (a b : P) : P := (min a.1 b.1, min a.2.1 b.2.1, min a.2.2 b.2.2)
def pmax (a b : P) : P := (max a.1 b.1, max a.2.1 b.2.1, max a.2.2 b.2.2)

/-- `np.abs(ray_directions).argmax(axis=1)`: first index of the largest magnitude -/
def argmaxAbs (d : P) : Nat :=
  if absQ d.2.1 ≤ absQ d.1 ∧ absQ d.2.2 ≤ absQ d.1 then 0
  else if absQ d.2.2 ≤ absQ d.2.1 then 1 else 2

/-- `t[t < buffer_dist] = buffer_dist` -/
def clampLo (buf t : Rat) : Rat := if t < buf then buf else t

/-- `ray_bounds` for one ray: the box around the piece of the ray between the two planes of the tree
    bounds perpendicular to the dominant axis, clamped to start at `buffer_dist` and padded by it -/
def rayBounds (o d : P) (tb : Box) (buf : Rat) : Box :=
  let a := argmaxAbs d
  let da := get d a
  let t0 := if da = 0 then 0 else (get tb.1 a - get o a) / da
  let t1 := if da = 0 then 0 else (get tb.2 a - get o a) / da
  let pa := add (smul (clampLo buf t0) d) o
  let pb := add (smul (clampLo buf t1) d) o
  (sub (pmin pa pb) (buf, buf, buf), add (pmax pa pb) (buf, buf, buf))

/-- axis-aligned box of a triangle (what `bounds_tree` stores) -/
def triBox (t : Tri) : Box := (pmin t.1 (pmin t.2.1 t.2.2), pmax t.1 (pmax t.2.1 t.2.2))

/-- bounds of the whole tree (`tree.bounds`) -/
def treeBounds : List Tri → Box
  | [] => ((0, 0, 0), (0, 0, 0))
  | t :: ts => ts.foldl (fun b t' => (pmin b.1 (triBox t').1, pmax b.2 (triBox t').2)) (triBox t)

/-- closed boxes intersect (the contract of `rtree.Index.intersection`) -/
def boxesMeet (a b : Box) : Bool :=
  decide (a.1.1 ≤ b.2.1 ∧ b.1.1 ≤ a.2.1 ∧ a.1.2.1 ≤ b.2.2.1 ∧ b.1.2.1 ≤ a.2.2.1 ∧
          a.1.2.2 ≤ b.2.2.2 ∧ b.1.2.2 ≤ a.2.2.2)

/-- `ray_triangle_candidates` for one ray: indices of the triangles whose box meets the ray's box -/
def candidates (o d : P) (ts : List Tri) (buf : Rat) : List Nat :=
  let rb := rayBounds o d (treeBounds ts) buf
  (ts.zipIdx.filter (fun ti => boxesMeet rb (triBox ti.1))).map (·.2)

/-- the narrow phase run on the candidates only (what `ray_triangle_id` does) -/
def rayHitsPruned (o d : P) (ts : List Tri) (buf : Rat) : List (Nat × Rat) :=
  let rb := rayBounds o d (treeBounds ts) buf
  (ts.zipIdx.filter (fun ti => boxesMeet rb (triBox ti.1))).filterMap
    (fun ti => (rayTriangle o d ti.1).map (fun h => (ti.2, h.1)))

/-- `proximity.nearby_faces` for one point: triangles whose box meets the cube of half-width `r` around
    `p` (`r` = distance to the nearest vertex plus `tol.merge` in the code) -/
def nearbyFaces (p : P) (r : Rat) (ts : List Tri) : List Nat :=
  (ts.zipIdx.filter (fun ti => boxesMeet (sub p (r, r, r), add p (r, r, r)) (triBox ti.1))).map (·.2)

end TV.Query
