/-
Model of the re-indexing operations of `trimesh/base.py`, `trimesh/grouping.py`, `trimesh/util.py` (C07).
Core Lean only.  A mesh is generic in the per-vertex payload `α` (position, colour, normal, uv and
attributes travel together as one tuple) and the per-face payload `β`.
-/
import TrimeshVerif.Model.SortRuns
namespace TV.Reindex
open TV

abbrev Face := Nat × Nat × Nat

structure Mesh (α β : Type) where
  V : List α
  F : List Face
  FA : List β          -- per-face data, aligned with F

variable {α β : Type}

def mapFace (g : Nat → Nat) (f : Face) : Face := (g f.1, g f.2.1, g f.2.2)

/-- corner payloads of one face (`none` for an index outside the vertex list) -/
def corners (V : List α) (f : Face) : Option α × Option α × Option α := (V[f.1]?, V[f.2.1]?, V[f.2.2]?)

/-- `mesh.triangles` generalised to the whole vertex payload -/
def triangles (m : Mesh α β) : List (Option α × Option α × Option α) := m.F.map (corners m.V)

def InRange (m : Mesh α β) : Prop := ∀ f ∈ m.F, f.1 < m.V.length ∧ f.2.1 < m.V.length ∧ f.2.2 < m.V.length

def maskFilter {γ : Type} (l : List γ) (mask : List Bool) : List γ :=
  ((l.zip mask).filter (·.2)).map (·.1)

/-- `update_faces(mask)` with a boolean mask: faces, face data (normals, colours, attributes) masked alike -/
def updateFacesBool (m : Mesh α β) (mask : List Bool) : Mesh α β :=
  { m with F := maskFilter m.F mask, FA := maskFilter m.FA mask }

/-- `update_faces(idx)` with an integer index list (order and repetition as given) -/
def updateFacesIdx (m : Mesh α β) (idx : List Nat) : Mesh α β :=
  { m with F := idx.filterMap (m.F[·]?), FA := idx.filterMap (m.FA[·]?) }

/-- `inverse = zeros(n); inverse[mask] = arange(mask.sum())` -/
def inverseOfBool (mask : List Bool) : List Nat :=
  (List.range mask.length).map (fun i => ((mask.take i).filter id).length * (if mask.getD i false then 1 else 0))

/-- `update_vertices(mask)` with a boolean mask and no inverse given: faces re-indexed through the
    constructed inverse (a dropped vertex maps to 0, as in the code), vertex payload masked -/
def updateVerticesBool (m : Mesh α β) (mask : List Bool) : Mesh α β :=
  let inv := inverseOfBool mask
  { m with V := maskFilter m.V mask, F := m.F.map (mapFace (fun i => inv.getD i 0)) }

/-- `update_vertices(mask, inverse)` with an integer mask (the kept vertex indices, in order) and an
    explicit inverse -/
def updateVerticesInv (m : Mesh α β) (keep : List Nat) (inverse : List Nat) : Mesh α β :=
  { m with V := keep.filterMap (m.V[·]?), F := m.F.map (mapFace (fun i => inverse.getD i 0)) }

def referencedMask (m : Mesh α β) : List Bool :=
  (List.range m.V.length).map (fun v => m.F.any (fun f => f.1 == v || f.2.1 == v || f.2.2 == v))

/-- `remove_unreferenced_vertices` -/
def removeUnreferenced (m : Mesh α β) : Mesh α β := updateVerticesBool m (referencedMask m)

/-- `unmerge_vertices`: every face gets its own three vertices -/
def unmerge (m : Mesh α β) : Mesh α β :=
  { m with
    V := m.F.flatMap (fun f => [m.V[f.1]?, m.V[f.2.1]?, m.V[f.2.2]?].filterMap id),
    F := (List.range m.F.length).map (fun i => (3 * i, 3 * i + 1, 3 * i + 2)) }

/-- `merge_vertices`: among referenced vertices keep the first occurrence of every key
    (`unique_rows(stacked[referenced], keep_order=True)`), re-index faces through the inverse -/
def mergeVertices {κ : Type} [DecidableEq κ] (le : κ → κ → Bool) (key : α → κ) (m : Mesh α β) : Mesh α β :=
  let refIdx := (List.range m.V.length).filter (fun v => (referencedMask m).getD v false)
  let keys := refIdx.filterMap (fun v => (m.V[v]?).map key)
  let ui := uniqueOrderedIdxInv le keys
  let keep := ui.1.map (fun u => refIdx.getD u 0)           -- np.nonzero(referenced)[0][u]
  -- inverse[referenced] = i
  let inverse := (List.range m.V.length).map (fun v =>
    match refIdx.idxOf? v with
    | some k => ui.2.getD k 0
    | none => 0)
  updateVerticesInv m keep inverse

/-- `unique_faces()`: mask marking the first occurrence of every face as an unordered index triple -/
def sort3 (f : Face) : List Int :=
  ([f.1, f.2.1, f.2.2].mergeSort (fun a b => decide (a ≤ b))).map (fun (n : Nat) => (n : Int))
def uniqueFacesMask (m : Mesh α β) : List Bool :=
  let ui := uniqueIdxInv lexLe (m.F.map sort3)
  (List.range m.F.length).map (fun i => ui.1.contains i)

/-- `nondegenerate` by index (two equal corners) -/
def nondegenerateMask (m : Mesh α β) : List Bool :=
  m.F.map (fun f => f.1 != f.2.1 && f.2.1 != f.2.2 && f.1 != f.2.2)

/-- `util.submesh(mesh, [idx], append=False)[0]`: faces `idx`, vertices compacted to the sorted
    referenced ones (`np.unique(current)`, `mask[unique] = arange`) -/
def submesh (m : Mesh α β) (idx : List Nat) : Mesh α β :=
  removeUnreferenced (updateFacesIdx m idx)

/-- `util.append_faces` / `util.concatenate` of two meshes: stacked vertices, offset faces -/
def append (a b : Mesh α β) : Mesh α β :=
  { V := a.V ++ b.V, F := a.F ++ b.F.map (mapFace (· + a.V.length)), FA := a.FA ++ b.FA }

def concatenate (ms : List (Mesh α β)) : Mesh α β :=
  ms.foldl append { V := [], F := [], FA := [] }

/-- `graph.split(mesh, only_watertight=False, repair=False)` given the component index sets -/
def split (m : Mesh α β) (components : List (List Nat)) : List (Mesh α β) :=
  components.map (submesh m)

end TV.Reindex
