import TrimeshVerif.Model.Creation
/-
Connectivity of a full-turn `creation.revolve` of a profile that starts and ends on the axis (C15, growth).
Core Lean only.  Vertex (i, j) = profile point i on slice j has index `j * per + i` (the layout `revolve`
builds with `np.tile`); slices are cyclic.  The code drops the zero-area triangles: the first triangle of
the first profile segment and the second triangle of the last one (their two corners on the axis coincide),
and the whole wrap-around quad `i = per - 1`.  Merging vertices (`Trimesh(process=True)`) identifies all
copies of the two axis points; `ident` is that identification.
-/
namespace TV.RevolveGrid

abbrev Face := Nat × Nat × Nat

def vid (per slices i j : Nat) : Nat := (j % slices) * per + i

/-- faces of slice `j`: for each profile segment i = 0 .. per-2 the triangles
    A = [v(i,j), v(i,j+1), v(i+1,j)] (dropped for i = 0) and B = [v(i+1,j), v(i,j+1), v(i+1,j+1)] (dropped
    for i = per-2), exactly the `quad = [0, per, 1, 1, per, per+1]` pattern of the source -/
def sliceFaces (per slices j : Nat) : List Face :=
  (List.range (per - 1)).flatMap (fun i =>
    (if i = 0 then [] else [(vid per slices i j, vid per slices i (j + 1), vid per slices (i + 1) j)]) ++
    (if i = per - 2 then [] else [(vid per slices (i + 1) j, vid per slices i (j + 1), vid per slices (i + 1) (j + 1))]))

def gridFaces (per slices : Nat) : List Face := (List.range slices).flatMap (sliceFaces per slices)

/-- all copies of the first profile point (row 0) and of the last one (row per-1) are one vertex each -/
def ident (per : Nat) (v : Nat) : Nat :=
  if v % per = 0 then 0 else if v % per = per - 1 then per - 1 else v

def mapFace (f : Nat → Nat) (t : Face) : Face := (f t.1, f t.2.1, f t.2.2)

def revolveSurface (per slices : Nat) : List Face := (gridFaces per slices).map (mapFace (ident per))

def dirEdges (fs : List Face) : List (Nat × Nat) :=
  fs.flatMap (fun f => [(f.1, f.2.1), (f.2.1, f.2.2), (f.2.2, f.1)])

/-- closed and consistently wound: every directed edge is matched by its reverse (as multisets) -/
def Closed (fs : List Face) : Prop := (dirEdges fs).Perm ((dirEdges fs).map Prod.swap)

def closedB (fs : List Face) : Bool :=
  (dirEdges fs).all (fun e => (dirEdges fs).count e == (dirEdges fs).count (e.2, e.1))

/-! ### partial revolve with caps (`angle < 2π`, `cap=True`): slices 0 .. `slices` are all present, nothing wraps -/

def vidO (per i j : Nat) : Nat := j * per + i

def sliceFacesO (per j : Nat) : List Face :=
  (List.range (per - 1)).flatMap (fun i =>
    (if i = 0 then [] else [(vidO per i j, vidO per i (j + 1), vidO per (i + 1) j)]) ++
    (if i = per - 2 then [] else [(vidO per (i + 1) j, vidO per i (j + 1), vidO per (i + 1) (j + 1))]))

def gridFacesO (per slices : Nat) : List Face := (List.range slices).flatMap (sliceFacesO per)

def flipFace (t : Face) : Face := (t.2.2, t.2.1, t.1)

/-- the face array `revolve` stacks: side walls, the cap triangulation `T` on slice 0, and the same triangles
    shifted to the last slice and reversed (`np.fliplr(cap_0_faces + offset)`) -/
def openRaw (per slices : Nat) (T : List Face) : List Face :=
  gridFacesO per slices ++ T ++ (T.map (mapFace (· + slices * per))).map flipFace

def openSurface (per slices : Nat) (T : List Face) : List Face := (openRaw per slices T).map (mapFace (ident per))

/-- boundary of the profile polygon in profile order, closed along the axis -/
def bd (n : Nat) : List (Nat × Nat) := (List.range n).map (fun i => (i, i + 1)) ++ [(n, 0)]

/-- what the cap triangulation has to satisfy: its directed edges are the polygon boundary in profile order plus
    interior edges in opposite pairs (stated without naming the interior edges, so that it is decidable) -/
def capOk (n : Nat) (T : List Face) : Bool :=
  ((dirEdges T).map Prod.swap ++ bd n).isPerm (dirEdges T ++ (bd n).map Prod.swap)

/-! ### full turn of a closed profile (annulus: first point = last point, away from the axis): every profile
    segment keeps both triangles, the wrap-around quad is dropped, row `per - 1` is merged into row 0 -/

def sliceFacesR (per slices j : Nat) : List Face :=
  (List.range (per - 1)).flatMap (fun i =>
    [(vid per slices i j, vid per slices i (j + 1), vid per slices (i + 1) j),
     (vid per slices (i + 1) j, vid per slices i (j + 1), vid per slices (i + 1) (j + 1))])

def gridFacesR (per slices : Nat) : List Face := (List.range slices).flatMap (sliceFacesR per slices)

def identR (per : Nat) (v : Nat) : Nat := if v % per = per - 1 then v - (per - 1) else v

def ringSurface (per slices : Nat) : List Face := (gridFacesR per slices).map (mapFace (identR per))

def ringKeep (per : Nat) (k : Nat) : Bool := decide (k < 2 * (per - 1))

/-! ### partial revolve with caps of an open loop profile: nothing dropped, nothing merged -/

/-- boundary of the loop polygon in profile order (the last point returns to the first) -/
def bdC (n : Nat) : List (Nat × Nat) := (List.range n).map (fun i => (i, (i + 1) % n))

def capOkC (n : Nat) (T : List Face) : Bool :=
  ((dirEdges T).map Prod.swap ++ bdC n).isPerm (dirEdges T ++ (bdC n).map Prod.swap)

/-- the cap names profile points only -/
def capInRange (n : Nat) (T : List Face) : Bool := T.all (fun t => t.1 < n && t.2.1 < n && t.2.2 < n)

def openLoopRaw (per slices : Nat) (T : List Face) : List Face :=
  TV.Creation.revolveFaces per slices (per * (slices + 1)) (fun _ => true)
    ++ T ++ (T.map (mapFace (· + slices * per))).map flipFace

end TV.RevolveGrid
