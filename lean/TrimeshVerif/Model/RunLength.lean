/-
Model of `trimesh/voxel/runlength.py` (C13).  Core Lean only.
`m` is the maximum value of the count dtype (255 for uint8, 65535 for uint16, ...), `m ≥ 1`.
RLE data is a list of (value, count) pairs (the flat array reshaped (-1, 2));
BRLE data is a list of counts of alternating False / True runs starting with False.
-/
namespace TV.RunLength

/-! ### run detection (`starts`, `lengths`, `values` in dense_to_rle / dense_to_brle) -/

/-- maximal runs of equal adjacent values, as (value, length) -/
def runsOf {α : Type} [DecidableEq α] : List α → List (α × Nat)
  | [] => []
  | x :: xs =>
    match runsOf xs with
    | (v, c) :: t => if v = x then (v, c + 1) :: t else (x, 1) :: (v, c) :: t
    | [] => [(x, 1)]

/-! ### RLE -/

/-- `split_long_rle_lengths`: when any count reaches `m`, every run `(v, c)` becomes
    `c / m` runs of length `m` followed by one run of length `c % m` (possibly 0) -/
def splitLongRle {α : Type} (m : Nat) (rs : List (α × Nat)) : List (α × Nat) :=
  if rs.any (fun r => r.2 / m != 0) then
    rs.flatMap (fun r => List.replicate (r.2 / m) (r.1, m) ++ [(r.1, r.2 % m)])
  else rs

/-- `dense_to_rle(dense, dtype)` -/
def denseToRle {α : Type} [DecidableEq α] (m : Nat) (d : List α) : List (α × Nat) :=
  splitLongRle m (runsOf d)

/-- `rle_to_dense` -/
def rleToDense {α : Type} : List (α × Nat) → List α
  | [] => []
  | (v, c) :: t => List.replicate c v ++ rleToDense t

/-- `merge_rle_lengths`: drop zero counts, merge neighbours with equal value -/
def mergeRle {α : Type} [DecidableEq α] : List (α × Nat) → List (α × Nat)
  | [] => []
  | (v, c) :: t =>
    if c = 0 then mergeRle t
    else match mergeRle t with
      | (v', c') :: t' => if v = v' then (v, c + c') :: t' else (v, c) :: (v', c') :: t'
      | [] => [(v, c)]

/-- `rle_to_rle(rle, dtype)` -/
def rleToRle {α : Type} [DecidableEq α] (m : Nat) (rs : List (α × Nat)) : List (α × Nat) :=
  splitLongRle m (mergeRle rs)

/-- `rle_length` -/
def rleLength {α : Type} (rs : List (α × Nat)) : Nat := (rs.map (·.2)).sum

/-- `rle_reverse` -/
def rleReverse {α : Type} (rs : List (α × Nat)) : List (α × Nat) := rs.reverse

/-- `rle_to_sparse`: (indices, values) of the non-zero entries -/
def rleToSparseAux : Nat → List (Int × Nat) → List (Nat × Int)
  | _, [] => []
  | i, (v, c) :: t =>
    (if v != 0 then (List.range c).map (fun k => (i + k, v)) else []) ++ rleToSparseAux (i + c) t
def rleToSparse (rs : List (Int × Nat)) : List (Nat × Int) := rleToSparseAux 0 rs

/-- `sorted_rle_gather_1d` / `rle_gather_1d`: value at each dense index (`none` = IndexError) -/
def rleAt {α : Type} : List (α × Nat) → Nat → Option α
  | [], _ => none
  | (v, c) :: t, i => if i < c then some v else rleAt t (i - c)
def rleGather {α : Type} (rs : List (α × Nat)) (idx : List Nat) : Option (List α) :=
  idx.mapM (rleAt rs)

/-- `rle_mask`: dense values where mask is True (mask as long as the data) -/
def rleMask {α : Type} : List (α × Nat) → List Bool → List α
  | [], _ => []
  | (v, c) :: t, mask => ((mask.take c).filter id).map (fun _ => v) ++ rleMask t (mask.drop c)

/-- `rle_strip`: (stripped, (start, end)) following the two loops of the code -/
def rleStrip (rs : List (Int × Nat)) : List (Int × Nat) × Nat × Nat :=
  let isData := fun (r : Int × Nat) => r.1 != 0 && r.2 > 0
  let lead := rs.takeWhile (fun r => !isData r)
  let trail := rs.reverse.takeWhile (fun r => !isData r)
  let finalI := lead.length
  let finalJ := trail.length
  ((rs.take (rs.length - finalJ)).drop finalI, (lead.map (·.2)).sum, (trail.map (·.2)).sum)

/-! ### BRLE -/

/-- `brle_to_dense`: counts of alternating runs starting with `start` -/
def brleToDenseFrom : Bool → List Nat → List Bool
  | _, [] => []
  | b, c :: t => List.replicate c b ++ brleToDenseFrom (!b) t
def brleToDense (cs : List Nat) : List Bool := brleToDenseFrom false cs

/-- `split_long_brle_lengths`: when any count exceeds `m`, every count `l` becomes
    `[m, 0] * (l / m) ++ [l % m]` -/
def splitLongBrle (m : Nat) (ls : List Nat) : List Nat :=
  if ls.any (fun l => decide (m < l)) then
    ls.flatMap (fun l => (List.replicate (l / m) [m, 0]).flatten ++ [l % m])
  else ls

/-- `dense_to_brle(dense, dtype)` for non-empty `d` (the code indexes `dense_data[0]`) -/
def denseToBrle (m : Nat) (d : List Bool) : List Nat :=
  let ls := splitLongBrle m ((runsOf d).map (·.2))
  if d.head? = some true then 0 :: ls else ls

/-- `merge_brle_lengths` -/
def mergeBrleAux : List Nat → Bool → List Nat → List Nat
  -- out is kept reversed; acc = "accumulating" flag
  | out, _, [] => out.reverse
  | out, true, l :: t => (match out with
      | o :: os => mergeBrleAux ((o + l) :: os) false t
      | [] => mergeBrleAux [l] false t)
  | out, false, l :: t => if l = 0 then mergeBrleAux out true t else mergeBrleAux (l :: out) false t
def mergeBrle : List Nat → List Nat
  | [] => []
  | l :: t => mergeBrleAux [l] false t

/-- `brle_to_brle(brle, dtype)` -/
def brleToBrle (m : Nat) (ls : List Nat) : List Nat := splitLongBrle m (mergeBrle ls)

/-- `brle_length` -/
def brleLength (ls : List Nat) : Nat := ls.sum

/-- `brle_logical_not` (non-empty input) -/
def brleLogicalNot (ls : List Nat) : List Nat :=
  if ls.head? != some 0 || ls.getLast? != some 0 then 0 :: ls ++ [0] else ls.tail.dropLast

/-- `brle_reverse` (after the `fix:` commit): pad to an odd number of counts, reverse -/
def brleReverse (ls : List Nat) : List Nat :=
  (if ls.length % 2 = 0 then ls ++ [0] else ls).reverse

/-- `brle_to_sparse` (after the `fix:` commit): dense indices of the True entries -/
def brleToSparseAux : Nat → Bool → List Nat → List Nat
  | _, _, [] => []
  | i, b, c :: t => (if b then (List.range c).map (· + i) else []) ++ brleToSparseAux (i + c) (!b) t
def brleToSparse (ls : List Nat) : List Nat := brleToSparseAux 0 false ls

/-- `rle_to_brle` (dtype None): `none` = ValueError for a value outside {0, 1} -/
def rleToBrleAux : List Nat → Int → List (Int × Nat) → Option (List Nat)
  -- out reversed, current value
  | out, _, [] => some out.reverse
  | out, cur, (v, c) :: t =>
    if v != 0 && v != 1 then none
    else if v = cur then (match out with
      | o :: os => rleToBrleAux ((o + c) :: os) cur t
      | [] => rleToBrleAux [c] cur t)
    else rleToBrleAux (c :: out) v t
def rleToBrle (rs : List (Int × Nat)) : Option (List Nat) :=
  (rleToBrleAux [0] 0 rs).map (fun out => if out.length % 2 = 1 then out ++ [0] else out)

/-- `brle_to_rle(brle, dtype)` -/
def brleToRle (m : Nat) (ls : List Nat) : List (Bool × Nat) :=
  let ls := if ls.length % 2 = 1 then ls ++ [0] else ls
  let vals := (List.range ls.length).map (fun i => i % 2 == 1)
  rleToRle m (vals.zip ls)

/-- `brle_gather_1d` -/
def brleAtFrom : Bool → List Nat → Nat → Option Bool
  | _, [], _ => none
  | b, c :: t, i => if i < c then some b else brleAtFrom (!b) t (i - c)
def brleGather (ls : List Nat) (idx : List Nat) : Option (List Bool) := idx.mapM (brleAtFrom false ls)

/-- `brle_mask` -/
def brleMaskFrom : Bool → List Nat → List Bool → List Bool
  | _, [], _ => []
  | b, c :: t, mask => ((mask.take c).filter id).map (fun _ => b) ++ brleMaskFrom (!b) t (mask.drop c)
def brleMask (ls : List Nat) (mask : List Bool) : List Bool := brleMaskFrom false ls mask

/-- `brle_strip`: (stripped, (start, end)), following the two loops of the code -/
def brleStrip (ls : List Nat) : List Nat × Nat × Nat :=
  let tagged := (List.range ls.length).zip ls    -- (position, count); value = position odd
  let isData := fun (r : Nat × Nat) => r.1 % 2 == 1 && r.2 > 0
  let lead := tagged.takeWhile (fun r => !isData r)
  let trail := tagged.reverse.takeWhile (fun r => !isData r)
  (0 :: ((ls.take (ls.length - trail.length)).drop lead.length),
   (lead.map (·.2)).sum, (trail.map (·.2)).sum)

/-! ### binvox body: RLE with uint8 counts over the flattened grid -/

/-- binvox body bytes: (value, count) byte pairs with counts ≤ 255 -/
def binvoxEncode (d : List Bool) : List (Nat × Nat) :=
  (denseToRle 255 d).map (fun r => (if r.1 then 1 else 0, r.2))
def binvoxDecode (bs : List (Nat × Nat)) : List Bool :=
  rleToDense (bs.map (fun r => (r.1 != 0, r.2)))

end TV.RunLength
