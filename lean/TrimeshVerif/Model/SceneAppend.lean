/-
Node renaming of `scene.append_scenes` (C10): scenes are appended one after the other; a node name that is not in
`common` and was already used by an earlier scene gets a new name (`node + unique_id()`), remembered in a table
that is local to the scene being appended.  Names are any type with decidable equality; the `k`-th identifier
the code draws is `gen k`.  Core Lean only.
-/
namespace TV.SceneAppend

variable {α : Type} [DecidableEq α]

/-- state while one scene is appended: `map_node`, `current`, and the number of identifiers drawn so far -/
structure Loc (α : Type) where
  mapNode : List (α × α)
  current : List α
  ctr : Nat

/-- `node_remap(node)` -/
def remap (gen : Nat → α) (common consumed : List α) (st : Loc α) (node : α) : Loc α × α :=
  match st.mapNode.lookup node with
  | some m => (st, m)
  | none =>
    if !common.contains node && consumed.contains node then
      let name := gen st.ctr
      ({ mapNode := (node, name) :: st.mapNode, current := name :: st.current, ctr := st.ctr + 1 }, name)
    else
      ({ st with current := node :: st.current }, node)

/-- remap the node occurrences of one scene (both ends of every edge, in edge order) -/
def remapAll (gen : Nat → α) (common consumed : List α) : Loc α → List α → Loc α × List α
  | st, [] => (st, [])
  | st, n :: ns =>
    let r := remap gen common consumed st n
    let rest := remapAll gen common consumed r.1 ns
    (rest.1, r.2 :: rest.2)

/-- the whole loop over scenes: (`consumed`, identifiers drawn) and the renamed node occurrences of every scene -/
def appendAll (gen : Nat → α) (common : List α) : List α → Nat → List (List α) → List (List α)
  | _, _, [] => []
  | consumed, ctr, s :: ss =>
    let r := remapAll gen common consumed ⟨[], [], ctr⟩ s
    r.2 :: appendAll gen common (consumed ++ r.1.current) r.1.ctr ss

end TV.SceneAppend
