/-
Global structure of a plane section (C11): which mesh edges the plane crosses, and which pairs of crossed
edges the per-triangle handler of `mesh_plane` joins by a segment.  Index level (faces + one sign per vertex);
the geometry of each segment is `Model/Slice.lean`.  Core Lean only.
-/
import TrimeshVerif.Model.Topology
namespace TV.SectionLoops
open TV.Topology

/-- an edge whose two ends are strictly on opposite sides of the plane -/
def crossing (sgn : Nat → Int) (e : Edge) : Bool := decide (sgn e.1 * sgn e.2 < 0)

/-- the three sorted edges of one face -/
def faceEdgesSorted (f : Face) : List Edge := [sortEdge (f.1, f.2.1), sortEdge (f.2.1, f.2.2), sortEdge (f.2.2, f.1)]

/-- the crossed edges of one face: the two ends of its section segment (empty when the face is on one side) -/
def segEdges (sgn : Nat → Int) (f : Face) : List Edge := (faceEdgesSorted f).filter (crossing sgn)

/-- all segment ends of the section, face by face -/
def allSegEnds (sgn : Nat → Int) (fs : List Face) : List Edge := fs.flatMap (segEdges sgn)

end TV.SectionLoops
