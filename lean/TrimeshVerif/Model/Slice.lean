/-
Model of the per-triangle classification of `intersections.mesh_plane` (C11).  Core Lean only.
Signs are -1 / 0 / +1 of the signed distance of the three corners (within `tol.merge` of the plane = 0).
-/
namespace TV.Slice

def sort3 (a b c : Int) : Int × Int × Int :=
  let lo := min a (min b c)
  let hi := max a (max b c)
  (lo, a + b + c - lo - hi, hi)

/-- `coded = 14 + s0 << 3 + s1 << 2 + s2 << 1` on the sorted signs -/
def coded (a b c : Int) : Int :=
  let s := sort3 a b c
  14 + s.1 * 8 + s.2.1 * 4 + s.2.2 * 2

def isBasic (a b c : Int) : Bool := coded a b c == 4 || coded a b c == 12
def isOneVertex (a b c : Int) : Bool := coded a b c == 8
def isOneEdge (a b c : Int) : Bool := coded a b c == 16

def signs : List Int := [-1, 0, 1]
def allTriples : List (Int × Int × Int) :=
  signs.flatMap (fun a => signs.flatMap (fun b => signs.map (fun c => (a, b, c))))

def zeros (a b c : Int) : Nat := [a, b, c].count 0

/-! `slice_faces_plane`: here the sign is **+1 on the negative side** of the plane, -1 on the positive side
    (the side that is kept), 0 within `tol.merge` of it. -/
def ssum (a b c : Int) : Int := a + b + c
def asum (a b c : Int) : Int := a.natAbs + b.natAbs + c.natAbs
/-- `onedge = (signs_asum >= 2) & (abs(signs_sum) <= 1)` -/
def onEdge (a b c : Int) : Bool := decide (asum a b c ≥ 2) && decide ((ssum a b c).natAbs ≤ 1)
/-- `inside = signs_sum == -signs_asum` (an all-zero row is decided by the face normal afterwards) -/
def inside (a b c : Int) : Bool := ssum a b c == - asum a b c
def cutQuad (a b c : Int) : Bool := onEdge a b c && decide (ssum a b c < 0)
def cutTri (a b c : Int) : Bool := onEdge a b c && decide (ssum a b c ≥ 0)
/-- number of faces the slice keeps for one triangle that is not entirely in the plane -/
def keptFaces (a b c : Int) : Nat :=
  if inside a b c then 1 else if cutQuad a b c then 2 else if cutTri a b c then 1 else 0
/-- number of section segments `mesh_plane` emits for one triangle -/
def segments (a b c : Int) : Nat :=
  if isBasic a b c || isOneVertex a b c || isOneEdge a b c then 1 else 0

end TV.Slice
