/-
Model of the per-triangle classification of `intersections.mesh_plane` (C11).  Core Lean only.
Signs are -1 / 0 / +1 of the signed distance of the three corners (within `tol.merge` of the plane = 0).
-/
namespace TV.Slice

def sort3 (a b c : Int) : Int × Int × Int :=
  let lo := min a (min b c)
  let hi := max a (max b c)
  (lo, a + b + c - lo - hi, hi)

/-- `coded = 14 + s0 << 3 + s1 << 2 + s2 << 1` on the sorted signs -/
def coded (a b c : Int) : Int :=
  let s := sort3 a b c
  14 + s.1 * 8 + s.2.1 * 4 + s.2.2 * 2

def isBasic (a b c : Int) : Bool := coded a b c == 4 || coded a b c == 12
def isOneVertex (a b c : Int) : Bool := coded a b c == 8
def isOneEdge (a b c : Int) : Bool := coded a b c == 16

def signs : List Int := [-1, 0, 1]
def allTriples : List (Int × Int × Int) :=
  signs.flatMap (fun a => signs.flatMap (fun b => signs.map (fun c => (a, b, c))))

def zeros (a b c : Int) : Nat := [a, b, c].count 0

end TV.Slice
