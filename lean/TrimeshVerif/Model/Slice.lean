/-
Model of the per-triangle classification of `intersections.mesh_plane` (C11).  Core Lean only.
Signs are -1 / 0 / +1 of the signed distance of the three corners (within `tol.merge` of the plane = 0).
-/
namespace TV.Slice

def sort3 (a b c : Int) : Int × Int × Int :=
  let lo := min a (min b c)
  let hi := max a (max b c)
  (lo, a + b + c - lo - hi, hi)

/-- `coded = 14 + s0 << 3 + s1 << 2 + s2 << 1` on the sorted signs -/
def coded (a b c : Int) : Int :=
  let s := sort3 a b c
  14 + s.1 * 8 + s.2.1 * 4 + s.2.2 * 2

def isBasic (a b c : Int) : Bool := coded a b c == 4 || coded a b c == 12
def isOneVertex (a b c : Int) : Bool := coded a b c == 8
def isOneEdge (a b c : Int) : Bool := coded a b c == 16

def signs : List Int := [-1, 0, 1]
def allTriples : List (Int × Int × Int) :=
  signs.flatMap (fun a => signs.flatMap (fun b => signs.map (fun c => (a, b, c))))

def zeros (a b c : Int) : Nat := [a, b, c].count 0

/-! `slice_faces_plane`: here the sign is **+1 on the negative side** of the plane, -1 on the positive side
    (the side that is kept), 0 within `tol.merge` of it. -/
def ssum (a b c : Int) : Int := a + b + c
def asum (a b c : Int) : Int := a.natAbs + b.natAbs + c.natAbs
/-- `onedge = (signs_asum >= 2) & (abs(signs_sum) <= 1)` -/
def onEdge (a b c : Int) : Bool := decide (asum a b c ≥ 2) && decide ((ssum a b c).natAbs ≤ 1)
/-- `inside = signs_sum == -signs_asum` (an all-zero row is decided by the face normal afterwards) -/
def inside (a b c : Int) : Bool := ssum a b c == - asum a b c
def cutQuad (a b c : Int) : Bool := onEdge a b c && decide (ssum a b c < 0)
def cutTri (a b c : Int) : Bool := onEdge a b c && decide (ssum a b c ≥ 0)
/-- number of faces the slice keeps for one triangle that is not entirely in the plane -/
def keptFaces (a b c : Int) : Nat :=
  if inside a b c then 1 else if cutQuad a b c then 2 else if cutTri a b c then 1 else 0
/-- number of section segments `mesh_plane` emits for one triangle -/
def segments (a b c : Int) : Nat :=
  if isBasic a b c || isOneVertex a b c || isOneEdge a b c then 1 else 0

/-! ### the section segment of one triangle over exact rationals (`mesh_plane`, its three handlers) -/
abbrev V := Rat × Rat × Rat
abbrev Tri := V × V × V
def dotV (a b : V) : Rat := a.1 * b.1 + a.2.1 * b.2.1 + a.2.2 * b.2.2
def subV (a b : V) : V := (a.1 - b.1, a.2.1 - b.2.1, a.2.2 - b.2.2)
def addV (a b : V) : V := (a.1 + b.1, a.2.1 + b.2.1, a.2.2 + b.2.2)
def smulV (s : Rat) (a : V) : V := (s * a.1, s * a.2.1, s * a.2.2)
/-- `np.dot(vertices - plane_origin, plane_normal)` -/
def sdistR (n o p : V) : Rat := dotV (subV p o) n
/-- sign with the tolerance band of the code: `-1` below `-tol`, `+1` above `tol`, else `0` -/
def signR (tol d : Rat) : Int := if d < -tol then -1 else if tol < d then 1 else 0
/-- `plane_lines(..., line_segments=False)`: the point where the line through `a`, `b` meets the plane -/
def edgePointR (n o a b : V) : V :=
  addV a (smulV (dotV (subV o a) n / dotV (subV b a) n) (subV b a))

/-- the segment `mesh_plane` emits for one triangle (endpoints in the code's order), `none` when the case
    table says the triangle contributes nothing -/
def sectionTri (tol : Rat) (n o : V) (t : Tri) : Option (V × V) :=
  let a := t.1; let b := t.2.1; let c := t.2.2
  let sa := signR tol (sdistR n o a); let sb := signR tol (sdistR n o b); let sc := signR tol (sdistR n o c)
  if isBasic sa sb sc then
    -- the corner alone on its side, with the crossings of its two edges
    if sa != sb && sa != sc then some (edgePointR n o a c, edgePointR n o a b)
    else if sb != sa && sb != sc then some (edgePointR n o b a, edgePointR n o b c)
    else some (edgePointR n o c b, edgePointR n o c a)
  else if isOneVertex sa sb sc then
    -- the corner on the plane and the crossing of the opposite edge
    if sa == 0 then some (a, edgePointR n o b c)
    else if sb == 0 then some (b, edgePointR n o a c)
    else some (c, edgePointR n o a b)
  else if isOneEdge sa sb sc then
    -- the two corners on the plane
    if sa != 0 then some (b, c) else if sb != 0 then some (a, c) else some (a, b)
  else none

def absR (x : Rat) : Rat := if x < 0 then -x else x

/-! ### the pieces `slice_faces_plane` keeps of one triangle (positive side of the plane) -/
/-- slice convention: `+1` on the negative side (to be cut away), `-1` on the positive side -/
def signS (tol d : Rat) : Int := if d < -tol then 1 else if tol < d then -1 else 0

def nth (t : Tri) (k : Nat) : V := match k % 3 with | 0 => t.1 | 1 => t.2.1 | _ => t.2.2
/-- `int_points[:, j]`: where edge `j -> j+1` meets the plane -/
def cutPoint (n o : V) (t : Tri) (j : Nat) : V := edgePointR n o (nth t j) (nth t (j + 1))

inductive SlicePieces where
  | whole                         -- kept as it is
  | pieces (ts : List Tri)        -- cut: the quad (two triangles) or the corner triangle
  | dropped
  | inPlane                       -- all three corners on the plane: decided by the face normal in the code
  deriving Repr

def sliceTri (tol : Rat) (n o : V) (t : Tri) : SlicePieces :=
  let s : Nat → Int := fun k => signS tol (sdistR n o (nth t k))
  let s0 := s 0; let s1 := s 1; let s2 := s 2
  if zeros s0 s1 s2 == 3 then .inPlane
  else if onEdge s0 s1 s2 then
    if cutQuad s0 s1 s2 then
      -- one corner k outside: quad [v(k+1), v(k+2), P(k+2), P(k)] split as [0,1,2], [2,3,0]
      let k : Nat := if s0 == 1 then 0 else if s1 == 1 then 1 else 2
      let a := nth t (k + 1); let b := nth t (k + 2); let c := cutPoint n o t (k + 2); let d := cutPoint n o t k
      .pieces [(a, b, c), (c, d, a)]
    else
      -- one corner k inside: triangle [v(k), P(k), P(k+2)]
      let k : Nat := if s0 == -1 then 0 else if s1 == -1 then 1 else 2
      .pieces [(nth t k, cutPoint n o t k, cutPoint n o t (k + 2))]
  else if inside s0 s1 s2 then .whole
  else .dropped

def negV (a : V) : V := (-a.1, -a.2.1, -a.2.2)
def crossV (a b : V) : V :=
  (a.2.1 * b.2.2 - a.2.2 * b.2.1, a.2.2 * b.1 - a.1 * b.2.2, a.1 * b.2.1 - a.2.1 * b.1)
def areaVecR (t : Tri) : V := crossV (subV t.2.1 t.1) (subV t.2.2 t.1)
def keptTris (t : Tri) : SlicePieces → List Tri
  | .whole => [t]
  | .pieces ts => ts
  | _ => []
def sumV (l : List V) : V := l.foldl addV (0, 0, 0)

end TV.Slice
