/-
Sort-and-group machinery shared by C05, C06, C07: the model of
  order = values.argsort(); values = values[order]; nondupe = values[1:] != values[:-1]; ...
in `trimesh/grouping.py` (`group`, `group_rows`, `unique_rows`, `np.unique(return_index, return_inverse)`).
Core Lean only.
-/
namespace TV

/-- (key, original index) -/
abbrev KI (α : Type) := α × Nat

/-- order used to sort (key, index) pairs: by key, ties by original index
    (= a stable sort by key; `np.unique(return_index=True)` uses a stable sort) -/
def kiLe {α : Type} [DecidableEq α] (le : α → α → Bool) (a b : KI α) : Bool :=
  if a.1 = b.1 then decide (a.2 ≤ b.2) else le a.1 b.1

/-- values paired with their index, sorted by (value, index) -/
def sortKI {α : Type} [DecidableEq α] (le : α → α → Bool) (vs : List α) : List (KI α) :=
  (vs.zipIdx).mergeSort (kiLe le)

/-- split a list of (key, index) pairs into maximal runs of adjacent equal keys
    (`nondupe = values[1:] != values[:-1]`, `dupe_idx`, slices) -/
def runs {α : Type} [DecidableEq α] : List (KI α) → List (List (KI α))
  | [] => []
  | x :: xs =>
    match runs xs with
    | [] => [[x]]
    | [] :: gs => [x] :: gs
    | (y :: g) :: gs => if x.1 = y.1 then (x :: y :: g) :: gs else [x] :: (y :: g) :: gs

/-- index groups of equal values, in sorted-key order, each group ascending in index -/
def groupsOf {α : Type} [DecidableEq α] (le : α → α → Bool) (vs : List α) : List (List Nat) :=
  (runs (sortKI le vs)).map (fun g => g.map (·.2))

def lenOk (minLen maxLen : Option Nat) (n : Nat) : Bool :=
  (match minLen with | none => true | some m => decide (m ≤ n)) &&
  (match maxLen with | none => true | some m => decide (n ≤ m))

/-- `grouping.group(values, min_len, max_len)` -/
def group {α : Type} [DecidableEq α] (le : α → α → Bool) (vs : List α)
    (minLen maxLen : Option Nat) : List (List Nat) :=
  (groupsOf le vs).filter (fun g => lenOk minLen maxLen g.length)

/-- `np.unique(values, return_index=True, return_inverse=True)[1:]`:
    first-occurrence index of every distinct value (in sorted value order) and the inverse -/
def uniqueIdxInv {α : Type} [DecidableEq α] (le : α → α → Bool) (vs : List α) : List Nat × List Nat :=
  let gs := groupsOf le vs
  (gs.map (fun g => g.headD 0),
   (List.range vs.length).map (fun i => gs.findIdx (fun g => g.contains i)))

/-- insertion of groups ordered by their first index (= `index.argsort()` in `unique_ordered`) -/
def orderByHead (gs : List (List Nat)) : List (List Nat) :=
  gs.mergeSort (fun a b => decide (a.headD 0 ≤ b.headD 0))

/-- `unique_ordered(values, return_index=True, return_inverse=True)[1:]` -/
def uniqueOrderedIdxInv {α : Type} [DecidableEq α] (le : α → α → Bool) (vs : List α) : List Nat × List Nat :=
  let gs := orderByHead (groupsOf le vs)
  (gs.map (fun g => g.headD 0),
   (List.range vs.length).map (fun i => gs.findIdx (fun g => g.contains i)))

/-- lexicographic order on integer rows (any fixed total order on rows works: the order of the
    output groups is not observable) -/
def lexLe : List Int → List Int → Bool
  | [], _ => true
  | _ :: _, [] => false
  | a :: as, b :: bs => if a < b then true else if a = b then lexLe as bs else false

def intLe (a b : Int) : Bool := decide (a ≤ b)
def natLe (a b : Nat) : Bool := decide (a ≤ b)

end TV
