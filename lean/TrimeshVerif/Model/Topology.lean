/-
Model of the topological queries of `trimesh/geometry.py`, `trimesh/graph.py`, `trimesh/base.py` (C05)
on a face list.  Core Lean only.  The sort-and-group steps are the C06 model (`group_rows`).
-/
import TrimeshVerif.Model.Grouping
namespace TV.Topology
open TV TV.Grouping

abbrev Face := Nat × Nat × Nat
abbrev Edge := Nat × Nat

/-- `faces_to_edges`: `faces[:, [0,1,1,2,2,0]].reshape(-1,2)` -/
def edges (fs : List Face) : List Edge :=
  fs.flatMap (fun f => [(f.1, f.2.1), (f.2.1, f.2.2), (f.2.2, f.1)])

/-- `edges_face`: the face index of every edge -/
def edgesFace (fs : List Face) : List Nat :=
  (List.range fs.length).flatMap (fun i => [i, i, i])

def sortEdge (e : Edge) : Edge := (min e.1 e.2, max e.1 e.2)

/-- `edges_sorted = np.sort(edges, axis=1)` -/
def edgesSorted (fs : List Face) : List Edge := (edges fs).map sortEdge

def edgeRow (e : Edge) : List Int := [(e.1 : Int), (e.2 : Int)]
def edgeRows (fs : List Face) : List (List Int) := (edgesSorted fs).map edgeRow

/-- `grouping.group_rows(edges_sorted, require_count=2)` -/
def pairGroups (fs : List Face) : List (List Nat) := groupRowsCount 2 (edgeRows fs) 2

/-- `face_adjacency(return_edges=True)`: ((f, g) sorted, shared sorted edge), same-face pairs dropped -/
def faceAdjacency (fs : List Face) : List ((Nat × Nat) × Edge) :=
  (pairGroups fs).filterMap (fun g =>
    match g with
    | [i, j] =>
      let f := i / 3; let h := j / 3
      if f ≠ h then some ((min f h, max f h), (edgesSorted fs).getD i (0, 0)) else none
    | _ => none)

/-- `face_adjacency_unshared`: per adjacent pair the vertex of each face not on the shared edge
    (`none` = -1 when the face does not have exactly one such vertex) -/
def unsharedOf (f : Face) (e : Edge) : Option Nat :=
  match [f.1, f.2.1, f.2.2].filter (fun v => v != e.1 && v != e.2) with
  | [v] => some v
  | _ => none
def faceAdjacencyUnshared (fs : List Face) : List (Option Nat × Option Nat) :=
  (faceAdjacency fs).map (fun a =>
    (unsharedOf (fs.getD a.1.1 (0, 0, 0)) a.2, unsharedOf (fs.getD a.1.2 (0, 0, 0)) a.2))

/-- `graph.is_watertight`: (watertight, winding) -/
def isWatertight (fs : List Face) : Bool := (pairGroups fs).length * 2 == (edges fs).length
def isWindingConsistent (fs : List Face) : Bool :=
  (pairGroups fs).all (fun g =>
    match g with
    | [i, j] => ((edges fs).getD i (0, 0)).2 == ((edges fs).getD j (0, 0)).1
    | _ => true)

/-- `edges_unique` as a duplicate-free list of sorted edges (order not observable) and the inverse -/
def edgesUnique (fs : List Face) : List Edge :=
  (uniqueRows 2 (edgeRows fs) false).1.map (fun i => (edgesSorted fs).getD i (0, 0))
def edgesUniqueInverse (fs : List Face) : List Nat := (uniqueRows 2 (edgeRows fs) false).2

/-- `referenced_vertices` -/
def referenced (fs : List Face) (nV : Nat) : List Bool :=
  (List.range nV).map (fun v => fs.any (fun f => f.1 == v || f.2.1 == v || f.2.2 == v))

/-- `euler_number = referenced.sum() - len(edges_unique) + len(faces)` -/
def eulerNumber (fs : List Face) (nV : Nat) : Int :=
  ((referenced fs nV).count true : Int) - ((edgesUnique fs).length : Int) + (fs.length : Int)

def corners (fs : List Face) : List Nat := fs.flatMap (fun f => [f.1, f.2.1, f.2.2])

/-- `vertex_degree` (`faces_sparse.sum(axis=1)`): one per occurrence of the vertex in the face array -/
def vertexDegree (fs : List Face) (nV : Nat) : List Nat :=
  (List.range nV).map (fun v => (corners fs).count v)

/-- `vertex_faces` without the -1 padding: the face index once per occurrence (any order) -/
def vertexFaces (fs : List Face) (nV : Nat) : List (List Nat) :=
  (List.range nV).map (fun v =>
    ((corners fs).zipIdx.filter (fun p => p.1 == v)).map (fun p => p.2 / 3))

/-- `vertex_neighbors = graph.neighbors(edges_unique, len(vertices))`: other endpoints of the unique
    edges at `v` (a self-edge `(v, v)` of a degenerate face makes `v` its own neighbour) -/
def vertexNeighbors (fs : List Face) (nV : Nat) : List (List Nat) :=
  (List.range nV).map (fun v =>
    (((edgesUnique fs).filterMap (fun e =>
        if e.1 = v then some e.2 else if e.2 = v then some e.1 else none)).mergeSort
      (fun a b => decide (a ≤ b))).eraseDups)

/-! ### connected components (scipy csgraph / networkx are modelled by label relaxation) -/

/-- one sweep over the edges: both endpoints take the smaller of their two labels -/
def relax (es : List (Nat × Nat)) (lab : List Nat) : List Nat :=
  es.foldl (fun l e =>
    if e.1 < l.length ∧ e.2 < l.length then
      let m := min (l.getD e.1 0) (l.getD e.2 0)
      (l.set e.1 m).set e.2 m
    else l) lab

/-- `n` sweeps starting from `label[v] = v` -/
def labels (n : Nat) (es : List (Nat × Nat)) : List Nat :=
  (List.range n).foldl (fun l _ => relax es l) (List.range n)

/-- `graph.connected_components(edges, nodes=arange(n), min_len)` as index groups -/
def components (n : Nat) (es : List (Nat × Nat)) (minLen : Nat) : List (List Nat) :=
  group natLe (labels n es) (some minLen) none

/-- face components of a mesh: `connected_components(face_adjacency, nodes=arange(len(faces)))` -/
def faceComponents (fs : List Face) : List (List Nat) :=
  components fs.length ((faceAdjacency fs).map (·.1)) 1

/-- `body_count`: vertex components over the edge graph (all vertices, referenced or not) -/
def bodyCount (fs : List Face) (nV : Nat) : Nat := (components nV (edges fs) 1).length

end TV.Topology
