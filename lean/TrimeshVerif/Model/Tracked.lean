/-
Model of `trimesh.caching.TrackedArray` hashing (C02): a heap of buffers, array objects that are windows
onto buffers, a dirty flag and a memoised hash per tracked object.  Core Lean only.
The hash function is modelled as injective: the hash of an array *is* the list of its current elements.
-/
namespace TV.Tracked

/-- an array object: a window (list of cell positions) onto a buffer -/
structure Obj where
  buf : Nat
  window : List Nat
  tracked : Bool            -- a `TrackedArray` (true) or a plain `ndarray` sharing the memory (false)
  dirty : Bool              -- `_dirty_hash`
  memo : Option (List Int)  -- `_hashed` (the hashed content), `none` before the first hash
  deriving DecidableEq, Repr

structure Heap where
  bufs : List (List Int)
  objs : List Obj
  deriving DecidableEq, Repr

/-- the write routes numpy offers; `flagged` tells whether the route goes through a method of the
    written object that sets its dirty flag (table regenerated from the source on every run) -/
inductive Route where
  | method (name : String)   -- a bound ndarray method / in-place operator of the written object
  | func (name : String)     -- a numpy function or protocol that writes without calling an override
  deriving DecidableEq, Repr

inductive Op where
  | write (i : Nat) (route : Route) (cells : List Nat) (vals : List Int)  -- cells: positions *within* the window
  | view (i : Nat) (sel : List Nat) (tracked : Bool)   -- slice / transpose / reshape / view(ndarray): new object
  | copy (i : Nat)                                      -- `.copy()` / arithmetic result: new buffer
  | hash (i : Nat)
  deriving DecidableEq, Repr

def bytesOf (h : Heap) (o : Obj) : List Int :=
  o.window.map (fun p => (h.bufs.getD o.buf []).getD p 0)

def objBytes (h : Heap) (i : Nat) : Option (List Int) := (h.objs[i]?).map (bytesOf h)

/-- a route dirties the written object iff the object is tracked and the route is one of its flagged methods -/
def routeFlags (flagged : List String) : Route → Bool
  | .method n => flagged.contains n
  | .func _ => false

def setCells (buf : List Int) (ps : List Nat) (vals : List Int) : List Int :=
  (ps.zip vals).foldl (fun b pv => b.set pv.1 pv.2) buf

def modifyObj (h : Heap) (i : Nat) (f : Obj → Obj) : Heap :=
  { h with objs := h.objs.modify i f }

/-- one step; `hash` returns the value -/
def step (flagged : List String) (h : Heap) : Op → Option (List Int) × Heap
  | .write i route cells vals =>
    match h.objs[i]? with
    | none => (none, h)
    | some o =>
      let ps := cells.filterMap (o.window[·]?)
      let bufs := h.bufs.modify o.buf (fun b => setCells b ps vals)
      let h := { h with bufs := bufs }
      (none, if o.tracked && routeFlags flagged route then modifyObj h i (fun o => { o with dirty := true }) else h)
  | .view i sel tracked =>
    match h.objs[i]? with
    | none => (none, h)
    | some o =>
      -- `__array_finalize__`: result dirty; source dirty when both are TrackedArrays
      let o' : Obj := { buf := o.buf, window := sel.filterMap (o.window[·]?), tracked := tracked, dirty := true, memo := none }
      let h := if tracked && o.tracked then modifyObj h i (fun o => { o with dirty := true }) else h
      (none, { h with objs := h.objs ++ [o'] })
  | .copy i =>
    match h.objs[i]? with
    | none => (none, h)
    | some o =>
      let content := bytesOf h o
      let o' : Obj := { buf := h.bufs.length, window := List.range content.length, tracked := o.tracked,
                        dirty := true, memo := none }
      let h := if o.tracked then modifyObj h i (fun o => { o with dirty := true }) else h
      (none, { bufs := h.bufs ++ [content], objs := h.objs ++ [o'] })
  | .hash i =>
    match h.objs[i]? with
    | none => (none, h)
    | some o =>
      if !o.tracked then (none, h)
      else if !o.dirty && o.memo.isSome then (o.memo, h)
      else
        let b := bytesOf h o
        (some b, modifyObj h i (fun o => { o with dirty := false, memo := some b }))

def run (flagged : List String) (h : Heap) (ops : List Op) : Heap :=
  ops.foldl (fun h op => (step flagged h op).2) h

/-- a tracked object would answer its next hash correctly -/
def FreshObj (h : Heap) (o : Obj) : Prop :=
  o.tracked = true → o.dirty = true ∨ o.memo = none ∨ o.memo = some (bytesOf h o)

def Fresh (h : Heap) : Prop := ∀ o ∈ h.objs, FreshObj h o

/-- the cells of the buffer an object can see -/
def sees (o : Obj) (buf : Nat) (p : Nat) : Bool := o.buf == buf && o.window.contains p

/-- a write is *tracked for every observer*: it goes through a flagged method of the written tracked
    object, and no other tracked object that can see a written cell currently holds a clean memo -/
def SafeWrite (flagged : List String) (h : Heap) (i : Nat) (route : Route) (cells : List Nat) : Bool :=
  match h.objs[i]? with
  | none => true
  | some o =>
    let ps := cells.filterMap (o.window[·]?)
    (o.tracked && routeFlags flagged route) &&
    (List.range h.objs.length).all (fun j =>
      j == i || match h.objs[j]? with
        | none => true
        | some oj => !oj.tracked || oj.dirty || oj.memo.isNone || !(ps.any (fun p => sees oj o.buf p)))

/-- every write of the program is safe at the point where it happens -/
def SafeProgram (flagged : List String) : Heap → List Op → Bool
  | _, [] => true
  | h, op :: ops =>
    (match op with
      | .write i route cells _ => SafeWrite flagged h i route cells
      | _ => true) && SafeProgram flagged (step flagged h op).2 ops

/-- the in-place methods and operators of `numpy.ndarray` that must set the flag (curated from the numpy
    reference: every bound method or operator that writes into `self`) -/
def inPlaceMethods : List String :=
  ["__setitem__", "__iadd__", "__isub__", "__imul__", "__itruediv__", "__ifloordiv__", "__imod__", "__ipow__",
   "__ilshift__", "__irshift__", "__iand__", "__ixor__", "__ior__", "__imatmul__",
   "sort", "fill", "put", "partition", "byteswap", "setflags"]

end TV.Tracked
