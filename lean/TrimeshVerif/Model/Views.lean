/-
Index maps of the lazy voxel-encoding views (`trimesh/voxel/encoding.py`: FlattenedEncoding, ShapedEncoding,
FlippedEncoding, TransposedEncoding), C13.  An n-dimensional array is its shape and its entries in C order.
Core Lean only.
-/
namespace TV.Views

def size (shape : List Nat) : Nat := shape.foldr (· * ·) 1

/-- `np.ravel_multi_index(idx, shape)` (C order) -/
def ravel : List Nat → List Nat → Nat
  | [], _ => 0
  | _ :: _, [] => 0
  | _ :: ns, i :: is => i * size ns + ravel ns is

/-- `np.unravel_index(k, shape)` -/
def unravel : List Nat → Nat → List Nat
  | [], _ => []
  | _ :: ns, k => (k / size ns) :: unravel ns (k % size ns)

/-- the multi-index lies inside the shape (same rank, every component in range) -/
def inRange : List Nat → List Nat → Bool
  | [], [] => true
  | n :: ns, i :: is => decide (i < n) && inRange ns is
  | _, _ => false

/-- entry of the array with the given shape and C-ordered entries -/
def entry {α : Type} (dflt : α) (shape : List Nat) (data : List α) (idx : List Nat) : α :=
  data.getD (ravel shape idx) dflt

/-- `FlippedEncoding._to_base_indices`: `n - 1 - i` along the flipped axes -/
def flipIdx (shape : List Nat) (axes : List Nat) (idx : List Nat) : List Nat :=
  (idx.zipIdx).map (fun p => if axes.contains p.2 then shape.getD p.2 0 - 1 - p.1 else p.1)

/-- `ShapedEncoding._to_base_indices` followed by the base `FlattenedEncoding._to_base_indices`:
    position in the new shape -> position in the old shape -/
def reshapeIdx (oldShape newShape : List Nat) (idx : List Nat) : List Nat :=
  unravel oldShape (ravel newShape idx)

/-- `TransposedEncoding.shape`: `tuple(shape[p] for p in perm)` -/
def transposeShape (shape perm : List Nat) : List Nat := perm.map (fun p => shape.getD p 0)

/-- `TransposedEncoding._to_base_indices`: `np.take(indices, perm, axis=-1)` (the code as it is) -/
def takeIdx (perm idx : List Nat) : List Nat := perm.map (fun p => idx.getD p 0)

/-- `inv_perm[perm] = arange(n)` -/
def invPerm (perm : List Nat) : List Nat :=
  (List.range perm.length).map (fun d => perm.findIdx (· == d))

/-- what `np.transpose(dense, perm)[idx]` reads from the base array: base index `j` with `j[perm[d]] = idx[d]` -/
def transposeBase (perm idx : List Nat) : List Nat := takeIdx (invPerm perm) idx

/-- `perm` is a permutation of `0 .. n-1` -/
def isPerm (perm : List Nat) : Bool :=
  (List.range perm.length).all (fun d => perm.contains d)

end TV.Views
