/-
Model of `repair.fix_winding` (C18) at the level it works on: faces are nodes, `face_adjacency` pairs are
edges, and for each adjacent pair the only geometric fact used is whether their shared edge is traversed in
the same direction by both faces (`edge_pair[0][0] == edge_pair[1][0]`, "not reversed").  Core Lean only.
-/
namespace TV.Winding

/-- reversing a face toggles the direction of each of its edges -/
def bxor (a b : Bool) : Bool := a != b

/-- flip decisions: face ↦ was it reversed -/
abbrev Flips := Nat → Bool

def setFlip (x : Flips) (g : Nat) (b : Bool) : Flips := fun i => if i = g then b else x i

/-- the shared-edge test on the original faces: `w f g = true` when the two faces traverse their shared edge
    in the same direction (inconsistent).  After flips `x` the pair is inconsistent iff `w f g ⊕ x f ⊕ x g`. -/
abbrev SameDir := Nat → Nat → Bool

def inconsistent (w : SameDir) (x : Flips) (f g : Nat) : Bool := bxor (bxor (w f g) (x f)) (x g)

/-- one step of the traversal: for the pair (parent `f`, child `g`) handed out by `bfs_edges`, look at
    the current faces and reverse the child when the shared edge is not opposed -/
def step (w : SameDir) (x : Flips) (e : Nat × Nat) : Flips :=
  if inconsistent w x e.1 e.2 then setFlip x e.2 (!(x e.2)) else x

/-- the whole traversal over the tree edges in the order they are handed out -/
def traverse (w : SameDir) (tree : List (Nat × Nat)) : Flips := tree.foldl (step w) (fun _ => false)

/-- the traversal order is that of a search tree: the child of every edge has not been seen before
    (neither as a parent nor as a child), and is not its own parent -/
def treeOrder : List (Nat × Nat) → List Nat → Bool
  | [], _ => true
  | (f, g) :: t, seen => !(seen.contains g) && decide (f ≠ g) && treeOrder t (g :: f :: seen)

/-- every adjacent pair is consistently wound after the flips -/
def allConsistent (w : SameDir) (x : Flips) (adj : List (Nat × Nat)) : Bool :=
  adj.all (fun e => !(inconsistent w x e.1 e.2))

/-! executable version: the flips as a list of booleans (the function-valued version above re-evaluates its
    whole history on every lookup when compiled) -/

def look (x : List Bool) : Flips := fun i => x.getD i false

def stepL (w : SameDir) (x : List Bool) (e : Nat × Nat) : List Bool :=
  if inconsistent w (look x) e.1 e.2 then x.set e.2 (!(x.getD e.2 false)) else x

def traverseL (w : SameDir) (n : Nat) (tree : List (Nat × Nat)) : List Bool :=
  tree.foldl (stepL w) (List.replicate n false)

/-- `w` as a table over the adjacent pairs (either order), `false` elsewhere -/
def sameDirOf (tbl : List ((Nat × Nat) × Bool)) : SameDir := fun f g =>
  match tbl.find? (fun r => (r.1.1 == f && r.1.2 == g) || (r.1.1 == g && r.1.2 == f)) with
  | some r => r.2
  | none => false

end TV.Winding
