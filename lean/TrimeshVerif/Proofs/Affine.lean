/- linear / affine maps on K³ written out in coordinates (friendly to `ring`), for C04 -/
import TrimeshVerif.Proofs.Moments
import TrimeshVerif.Proofs.Mat3
namespace TV.Affine
open TV.Mat3 TV.Moments

variable {K : Type} [Field K]

abbrev V3 (K : Type) := K × K × K

def dot (a b : V3 K) : K := a.1 * b.1 + a.2.1 * b.2.1 + a.2.2 * b.2.2
def cross (a b : V3 K) : V3 K :=
  (a.2.1 * b.2.2 - a.2.2 * b.2.1, a.2.2 * b.1 - a.1 * b.2.2, a.1 * b.2.1 - a.2.1 * b.1)
def add (a b : V3 K) : V3 K := (a.1 + b.1, a.2.1 + b.2.1, a.2.2 + b.2.2)
def sub (a b : V3 K) : V3 K := (a.1 - b.1, a.2.1 - b.2.1, a.2.2 - b.2.2)
def smul (s : K) (a : V3 K) : V3 K := (s * a.1, s * a.2.1, s * a.2.2)

/-- homogeneous transform `p ↦ L p + t` (what `transform_points` computes away from the identity shortcut) -/
def transformPoint (L : M3 K) (t : V3 K) (p : V3 K) : V3 K := add (L.apply p) t

/-- cofactor matrix (`det L · L⁻ᵀ` when `L` is invertible) -/
def cofactor (L : M3 K) : M3 K :=
  ⟨L.m11 * L.m22 - L.m12 * L.m21, L.m12 * L.m20 - L.m10 * L.m22, L.m10 * L.m21 - L.m11 * L.m20,
   L.m02 * L.m21 - L.m01 * L.m22, L.m00 * L.m22 - L.m02 * L.m20, L.m01 * L.m20 - L.m00 * L.m21,
   L.m01 * L.m12 - L.m02 * L.m11, L.m02 * L.m10 - L.m00 * L.m12, L.m00 * L.m11 - L.m01 * L.m10⟩

/-- exact tetrahedron moments as functions of three points -/
def vol (a b c : V3 K) : K := T0 a.1 a.2.1 a.2.2 b.1 b.2.1 b.2.2 c.1 c.2.1 c.2.2
def first (a b c : V3 K) : V3 K :=
  (T1 a.1 a.2.1 a.2.2 b.1 b.2.1 b.2.2 c.1 c.2.1 c.2.2, T2 a.1 a.2.1 a.2.2 b.1 b.2.1 b.2.2 c.1 c.2.1 c.2.2,
   T3 a.1 a.2.1 a.2.2 b.1 b.2.1 b.2.2 c.1 c.2.1 c.2.2)
/-- second-moment matrix (xx, xy, xz; yx, yy, yz; zx, zy, zz) -/
def second (a b c : V3 K) : M3 K :=
  ⟨T4 a.1 a.2.1 a.2.2 b.1 b.2.1 b.2.2 c.1 c.2.1 c.2.2, T7 a.1 a.2.1 a.2.2 b.1 b.2.1 b.2.2 c.1 c.2.1 c.2.2,
   T9 a.1 a.2.1 a.2.2 b.1 b.2.1 b.2.2 c.1 c.2.1 c.2.2,
   T7 a.1 a.2.1 a.2.2 b.1 b.2.1 b.2.2 c.1 c.2.1 c.2.2, T5 a.1 a.2.1 a.2.2 b.1 b.2.1 b.2.2 c.1 c.2.1 c.2.2,
   T8 a.1 a.2.1 a.2.2 b.1 b.2.1 b.2.2 c.1 c.2.1 c.2.2,
   T9 a.1 a.2.1 a.2.2 b.1 b.2.1 b.2.2 c.1 c.2.1 c.2.2, T8 a.1 a.2.1 a.2.2 b.1 b.2.1 b.2.2 c.1 c.2.1 c.2.2,
   T6 a.1 a.2.1 a.2.2 b.1 b.2.1 b.2.2 c.1 c.2.1 c.2.2⟩

def M3.smul (s : K) (a : M3 K) : M3 K :=
  ⟨s * a.m00, s * a.m01, s * a.m02, s * a.m10, s * a.m11, s * a.m12, s * a.m20, s * a.m21, s * a.m22⟩

/-! ### helper lemmas for C04 (additive) -/

/-- the nine scalar equations behind `Lᵀ L = s² · 1` -/
theorem similarity_entries (L : M3 K) (s : K) (h : L.transpose * L = M3.smul (s ^ 2) 1) :
    (L.m00 * L.m00 + L.m10 * L.m10 + L.m20 * L.m20 = s ^ 2 * 1
      ∧ L.m00 * L.m01 + L.m10 * L.m11 + L.m20 * L.m21 = s ^ 2 * 0
      ∧ L.m00 * L.m02 + L.m10 * L.m12 + L.m20 * L.m22 = s ^ 2 * 0)
    ∧ (L.m01 * L.m00 + L.m11 * L.m10 + L.m21 * L.m20 = s ^ 2 * 0
      ∧ L.m01 * L.m01 + L.m11 * L.m11 + L.m21 * L.m21 = s ^ 2 * 1
      ∧ L.m01 * L.m02 + L.m11 * L.m12 + L.m21 * L.m22 = s ^ 2 * 0)
    ∧ (L.m02 * L.m00 + L.m12 * L.m10 + L.m22 * L.m20 = s ^ 2 * 0
      ∧ L.m02 * L.m01 + L.m12 * L.m11 + L.m22 * L.m21 = s ^ 2 * 0
      ∧ L.m02 * L.m02 + L.m12 * L.m12 + L.m22 * L.m22 = s ^ 2 * 1) := by
  have e : L.transpose * L = M3.mul L.transpose L := rfl
  have o : (1 : M3 K) = M3.one := rfl
  rw [e, o] at h
  exact ⟨⟨congrArg M3.m00 h, congrArg M3.m01 h, congrArg M3.m02 h⟩,
    ⟨congrArg M3.m10 h, congrArg M3.m11 h, congrArg M3.m12 h⟩,
    ⟨congrArg M3.m20 h, congrArg M3.m21 h, congrArg M3.m22 h⟩⟩

/-- Lagrange identity `|a × b|² = |a|²|b|² − (a·b)²` -/
theorem dot_cross_self (a b : V3 K) :
    dot (cross a b) (cross a b) = dot a a * dot b b - dot a b ^ 2 := by
  obtain ⟨a1, a2, a3⟩ := a
  obtain ⟨b1, b2, b3⟩ := b
  simp only [dot, cross]
  ring

/-- a similarity scales every inner product by `s²` -/
theorem dot_apply_similarity (L : M3 K) (s : K) (h : L.transpose * L = M3.smul (s ^ 2) 1)
    (u v : V3 K) : dot (L.apply u) (L.apply v) = s ^ 2 * dot u v := by
  obtain ⟨⟨h00, h01, h02⟩, ⟨h10, h11, h12⟩, ⟨h20, h21, h22⟩⟩ := similarity_entries L s h
  obtain ⟨u1, u2, u3⟩ := u
  obtain ⟨v1, v2, v3⟩ := v
  simp only [dot, M3.apply]
  linear_combination (u1 * v1) * h00 + (u1 * v2) * h01 + (u1 * v3) * h02
    + (u2 * v1) * h10 + (u2 * v2) * h11 + (u2 * v3) * h12
    + (u3 * v1) * h20 + (u3 * v2) * h21 + (u3 * v3) * h22

/-- `cof(L) · Lᵀ = det L · 1` entrywise consequence used for similarities:
    `s² · cof(L) = det L · L` whenever `Lᵀ L = s² · 1` -/
theorem smul_cofactor_of_similarity (L : M3 K) (s : K) (h : L.transpose * L = M3.smul (s ^ 2) 1) :
    M3.smul (s ^ 2) (cofactor L) = M3.smul L.det L := by
  obtain ⟨⟨h00, h01, h02⟩, ⟨h10, h11, h12⟩, ⟨h20, h21, h22⟩⟩ := similarity_entries L s h
  obtain ⟨l00, l01, l02, l10, l11, l12, l20, l21, l22⟩ := L
  simp only [M3.smul, cofactor, M3.det, M3.mk.injEq] at *
  refine ⟨?_, ?_, ?_, ?_, ?_, ?_, ?_, ?_, ?_⟩
  · linear_combination -((l11 * l22 - l12 * l21) * h00 + (l12 * l20 - l10 * l22) * h10
      + (l10 * l21 - l11 * l20) * h20)
  · linear_combination -((l11 * l22 - l12 * l21) * h01 + (l12 * l20 - l10 * l22) * h11
      + (l10 * l21 - l11 * l20) * h21)
  · linear_combination -((l11 * l22 - l12 * l21) * h02 + (l12 * l20 - l10 * l22) * h12
      + (l10 * l21 - l11 * l20) * h22)
  · linear_combination -((l02 * l21 - l01 * l22) * h00 + (l00 * l22 - l02 * l20) * h10
      + (l01 * l20 - l00 * l21) * h20)
  · linear_combination -((l02 * l21 - l01 * l22) * h01 + (l00 * l22 - l02 * l20) * h11
      + (l01 * l20 - l00 * l21) * h21)
  · linear_combination -((l02 * l21 - l01 * l22) * h02 + (l00 * l22 - l02 * l20) * h12
      + (l01 * l20 - l00 * l21) * h22)
  · linear_combination -((l01 * l12 - l02 * l11) * h00 + (l02 * l10 - l00 * l12) * h10
      + (l00 * l11 - l01 * l10) * h20)
  · linear_combination -((l01 * l12 - l02 * l11) * h01 + (l02 * l10 - l00 * l12) * h11
      + (l00 * l11 - l01 * l10) * h21)
  · linear_combination -((l01 * l12 - l02 * l11) * h02 + (l02 * l10 - l00 * l12) * h12
      + (l00 * l11 - l01 * l10) * h22)

/-- cross product of transported edges is the cofactor matrix applied to the cross product -/
theorem cross_apply (L : M3 K) (u v : V3 K) :
    cross (L.apply u) (L.apply v) = (cofactor L).apply (cross u v) := by
  obtain ⟨l00, l01, l02, l10, l11, l12, l20, l21, l22⟩ := L
  obtain ⟨u1, u2, u3⟩ := u
  obtain ⟨v1, v2, v3⟩ := v
  simp only [cross, cofactor, M3.apply, Prod.mk.injEq]
  refine ⟨?_, ?_, ?_⟩ <;> ring

/-- `det3` of transported points -/
theorem det3_apply (L : M3 K) (a b c : V3 K) :
    det3 (L.apply a).1 (L.apply a).2.1 (L.apply a).2.2 (L.apply b).1 (L.apply b).2.1 (L.apply b).2.2
      (L.apply c).1 (L.apply c).2.1 (L.apply c).2.2
      = L.det * det3 a.1 a.2.1 a.2.2 b.1 b.2.1 b.2.2 c.1 c.2.1 c.2.2 := by
  obtain ⟨l00, l01, l02, l10, l11, l12, l20, l21, l22⟩ := L
  obtain ⟨a1, a2, a3⟩ := a
  obtain ⟨b1, b2, b3⟩ := b
  obtain ⟨c1, c2, c3⟩ := c
  simp only [det3, M3.det, M3.apply]
  ring

end TV.Affine
