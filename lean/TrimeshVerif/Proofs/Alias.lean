import TrimeshVerif.Model.Alias
namespace TV.Alias

variable {V : Type}

/-- the Boolean checker decides disjointness -/
theorem disjointB_iff (a b : List Cell) : disjointB a b = true ↔ ∀ c, c ∈ a → c ∉ b := by
  simp [disjointB, List.all_eq_true]

theorem disjointB_sound {a b : List Cell} (h : disjointB a b = true) : ∀ c, c ∈ a → c ∉ b :=
  (disjointB_iff a b).1 h

theorem disjointB_sound_symm {a b : List Cell} (h : disjointB a b = true) : ∀ c, c ∈ b → c ∉ a :=
  fun c hb ha => disjointB_sound h c ha hb

theorem write_of_ne (h : Cell → V) (c : Cell) (v : V) (x : Cell) (hx : x ≠ c) :
    write h c v x = h x := by
  simp [write, hx]

theorem write_same (h : Cell → V) (c : Cell) (v : V) : write h c v c = v := by
  simp [write]

/-- edits leave every cell they do not name alone -/
theorem applyEdits_of_not_written (h : Cell → V) (es : List (Cell × V)) (x : Cell)
    (hx : ∀ e ∈ es, e.1 ≠ x) : applyEdits h es x = h x := by
  induction es generalizing h with
  | nil => rfl
  | cons e es ih =>
    obtain ⟨c, v⟩ := e
    simp only [applyEdits]
    rw [ih (write h c v) (fun e he => hx e (List.mem_cons_of_mem _ he))]
    exact write_of_ne h c v x (fun hxc => hx (c, v) List.mem_cons_self hxc.symm)

/-- edits confined to a set of cells leave any object avoiding that set unchanged -/
theorem observe_applyEdits_of_avoid (h : Cell → V) (o : Obj) (es : List (Cell × V))
    (hav : ∀ e ∈ es, e.1 ∉ o.cells) : observe (applyEdits h es) o = observe h o := by
  unfold observe
  apply List.map_congr_left
  intro x hx
  exact applyEdits_of_not_written h es x (fun e he hex => hav e he (hex ▸ hx))

/-- reading the copied heap at the fresh name of a reachable cell gives the original contents -/
theorem copyHeap_ren (h : Cell → V) (a : Obj) (ren : Cell → Cell)
    (hinj : ∀ c ∈ a.cells, ∀ c' ∈ a.cells, ren c = ren c' → c = c')
    (c : Cell) (hc : c ∈ a.cells) : copyHeap ren a h (ren c) = h c := by
  unfold copyHeap
  cases hf : a.cells.find? (fun c' => ren c' == ren c) with
  | none =>
    have := List.find?_eq_none.1 hf c hc
    simp at this
  | some c' =>
    have hp := List.find?_some hf
    have hm := List.mem_of_find?_eq_some hf
    have : ren c' = ren c := by simpa using hp
    simp [hinj c' hm c hc this]

/-- reading the copied heap at a cell that is not a fresh name gives the old contents -/
theorem copyHeap_of_not_fresh (h : Cell → V) (a : Obj) (ren : Cell → Cell) (x : Cell)
    (hx : ∀ c ∈ a.cells, ren c ≠ x) : copyHeap ren a h x = h x := by
  unfold copyHeap
  cases hf : a.cells.find? (fun c' => ren c' == x) with
  | none => rfl
  | some c' =>
    have hp := List.find?_some hf
    have hm := List.mem_of_find?_eq_some hf
    have : ren c' = x := by simpa using hp
    exact absurd this (hx c' hm)

end TV.Alias
