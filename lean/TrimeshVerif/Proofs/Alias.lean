import TrimeshVerif.Model.Alias
namespace TV.Alias

end TV.Alias
