import TrimeshVerif.Proofs.Topology
import Mathlib.Algebra.BigOperators.Group.Finset.Basic
import Mathlib.Algebra.BigOperators.Ring.Finset
import Mathlib.Algebra.BigOperators.Group.List.Basic
import Mathlib.Tactic.Ring
import Mathlib.Tactic.Linarith
import Mathlib.Tactic.LinearCombination
/-
Angle-defect law (C05 `vertex_defects`, discrete Gauss-Bonnet): whatever the corner angles are, as long as
the three angles of every face add up to π, the defects `2π − (sum of the angles at the vertex)` of the
referenced vertices add up to `π (2 V − F)`; on a closed surface (every undirected edge used exactly twice)
that is `2π (V − E + F)`.
-/
namespace TV.AngleDefect
open TV.Topology

variable {K : Type} [CommRing K]

/-- a face with the angles at its three corners -/
abbrev FA (K : Type) := Face × (K × K × K)

/-- (vertex, angle) for every corner, in the order of `corners` (`face_angles_sparse` entries) -/
def cornerAngles (fa : List (FA K)) : List (Nat × K) :=
  fa.flatMap (fun x => [(x.1.1, x.2.1), (x.1.2.1, x.2.2.1), (x.1.2.2, x.2.2.2)])

/-- `face_angles_sparse.sum(axis=1)[v]`: sum of the angles at vertex `v` -/
def angleSum (l : List (Nat × K)) (v : Nat) : K := ((l.filter (fun p => p.1 == v)).map (·.2)).sum

/-- `vertex_defects[v] = 2π − angle sum` -/
def defect (pi : K) (fa : List (FA K)) (v : Nat) : K := 2 * pi - angleSum (cornerAngles fa) v

theorem angleSum_cons (p : Nat × K) (l : List (Nat × K)) (v : Nat) :
    angleSum (p :: l) v = (if p.1 = v then p.2 else 0) + angleSum l v := by
  unfold angleSum
  by_cases h : p.1 = v
  · simp [List.filter_cons, h]
  · simp [List.filter_cons, h]

/-- regrouping the corner angles by vertex loses nothing -/
theorem sum_angleSum (n : Nat) : ∀ l : List (Nat × K), (∀ p ∈ l, p.1 < n) →
    (Finset.range n).sum (fun v => angleSum l v) = (l.map (·.2)).sum
  | [], _ => by simp [angleSum]
  | p :: l, h => by
    have ih := sum_angleSum n l (fun q hq => h q (List.mem_cons_of_mem _ hq))
    simp only [angleSum_cons, Finset.sum_add_distrib, ih, List.map_cons, List.sum_cons]
    congr 1
    rw [Finset.sum_ite_eq (Finset.range n) p.1 (fun _ => p.2)]
    simp [h p List.mem_cons_self]

theorem cornerAngles_total (pi : K) : ∀ fa : List (FA K), (∀ x ∈ fa, x.2.1 + x.2.2.1 + x.2.2.2 = pi) →
    ((cornerAngles fa).map (·.2)).sum = fa.length * pi
  | [], _ => by simp [cornerAngles]
  | x :: t, h => by
    have ih := cornerAngles_total pi t (fun y hy => h y (List.mem_cons_of_mem _ hy))
    have hx := h x List.mem_cons_self
    unfold cornerAngles at ih ⊢
    simp only [List.flatMap_cons, List.map_append, List.sum_append, List.map_cons, List.map_nil,
      List.sum_cons, List.sum_nil, List.length_cons, Nat.cast_add, Nat.cast_one, ih]
    rw [← hx]; ring

theorem cornerAngles_keys (fa : List (FA K)) :
    (cornerAngles fa).map (·.1) = corners (fa.map (·.1)) := by
  induction fa with
  | nil => rfl
  | cons x t ih =>
    unfold cornerAngles corners at ih ⊢
    simp only [List.flatMap_cons, List.map_append, List.map_cons, List.map_nil, ih]

theorem angleSum_unreferenced (fa : List (FA K)) (v : Nat) (h : v ∉ corners (fa.map (·.1))) :
    angleSum (cornerAngles fa) v = 0 := by
  unfold angleSum
  have : (cornerAngles fa).filter (fun p => p.1 == v) = [] := by
    rw [List.filter_eq_nil_iff]
    intro p hp hpv
    apply h
    rw [← cornerAngles_keys]
    exact List.mem_map.mpr ⟨p, hp, by simpa using hpv⟩
  rw [this]; simp

/-- **angle-defect law, any mesh**: the defects of the referenced vertices add up to `π (2 V − F)` -/
theorem defect_sum (pi : K) (fa : List (FA K)) (n : Nat)
    (hang : ∀ x ∈ fa, x.2.1 + x.2.2.1 + x.2.2.2 = pi)
    (hn : ∀ v ∈ corners (fa.map (·.1)), v < n) :
    ((Finset.range n).filter (fun v => v ∈ corners (fa.map (·.1)))).sum (defect pi fa)
      = pi * (2 * (((Finset.range n).filter (fun v => v ∈ corners (fa.map (·.1)))).card : K) - fa.length) := by
  unfold defect
  rw [Finset.sum_sub_distrib, Finset.sum_const, nsmul_eq_mul]
  have h1 : ((Finset.range n).filter (fun v => v ∈ corners (fa.map (·.1)))).sum
      (fun v => angleSum (cornerAngles fa) v) = (Finset.range n).sum (fun v => angleSum (cornerAngles fa) v) := by
    rw [Finset.sum_filter]
    apply Finset.sum_congr rfl
    intro v _
    by_cases hv : v ∈ corners (fa.map (·.1))
    · simp [hv]
    · simp [hv, angleSum_unreferenced fa v hv]
  have hkeys : ∀ p ∈ cornerAngles fa, p.1 < n := by
    intro p hp
    apply hn
    rw [← cornerAngles_keys]
    exact List.mem_map.mpr ⟨p, hp, rfl⟩
  rw [h1, sum_angleSum n _ hkeys, cornerAngles_total pi fa hang]
  ring

/-! ### closed surfaces: E = 3F / 2 -/

theorem eraseDups_length_of_twice {α : Type} [BEq α] [LawfulBEq α] : ∀ (n : Nat) (l : List α), l.length ≤ n →
    (∀ a ∈ l, l.count a = 2) → 2 * l.eraseDups.length = l.length
  | 0, l, h, _ => by
    have : l = [] := List.length_eq_zero_iff.mp (by omega)
    subst this; simp
  | n + 1, [], _, _ => by simp
  | n + 1, a :: t, h, h2 => by
    rw [List.eraseDups_cons]
    have ha : t.count a = 1 := by
      have := h2 a List.mem_cons_self
      simp only [List.count_cons_self] at this; omega
    have hlen : (t.filter (fun b => !b == a)).length + 1 = t.length := by
      have := List.length_eq_length_filter_add (l := t) (fun b => b == a)
      rw [← List.count_eq_length_filter, ha] at this
      omega
    have htw : ∀ b ∈ t.filter (fun b => !b == a), (t.filter (fun b => !b == a)).count b = 2 := by
      intro b hb
      have hb' := List.mem_filter.mp hb
      have hne : b ≠ a := by simpa using hb'.2
      rw [List.count_filter (by simpa using hne)]
      have := h2 b (List.mem_cons_of_mem _ hb'.1)
      rwa [List.count_cons_of_ne (Ne.symm hne)] at this
    have ih := eraseDups_length_of_twice n (t.filter (fun b => !b == a))
      (by simp only [List.length_cons] at h; omega) htw
    simp only [List.length_cons]
    omega

theorem edges_length (fs : List Face) : (edgesSorted fs).length = 3 * fs.length := by
  unfold edgesSorted edges
  induction fs with
  | nil => rfl
  | cons f t ih => simp only [List.flatMap_cons, List.map_append, List.length_append, List.length_map] at ih ⊢
                   simp only [List.length_cons, List.length_nil]; omega

/-- **discrete Gauss-Bonnet**: on a closed surface (every undirected edge used exactly twice) the defects
    add up to `2π (V − E + F)` -/
theorem defect_sum_closed (pi : K) (fa : List (FA K)) (n : Nat)
    (hang : ∀ x ∈ fa, x.2.1 + x.2.2.1 + x.2.2.2 = pi)
    (hn : ∀ v ∈ corners (fa.map (·.1)), v < n)
    (hclosed : ∀ e ∈ edgesSorted (fa.map (·.1)), (edgesSorted (fa.map (·.1))).count e = 2) :
    ((Finset.range n).filter (fun v => v ∈ corners (fa.map (·.1)))).sum (defect pi fa)
      = 2 * pi * ((((Finset.range n).filter (fun v => v ∈ corners (fa.map (·.1)))).card : K)
          - ((edgesSorted (fa.map (·.1))).eraseDups.length : K) + (fa.length : K)) := by
  rw [defect_sum pi fa n hang hn]
  have hE := eraseDups_length_of_twice _ _ (Nat.le_refl _) hclosed
  rw [edges_length, List.length_map] at hE
  have hE' : (2 : K) * ((edgesSorted (fa.map (·.1))).eraseDups.length : K) = 3 * (fa.length : K) := by
    exact_mod_cast congrArg (Nat.cast : Nat → K) hE
  linear_combination pi * hE'

end TV.AngleDefect
