/-
Helper lemmas for C16 (verified checkers for hulls and bounding volumes).
-/
import TrimeshVerif.Model.Bounds
import Mathlib.Tactic.Ring
import Mathlib.Tactic.Linarith
import Mathlib.Tactic.FieldSimp
import Mathlib.Algebra.Order.Field.Rat
namespace TV.Bounds
open TV.Query

end TV.Bounds
