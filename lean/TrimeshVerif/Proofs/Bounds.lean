/-
Helper lemmas for C16 (verified checkers for hulls and bounding volumes).
-/
import TrimeshVerif.Model.Bounds
import Mathlib.Tactic.Ring
import Mathlib.Tactic.Linarith
import Mathlib.Tactic.LinearCombination
import Mathlib.Tactic.FieldSimp
import Mathlib.Algebra.Order.Field.Rat
namespace TV.Bounds
open TV.Query

/-! ### planes, heights, convexity -/
theorem dot_self_nonneg (a : P) : 0 ≤ dot a a := by
  obtain ⟨a1, a2, a3⟩ := a
  simp only [dot]
  nlinarith [mul_self_nonneg a1, mul_self_nonneg a2, mul_self_nonneg a3]

theorem height_lerp (t : Tri) (p q : P) (s : Rat) :
    height t (lerp p q s) = (1 - s) * height t p + s * height t q := by
  obtain ⟨⟨a1, a2, a3⟩, ⟨b1, b2, b3⟩, ⟨c1, c2, c3⟩⟩ := t
  obtain ⟨p1, p2, p3⟩ := p
  obtain ⟨q1, q2, q3⟩ := q
  simp only [height, normal, lerp, dot, sub, add, smul, cross]
  ring

theorem height_flip (a b c p : P) : height (a, c, b) p = - height (a, b, c) p := by
  obtain ⟨a1, a2, a3⟩ := a
  obtain ⟨b1, b2, b3⟩ := b
  obtain ⟨c1, c2, c3⟩ := c
  obtain ⟨p1, p2, p3⟩ := p
  simp only [height, normal, dot, sub, cross]
  ring

theorem below_iff (eps : Rat) (t : Tri) (p : P) :
    below eps t p = true ↔
      (height t p ≤ 0 ∨ height t p * height t p ≤ eps * eps * dot (normal t) (normal t)) := by
  simp [below]

theorem convex_aux (a b s E : Rat) (hs0 : 0 ≤ s) (hs1 : s ≤ 1) (hE : 0 ≤ E)
    (ha : a ≤ 0 ∨ a * a ≤ E) (hb : b ≤ 0 ∨ b * b ≤ E) :
    (1 - s) * a + s * b ≤ 0 ∨ ((1 - s) * a + s * b) * ((1 - s) * a + s * b) ≤ E := by
  have key : ∀ x : Rat, (x ≤ 0 ∨ x * x ≤ E) → ∃ x', x ≤ x' ∧ 0 ≤ x' ∧ x' * x' ≤ E := by
    intro x hx
    by_cases h0 : x ≤ 0
    · exact ⟨0, h0, le_refl _, by simpa using hE⟩
    · rcases hx with hx | hx
      · exact absurd hx h0
      · exact ⟨x, le_refl _, le_of_lt (not_le.mp h0), hx⟩
  obtain ⟨a', ha1, ha2, ha3⟩ := key a ha
  obtain ⟨b', hb1, hb2, hb3⟩ := key b hb
  by_cases hc : (1 - s) * a + s * b ≤ 0
  · exact Or.inl hc
  · right
    have hc' : 0 < (1 - s) * a + s * b := not_le.mp hc
    have h1s : 0 ≤ 1 - s := by linarith
    have hle : (1 - s) * a + s * b ≤ (1 - s) * a' + s * b' := by
      have := mul_le_mul_of_nonneg_left ha1 h1s
      have := mul_le_mul_of_nonneg_left hb1 hs0
      linarith
    have hsq : ((1 - s) * a + s * b) * ((1 - s) * a + s * b)
        ≤ ((1 - s) * a' + s * b') * ((1 - s) * a' + s * b') :=
      mul_self_le_mul_self (le_of_lt hc') hle
    have hjen : ((1 - s) * a' + s * b') * ((1 - s) * a' + s * b')
        ≤ (1 - s) * (a' * a') + s * (b' * b') := by
      have := mul_nonneg (mul_nonneg hs0 h1s) (mul_self_nonneg (a' - b'))
      nlinarith [this]
    have := mul_le_mul_of_nonneg_left ha3 h1s
    have := mul_le_mul_of_nonneg_left hb3 hs0
    linarith

theorem below_lerp (eps : Rat) (t : Tri) (p q : P) (s : Rat) (hs0 : 0 ≤ s) (hs1 : s ≤ 1)
    (hp : below eps t p = true) (hq : below eps t q = true) :
    below eps t (lerp p q s) = true := by
  rw [below_iff] at hp hq ⊢
  rw [height_lerp]
  exact convex_aux _ _ s _ hs0 hs1
    (mul_nonneg (mul_self_nonneg eps) (dot_self_nonneg _)) hp hq

/-! ### Bool checkers unfolded -/
theorem hullCheck_iff (eps : Rat) (pts hv : List P) (hf : List Face) (ts : List Tri)
    (ht : trisOf hv hf = some ts) :
    hullCheck eps pts hv hf = true ↔
      ((∀ v ∈ hv, v ∈ pts) ∧ (∀ t ∈ ts, ∀ p ∈ pts, below eps t p = true) ∧
       TV.Topology.isWatertight hf = true ∧ TV.Topology.isWindingConsistent hf = true ∧
       0 < vol6 ts) := by
  simp only [hullCheck, ht, Bool.and_eq_true, List.all_eq_true, decide_eq_true_eq,
    List.contains_iff_mem, and_assoc]

theorem leP_iff (a b : P) : leP a b = true ↔ (a.1 ≤ b.1 ∧ a.2.1 ≤ b.2.1 ∧ a.2.2 ≤ b.2.2) := by
  simp only [leP, Bool.and_eq_true, decide_eq_true_eq, and_assoc]

theorem aabbCheck_iff (pts : List P) (lo hi : P) :
    aabbCheck pts lo hi = true ↔
    ((∀ p ∈ pts, lo.1 ≤ p.1 ∧ lo.2.1 ≤ p.2.1 ∧ lo.2.2 ≤ p.2.2 ∧ p.1 ≤ hi.1 ∧ p.2.1 ≤ hi.2.1 ∧ p.2.2 ≤ hi.2.2) ∧
    (∃ p ∈ pts, p.1 = lo.1) ∧ (∃ p ∈ pts, p.2.1 = lo.2.1) ∧ (∃ p ∈ pts, p.2.2 = lo.2.2) ∧
    (∃ p ∈ pts, p.1 = hi.1) ∧ (∃ p ∈ pts, p.2.1 = hi.2.1) ∧ (∃ p ∈ pts, p.2.2 = hi.2.2)) := by
  simp only [aabbCheck, Bool.and_eq_true, List.all_eq_true, List.any_eq_true, leP_iff,
    beq_iff_eq, and_assoc]

theorem inBox_iff (eps : Rat) (ext q : P) : inBox eps ext q = true ↔
    (absR q.1 ≤ ext.1 / 2 + eps ∧ absR q.2.1 ≤ ext.2.1 / 2 + eps ∧ absR q.2.2 ≤ ext.2.2 / 2 + eps) := by
  simp only [inBox, Bool.and_eq_true, decide_eq_true_eq, and_assoc]

theorem obbCheck_imp (eps : Rat) (pts : List P) (T : Rigid) (ext : P) (h : obbCheck eps pts T ext = true) :
    ∀ p ∈ pts, inBox eps ext (T.apply p) = true := by
  simp only [obbCheck, Bool.and_eq_true, List.all_eq_true] at h
  exact h.2

theorem sphereCheck_imp (eps : Rat) (pts : List P) (c : P) (r : Rat) (h : sphereCheck eps pts c r = true) :
    ∀ p ∈ pts, dist2 p c ≤ (r + eps) * (r + eps) := by
  simp only [sphereCheck, Bool.and_eq_true, List.all_eq_true, decide_eq_true_eq] at h
  exact h.2

/-! ### rigid transforms -/

/-- Gram determinant identity: `det [a;b;c]² = det (Gram a b c)` -/
theorem det_sq_eq_gram (a b c : P) :
    dot a (cross b c) * dot a (cross b c) =
      dot a a * (dot b b * dot c c - dot b c * dot b c)
      - dot a b * (dot a b * dot c c - dot b c * dot a c)
      + dot a c * (dot a b * dot b c - dot b b * dot a c) := by
  obtain ⟨a1, a2, a3⟩ := a
  obtain ⟨b1, b2, b3⟩ := b
  obtain ⟨c1, c2, c3⟩ := c
  simp only [dot, cross]
  ring

/-- Cramer: `det [a;b;c] • w` from the three products `a·w, b·w, c·w` -/
theorem cramer (a b c w : P) :
    smul (dot a (cross b c)) w =
      add (add (smul (dot a w) (cross b c)) (smul (dot b w) (cross c a))) (smul (dot c w) (cross a b)) := by
  obtain ⟨a1, a2, a3⟩ := a
  obtain ⟨b1, b2, b3⟩ := b
  obtain ⟨c1, c2, c3⟩ := c
  obtain ⟨w1, w2, w3⟩ := w
  simp only [dot, cross, smul, add, Prod.mk.injEq]
  refine ⟨?_, ?_, ?_⟩ <;> ring

theorem dot_comm (a b : P) : dot a b = dot b a := by
  simp only [dot]; ring

/-- inner product of `x` with the residual of `v` after projecting on `a, b, c` -/
theorem proj_dot (a b c v x : P) :
    dot x (sub v (add (add (smul (dot a v) a) (smul (dot b v) b)) (smul (dot c v) c))) =
      dot x v - (dot a v * dot x a + dot b v * dot x b + dot c v * dot x c) := by
  obtain ⟨a1, a2, a3⟩ := a
  obtain ⟨b1, b2, b3⟩ := b
  obtain ⟨c1, c2, c3⟩ := c
  obtain ⟨v1, v2, v3⟩ := v
  obtain ⟨x1, x2, x3⟩ := x
  simp only [dot, sub, add, smul]
  ring

theorem eq_zero_of_smul (d : Rat) (w x y z : P) (hd : d ≠ 0)
    (h : smul d w = add (add (smul 0 x) (smul 0 y)) (smul 0 z)) : w = (0, 0, 0) := by
  obtain ⟨w1, w2, w3⟩ := w
  simp only [smul, add, zero_mul, add_zero, Prod.mk.injEq, mul_eq_zero, hd, false_or] at h
  obtain ⟨h1, h2, h3⟩ := h
  rw [h1, h2, h3]

/-- orthonormal rows preserve the norm (rows orthonormal ⇒ columns orthonormal, via Cramer) -/
theorem ortho_norm (a b c : P) (h00 : dot a a = 1) (h11 : dot b b = 1) (h22 : dot c c = 1)
    (h01 : dot a b = 0) (h02 : dot a c = 0) (h12 : dot b c = 0) (v : P) :
    dot a v * dot a v + dot b v * dot b v + dot c v * dot c v = dot v v := by
  have hdet : dot a (cross b c) * dot a (cross b c) = 1 := by
    rw [det_sq_eq_gram, h00, h11, h22, h01, h02, h12]; ring
  have hdet0 : dot a (cross b c) ≠ 0 := by
    intro h0; rw [h0] at hdet; simp at hdet
  have ha := proj_dot a b c v a
  have hb := proj_dot a b c v b
  have hc := proj_dot a b c v c
  rw [h00, h01, h02] at ha
  rw [dot_comm b a, h01, h11, h12] at hb
  rw [dot_comm c a, dot_comm c b, h02, h12, h22] at hc
  have ha' : dot a (sub v (add (add (smul (dot a v) a) (smul (dot b v) b)) (smul (dot c v) c))) = 0 := by
    rw [ha]; ring
  have hb' : dot b (sub v (add (add (smul (dot a v) a) (smul (dot b v) b)) (smul (dot c v) c))) = 0 := by
    rw [hb]; ring
  have hc' : dot c (sub v (add (add (smul (dot a v) a) (smul (dot b v) b)) (smul (dot c v) c))) = 0 := by
    rw [hc]; ring
  have hcr := cramer a b c (sub v (add (add (smul (dot a v) a) (smul (dot b v) b)) (smul (dot c v) c)))
  rw [ha', hb', hc'] at hcr
  have hw := eq_zero_of_smul _ _ _ _ _ hdet0 hcr
  have hv := proj_dot a b c v v
  rw [hw] at hv
  have hz : dot v ((0, 0, 0) : P) = 0 := by simp [dot]
  rw [hz, dot_comm v a, dot_comm v b, dot_comm v c] at hv
  linarith

theorem rigid_dist2 (T : Rigid) (p q : P) :
    dist2 (T.apply p) (T.apply q) =
      dot T.r0 (sub p q) * dot T.r0 (sub p q) + dot T.r1 (sub p q) * dot T.r1 (sub p q)
        + dot T.r2 (sub p q) * dot T.r2 (sub p q) := by
  obtain ⟨⟨a1, a2, a3⟩, ⟨b1, b2, b3⟩, ⟨c1, c2, c3⟩, ⟨t1, t2, t3⟩⟩ := T
  obtain ⟨p1, p2, p3⟩ := p
  obtain ⟨q1, q2, q3⟩ := q
  simp only [dist2, Rigid.apply, dot, sub, add]
  ring

theorem rigid_exact (T : Rigid) (h : T.isExact) (p q : P) :
    dist2 (T.apply p) (T.apply q) = dist2 p q := by
  obtain ⟨h00, h11, h22, h01, h02, h12⟩ := h
  rw [rigid_dist2, ortho_norm _ _ _ h00 h11 h22 h01 h02 h12]
  rfl

/-! ### sphere minimality -/

theorem dist2_shift (q c c' : P) :
    dist2 q c' = dist2 q c + 2 * (dot q (sub c c') - dot c (sub c c')) + dist2 c c' := by
  obtain ⟨q1, q2, q3⟩ := q
  obtain ⟨c1, c2, c3⟩ := c
  obtain ⟨d1, d2, d3⟩ := c'
  simp only [dist2, dot, sub]
  ring

theorem dot_add_smul (acc q x : P) (w : Rat) :
    dot (add acc (smul w q)) x = dot acc x + w * dot q x := by
  obtain ⟨a1, a2, a3⟩ := acc
  obtain ⟨q1, q2, q3⟩ := q
  obtain ⟨x1, x2, x3⟩ := x
  simp only [dot, add, smul]
  ring

theorem wsum_bound (c c' : P) (L R2 : Rat) :
    ∀ (ws : List Rat) (qs : List P) (acc : P), (∀ w ∈ ws, 0 ≤ w) →
      (∀ q ∈ qs, L ≤ dist2 q c ∧ dist2 q c' ≤ R2) → ws.length = qs.length →
      ws.sum * L
        + 2 * (dot ((List.zipWith (fun w q => smul w q) ws qs).foldl add acc) (sub c c')
                - dot acc (sub c c'))
        - 2 * ws.sum * dot c (sub c c') + ws.sum * dist2 c c' ≤ ws.sum * R2 := by
  intro ws
  induction ws with
  | nil => intro qs acc _ _ _; simp
  | cons w ws ih =>
    intro qs acc hw hq hlen
    cases qs with
    | nil => simp at hlen
    | cons q qs =>
      have hw0 : 0 ≤ w := hw w (List.mem_cons_self ..)
      obtain ⟨hq1, hq2⟩ := hq q (List.mem_cons_self ..)
      have ih' := ih qs (add acc (smul w q)) (fun x hx => hw x (List.mem_cons_of_mem _ hx))
        (fun x hx => hq x (List.mem_cons_of_mem _ hx)) (by simpa using hlen)
      rw [dot_add_smul] at ih'
      rw [dist2_shift q c c'] at hq2
      have h1 := mul_le_mul_of_nonneg_left hq1 hw0
      have h2 := mul_le_mul_of_nonneg_left hq2 hw0
      simp only [List.zipWith_cons_cons, List.foldl_cons, List.sum_cons]
      linarith

theorem sphere_min_aux (e x : P) : - dot e e ≤ 2 * dot e x + dot x x := by
  obtain ⟨e1, e2, e3⟩ := e
  obtain ⟨x1, x2, x3⟩ := x
  simp only [dot]
  nlinarith [mul_self_nonneg (e1 + x1), mul_self_nonneg (e2 + x2), mul_self_nonneg (e3 + x3)]

theorem dot_sub_left (m c x : P) : dot (sub m c) x = dot m x - dot c x := by
  simp only [dot, sub]; ring

theorem sphere_minimal (eps delta : Rat) (pts : List P) (c : P) (r : Rat) (ws : List Rat) (qs : List P)
    (h : sphereMinCheck eps delta pts c r ws qs = true) (c' : P) (R2 : Rat)
    (hall : ∀ p ∈ pts, dist2 p c' ≤ R2) :
    (r - eps) * (r - eps) ≤ R2 := by
  simp only [sphereMinCheck, Bool.and_eq_true, List.all_eq_true, decide_eq_true_eq, beq_iff_eq,
    List.contains_iff_mem] at h
  obtain ⟨⟨⟨⟨⟨⟨hlen, _⟩, hw⟩, hsum⟩, hq⟩, he⟩, _⟩ := h
  have hb := wsum_bound c c' (r * r - delta) R2 ws qs (0, 0, 0) hw
    (fun q hqm => ⟨(hq q hqm).2, hall q (hq q hqm).1⟩) hlen
  rw [hsum] at hb
  have hz : dot ((0, 0, 0) : P) (sub c c') = 0 := by simp [dot]
  have hm := sphere_min_aux (sub (wsum ws qs) c) (sub c c')
  rw [dot_sub_left (wsum ws qs) c (sub c c')] at hm
  have hd : dist2 c c' = dot (sub c c') (sub c c') := rfl
  rw [hz, hd] at hb
  unfold wsum at he hm
  linarith

/-! ### cylinder -/
theorem cyl_split (v a : P) (haa : 0 < dot a a) :
    v = add (sub v (smul (dot v a / dot a a) a)) (smul (dot v a / dot a a) a) ∧
    dot (sub v (smul (dot v a / dot a a) a)) a = 0 ∧
    dot v a / dot a a * (dot v a / dot a a) * dot a a = dot v a * dot v a / dot a a ∧
    dot (sub v (smul (dot v a / dot a a) a)) (sub v (smul (dot v a / dot a a) a))
      = dot v v - dot v a * dot v a / dot a a := by
  have hne : dot a a ≠ 0 := ne_of_gt haa
  generalize hl : dot v a / dot a a = lam
  have hl' : dot v a = lam * dot a a := by rw [← hl]; field_simp
  have hz2 : dot v a * dot v a / dot a a = lam * lam * dot a a := by rw [hl']; field_simp
  rw [hz2]
  obtain ⟨v1, v2, v3⟩ := v
  obtain ⟨a1, a2, a3⟩ := a
  simp only [dot, sub, add, smul, Prod.mk.injEq] at *
  refine ⟨⟨by ring, by ring, by ring⟩, ?_, trivial, ?_⟩
  · linear_combination hl'
  · linear_combination (-2 * lam) * hl'

theorem inward_rejected (a b c p : P) (h : height (a, b, c) p < 0) : below 0 (a, c, b) p = false := by
  rw [Bool.eq_false_iff]
  intro hb
  rw [below_iff, height_flip] at hb
  rcases hb with hb | hb
  · linarith
  · have : 0 < -height (a, b, c) p * -height (a, b, c) p := mul_pos (by linarith) (by linarith)
    simp only [zero_mul] at hb
    linarith

theorem cylCheck_imp (eps : Rat) (pts : List P) (c a : P) (r h : Rat)
    (hc : cylCheck eps pts c a r h = true) :
    ∀ p ∈ pts, ∃ (lam : Rat) (u : P), sub p c = add u (smul lam a) ∧ dot u a = 0 ∧
      lam * lam * dot a a ≤ (h / 2 + eps) * (h / 2 + eps) ∧ dot u u ≤ (r + eps) * (r + eps) := by
  simp only [cylCheck, Bool.and_eq_true, List.all_eq_true, decide_eq_true_eq] at hc
  obtain ⟨⟨⟨haa, _⟩, _⟩, hall⟩ := hc
  intro p hp
  obtain ⟨h1, h2⟩ := hall p hp
  obtain ⟨e1, e2, e3, e4⟩ := cyl_split (sub p c) a haa
  refine ⟨dot (sub p c) a / dot a a, sub (sub p c) (smul (dot (sub p c) a / dot a a) a), e1, e2, ?_, ?_⟩
  · rw [e3, div_le_iff₀ haa]; exact h1
  · rw [e4]; exact h2

end TV.Bounds
