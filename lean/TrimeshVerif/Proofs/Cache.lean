import TrimeshVerif.Model.Cache
/-
Helper lemmas for C01 (hash-validated cache): `Coherent` holds initially and is preserved by `verify`,
`read`, `edit` and every `MutSound` mutator; a read on a coherent state is fresh.
-/
namespace TV.Cache

variable {D V : Type} [DecidableEq D]

/-! ### lookup -/

theorem mem_of_lookup_eq_some {l : List (String × V)} {k : String} {v : V}
    (h : l.lookup k = some v) : (k, v) ∈ l := by
  obtain ⟨l₁, l₂, rfl, _⟩ := List.lookup_eq_some_iff.mp h
  simp

/-! ### verify -/

@[simp] theorem verify_data (s : St D V) : (verify s).data = s.data := by
  unfold verify; split <;> rfl

@[simp] theorem verify_idCur (s : St D V) : (verify s).idCur = some s.data := by
  unfold verify; split
  · assumption
  · rfl

omit [DecidableEq D] in
theorem coherent_init (f : String → D → V) (d : D) : Coherent f (St.init d : St D V) := by
  simp [Coherent, St.init]

theorem coherent_verify {f : String → D → V} {s : St D V} (h : Coherent f s) :
    Coherent f (verify s) := by
  unfold verify; split
  · exact h
  · simp [Coherent]

/-- after `verify` on a coherent state every stored value is a value on the *current* data -/
theorem verify_entries {f : String → D → V} {s : St D V} (h : Coherent f s) :
    ∀ e ∈ (verify s).cache, e.2 = f e.1 s.data :=
  fun e he => (coherent_verify h).2 s.data (verify_idCur s) e he

/-! ### read -/

theorem read_fst_of_coherent {f : String → D → V} {s : St D V} (h : Coherent f s) (k : String) :
    (read f s k).1 = f k s.data := by
  unfold read
  simp only
  split
  · next v hv => exact verify_entries h (k, v) (mem_of_lookup_eq_some hv)
  · simp

theorem read_data (f : String → D → V) (s : St D V) (k : String) : (read f s k).2.data = s.data := by
  unfold read
  simp only
  split <;> simp

theorem coherent_read {f : String → D → V} {s : St D V} (h : Coherent f s) (k : String) :
    Coherent f (read f s k).2 := by
  unfold read
  simp only
  split
  · exact coherent_verify h
  · refine ⟨by simp, ?_⟩
    intro d0 hd0 e he
    simp only [verify_idCur, Option.some.injEq] at hd0
    subst hd0
    simp only [verify_data, List.mem_cons] at he
    rcases he with rfl | he
    · rfl
    · exact verify_entries h e he

/-! ### edit -/

omit [DecidableEq D] in
theorem coherent_edit {f : String → D → V} {s : St D V} (h : Coherent f s) (g : D → D) :
    Coherent f (edit g s) := h

/-! ### mutate -/

theorem mutate_keep_nil (m : Mutator D V) (s : St D V) (hk : m.keep = []) : (mutate m s).cache = [] := by
  simp [mutate, hk]

theorem coherent_mutate_keep_nil (f : String → D → V) (m : Mutator D V) (s : St D V) (hk : m.keep = []) :
    Coherent f (mutate m s) := by
  have hc := mutate_keep_nil m s hk
  refine ⟨fun _ => hc, ?_⟩
  intro d0 _ e he
  rw [hc] at he
  cases he

theorem coherent_mutate {f : String → D → V} {s : St D V} {m : Mutator D V} (h : Coherent f s)
    (hm : MutSound f m) : Coherent f (mutate m s) := by
  rcases hm with hk | ⟨hv, ht⟩
  · exact coherent_mutate_keep_nil f m s hk
  · have hent := verify_entries h
    unfold mutate
    simp only [hv, if_true]
    refine ⟨?_, ?_⟩
    · cases m.setsId <;> simp
    · intro d0 hd0 e he
      simp only [List.mem_map, List.mem_filter] at he
      obtain ⟨e0, ⟨he0, hkeep⟩, rfl⟩ := he
      have hmem : e0.1 ∈ m.keep := by simpa using hkeep
      have ht' := ht s.data e0.1 hmem
      simp only [verify_data]
      rw [hent e0 he0, ht']
      cases hsi : m.setsId <;>
        simp only [hsi, verify_data, verify_idCur, if_true, Bool.false_eq_true, if_false,
          Option.some.injEq] at hd0 ⊢ <;> rw [hd0]

/-! ### histories -/

theorem coherent_step {f : String → D → V} {s : St D V} (op : Op D V) (h : Coherent f s)
    (hs : match op with
      | .mutate m => MutSound f m
      | _ => True) : Coherent f (step f s op).2 := by
  cases op with
  | read k => exact coherent_read h k
  | edit g => exact coherent_edit h g
  | mutate m => exact coherent_mutate h hs

theorem coherent_run {f : String → D → V} : ∀ (ops : List (Op D V)) (s : St D V), Coherent f s →
    OpsSound f ops → Coherent f (run f s ops)
  | [], _, h, _ => h
  | .read k :: t, _, h, hs => coherent_run t _ (coherent_read h k) hs
  | .edit g :: t, _, h, hs => coherent_run t _ (coherent_edit h g) hs
  | .mutate _ :: t, _, h, hs => coherent_run t _ (coherent_mutate h hs.1) hs.2

/-- every read is fresh after any history whose cache-keeping mutators are sound -/
theorem read_fresh (f : String → D → V) (d : D) (ops : List (Op D V))
    (hs : OpsSound f ops) (k : String) :
    (read f (run f (St.init d) ops) k).1 = f k (run f (St.init d) ops).data :=
  read_fst_of_coherent (coherent_run ops _ (coherent_init f d) hs) k

/-! ### the data after a history does not involve the cache -/

/-- the data after a history, computed without the cache: reads are skipped -/
def dataRun (d : D) : List (Op D V) → D
  | [] => d
  | .read _ :: t => dataRun d t
  | .edit g :: t => dataRun (g d) t
  | .mutate m :: t => dataRun (m.apply d) t


theorem run_data (f : String → D → V) (s : St D V) (ops : List (Op D V)) :
    (run f s ops).data = dataRun s.data ops := by
  induction ops generalizing s with
  | nil => rfl
  | cons op t ih =>
    have hr : run f s (op :: t) = run f (step f s op).2 t := rfl
    rw [hr, ih]
    cases op with
    | read k =>
      have : (step f s (.read k)).2.data = s.data := by
        show (Cache.read f s k).2.data = s.data
        unfold Cache.read
        cases h : (verify s).cache.lookup k <;> simp [h, verify_data]
      rw [this]; rfl
    | edit g => rfl
    | mutate m =>
      have : (step f s (.mutate m)).2.data = m.apply s.data := by
        show (mutate m s).data = m.apply s.data
        unfold mutate
        cases m.verifiesFirst <;> simp [verify_data]
      rw [this]; rfl


end TV.Cache
