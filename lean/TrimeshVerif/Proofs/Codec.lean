/-
Helper lemmas for C08 / C20 (byte-level codecs).
-/
import TrimeshVerif.Model.Codec
namespace TV.Codec

/-! ### words -/
theorem de32_le32 (n : Nat) (h : n < 4294967296) : de32 (le32 n) = n := by
  simp [de32, le32]; omega

theorem le32_length (n : Nat) : (le32 n).length = 4 := rfl

theorem le32_isBytes (n : Nat) : isBytes (le32 n) := by
  intro x hx
  simp [le32] at hx
  omega

theorem le32_de32 (a b c d : Nat) (ha : a < 256) (hb : b < 256) (hc : c < 256) (hd : d < 256) :
    le32 (de32 [a, b, c, d]) = [a, b, c, d] := by
  simp [de32, le32]; omega

theorem de16_le16 (n : Nat) (h : n < 65536) : de16 (le16 n) = n := by
  simp [de16, le16]; omega

theorem de32_le32_append (n : Nat) (h : n < 4294967296) (rest : Bytes) :
    de32 ((le32 n ++ rest).take 4) = n := by
  have : (le32 n ++ rest).take 4 = le32 n := by simp [le32]
  rw [this, de32_le32 n h]

/-! ### chunks -/
theorem chunksAux_nil {α : Type} (n fuel : Nat) : chunksAux n fuel ([] : List α) = [] := by
  cases fuel <;> rfl

theorem chunksAux_append {α : Type} (n : Nat) (hn : 0 < n) (r rest : List α) (hr : r.length = n) (fuel : Nat) :
    chunksAux n (fuel + 1) (r ++ rest) = r :: chunksAux n fuel rest := by
  cases r with
  | nil => simp at hr; omega
  | cons a r =>
    simp only [List.cons_append, chunksAux]
    rw [← List.cons_append, List.take_left' hr, List.drop_left' hr]

theorem flatten_length_const {α : Type} (n : Nat) (recs : List (List α)) (h : ∀ r ∈ recs, r.length = n) :
    recs.flatten.length = recs.length * n := by
  induction recs with
  | nil => simp
  | cons r recs ih =>
    have h1 := h r (by simp)
    have h2 := ih (fun r hr => h r (by simp [hr]))
    simp [h1, h2, Nat.add_mul]; omega

theorem chunksAux_flatten {α : Type} (n : Nat) (hn : 0 < n) (recs : List (List α)) (h : ∀ r ∈ recs, r.length = n)
    (fuel : Nat) (hf : recs.length ≤ fuel) : chunksAux n fuel recs.flatten = recs := by
  induction recs generalizing fuel with
  | nil => simp [chunksAux_nil]
  | cons r recs ih =>
    cases fuel with
    | zero => simp at hf
    | succ fuel =>
      simp only [List.flatten_cons]
      rw [chunksAux_append n hn r _ (h r (by simp)), ih (fun r hr => h r (by simp [hr])) fuel (by simpa using hf)]

theorem chunks_flatten {α : Type} (n : Nat) (hn : 0 < n) (recs : List (List α)) (h : ∀ r ∈ recs, r.length = n) :
    chunks n recs.flatten = recs := by
  unfold chunks
  apply chunksAux_flatten n hn recs h
  rw [flatten_length_const n recs h]
  exact Nat.le_mul_of_pos_right _ hn

theorem chunksAux_length {α : Type} (n : Nat) (hn : 0 < n) (k : Nat) (l : List α) (hl : l.length = n * k)
    (fuel : Nat) (hf : l.length ≤ fuel) : (chunksAux n fuel l).length = k := by
  induction k generalizing l fuel with
  | zero =>
    have : l = [] := by simpa using hl
    subst this; simp [chunksAux_nil]
  | succ k ih =>
    have hpos : 0 < l.length := by rw [hl]; exact Nat.mul_pos hn (by omega)
    cases fuel with
    | zero => omega
    | succ fuel =>
      cases l with
      | nil => simp at hpos
      | cons a l =>
        simp only [chunksAux, List.length_cons]
        rw [ih ((a :: l).drop n) (by simp only [List.length_drop]; rw [hl, Nat.mul_succ]; omega) fuel
          (by simp only [List.length_drop]; simp only [List.length_cons] at hf ⊢; omega)]

theorem chunks_length {α : Type} (n : Nat) (hn : 0 < n) (k : Nat) (l : List α) (hl : l.length = n * k) :
    (chunks n l).length = k :=
  chunksAux_length n hn k l hl _ (Nat.le_refl _)

/-! ### STL -/
theorem flatMap_le32_length (ws : List Nat) : (ws.flatMap le32).length = 4 * ws.length := by
  induction ws with
  | nil => rfl
  | cons w ws ih => simp [List.flatMap_cons, ih, le32_length]; omega

theorem chunks_flatMap_le32 (ws : List Nat) (h : ∀ w ∈ ws, w < 4294967296) :
    (chunks 4 (ws.flatMap le32)).map de32 = ws := by
  rw [List.flatMap_def, chunks_flatten 4 (by omega) _ (by simp [le32_length])]
  rw [List.map_map]
  conv => rhs; rw [← List.map_id ws]
  apply List.map_congr_left
  intro w hw
  simp [de32_le32 w (h w hw)]

theorem encRec_length (r : StlRec) (h : r.words.length = 12) : (encRec r).length = 50 := by
  rw [encRec, List.length_append, flatMap_le32_length, h]; rfl

theorem decRec_encRec (r : StlRec) (h : r.wf) : decRec (encRec r) = r := by
  obtain ⟨h1, h2, h3⟩ := h
  have hl : (r.words.flatMap le32).length = 48 := by rw [flatMap_le32_length, h1]
  unfold decRec encRec
  rw [List.take_left' hl, List.drop_left' hl, chunks_flatMap_le32 _ h2, de16_le16 _ h3]

theorem encodeStl_length (hdr : Bytes) (recs : List StlRec) (hw : ∀ r ∈ recs, r.wf) :
    (encodeStl hdr recs).length = hdr.length + 4 + 50 * recs.length := by
  unfold encodeStl
  rw [List.flatMap_def, List.length_append, List.length_append,
    flatten_length_const 50 _ (by
      intro b hb
      obtain ⟨r, hr, rfl⟩ := List.mem_map.1 hb
      exact encRec_length r (hw r hr).1)]
  simp [le32_length]; omega


theorem decodeStl_encodeStl (hdr : Bytes) (recs : List StlRec) (hh : hdr.length = 80)
    (hn : recs.length < 4294967296) (hw : ∀ r ∈ recs, r.wf) :
    decodeStl (encodeStl hdr recs) = .ok (hdr, recs) := by
  have hlen := encodeStl_length hdr recs hw
  have e1 : (encodeStl hdr recs).take 80 = hdr := by
    unfold encodeStl; rw [List.append_assoc, List.take_left' hh]
  have e2 : ((encodeStl hdr recs).drop 80).take 4 = le32 recs.length := by
    unfold encodeStl; rw [List.append_assoc, List.drop_left' hh]; exact List.take_left' rfl
  have e3 : (encodeStl hdr recs).drop 84 = recs.flatMap encRec := by
    unfold encodeStl; rw [List.drop_left' (by simp [hh, le32_length])]
  have e4 : (chunks 50 (recs.flatMap encRec)).map decRec = recs := by
    rw [List.flatMap_def, chunks_flatten 50 (by omega) _ (by
      intro b hb
      obtain ⟨r, hr, rfl⟩ := List.mem_map.1 hb
      exact encRec_length r (hw r hr).1), List.map_map]
    conv => rhs; rw [← List.map_id recs]
    apply List.map_congr_left
    intro r hr
    simp [decRec_encRec r (hw r hr)]
  unfold decodeStl
  simp only [e1, e2, e3, e4, de32_le32 _ hn, hlen, hh]
  have h1 : ¬ (80 + 4 + 50 * recs.length < 84) := by omega
  have h2 : ¬ (80 + 4 + 50 * recs.length - 84 ≠ 50 * recs.length) := by omega
  simp only [h1, h2, if_false]

theorem decodeStl_accepts (b hdr : Bytes) (recs : List StlRec) (h : decodeStl b = .ok (hdr, recs)) :
    b.length = 84 + 50 * recs.length ∧ hdr = b.take 80 := by
  unfold decodeStl at h
  split at h
  · cases h
  · rename_i h1
    simp only at h
    split at h
    · cases h
    · rename_i h2
      injection h with h
      injection h with ha hb
      have hl : (chunks 50 (b.drop 84)).length = de32 ((b.drop 80).take 4) :=
        chunks_length 50 (by omega) _ _ (by rw [List.length_drop]; omega)
      subst hb
      rw [List.length_map, hl]
      exact ⟨by omega, ha.symm⟩

/-! ### GLB -/
theorem padJson_length (j : Bytes) : (padJson j).length = j.length + (4 - (j.length + 20) % 4) := by
  simp [padJson]

theorem len4 {α : Type} (x : List α) (h : x.length = 4) : ∃ a b c d, x = [a, b, c, d] := by
  match x, h with
  | [a, b, c, d], _ => exact ⟨a, b, c, d, rfl⟩

theorem frame5 (m v l cl mj rest : Bytes) (hm : m.length = 4) (hv : v.length = 4) (hl : l.length = 4)
    (hcl : cl.length = 4) (hmj : mj.length = 4) :
    (m ++ (v ++ (l ++ (cl ++ (mj ++ rest))))).take 4 = m ∧
    ((m ++ (v ++ (l ++ (cl ++ (mj ++ rest))))).drop 4).take 4 = v ∧
    ((m ++ (v ++ (l ++ (cl ++ (mj ++ rest))))).drop 8).take 4 = l ∧
    ((m ++ (v ++ (l ++ (cl ++ (mj ++ rest))))).drop 12).take 4 = cl ∧
    ((m ++ (v ++ (l ++ (cl ++ (mj ++ rest))))).drop 16).take 4 = mj ∧
    ∀ k, (m ++ (v ++ (l ++ (cl ++ (mj ++ rest))))).drop (20 + k) = rest.drop k := by
  obtain ⟨m0, m1, m2, m3, rfl⟩ := len4 m hm
  obtain ⟨v0, v1, v2, v3, rfl⟩ := len4 v hv
  obtain ⟨l0, l1, l2, l3, rfl⟩ := len4 l hl
  obtain ⟨c0, c1, c2, c3, rfl⟩ := len4 cl hcl
  obtain ⟨j0, j1, j2, j3, rfl⟩ := len4 mj hmj
  refine ⟨rfl, rfl, rfl, rfl, rfl, ?_⟩
  intro k
  rw [Nat.add_comm]
  rfl

theorem binChunks_single (bin : Bytes) (hb : bin.length < 4294967296) (fuel length : Nat) (hl : 8 + bin.length < length) :
    binChunks (fuel + 1) (le32 bin.length ++ (le32 magicBin ++ bin)) 0 length = .ok [bin] := by
  have e1 : (le32 bin.length ++ (le32 magicBin ++ bin)).take 4 = le32 bin.length := List.take_left' rfl
  have e2 : (le32 bin.length ++ (le32 magicBin ++ bin)).drop 4 = le32 magicBin ++ bin := List.drop_left' rfl
  have e3 : (le32 bin.length ++ (le32 magicBin ++ bin)).drop 8 = bin := by
    rw [← List.append_assoc]; exact List.drop_left' rfl
  have e4 : ∀ k, (le32 bin.length ++ (le32 magicBin ++ bin)).drop (8 + k) = bin.drop k := by
    intro k; rw [← List.drop_drop, e3]
  have e5 : (le32 magicBin ++ bin).take 4 = le32 magicBin := List.take_left' rfl
  rw [binChunks]
  simp only [e1, e2, e3, e4, e5, de32_le32 _ hb, de32_le32 magicBin (by decide)]
  have h1 : ¬ (0 ≥ length) := by omega
  have h2 : ¬ ((le32 bin.length ++ (le32 magicBin ++ bin)).length < 8) := by simp [le32_length]; omega
  simp only [h1, h2, if_false, ne_eq, not_true_eq_false, Nat.lt_irrefl, List.drop_length, List.take_length]
  cases fuel with
  | zero => simp [binChunks]
  | succ f => 
    rw [binChunks]
    have h3 : ¬ (0 + 8 + bin.length ≥ length) := by omega
    simp [h3]

theorem decodeGlb_encodeGlb (json bin : Bytes) (hj : json.length + 4 < 4294967296) (hb : bin.length < 4294967296)
    (ht : (padJson json).length + bin.length + 28 < 4294967296) :
    decodeGlb (encodeGlb json bin) = .ok (padJson json, [bin]) := by
  have hc : (padJson json).length < 4294967296 := by rw [padJson_length]; omega
  unfold encodeGlb
  simp only [List.append_assoc]
  generalize hcd : padJson json = c at *
  obtain ⟨f1, f2, f3, f4, f5, f6⟩ := frame5 (le32 magicGltf) (le32 2) (le32 (c.length + bin.length + 28)) (le32 c.length)
    (le32 magicJson) (c ++ (le32 bin.length ++ (le32 magicBin ++ bin))) rfl rfl rfl rfl rfl
  unfold decodeGlb
  simp only [f1, f2, f3, f4, f5, f6, de32_le32 _ hc, de32_le32 _ ht, de32_le32 magicGltf (by decide),
    de32_le32 2 (by decide), de32_le32 magicJson (by decide)]
  have h0 := f6 0
  simp only [Nat.add_zero, List.drop_zero] at h0
  rw [h0, List.take_left' rfl, List.drop_left' rfl]
  have hlen : (le32 bin.length ++ (le32 magicBin ++ bin)).length = (7 + bin.length) + 1 := by
    simp [le32_length]; omega
  have hnot : ¬ ((c ++ (le32 bin.length ++ (le32 magicBin ++ bin))).length < c.length) := by
    simp only [List.length_append]; omega
  rw [if_neg hnot, hlen, binChunks_single bin hb _ _ (by omega)]
  simp [le32_length]; omega

/-! ### views -/
theorem viewsAux_slice (items : List Bytes) (i : Nat) (hi : i < items.length) (pos : Nat) (pre : Bytes)
    (hp : pre.length = pos) :
    ∃ v, (viewsAux pos items)[i]? = some v ∧ slice (pre ++ items.flatten) v = items[i] := by
  induction items generalizing i pos pre with
  | nil => simp at hi
  | cons it rest ih =>
    cases i with
    | zero =>
      refine ⟨(pos, it.length), by simp [viewsAux], ?_⟩
      simp only [slice, List.flatten_cons, List.getElem_cons_zero]
      rw [List.drop_left' hp, List.take_left' rfl]
    | succ i =>
      obtain ⟨v, hv1, hv2⟩ := ih i (by simpa using hi) (pos + it.length) (pre ++ it) (by simp [hp])
      refine ⟨v, by simpa [viewsAux] using hv1, ?_⟩
      simpa using hv2

theorem viewsAux_adjacent (items : List Bytes) (i pos : Nat) (v w : Nat × Nat)
    (hv : (viewsAux pos items)[i]? = some v) (hw : (viewsAux pos items)[i + 1]? = some w) : w.1 = v.1 + v.2 := by
  induction items generalizing i pos with
  | nil => simp [viewsAux] at hv
  | cons it rest ih =>
    cases i with
    | zero =>
      cases rest with
      | nil => simp [viewsAux] at hw
      | cons it2 rest =>
        simp [viewsAux] at hv hw
        subst hv; subst hw; rfl
    | succ i =>
      simp only [viewsAux, List.getElem?_cons_succ] at hv hw
      exact ih i _ hv hw

theorem viewsAux_aligned (items : List Bytes) (h : ∀ it ∈ items, it.length % 4 = 0) (pos : Nat) (hp : pos % 4 = 0) :
    ∀ v ∈ viewsAux pos items, v.1 % 4 = 0 := by
  induction items generalizing pos with
  | nil => simp [viewsAux]
  | cons it rest ih =>
    intro v hv
    simp only [viewsAux, List.mem_cons] at hv
    rcases hv with rfl | hv
    · exact hp
    · have := h it (by simp)
      exact ih (fun it' h' => h it' (by simp [h'])) (pos + it.length) (by omega) v hv

/-! ### text rows -/
theorem splitAt_ne_nil (d : Char) (s : List Char) : splitAt d s ≠ [] := by
  cases s with
  | nil => simp [splitAt]
  | cons c cs =>
    unfold splitAt
    split
    · simp
    · split <;> simp

theorem splitAt_cons (d c : Char) (s : List Char) (t : Tok) (ts : List Tok) (h : splitAt d s = t :: ts) :
    splitAt d (c :: s) = if c = d then [] :: t :: ts else (c :: t) :: ts := by
  rw [splitAt, h]

theorem splitAt_notMem (d : Char) (t : Tok) (h : d ∉ t) : splitAt d t = [t] := by
  induction t with
  | nil => rfl
  | cons c t ih =>
    simp only [List.mem_cons, not_or] at h
    rw [splitAt_cons d c t t [] (ih h.2)]
    have : c ≠ d := fun e => h.1 e.symm
    simp [this]

theorem splitAt_append (d : Char) (t : Tok) (s : List Char) (h : d ∉ t) :
    splitAt d (t ++ d :: s) = t :: splitAt d s := by
  induction t with
  | nil =>
    cases hs : splitAt d s with
    | nil => exact absurd hs (splitAt_ne_nil d s)
    | cons u us => simp [splitAt_cons d d s u us hs]
  | cons c t ih =>
    simp only [List.mem_cons, not_or] at h
    rw [List.cons_append, splitAt_cons d c _ t (splitAt d s) (ih h.2)]
    have : c ≠ d := fun e => h.1 e.symm
    simp [this]

theorem splitAt_joinWith (d : Char) (ts : List Tok) (hne : ts ≠ []) (h : ∀ t ∈ ts, d ∉ t) :
    splitAt d (joinWith d ts) = ts := by
  induction ts with
  | nil => exact absurd rfl hne
  | cons t rest ih =>
    cases rest with
    | nil => simpa [joinWith] using splitAt_notMem d t (h t (by simp))
    | cons t2 rest =>
      rw [joinWith, splitAt_append d t _ (h t (by simp)), ih (by simp) (fun u hu => h u (by simp [hu]))]
      simp

theorem notMem_joinWith (col row : Char) (hcr : col ≠ row) (ts : List Tok) (h : ∀ t ∈ ts, row ∉ t) :
    row ∉ joinWith col ts := by
  induction ts with
  | nil => simp [joinWith]
  | cons t rest ih =>
    cases rest with
    | nil => simpa [joinWith] using h t (by simp)
    | cons t2 rest =>
      rw [joinWith]
      simp only [List.mem_append, List.mem_cons, not_or]
      refine ⟨h t (by simp), fun e => hcr e.symm, ih (fun u hu => h u (by simp [hu]))⟩
      simp

/-! ### base64 -/
theorem b64dec_quad (w x y z : Nat) (rest : List Nat) (hz : z ≠ 64) :
    b64dec (w :: x :: y :: z :: rest) =
      (w * 4 + x / 16) :: (x % 16 * 16 + y / 4) :: (y % 4 * 64 + z) :: b64dec rest := by
  rw [b64dec]
  · intros; simp_all
  · intros; simp_all

theorem b64dec_pad1 (w x y : Nat) (hy : y ≠ 64) :
    b64dec [w, x, y, 64] = [w * 4 + x / 16, x % 16 * 16 + y / 4] := by
  rw [b64dec]
  intros; simp_all

theorem b64dec_b64enc (b : Bytes) (h : isBytes b) : b64dec (b64enc b) = b := by
  fun_induction b64enc b with
  | case1 a b c rest ih =>
    have ha := h a (by simp)
    have hb := h b (by simp)
    have hc := h c (by simp)
    rw [b64dec_quad _ _ _ _ _ (by omega), ih (fun x hx => h x (by simp [hx]))]
    congr 1
    · omega
    congr 1
    · omega
    congr 1
    omega
  | case2 a b =>
    have ha := h a (by simp)
    have hb := h b (by simp)
    rw [b64dec_pad1 _ _ _ (by omega)]
    congr 1
    · omega
    congr 1
    omega
  | case3 a =>
    have ha := h a (by simp)
    simp only [b64dec]
    congr 1
    omega
  | case4 => rfl

end TV.Codec
