/-
Helper lemmas for C15 (revolve / box / icosphere).
-/
import TrimeshVerif.Model.Creation
import TrimeshVerif.Proofs.Remesh
import TrimeshVerif.Generated.C15Tables
import Mathlib.Tactic.Ring
import Mathlib.Tactic.Linarith
import Mathlib.Tactic.FieldSimp
import Mathlib.Algebra.Order.Field.Rat
namespace TV.Creation
open TV.Query

theorem quadVol6_eq (p q : Rat × Rat) (u v : Dir) :
    quadVol6 p q u v = cross2 u v * profileTerm p q := by
  obtain ⟨p1, p2⟩ := p; obtain ⟨q1, q2⟩ := q; obtain ⟨u1, u2⟩ := u; obtain ⟨v1, v2⟩ := v
  simp only [quadVol6, vol6, rv, cross2, profileTerm, dot, cross]
  ring

theorem sliceVol6_eq (prof : List (Rat × Rat)) (u v : Dir) :
    sliceVol6 prof u v = cross2 u v * profileSum prof := by
  fun_induction profileSum prof with
  | case1 p q rest ih => rw [sliceVol6, ih, quadVol6_eq]; ring
  | case2 l h =>
    unfold sliceVol6
    split
    · exact absurd rfl (h _ _ _)
    · ring

theorem revolveVol6_eq (prof : List (Rat × Rat)) (dirs : List Dir) :
    revolveVol6 prof dirs = dirSum dirs * profileSum prof := by
  fun_induction dirSum dirs with
  | case1 u v rest ih => rw [revolveVol6, ih, sliceVol6_eq]; ring
  | case2 l h =>
    unfold revolveVol6
    split
    · exact absurd rfl (h _ _ _)
    · ring

theorem rot_invariant (c s : Rat) (h : c * c + s * s = 1) (a b d : P) :
    vol6 (rotZ c s a) (rotZ c s b) (rotZ c s d) = vol6 a b d := by
  obtain ⟨a1, a2, a3⟩ := a; obtain ⟨b1, b2, b3⟩ := b; obtain ⟨d1, d2, d3⟩ := d
  simp only [vol6, rotZ, dot, cross]
  linear_combination (a1 * (b2 * d3 - b3 * d2) + a2 * (b3 * d1 - b1 * d3) + a3 * (b1 * d2 - b2 * d1)) * h

theorem profiles (R r h : Rat) :
    profileSum [(0, -h / 2), (R, -h / 2), (R, h / 2), (0, h / 2)] = 3 * h * (R * R) ∧
    profileSum [(0, 0), (R, 0), (0, h)] = h * (R * R) ∧
    profileSum [(r, -h / 2), (R, -h / 2), (R, h / 2), (r, h / 2), (r, -h / 2)] = 3 * h * (R * R - r * r) := by
  simp only [profileSum, profileTerm]
  refine ⟨?_, ?_, ?_⟩ <;> ring

theorem revolveFaces_in_range (per slices nVerts : Nat) (keep : Nat → Bool) (hn : 0 < nVerts) :
    ∀ f ∈ revolveFaces per slices nVerts keep, f.1 < nVerts ∧ f.2.1 < nVerts ∧ f.2.2 < nVerts := by
  intro f hf
  simp only [revolveFaces, List.mem_flatMap, List.mem_map] at hf
  obtain ⟨j, _, g, _, rfl⟩ := hf
  exact ⟨Nat.mod_lt _ hn, Nat.mod_lt _ hn, Nat.mod_lt _ hn⟩

theorem length_flatMap_const {α β : Type} (l : List α) (f : α → List β) (k : Nat)
    (h : ∀ a, (f a).length = k) : (l.flatMap f).length = l.length * k := by
  induction l with
  | nil => simp
  | cons a l ih => simp [List.flatMap_cons, ih, h, Nat.succ_mul, Nat.add_comm]

theorem revolveFaces_count (per slices nVerts : Nat) (keep : Nat → Bool) :
    (revolveFaces per slices nVerts keep).length = slices * (single per keep).length := by
  unfold revolveFaces
  rw [length_flatMap_const _ _ (single per keep).length (fun _ => by simp)]
  simp

theorem box_closed : TV.Remesh.Closed TV.Generated.boxFaces := by
  unfold TV.Remesh.Closed
  decide

theorem ico_closed : TV.Remesh.Closed TV.Generated.icoFaces := by
  unfold TV.Remesh.Closed
  decide

theorem icosphere_closed (mid : Nat → Nat → Nat) (hsym : ∀ a b, mid a b = mid b a) (n : Nat) :
    TV.Remesh.Closed ((TV.Remesh.subdivideFaces mid)^[n] TV.Generated.icoFaces) := by
  induction n with
  | zero => exact ico_closed
  | succ n ih =>
    rw [Function.iterate_succ_apply']
    exact TV.Remesh.subdivide_closed mid hsym _ ih

theorem box_volume (ext : P) :
    boxVol6 ext TV.Generated.boxCorners TV.Generated.boxFaces = 6 * (ext.1 * ext.2.1 * ext.2.2) := by
  obtain ⟨e1, e2, e3⟩ := ext
  simp [boxVol6, TV.Generated.boxFaces, TV.Generated.boxCorners, boxVertex, vol6, dot, cross]
  ring

theorem box_bounds (ext : P) (h1 : 0 ≤ ext.1) (h2 : 0 ≤ ext.2.1) (h3 : 0 ≤ ext.2.2) :
    ∀ c ∈ TV.Generated.boxCorners,
      -ext.1 / 2 ≤ (boxVertex ext c).1 ∧ (boxVertex ext c).1 ≤ ext.1 / 2 ∧
      -ext.2.1 / 2 ≤ (boxVertex ext c).2.1 ∧ (boxVertex ext c).2.1 ≤ ext.2.1 / 2 ∧
      -ext.2.2 / 2 ≤ (boxVertex ext c).2.2 ∧ (boxVertex ext c).2.2 ≤ ext.2.2 / 2 := by
  obtain ⟨e1, e2, e3⟩ := ext
  simp only at h1 h2 h3
  intro c hc
  simp only [TV.Generated.boxCorners, List.mem_cons, List.mem_nil_iff, or_false] at hc
  rcases hc with rfl | rfl | rfl | rfl | rfl | rfl | rfl | rfl <;>
    simp only [boxVertex, Nat.cast_zero, Nat.cast_one] <;>
    refine ⟨?_, ?_, ?_, ?_, ?_, ?_⟩ <;> linarith

end TV.Creation
