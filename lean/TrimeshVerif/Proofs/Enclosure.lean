import Mathlib.Data.Finset.Card
import Mathlib.Data.Finset.Image
import Mathlib.Data.Fintype.Basic
import Mathlib.Data.Fintype.Card
import Mathlib.Data.Finset.Range
import Mathlib.Tactic.Linarith
/-
Shells and holes (C14 `polygons.enclosure_tree`): polygons of disjoint or nested simple closed curves are ordered by
containment, a strict order in which the containers of any polygon form a chain.  The code counts, for every polygon,
how many others contain it (its in-degree), calls the even ones roots (shells) and gives a root the polygons of degree
one more that it contains as holes.  Then every polygon of odd degree is the hole of exactly one root.
-/
namespace TV.Enclosure

variable {n : Nat} (C : Fin n → Fin n → Prop) [DecidableRel C]

/-- containment of nested / disjoint regions: a strict order whose up-sets are chains -/
structure Laminar : Prop where
  irrefl : ∀ a, ¬ C a a
  trans : ∀ a b c, C a b → C b c → C a c
  chain : ∀ a b c, C a c → C b c → a = b ∨ C a b ∨ C b a

/-- the polygons that contain `j` -/
def containers (j : Fin n) : Finset (Fin n) := Finset.univ.filter (fun i => C i j)

/-- `contains.in_degree()[j]` -/
def deg (j : Fin n) : Nat := (containers C j).card

theorem mem_containers {i j : Fin n} : i ∈ containers C j ↔ C i j := by simp [containers]

variable {C}

theorem deg_lt (h : Laminar C) {a b : Fin n} (hab : C a b) : deg C a < deg C b := by
  unfold deg
  apply Finset.card_lt_card
  rw [Finset.ssubset_iff_of_subset]
  · exact ⟨a, (mem_containers C).mpr hab, fun hm => h.irrefl a ((mem_containers C).mp hm)⟩
  · intro i hi
    exact (mem_containers C).mpr (h.trans i a b ((mem_containers C).mp hi) hab)

/-- the containers of a polygon have pairwise different degrees -/
theorem deg_injOn (h : Laminar C) (c : Fin n) : Set.InjOn (deg C) (containers C c : Set (Fin n)) := by
  intro a ha b hb hd
  have ha' := (mem_containers C).mp ha
  have hb' := (mem_containers C).mp hb
  rcases h.chain a b c ha' hb' with e | e | e
  · exact e
  · have := deg_lt h e; omega
  · have := deg_lt h e; omega

/-- the degrees of the containers of `c` are exactly `0, 1, …, deg c − 1` -/
theorem image_deg (h : Laminar C) (c : Fin n) :
    (containers C c).image (deg C) = Finset.range (deg C c) := by
  apply Finset.eq_of_subset_of_card_le
  · intro d hd
    obtain ⟨a, ha, rfl⟩ := Finset.mem_image.mp hd
    exact Finset.mem_range.mpr (deg_lt h ((mem_containers C).mp ha))
  · rw [Finset.card_range, Finset.card_image_of_injOn (deg_injOn h c)]
    exact Nat.le_refl _

/-- **every polygon has exactly one container of each smaller degree** -/
theorem exists_unique_container (h : Laminar C) (c : Fin n) (d : Nat) (hd : d < deg C c) :
    ∃! r, C r c ∧ deg C r = d := by
  have : d ∈ (containers C c).image (deg C) := by rw [image_deg h c]; exact Finset.mem_range.mpr hd
  obtain ⟨r, hr, hrd⟩ := Finset.mem_image.mp this
  refine ⟨r, ⟨(mem_containers C).mp hr, hrd⟩, ?_⟩
  rintro r' ⟨hc, hd'⟩
  exact deg_injOn h c ((mem_containers C).mpr hc) hr (by rw [hd', hrd])

/-- **shells and holes**: a polygon of odd degree is the hole of exactly one root - a polygon of even degree, one
    less than its own, that contains it (the rule of `enclosure_tree`: children of a root are the polygons of degree
    `degree[root] + 1` it contains) -/
theorem hole_has_unique_shell (h : Laminar C) (c : Fin n) (hodd : deg C c % 2 = 1) :
    ∃! r, deg C r % 2 = 0 ∧ deg C c = deg C r + 1 ∧ C r c := by
  have hpos : deg C c - 1 < deg C c := by omega
  obtain ⟨r, ⟨hrc, hrd⟩, huniq⟩ := exists_unique_container h c (deg C c - 1) hpos
  refine ⟨r, ⟨by omega, by omega, hrc⟩, ?_⟩
  rintro r' ⟨_, hd, hc⟩
  exact huniq r' ⟨hc, by omega⟩

/-- two holes of the same root do not contain one another, and no root lies between a root and its hole -/
theorem holes_are_siblings (h : Laminar C) (a b : Fin n) (hd : deg C a = deg C b) : ¬ C a b := by
  intro hab; have := deg_lt h hab; omega

end TV.Enclosure
