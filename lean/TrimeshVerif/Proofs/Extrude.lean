import TrimeshVerif.Model.Extrude
import Mathlib.Data.List.Perm.Basic
import Mathlib.Data.List.Perm.Lattice
import Mathlib.Data.List.Nodup
/-
Extrusion of any consistently oriented triangulation is closed and consistently wound (C15): if no directed
edge of the cap occurs twice and no face repeats a vertex, the directed edges of the extruded surface are closed
under reversal (as a multiset).  Proof by permutation algebra on the edge lists.
-/
namespace TV.Extrude
open List

/-- closed under reversal as a multiset -/
def Sym (l : List (Nat × Nat)) : Prop := l ~ l.map Prod.swap

theorem Sym.of_perm {l l' : List (Nat × Nat)} (h : l ~ l') (hs : Sym l') : Sym l :=
  h.trans (hs.trans (h.symm.map _))

theorem Sym.append {a b : List (Nat × Nat)} (ha : Sym a) (hb : Sym b) : Sym (a ++ b) := by
  unfold Sym at *
  rw [map_append]
  exact ha.append hb

theorem swap_swap_map (l : List (Nat × Nat)) : (l.map Prod.swap).map Prod.swap = l := by
  rw [map_map]; simp

/-- `P ++ reverse-of-P` is closed under reversal -/
theorem Sym.pair (p : List (Nat × Nat)) : Sym (p ++ p.map Prod.swap) := by
  unfold Sym
  rw [map_append, swap_swap_map]
  exact perm_append_comm

theorem flatMap_cons_perm {α β : Type} (f : α → β) (g : α → List β) :
    ∀ l : List α, (l.flatMap fun e => f e :: g e) ~ l.map f ++ l.flatMap g
  | [] => by simp
  | x :: t => by
    simp only [flatMap_cons, map_cons, cons_append]
    refine Perm.cons _ ?_
    have ih := flatMap_cons_perm f g t
    calc g x ++ (t.flatMap fun e => f e :: g e) ~ g x ++ (t.map f ++ t.flatMap g) := ih.append_left _
      _ ~ t.map f ++ (g x ++ t.flatMap g) := by
        rw [← append_assoc, ← append_assoc]; exact perm_append_comm.append_right _

def up (e : Nat × Nat) : Nat × Nat := (lift 1 e.1, lift 1 e.2)
def dn (e : Nat × Nat) : Nat × Nat := (lift 0 e.1, lift 0 e.2)
def vert (v : Nat) : Nat × Nat := (lift 0 v, lift 1 v)
def diag (e : Nat × Nat) : Nat × Nat := (lift 1 e.1, lift 0 e.2)

theorem up_swap (e : Nat × Nat) : up e.swap = (up e).swap := rfl
theorem dn_swap (e : Nat × Nat) : dn e.swap = (dn e).swap := rfl

theorem map_up_swap (l : List (Nat × Nat)) : (l.map Prod.swap).map up = (l.map up).map Prod.swap := by
  simp [map_map, Function.comp_def, up_swap]
theorem map_dn_swap (l : List (Nat × Nat)) : (l.map Prod.swap).map dn = (l.map dn).map Prod.swap := by
  simp [map_map, Function.comp_def, dn_swap]

/-- directed edges of the extruded surface, regrouped -/
theorem dirEdges_extrude (cap : List Face) :
    dirEdges (extrude cap) ~
      ((dirEdges cap).map Prod.swap).map dn ++ (dirEdges cap).map up ++
      (((boundary cap).map Prod.swap).map up ++ (boundary cap).map diag ++ ((boundary cap).map Prod.snd).map vert ++
       ((boundary cap).map diag).map Prod.swap ++ (((boundary cap).map Prod.fst).map vert).map Prod.swap ++
       (boundary cap).map dn) := by
  unfold extrude dirEdges
  rw [flatMap_append, flatMap_append]
  refine Perm.append (Perm.append ?_ ?_) ?_
  · -- bottom cap
    rw [flatMap_map, map_flatMap, map_flatMap]
    apply Perm.flatMap_left
    intro f _
    simp only [map_cons, map_nil, dn, Prod.swap]
    exact (Perm.swap _ _ _).trans (Perm.refl _)
  · rw [flatMap_map, map_flatMap]
    apply Perm.of_eq
    congr 1
  · -- walls
    rw [flatMap_assoc]
    simp only [wall, flatMap_cons, flatMap_nil, append_nil, cons_append, nil_append]
    refine (flatMap_cons_perm _ _ _).trans ?_
    simp only [append_assoc]
    refine Perm.append (Perm.of_eq (by simp [map_map, Function.comp_def, up, Prod.swap])) ?_
    refine (flatMap_cons_perm _ _ _).trans ?_
    refine Perm.append (Perm.of_eq (by simp [diag])) ?_
    refine (flatMap_cons_perm _ _ _).trans ?_
    refine Perm.append (Perm.of_eq (by simp [map_map, Function.comp_def, vert])) ?_
    refine (flatMap_cons_perm _ _ _).trans ?_
    refine Perm.append (Perm.of_eq (by simp [map_map, Function.comp_def, diag, Prod.swap])) ?_
    refine (flatMap_cons_perm _ _ _).trans ?_
    refine Perm.append (Perm.of_eq (by simp [map_map, Function.comp_def, vert, Prod.swap])) ?_
    refine (flatMap_cons_perm _ _ _).trans ?_
    have : flatMap (fun _ : Nat × Nat => ([] : List (Nat × Nat))) (boundary cap) = [] := by
      induction boundary cap with
      | nil => rfl
      | cons _ _ ih => simpa using ih
    rw [this, append_nil]
    exact Perm.of_eq rfl

end TV.Extrude

namespace TV.Extrude
open List

theorem sortE_eq_iff (d e : Nat × Nat) : sortE d = sortE e ↔ d = e ∨ d = e.swap := by
  obtain ⟨a, b⟩ := d; obtain ⟨x, y⟩ := e
  unfold sortE
  simp only [Prod.mk.injEq, Prod.swap]
  omega

theorem countP_sortE (e : Nat × Nat) (hne : e ≠ e.swap) : ∀ l : List (Nat × Nat),
    l.countP (fun d => sortE d == sortE e) = l.countP (· == e) + l.countP (· == e.swap)
  | [] => rfl
  | d :: t => by
    have ih := countP_sortE e hne t
    have key := sortE_eq_iff d e
    rw [countP_cons, countP_cons, countP_cons, ih]
    by_cases h1 : d = e
    · subst h1
      have h4 : (d == d.swap) = false := by simpa using hne
      simp only [BEq.rfl, if_true, h4]
      simp
      omega
    · by_cases h2 : d = e.swap
      · subst h2
        have h3 : sortE e.swap = sortE e := key.mpr (Or.inr rfl)
        have h4 : (e.swap == e) = false := by simpa using (fun h : e.swap = e => hne h.symm)
        simp only [h3, BEq.rfl, if_true, h4]
        simp
        omega
      · have h3 : (sortE d == sortE e) = false := by
          simpa using (fun h : sortE d = sortE e => by rcases key.mp h with h | h <;> contradiction)
        have h4 : (d == e) = false := by simpa using h1
        have h5 : (d == e.swap) = false := by simpa using h2
        simp only [h3, h4, h5]
        simp

/-- under the hypotheses, the code's boundary test (undirected edge occurs once) says: the reversed edge is absent -/
theorem boundary_eq (cap : List Face) (hN : (dirEdges cap).Nodup) (hL : ∀ e ∈ dirEdges cap, e.1 ≠ e.2) :
    boundary cap = (dirEdges cap).filter (fun e => !(dirEdges cap).contains e.swap) := by
  unfold boundary
  apply filter_congr
  intro e he
  set D := dirEdges cap with hD
  have hne : e ≠ e.swap := by
    intro h; apply hL e he
    have := congrArg Prod.fst h; simpa using this
  -- count of the undirected edge = #(e in D) + #(reverse of e in D)
  have hc : (D.map sortE).count (sortE e) = D.count e + D.count e.swap := by
    rw [count_eq_countP, countP_map, count_eq_countP, count_eq_countP]
    have := countP_sortE e hne D
    simpa [Function.comp_def] using this
  rw [hc, count_eq_one_of_mem hN he]
  by_cases hs : e.swap ∈ D
  · rw [count_eq_one_of_mem hN hs]; simp [hs]
  · rw [count_eq_zero_of_not_mem hs]; simp [hs]

theorem fst_snd_perm (cap : List Face) : (dirEdges cap).map Prod.fst ~ (dirEdges cap).map Prod.snd := by
  unfold dirEdges
  rw [map_flatMap, map_flatMap]
  apply Perm.flatMap_left
  intro f _
  simp only [map_cons, map_nil]
  -- [a, b, c] ~ [b, c, a]
  exact (perm_append_comm (l₁ := [f.1]) (l₂ := [f.2.1, f.2.2]))

/-- **extrusion of a consistently oriented triangulation is closed and consistently wound** -/
theorem extrude_sym (cap : List Face) (hN : (dirEdges cap).Nodup) (hL : ∀ e ∈ dirEdges cap, e.1 ≠ e.2) :
    Sym (dirEdges (extrude cap)) := by
  set D := dirEdges cap with hD
  set I := D.filter (fun e => D.contains e.swap) with hI
  have hB : boundary cap = D.filter (fun e => !D.contains e.swap) := boundary_eq cap hN hL
  set B := boundary cap with hBdef
  have hDIB : D ~ I ++ B := by
    rw [hB]; exact (filter_append_perm _ D).symm
  -- interior edges come in opposite pairs
  have hIsym : I ~ I.map Prod.swap := by
    have n1 : I.Nodup := hN.filter _
    have n2 : (I.map Prod.swap).Nodup := n1.map (fun a b h => by
      have := congrArg Prod.swap h; simpa using this)
    rw [perm_ext_iff_of_nodup n1 n2]
    intro x
    simp only [hI, mem_filter, mem_map, contains_iff_mem]
    constructor
    · rintro ⟨h1, h2⟩
      exact ⟨x.swap, ⟨h2, by simpa using h1⟩, by simp⟩
    · rintro ⟨y, ⟨h1, h2⟩, rfl⟩
      exact ⟨h2, by simpa using h1⟩
  -- boundary edges enter and leave every vertex equally often
  have hbal : B.map Prod.fst ~ B.map Prod.snd := by
    have h1 : D.map Prod.fst ~ D.map Prod.snd := fst_snd_perm cap
    have h2 : I.map Prod.fst ~ I.map Prod.snd := by
      have := hIsym.map Prod.fst
      rw [map_map] at this
      exact this.trans (Perm.of_eq (by simp [Function.comp_def]))
    have h3 : I.map Prod.fst ++ B.map Prod.fst ~ I.map Prod.snd ++ B.map Prod.snd := by
      rw [← map_append, ← map_append]
      exact ((hDIB.map _).symm.trans h1).trans (hDIB.map _)
    exact (perm_append_left_iff _).mp (h3.trans (h2.symm.append_right _))
  -- regroup the edges of the extruded surface into blocks that are each closed under reversal
  refine Sym.of_perm (dirEdges_extrude cap) ?_
  have hT : ((D.map Prod.swap).map dn ++ D.map up ++
      ((B.map Prod.swap).map up ++ B.map diag ++ (B.map Prod.snd).map vert ++
       (B.map diag).map Prod.swap ++ ((B.map Prod.fst).map vert).map Prod.swap ++ B.map dn)) ~
      (I.map up ++ (I.map Prod.swap).map dn ++ (B.map up ++ (B.map up).map Prod.swap) ++
       ((B.map Prod.swap).map dn ++ ((B.map Prod.swap).map dn).map Prod.swap) ++
       (B.map diag ++ (B.map diag).map Prod.swap) ++
       ((B.map Prod.snd).map vert ++ ((B.map Prod.snd).map vert).map Prod.swap)) := by
    rw [perm_iff_count]
    intro x
    have c1 := ((hDIB.map Prod.swap).map dn).count_eq x
    have c2 := (hDIB.map up).count_eq x
    have c3 := (((hbal.map vert).map Prod.swap)).count_eq x
    have e1 : (B.map Prod.swap).map up = (B.map up).map Prod.swap := map_up_swap B
    have e2 : ((B.map Prod.swap).map dn).map Prod.swap = B.map dn := by
      rw [map_dn_swap, swap_swap_map]
    simp only [map_append, count_append, e1, e2] at c1 c2 c3 ⊢
    omega
  refine Sym.of_perm hT ?_
  have sI : Sym (I.map up) := by
    unfold Sym; rw [← map_up_swap]; exact hIsym.map up
  have sI' : Sym ((I.map Prod.swap).map dn) := by
    unfold Sym; rw [← map_dn_swap, swap_swap_map]; exact (hIsym.map dn).symm
  exact ((((sI.append sI').append (Sym.pair _)).append (Sym.pair _)).append (Sym.pair _)).append (Sym.pair _)

end TV.Extrude
