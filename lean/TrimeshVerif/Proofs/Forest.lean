import TrimeshVerif.Model.Forest
namespace TV.Forest

end TV.Forest
