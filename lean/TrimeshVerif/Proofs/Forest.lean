import TrimeshVerif.Model.Forest
/-!
Helper lemmas for C09 (scene-graph forest).  Core Lean only.
-/
namespace TV.Forest

variable {N G : Type} [DecidableEq N]

/-! ### group algebra from `LawfulGroup` -/
section grp
variable [Mul G] [One G] [Inv G] [LawfulGroup G]

theorem g_eq_inv_of_mul_eq_one {a b : G} (h : a * b = 1) : b = a⁻¹ := by
  calc b = 1 * b := (LawfulGroup.one_mul b).symm
    _ = (a⁻¹ * a) * b := by rw [LawfulGroup.inv_mul_cancel]
    _ = a⁻¹ * (a * b) := LawfulGroup.mul_assoc _ _ _
    _ = a⁻¹ * 1 := by rw [h]
    _ = a⁻¹ := LawfulGroup.mul_one _

theorem g_inv_inv (a : G) : (a⁻¹)⁻¹ = a :=
  (g_eq_inv_of_mul_eq_one (LawfulGroup.inv_mul_cancel a)).symm

theorem g_inv_one : (1 : G)⁻¹ = 1 :=
  (g_eq_inv_of_mul_eq_one (LawfulGroup.one_mul (1 : G))).symm

theorem g_mul_inv_rev (a b : G) : (a * b)⁻¹ = b⁻¹ * a⁻¹ := by
  symm
  apply g_eq_inv_of_mul_eq_one
  calc a * b * (b⁻¹ * a⁻¹) = a * (b * (b⁻¹ * a⁻¹)) := LawfulGroup.mul_assoc _ _ _
    _ = a * ((b * b⁻¹) * a⁻¹) := by rw [LawfulGroup.mul_assoc b]
    _ = a * a⁻¹ := by rw [LawfulGroup.mul_inv_cancel, LawfulGroup.one_mul]
    _ = 1 := LawfulGroup.mul_inv_cancel a

/-- `(x⁻¹ y) (y⁻¹ z) = x⁻¹ z` -/
theorem g_telescope (x y z : G) : (x⁻¹ * y) * (y⁻¹ * z) = x⁻¹ * z := by
  calc (x⁻¹ * y) * (y⁻¹ * z) = x⁻¹ * (y * (y⁻¹ * z)) := LawfulGroup.mul_assoc _ _ _
    _ = x⁻¹ * ((y * y⁻¹) * z) := by rw [LawfulGroup.mul_assoc y]
    _ = x⁻¹ * z := by rw [LawfulGroup.mul_inv_cancel, LawfulGroup.one_mul]

/-- the three laws of `T a b = (w a)⁻¹ * w b` -/
theorem g_T_laws (x y z : G) :
    x⁻¹ * x = 1 ∧ x⁻¹ * z = (x⁻¹ * y) * (y⁻¹ * z) ∧ x⁻¹ * y = (y⁻¹ * x)⁻¹ :=
  ⟨LawfulGroup.inv_mul_cancel x, (g_telescope x y z).symm, by rw [g_mul_inv_rev, g_inv_inv]⟩

/-- `x⁻¹ (x g) = g` -/
theorem g_inv_mul_mul (x g : G) : x⁻¹ * (x * g) = g := by
  rw [← LawfulGroup.mul_assoc, LawfulGroup.inv_mul_cancel, LawfulGroup.one_mul]

end grp

/-! ### association-list lookups -/

theorem lookup_some_mem {α β : Type} [BEq α] [LawfulBEq α] {l : List (α × β)} {k : α} {v : β}
    (h : (l.find? (fun p => p.1 == k)).map (·.2) = some v) : (k, v) ∈ l := by
  cases hf : l.find? (fun p => p.1 == k) with
  | none => simp [hf] at h
  | some e =>
    rw [hf] at h
    have h1 := List.find?_some hf
    have h2 := List.mem_of_find?_eq_some hf
    simp at h h1
    obtain ⟨a, b⟩ := e
    simp at h h1
    subst h; subst h1; exact h2

theorem lookup_of_mem_nodup {α β : Type} [BEq α] [LawfulBEq α] {l : List (α × β)} {k : α} {v : β}
    (hn : (l.map (·.1)).Nodup) (hm : (k, v) ∈ l) :
    (l.find? (fun p => p.1 == k)).map (·.2) = some v := by
  induction l with
  | nil => simp at hm
  | cons e t ih =>
    obtain ⟨a, b⟩ := e
    simp only [List.map_cons, List.nodup_cons] at hn
    simp only [List.mem_cons, Prod.mk.injEq] at hm
    rcases hm with ⟨rfl, rfl⟩ | hm
    · simp
    · have hne : a ≠ k := by
        intro hak; subst hak
        exact hn.1 (List.mem_map.mpr ⟨(a, v), hm, rfl⟩)
      simp [hne, ih hn.2 hm]

theorem lookup_none {α β : Type} [BEq α] [LawfulBEq α] {l : List (α × β)} {k : α}
    (h : ∀ e ∈ l, e.1 ≠ k) : (l.find? (fun p => p.1 == k)).map (·.2) = none := by
  have : l.find? (fun p => p.1 == k) = none := by
    rw [List.find?_eq_none]; intro x hx; simpa using h x hx
  simp [this]

theorem lookup_none_imp {α β : Type} [BEq α] [LawfulBEq α] {l : List (α × β)} {k : α}
    (h : (l.find? (fun p => p.1 == k)).map (·.2) = none) : ∀ e ∈ l, e.1 ≠ k := by
  intro e he
  cases hf : l.find? (fun p => p.1 == k) with
  | none => rw [List.find?_eq_none] at hf; simpa using hf e he
  | some x => simp [hf] at h

theorem parentOf_mem {f : Forest N G} {v p : N} (h : parentOf f v = some p) : (v, p) ∈ f.parents :=
  lookup_some_mem h

theorem parentOf_of_mem {f : Forest N G} {v p : N} (hn : (f.parents.map (·.1)).Nodup)
    (h : (v, p) ∈ f.parents) : parentOf f v = some p :=
  lookup_of_mem_nodup hn h

theorem edgeOf_mem {f : Forest N G} {u v : N} {g : G} (h : edgeOf f u v = some g) :
    ((u, v), g) ∈ f.edges :=
  lookup_some_mem h

theorem edgeOf_of_mem {f : Forest N G} {u v : N} {g : G} (hn : (f.edges.map (·.1)).Nodup)
    (h : ((u, v), g) ∈ f.edges) : edgeOf f u v = some g :=
  lookup_of_mem_nodup hn h

/-! ### well-formedness with an explicit rank -/

structure WFr (f : Forest N G) (rank : N → Nat) : Prop where
  parents_nodup : (f.parents.map (·.1)).Nodup
  edges_nodup : (f.edges.map (·.1)).Nodup
  consistent : ∀ u v, (v, u) ∈ f.parents ↔ ∃ g, ((u, v), g) ∈ f.edges
  acyclic : ∀ p ∈ f.parents, rank p.2 < rank p.1

/-! ### complete ancestor chains -/

inductive Chain (f : Forest N G) : N → List N → Prop
  | root {x : N} : parentOf f x = none → Chain f x [x]
  | step {x p : N} {l : List N} : parentOf f x = some p → Chain f p l → Chain f x (x :: l)

theorem Chain.head {f : Forest N G} {x : N} {l : List N} (h : Chain f x l) : ∃ t, l = x :: t := by
  cases h with
  | root _ => exact ⟨[], rfl⟩
  | step _ _ => exact ⟨_, rfl⟩

theorem Chain.unique {f : Forest N G} {x : N} {l₁ l₂ : List N} (h₁ : Chain f x l₁)
    (h₂ : Chain f x l₂) : l₁ = l₂ := by
  induction h₁ generalizing l₂ with
  | root hx =>
    cases h₂ with
    | root _ => rfl
    | step hp _ => rw [hx] at hp; cases hp
  | step hp _ ih =>
    cases h₂ with
    | root hx => rw [hx] at hp; cases hp
    | step hp' hc =>
      rw [hp] at hp'; cases hp'
      rw [ih hc]

theorem Chain.ancestors_eq {f : Forest N G} {x : N} {l : List N} (h : Chain f x l) :
    ∀ n, l.length ≤ n + 1 → ancestors f n x = l := by
  induction h with
  | root hx =>
    intro n _
    cases n with
    | zero => rfl
    | succ n => simp [ancestors, hx]
  | @step x p l hp hc ih =>
    intro n hn
    cases n with
    | zero =>
      obtain ⟨t, rfl⟩ := hc.head
      simp at hn
    | succ n =>
      simp only [List.length_cons] at hn
      simp [ancestors, hp, ih n (by omega)]

theorem chain_exists {f : Forest N G} {rank : N → Nat}
    (hac : ∀ p ∈ f.parents, rank p.2 < rank p.1) (x : N) : ∃ l, Chain f x l := by
  induction hr : rank x using Nat.strongRecOn generalizing x with
  | _ r ih =>
    cases hp : parentOf f x with
    | none => exact ⟨[x], .root hp⟩
    | some p =>
      have := hac _ (parentOf_mem hp)
      obtain ⟨l, hl⟩ := ih (rank p) (by simpa [hr] using this) p rfl
      exact ⟨x :: l, .step hp hl⟩

/-- a chain is `kids ++ [root]` where the kids are distinct children -/
theorem Chain.kids {f : Forest N G} {rank : N → Nat}
    (hac : ∀ p ∈ f.parents, rank p.2 < rank p.1) {x : N} {l : List N} (h : Chain f x l) :
    (∀ y ∈ l, rank y ≤ rank x) ∧
    ∃ k r, l = k ++ [r] ∧ k.Nodup ∧ ∀ y ∈ k, y ∈ f.parents.map (·.1) := by
  induction h with
  | @root x hx => exact ⟨by simp, [], x, rfl, by simp, by simp⟩
  | @step x p l hp hc ih =>
    obtain ⟨hrk, k, r, rfl, hk, hsub⟩ := ih
    have hlt := hac _ (parentOf_mem hp)
    simp only at hlt
    refine ⟨?_, x :: k, r, rfl, ?_, ?_⟩
    · intro y hy
      rcases List.mem_cons.mp hy with rfl | hy
      · exact Nat.le_refl _
      · have := hrk y hy; omega
    · rw [List.nodup_cons]
      refine ⟨fun hx => ?_, hk⟩
      have := hrk x (List.mem_append_left _ hx); omega
    · intro y hy
      rcases List.mem_cons.mp hy with rfl | hy
      · exact List.mem_map.mpr ⟨_, parentOf_mem hp, rfl⟩
      · exact hsub y hy

theorem Chain.length_le {f : Forest N G} {rank : N → Nat}
    (hac : ∀ p ∈ f.parents, rank p.2 < rank p.1) {x : N} {l : List N} (h : Chain f x l) :
    l.length ≤ f.parents.length + 1 := by
  obtain ⟨_, k, r, rfl, hk, hsub⟩ := h.kids hac
  have := List.Nodup.length_le_of_subset hk (fun y hy => hsub y hy)
  simp at this ⊢; exact this

/-- the ancestors chain with the model's fuel -/
abbrev anc (f : Forest N G) (x : N) : List N := ancestors f f.parents.length x

theorem chain_anc {f : Forest N G} {rank : N → Nat}
    (hac : ∀ p ∈ f.parents, rank p.2 < rank p.1) (x : N) : Chain f x (anc f x) := by
  obtain ⟨l, hl⟩ := chain_exists hac x
  rw [show anc f x = l from hl.ancestors_eq _ (hl.length_le hac)]
  exact hl

theorem anc_root {f : Forest N G} {rank : N → Nat}
    (hac : ∀ p ∈ f.parents, rank p.2 < rank p.1) {x : N} (hp : parentOf f x = none) :
    anc f x = [x] :=
  (chain_anc hac x).unique (.root hp)

theorem anc_step {f : Forest N G} {rank : N → Nat}
    (hac : ∀ p ∈ f.parents, rank p.2 < rank p.1) {x p : N} (hp : parentOf f x = some p) :
    anc f x = x :: anc f p :=
  (chain_anc hac x).unique (.step hp (chain_anc hac p))

theorem self_mem_anc (f : Forest N G) (x : N) : x ∈ anc f x := by
  unfold anc
  cases f.parents.length with
  | zero => simp [ancestors]
  | succ n => simp only [ancestors]; split <;> simp

/-! ### world matrices: fuel independence and the step equation -/
section world
variable [Mul G] [One G] [Inv G]

omit [Inv G] in
theorem Chain.world_eq {f : Forest N G} {x : N} {l : List N} (h : Chain f x l) :
    ∀ n m, l.length ≤ n + 1 → l.length ≤ m + 1 → world f n x = world f m x := by
  induction h with
  | root hx =>
    intro n m _ _
    cases n <;> cases m <;> simp [world, hx]
  | @step x p l hp hc ih =>
    intro n m hn hm
    obtain ⟨t, rfl⟩ := hc.head
    simp only [List.length_cons] at hn hm
    cases n with
    | zero => omega
    | succ n =>
      cases m with
      | zero => omega
      | succ m =>
        simp only [world, hp]
        rw [ih n m (by simp; omega) (by simp; omega)]

omit [Inv G] in
theorem world_parent {f : Forest N G} {rank : N → Nat}
    (hac : ∀ p ∈ f.parents, rank p.2 < rank p.1) {x p : N} (hp : parentOf f x = some p) :
    world f f.parents.length x =
      match edgeOf f p x with
      | some g => world f f.parents.length p * g
      | none => world f f.parents.length p := by
  have hc := chain_anc hac p
  have hx : Chain f x (x :: anc f p) := .step hp hc
  have hlen := hx.length_le hac
  simp only [List.length_cons] at hlen
  cases hn : f.parents.length with
  | zero => rw [hn] at hlen; obtain ⟨t, ht⟩ := hc.head; rw [ht] at hlen; simp at hlen
  | succ n =>
    rw [hn] at hlen
    have e : world f (n + 1) x =
        (match edgeOf f p x with
         | some g => world f n p * g
         | none => world f n p) := by simp only [world, hp]; rfl
    rw [e, hc.world_eq n (n + 1) (by omega) (by omega)]

omit [Inv G] in
theorem world_root {f : Forest N G} {x : N} (hp : parentOf f x = none) (n : Nat) :
    world f n x = 1 := by
  cases n <;> simp [world, hp]

omit [Inv G] in
/-- `world(v) = world(u) · g` for every edge `((u, v), g)` -/
theorem world_edge {f : Forest N G} {rank : N → Nat} (h : WFr f rank) {u v : N} {g : G}
    (he : ((u, v), g) ∈ f.edges) :
    world f f.parents.length v = world f f.parents.length u * g := by
  have hp : parentOf f v = some u := parentOf_of_mem h.parents_nodup ((h.consistent u v).mpr ⟨g, he⟩)
  rw [world_parent h.acyclic hp, edgeOf_of_mem h.edges_nodup he]

omit [Mul G] [One G] [Inv G] in
/-- a child → parent step: no forward edge, the backward edge exists -/
theorem edges_of_parent {f : Forest N G} {rank : N → Nat} (h : WFr f rank) {x p : N}
    (hp : parentOf f x = some p) : edgeOf f x p = none ∧ ∃ g, edgeOf f p x = some g := by
  have hm := parentOf_mem hp
  constructor
  · cases he : edgeOf f x p with
    | none => rfl
    | some g =>
      have h1 := (h.consistent x p).mpr ⟨g, edgeOf_mem he⟩
      have := h.acyclic _ hm; have := h.acyclic _ h1
      simp only at *; omega
  · obtain ⟨g, hg⟩ := (h.consistent p x).mp hm
    exact ⟨g, edgeOf_of_mem h.edges_nodup hg⟩

end world

/-! ### products along paths -/
section paths
variable [Mul G] [One G] [Inv G]

theorem pathProduct_cons_cons (f : Forest N G) (a b : N) (t : List N) :
    pathProduct f (a :: b :: t) =
      (stepMatrix f a b).bind fun m => (pathProduct f (b :: t)).bind fun r => some (m * r) := rfl

variable [LawfulGroup G]

theorem pathProduct_append {f : Forest N G} {x : N} {l₂ : List N} {m₂ : G}
    (h₂ : pathProduct f (x :: l₂) = some m₂) :
    ∀ (l₁ : List N) (m₁ : G), pathProduct f (l₁ ++ [x]) = some m₁ →
      pathProduct f (l₁ ++ x :: l₂) = some (m₁ * m₂) := by
  intro l₁
  induction l₁ with
  | nil =>
    intro m₁ h₁
    simp [pathProduct] at h₁
    subst h₁
    simpa [LawfulGroup.one_mul] using h₂
  | cons a t ih =>
    intro m₁ h₁
    cases t with
    | nil =>
      simp only [List.nil_append, List.cons_append, pathProduct_cons_cons] at h₁ ⊢
      cases hs : stepMatrix f a x with
      | none => simp [hs] at h₁
      | some m =>
        simp [hs, pathProduct] at h₁
        subst h₁
        simp [h₂, LawfulGroup.mul_one]
    | cons b t =>
      simp only [List.cons_append, pathProduct_cons_cons] at h₁ ⊢
      cases hs : stepMatrix f a b with
      | none => simp [hs] at h₁
      | some m =>
        cases hr : pathProduct f (b :: (t ++ [x])) with
        | none => simp [hs, hr] at h₁
        | some r =>
          simp [hs, hr] at h₁
          subst h₁
          have := ih r (by simpa using hr)
          simp only [List.cons_append] at this
          simp [this, LawfulGroup.mul_assoc]

theorem takeWhile_ne_head {x link : N} (t : List N) :
    ∃ r, (x :: t).takeWhile (· != link) ++ [link] = x :: r := by
  by_cases h : x = link
  · subst h; exact ⟨[], by simp⟩
  · exact ⟨t.takeWhile (· != link) ++ [link], by simp [h]⟩

theorem takeWhile_ne_last {x link : N} (t : List N) :
    ∃ r, link :: ((x :: t).takeWhile (· != link)).reverse = r ++ [x] := by
  by_cases h : x = link
  · subst h; exact ⟨[], by simp⟩
  · exact ⟨link :: (t.takeWhile (· != link)).reverse, by simp [h]⟩

/-- walking up from `a` to an ancestor `link` -/
theorem pathProduct_up {f : Forest N G} {rank : N → Nat} (h : WFr f rank) {a link : N}
    {l : List N} (hc : Chain f a l) (hl : link ∈ l) :
    pathProduct f (l.takeWhile (· != link) ++ [link]) =
      some ((world f f.parents.length a)⁻¹ * world f f.parents.length link) := by
  induction hc with
  | @root x hx =>
    simp at hl; subst hl
    simp [pathProduct, LawfulGroup.inv_mul_cancel]
  | @step x p l hp hc ih =>
    by_cases hxl : x = link
    · subst hxl
      simp [pathProduct, LawfulGroup.inv_mul_cancel]
    · have hl' : link ∈ l := by
        rcases List.mem_cons.mp hl with h1 | h1
        · exact absurd h1.symm hxl
        · exact h1
      have ih := ih hl'
      obtain ⟨t, rfl⟩ := hc.head
      obtain ⟨r, hr⟩ := takeWhile_ne_head (x := p) (link := link) t
      rw [hr] at ih
      have : (x :: p :: t).takeWhile (· != link) ++ [link] = x :: p :: r := by
        rw [List.takeWhile_cons]; simp [hxl]; exact hr
      rw [this, pathProduct_cons_cons, ih]
      obtain ⟨he1, g, he2⟩ := edges_of_parent h hp
      have hw := world_parent h.acyclic hp
      rw [he2] at hw
      simp only [stepMatrix, he1, he2, Option.map_some, Option.bind_some]
      rw [hw, g_mul_inv_rev, LawfulGroup.mul_assoc]

/-- walking down from an ancestor `link` to `b` -/
theorem pathProduct_down {f : Forest N G} {rank : N → Nat} (h : WFr f rank) {b link : N}
    {l : List N} (hc : Chain f b l) (hl : link ∈ l) :
    pathProduct f (link :: (l.takeWhile (· != link)).reverse) =
      some ((world f f.parents.length link)⁻¹ * world f f.parents.length b) := by
  induction hc with
  | @root x hx =>
    simp at hl; subst hl
    simp [pathProduct, LawfulGroup.inv_mul_cancel]
  | @step x p l hp hc ih =>
    by_cases hxl : x = link
    · subst hxl
      simp [pathProduct, LawfulGroup.inv_mul_cancel]
    · have hl' : link ∈ l := by
        rcases List.mem_cons.mp hl with h1 | h1
        · exact absurd h1.symm hxl
        · exact h1
      have ih := ih hl'
      obtain ⟨t, rfl⟩ := hc.head
      obtain ⟨r, hr⟩ := takeWhile_ne_last (x := p) (link := link) t
      rw [hr] at ih
      have : link :: ((x :: p :: t).takeWhile (· != link)).reverse = r ++ p :: [x] := by
        rw [List.takeWhile_cons]; simp [hxl]
        have := congrArg (· ++ [x]) hr
        simpa using this
      rw [this]
      obtain ⟨he1, g, he2⟩ := edges_of_parent h hp
      have hw := world_parent h.acyclic hp
      rw [he2] at hw
      have h2 : pathProduct f (p :: [x]) = some g := by
        simp [stepMatrix, he2, pathProduct, LawfulGroup.mul_one]
      rw [pathProduct_append h2 r _ ih, hw, LawfulGroup.mul_assoc]

/-- any common ancestor gives the product `world(a)⁻¹ · world(b)` -/
theorem pathProduct_updown {f : Forest N G} {rank : N → Nat} (h : WFr f rank) {a b link : N}
    (ha : link ∈ anc f a) (hb : link ∈ anc f b) :
    pathProduct f ((anc f a).takeWhile (· != link) ++ [link] ++
        ((anc f b).takeWhile (· != link)).reverse) =
      some ((world f f.parents.length a)⁻¹ * world f f.parents.length b) := by
  have h1 := pathProduct_up h (chain_anc h.acyclic a) ha
  have h2 := pathProduct_down h (chain_anc h.acyclic b) hb
  rw [List.append_assoc, List.singleton_append, pathProduct_append h2 _ _ h1, g_telescope]

end paths

/-! ### roots and the specification of `getRaw` -/

theorem Chain.suffix {f : Forest N G} {x : N} {l : List N} (h : Chain f x l) {y : N} (hy : y ∈ l) :
    ∃ pre l', l = pre ++ l' ∧ Chain f y l' := by
  induction h with
  | @root x hx =>
    simp at hy; subst hy
    exact ⟨[], [y], rfl, .root hx⟩
  | @step x p l hp hc ih =>
    by_cases hxy : y = x
    · subst hxy; exact ⟨[], y :: l, rfl, .step hp hc⟩
    · rcases List.mem_cons.mp hy with h1 | h1
      · exact absurd h1 hxy
      · obtain ⟨pre, l', e, hc'⟩ := ih h1
        exact ⟨x :: pre, l', by rw [e]; rfl, hc'⟩

theorem rootOf_eq_of_common {f : Forest N G} {rank : N → Nat}
    (hac : ∀ p ∈ f.parents, rank p.2 < rank p.1) {a b link : N}
    (ha : link ∈ anc f a) (hb : link ∈ anc f b) : rootOf f a = rootOf f b := by
  obtain ⟨pre₁, l₁, e₁, c₁⟩ := (chain_anc hac a).suffix ha
  obtain ⟨pre₂, l₂, e₂, c₂⟩ := (chain_anc hac b).suffix hb
  have := c₁.unique c₂; subst this
  obtain ⟨t, rfl⟩ := c₁.head
  unfold rootOf
  simp only [anc] at e₁ e₂
  rw [e₁, e₂]
  simp [List.getLast?_append, List.getLast?_cons]

theorem rootOf_mem {f : Forest N G} (a : N) : rootOf f a ∈ anc f a := by
  have key : ∀ l : List N, a ∈ l → l.getLastD a ∈ l := by
    intro l hm
    cases l with
    | nil => simp at hm
    | cons x t =>
      rw [List.getLastD_eq_getLast?, List.getLast?_eq_some_getLast (List.cons_ne_nil x t)]
      exact List.getLast_mem _
  exact key _ (self_mem_anc f a)

section roots
variable [Mul G] [One G] [Inv G] [LawfulGroup G]

theorem pathTo_product {f : Forest N G} {rank : N → Nat} (h : WFr f rank) (a b : N) :
    (pathTo f a b).bind (pathProduct f) =
      if rootOf f a = rootOf f b
      then some ((world f f.parents.length a)⁻¹ * world f f.parents.length b) else none := by
  unfold pathTo
  simp only
  cases hf : (anc f a).find? (fun x => (anc f b).contains x) with
  | none =>
    simp only [anc] at hf
    simp only [Option.bind_none]
    rw [if_neg]
    intro hr
    rw [List.find?_eq_none] at hf
    have := hf _ (rootOf_mem a)
    rw [hr] at this
    exact this (by simpa using rootOf_mem (f := f) b)
  | some link =>
    have ha := List.mem_of_find?_eq_some hf
    have hb : link ∈ anc f b := by simpa using List.find?_some hf
    simp only [anc] at hf
    simp only [Option.bind_some]
    rw [if_pos (rootOf_eq_of_common h.acyclic ha hb)]
    exact pathProduct_updown h ha hb

theorem getRaw_spec {f : Forest N G} {rank : N → Nat} (h : WFr f rank) (a b : N) :
    getRaw f a b =
      if rootOf f a = rootOf f b
      then some ((world f f.parents.length a)⁻¹ * world f f.parents.length b) else none := by
  unfold getRaw
  by_cases hab : a = b
  · subst hab; simp [LawfulGroup.inv_mul_cancel]
  · rw [if_neg hab]
    cases he : edgeOf f a b with
    | some g =>
      have hm := edgeOf_mem he
      have hp : parentOf f b = some a :=
        parentOf_of_mem h.parents_nodup ((h.consistent a b).mpr ⟨g, hm⟩)
      have hr : rootOf f a = rootOf f b :=
        rootOf_eq_of_common h.acyclic (self_mem_anc f a)
          (by rw [anc_step h.acyclic hp]; exact List.mem_cons_of_mem _ (self_mem_anc f a))
      simp only [hr, if_true]
      rw [world_edge h hm, g_inv_mul_mul]
    | none => exact pathTo_product h a b

/-- in a well-formed forest a cached path for `(b, a)`, reversed, resolves `(a, b)` -/
theorem pathProduct_reverse_pathTo {f : Forest N G} {rank : N → Nat} (h : WFr f rank) (a b : N)
    {p : List N} (hp : pathTo f b a = some p) :
    pathProduct f p.reverse = (pathTo f a b).bind (pathProduct f) := by
  unfold pathTo at hp
  simp only at hp
  cases hf : (anc f b).find? (fun x => (anc f a).contains x) with
  | none => simp only [anc] at hf; rw [hf] at hp; simp at hp
  | some link =>
    have hb := List.mem_of_find?_eq_some hf
    have ha : link ∈ anc f a := by simpa using List.find?_some hf
    simp only [anc] at hf
    rw [hf] at hp
    simp only [Option.some.injEq] at hp
    subst hp
    rw [pathTo_product h a b, if_pos (rootOf_eq_of_common h.acyclic ha hb)]
    have := pathProduct_updown h ha hb
    simpa [List.append_assoc] using this

end roots

/-! ### well-formedness is preserved -/

/-- the structural part of well-formedness (everything but acyclicity) -/
structure WFs (f : Forest N G) : Prop where
  parents_nodup : (f.parents.map (·.1)).Nodup
  edges_nodup : (f.edges.map (·.1)).Nodup
  consistent : ∀ u v, (v, u) ∈ f.parents ↔ ∃ g, ((u, v), g) ∈ f.edges

omit [DecidableEq N] in
theorem WFr.toWFs {f : Forest N G} {rank : N → Nat} (h : WFr f rank) : WFs f :=
  ⟨h.parents_nodup, h.edges_nodup, h.consistent⟩

omit [DecidableEq N] in
theorem wfs_empty : WFs (Forest.empty : Forest N G) :=
  ⟨by simp [Forest.empty], by simp [Forest.empty], by simp [Forest.empty]⟩

omit [DecidableEq N] in
theorem wfr_empty : WFr (Forest.empty : Forest N G) (fun _ => 0) :=
  ⟨wfs_empty.1, wfs_empty.2, wfs_empty.3, by simp [Forest.empty]⟩

theorem removeNode_parents_subset (f : Forest N G) (u : N) :
    ∀ p ∈ (removeNode f u).parents, p ∈ f.parents := by
  intro p hp
  unfold removeNode at hp
  split at hp
  · exact hp
  · exact (List.mem_filter.mp hp).1

theorem wfs_removeNode {f : Forest N G} (h : WFs f) (u : N) : WFs (removeNode f u) := by
  unfold removeNode
  split
  · exact h
  · refine ⟨?_, ?_, ?_⟩
    · exact List.Nodup.sublist (List.Sublist.map _ List.filter_sublist) h.parents_nodup
    · exact List.Nodup.sublist (List.Sublist.map _ List.filter_sublist) h.edges_nodup
    · intro x y
      simp only [List.mem_filter, Bool.and_eq_true, bne_iff_ne, ne_eq]
      constructor
      · rintro ⟨hm, hy, hx⟩
        obtain ⟨g, hg⟩ := (h.consistent x y).mp hm
        exact ⟨g, hg, hx, hy⟩
      · rintro ⟨g, hg, hx, hy⟩
        exact ⟨(h.consistent x y).mpr ⟨g, hg⟩, hy, hx⟩

theorem wfr_removeNode {f : Forest N G} {rank : N → Nat} (h : WFr f rank) (u : N) :
    WFr (removeNode f u) rank :=
  have hs := wfs_removeNode h.toWFs u
  ⟨hs.1, hs.2, hs.3, fun p hp => h.acyclic p (removeNode_parents_subset f u p hp)⟩

/-- the edge list of `addEdge` before the new edge is inserted -/
def addEdgeE (f : Forest N G) (u v : N) : List ((N × N) × G) :=
  match parentOf f v with
  | some p => if p ≠ u then f.edges.filter (fun (e : (N × N) × G) => e.1 != (p, v)) else f.edges
  | none => f.edges

theorem addEdge_eq (f : Forest N G) (u v : N) (g : G) :
    addEdge f u v g =
      { parents := (v, u) :: f.parents.filter (fun p => p.1 != v),
        edges := ((u, v), g) :: (addEdgeE f u v).filter (fun e => e.1 != (u, v)),
        nodes := addNode (addNode f.nodes u) v } := rfl

theorem addEdgeE_sublist (f : Forest N G) (u v : N) : (addEdgeE f u v).Sublist f.edges := by
  unfold addEdgeE
  split
  · split
    · exact List.filter_sublist
    · exact List.Sublist.refl _
  · exact List.Sublist.refl _

theorem addEdgeE_mem_of_ne (f : Forest N G) (u v : N) {x y : N} {g' : G} (hy : y ≠ v) :
    ((x, y), g') ∈ addEdgeE f u v ↔ ((x, y), g') ∈ f.edges := by
  unfold addEdgeE
  split
  · split
    · simp [List.mem_filter, hy]
    · rfl
  · rfl

theorem addEdgeE_child {f : Forest N G} (h : WFs f) (u v : N) {x : N} {g' : G}
    (hm : ((x, v), g') ∈ addEdgeE f u v) : x = u := by
  have hm' := (addEdgeE_sublist f u v).subset hm
  have hp := parentOf_of_mem h.parents_nodup ((h.consistent x v).mpr ⟨g', hm'⟩)
  unfold addEdgeE at hm
  rw [hp] at hm
  simp only at hm
  by_cases hxu : x = u
  · exact hxu
  · rw [if_pos hxu] at hm
    simp [List.mem_filter] at hm

theorem wfs_addEdge {f : Forest N G} (h : WFs f) (u v : N) (g : G) : WFs (addEdge f u v g) := by
  rw [addEdge_eq]
  refine ⟨?_, ?_, ?_⟩
  · simp only [List.map_cons, List.nodup_cons]
    refine ⟨?_, List.Nodup.sublist (List.Sublist.map _ List.filter_sublist) h.parents_nodup⟩
    simp [List.mem_map, List.mem_filter]
  · simp only [List.map_cons, List.nodup_cons]
    refine ⟨?_, List.Nodup.sublist
      (List.Sublist.map _ (List.filter_sublist.trans (addEdgeE_sublist f u v))) h.edges_nodup⟩
    simp [List.mem_map, List.mem_filter]
  · intro x y
    simp only [List.mem_cons, List.mem_filter, Prod.mk.injEq, bne_iff_ne, ne_eq]
    constructor
    · rintro (⟨rfl, rfl⟩ | ⟨hm, hy⟩)
      · exact ⟨g, Or.inl ⟨⟨rfl, rfl⟩, rfl⟩⟩
      · obtain ⟨g', hg'⟩ := (h.consistent x y).mp hm
        exact ⟨g', Or.inr ⟨(addEdgeE_mem_of_ne f u v hy).mpr hg', fun hh => hy hh.2⟩⟩
    · rintro ⟨g', (⟨⟨rfl, rfl⟩, _⟩ | ⟨hm, hne⟩)⟩
      · exact Or.inl ⟨rfl, rfl⟩
      · by_cases hy : y = v
        · subst hy
          exact absurd ⟨addEdgeE_child h u y hm, rfl⟩ hne
        · exact Or.inr ⟨(h.consistent x y).mpr ⟨g', (addEdgeE_mem_of_ne f u v hy).mp hm⟩, hy⟩

theorem wfr_addEdge {f : Forest N G} {rank : N → Nat} (h : WFr f rank) (u v : N) (g : G)
    (hc : v ∉ anc f u) :
    WFr (addEdge f u v g)
      (fun x => rank x + if (anc f x).contains v then rank u + 1 else 0) := by
  have hs := wfs_addEdge h.toWFs u v g
  refine ⟨hs.1, hs.2, hs.3, ?_⟩
  rw [addEdge_eq]
  intro p hp
  rcases List.mem_cons.mp hp with rfl | hp
  · have h1 : (anc f u).contains v = false := by simpa using hc
    have h2 : (anc f v).contains v = true := by simpa using self_mem_anc f v
    simp only [h1, h2, if_true]
    simp
    omega
  · obtain ⟨hp, hne⟩ := List.mem_filter.mp hp
    obtain ⟨c, q⟩ := p
    simp only [bne_iff_ne, ne_eq] at hne
    have hpar := parentOf_of_mem h.parents_nodup hp
    have hlt := h.acyclic _ hp
    simp only at hlt ⊢
    rw [anc_step h.acyclic hpar]
    have : (c :: anc f q).contains v = (anc f q).contains v := by
      simp [Ne.symm hne]
    rw [this]
    omega

/-! ### removal disconnects, updates are visible -/

theorem not_mem_ancestors {f : Forest N G} {u : N} (hpar : ∀ p ∈ f.parents, p.2 ≠ u) :
    ∀ (n : Nat) (w : N), w ≠ u → u ∉ ancestors f n w := by
  intro n
  induction n with
  | zero => intro w hw; simp [ancestors, Ne.symm hw]
  | succ n ih =>
    intro w hw
    simp only [ancestors]
    split
    · rename_i p hp
      have := hpar _ (parentOf_mem hp)
      simp only [List.mem_cons, not_or]
      exact ⟨Ne.symm hw, ih p this⟩
    · simp [Ne.symm hw]

theorem ancestors_of_no_parent {f : Forest N G} {u : N} (hp : parentOf f u = none) (n : Nat) :
    ancestors f n u = [u] := by
  cases n <;> simp [ancestors, hp]

section vis
variable [Mul G] [One G] [Inv G]

theorem getRaw_removeNode {f : Forest N G} {u w : N} (hne : u ≠ w) (hn : hasNode f u = true) :
    getRaw (removeNode f u) u w = none := by
  have hf : removeNode f u =
      { parents := f.parents.filter (fun p => p.1 != u && p.2 != u),
        edges := f.edges.filter (fun e => e.1.1 != u && e.1.2 != u),
        nodes := f.nodes.filter (· != u) } := by
    simp [removeNode, hn]
  generalize removeNode f u = f' at hf
  have hpar1 : ∀ p ∈ f'.parents, p.1 ≠ u := by
    intro p hp; rw [hf] at hp; simp [List.mem_filter] at hp; exact hp.2.1
  have hpar2 : ∀ p ∈ f'.parents, p.2 ≠ u := by
    intro p hp; rw [hf] at hp; simp [List.mem_filter] at hp; exact hp.2.2
  have hedge : ∀ e ∈ f'.edges, e.1 ≠ (u, w) := by
    intro e he; rw [hf] at he; simp [List.mem_filter] at he
    intro h; exact he.2.1 (by rw [h])
  have hpu : parentOf f' u = none := lookup_none hpar1
  have heu : edgeOf f' u w = none := lookup_none hedge
  unfold getRaw
  rw [if_neg hne, heu]
  simp only
  unfold pathTo
  simp only [ancestors_of_no_parent hpu]
  have hnm : u ∉ ancestors f' f'.parents.length w :=
    not_mem_ancestors hpar2 _ w (Ne.symm hne)
  simp [hnm]

theorem getRaw_addEdge {f : Forest N G} {u v : N} (g : G) (hne : u ≠ v) :
    getRaw (addEdge f u v g) u v = some g := by
  unfold getRaw
  rw [if_neg hne, addEdge_eq]
  simp [edgeOf]

end vis

/-! ### overwriting an existing edge does not change any path -/

theorem filter_key_length {l : List (N × N)} {v u : N} (hn : (l.map (·.1)).Nodup)
    (hm : (v, u) ∈ l) : (l.filter (fun p => p.1 != v)).length + 1 = l.length := by
  induction l with
  | nil => simp at hm
  | cons e t ih =>
    obtain ⟨a, b⟩ := e
    simp only [List.map_cons, List.nodup_cons] at hn
    by_cases hav : a = v
    · subst hav
      have : t.filter (fun p => p.1 != a) = t := by
        rw [List.filter_eq_self]
        intro p hp
        have : p.1 ≠ a := fun h => hn.1 (List.mem_map.mpr ⟨p, hp, h⟩)
        simpa using this
      simp [this]
    · have hm' : (v, u) ∈ t := by
        rcases List.mem_cons.mp hm with h | h
        · simp only [Prod.mk.injEq] at h; exact absurd h.1.symm hav
        · exact h
      simp [hav, ih hn.2 hm']

theorem parentOf_addEdge_of_parent {f : Forest N G} {u v : N} (g : G) (hp : parentOf f v = some u)
    (x : N) : parentOf (addEdge f u v g) x = parentOf f x := by
  rw [addEdge_eq]
  unfold parentOf at hp ⊢
  simp only
  by_cases hx : v = x
  · subst hx; simp [hp]
  · rw [List.find?_cons_of_neg (by simpa using hx), List.find?_filter]
    congr 2
    funext a
    by_cases h : a.1 = x
    · simp [h, Ne.symm hx]
    · simp [h]

theorem ancestors_congr {f f' : Forest N G} (h : ∀ x, parentOf f' x = parentOf f x) :
    ∀ n x, ancestors f' n x = ancestors f n x := by
  intro n
  induction n with
  | zero => intro x; rfl
  | succ n ih => intro x; simp only [ancestors, h, ih]

theorem pathTo_congr {f f' : Forest N G} (h : ∀ x, parentOf f' x = parentOf f x)
    (hl : f'.parents.length = f.parents.length) (a b : N) : pathTo f' a b = pathTo f a b := by
  unfold pathTo
  simp only [hl, ancestors_congr h]

theorem pathTo_addEdge_of_edge {f : Forest N G} (h : WFs f) {u v : N} (g : G) {g₀ : G}
    (he : edgeOf f u v = some g₀) (a b : N) : pathTo (addEdge f u v g) a b = pathTo f a b := by
  have hm : (v, u) ∈ f.parents := (h.consistent u v).mpr ⟨g₀, edgeOf_mem he⟩
  have hp := parentOf_of_mem h.parents_nodup hm
  apply pathTo_congr (parentOf_addEdge_of_parent g hp)
  rw [addEdge_eq]
  simpa using filter_key_length h.parents_nodup hm

/-! ### cache coherence -/
section cache
variable [Mul G] [One G] [Inv G] [DecidableEq G]

/-- a cached path for `(b, a)`, reversed, resolves `(a, b)` to the same matrix -/
def PathSym (f : Forest N G) : Prop :=
  ∀ a b p, pathTo f b a = some p → pathProduct f p.reverse = (pathTo f a b).bind (pathProduct f)

structure CacheInv (s : Graph N G) : Prop where
  wfs : WFs s.forest
  memo : s.hashMemo = none ∨ s.hashMemo = some s.forest
  paths : ∀ e ∈ s.pathCache, pathTo s.forest e.1.1 e.1.2 = some e.2
  xs : ∀ h, s.xCacheId = some h → ∀ e ∈ s.xCache, e.2 = getRaw h e.1.1 e.1.2

omit [DecidableEq G] in
theorem cacheInv_init (base : N) : CacheInv (Graph.init base : Graph N G) :=
  ⟨wfs_empty, Or.inl rfl, by simp [Graph.init], by simp [Graph.init]⟩

omit [DecidableEq G] in
theorem cachedPath_spec {s : Graph N G}
    (hp : ∀ e ∈ s.pathCache, pathTo s.forest e.1.1 e.1.2 = some e.2) (hsym : PathSym s.forest)
    (a b : N) :
    (cachedPath s a b).2.forest = s.forest ∧ (cachedPath s a b).2.hashMemo = s.hashMemo ∧
    (cachedPath s a b).2.xCache = s.xCache ∧ (cachedPath s a b).2.xCacheId = s.xCacheId ∧
    (∀ e ∈ (cachedPath s a b).2.pathCache, pathTo s.forest e.1.1 e.1.2 = some e.2) ∧
    (cachedPath s a b).1.bind (pathProduct s.forest) =
      (pathTo s.forest a b).bind (pathProduct s.forest) := by
  unfold cachedPath
  split
  · rename_i e he
    have h1 := hp e (List.mem_of_find?_eq_some he)
    have h2 : e.1 = (a, b) := by simpa using List.find?_some he
    rw [h2] at h1
    simp only at h1
    exact ⟨rfl, rfl, rfl, rfl, hp, by rw [h1]⟩
  · split
    · rename_i e he
      have h1 := hp e (List.mem_of_find?_eq_some he)
      have h2 : e.1 = (b, a) := by simpa using List.find?_some he
      rw [h2] at h1
      simp only at h1
      exact ⟨rfl, rfl, rfl, rfl, hp, by rw [← hsym a b _ h1]; rfl⟩
    · split
      · rename_i p hpath
        refine ⟨rfl, rfl, rfl, rfl, ?_, by rw [hpath]⟩
        intro e he
        rcases List.mem_cons.mp he with rfl | he
        · exact hpath
        · exact hp e he
      · rename_i hpath
        exact ⟨rfl, rfl, rfl, rfl, hp, by rw [hpath]⟩

/-- `Cache.verify()`: refresh the hash memo, dump the transform cache when the id changed -/
def verify (s : Graph N G) : Graph N G :=
  if (currentHash s).2.xCacheId == some (currentHash s).1 then (currentHash s).2
  else { (currentHash s).2 with xCache := [], xCacheId := some (currentHash s).1 }

/-- the cache-miss branch of `get` -/
def compute (s : Graph N G) (a b : N) : Option G × Graph N G :=
  if a = b then ((some 1 : Option G), s)
  else match edgeOf s.forest a b with
    | some g => (some g, s)
    | none => ((cachedPath s a b).1.bind (pathProduct (cachedPath s a b).2.forest),
        (cachedPath s a b).2)

theorem doGet_eq (s : Graph N G) (a b : N) :
    doGet s a b =
      match (verify s).xCache.find? (fun e => e.1 == (a, b)) with
      | some e => (e.2, verify s)
      | none =>
        match (compute (verify s) a b).1 with
        | some g => (some g, { (compute (verify s) a b).2 with
            xCache := ((a, b), some g) :: (compute (verify s) a b).2.xCache })
        | none => (none, (compute (verify s) a b).2) := by
  unfold doGet verify compute
  rfl

omit [DecidableEq N] [Mul G] [One G] [Inv G] [DecidableEq G] in
theorem currentHash_spec {s : Graph N G} (hm : s.hashMemo = none ∨ s.hashMemo = some s.forest) :
    (currentHash s).1 = s.forest ∧ (currentHash s).2.forest = s.forest ∧
    (currentHash s).2.hashMemo = some s.forest ∧ (currentHash s).2.pathCache = s.pathCache ∧
    (currentHash s).2.xCache = s.xCache ∧ (currentHash s).2.xCacheId = s.xCacheId := by
  unfold currentHash
  rcases hm with h | h <;> rw [h] <;> simp [snapshot, h]

theorem verify_spec {s : Graph N G} (hinv : CacheInv s) :
    (verify s).forest = s.forest ∧ (verify s).hashMemo = some s.forest ∧
    (verify s).pathCache = s.pathCache ∧ (verify s).xCacheId = some s.forest ∧
    ∀ e ∈ (verify s).xCache, e.2 = getRaw s.forest e.1.1 e.1.2 := by
  obtain ⟨h1, h2, h3, h4, h5, h6⟩ := currentHash_spec hinv.memo
  unfold verify
  split
  · rename_i hc
    rw [h1, h6] at hc
    have hc : s.xCacheId = some s.forest := by simpa using hc
    refine ⟨h2, h3, h4, by rw [h6, hc], ?_⟩
    rw [h5]
    exact hinv.xs _ hc
  · exact ⟨h2, h3, h4, by simp [h1], by simp⟩

omit [DecidableEq G] in
theorem compute_spec {s : Graph N G}
    (hp : ∀ e ∈ s.pathCache, pathTo s.forest e.1.1 e.1.2 = some e.2) (hsym : PathSym s.forest)
    (a b : N) :
    (compute s a b).1 = getRaw s.forest a b ∧
    (compute s a b).2.forest = s.forest ∧ (compute s a b).2.hashMemo = s.hashMemo ∧
    (compute s a b).2.xCache = s.xCache ∧ (compute s a b).2.xCacheId = s.xCacheId ∧
    (∀ e ∈ (compute s a b).2.pathCache, pathTo s.forest e.1.1 e.1.2 = some e.2) := by
  unfold compute getRaw
  by_cases hab : a = b
  · rw [if_pos hab, if_pos hab]
    exact ⟨rfl, rfl, rfl, rfl, rfl, hp⟩
  · rw [if_neg hab, if_neg hab]
    cases he : edgeOf s.forest a b with
    | some g => exact ⟨rfl, rfl, rfl, rfl, rfl, hp⟩
    | none =>
      obtain ⟨h1, h2, h3, h4, h5, h6⟩ := cachedPath_spec hp hsym a b
      refine ⟨?_, h1, h2, h3, h4, h5⟩
      simp only
      rw [h1]
      exact h6

theorem doGet_spec {s : Graph N G} (hinv : CacheInv s) (hsym : PathSym s.forest) (a b : N) :
    (doGet s a b).1 = getRaw s.forest a b ∧ CacheInv (doGet s a b).2 ∧
      (doGet s a b).2.forest = s.forest := by
  obtain ⟨v1, v2, v3, v4, v5⟩ := verify_spec hinv
  have hpv : ∀ e ∈ (verify s).pathCache,
      pathTo (verify s).forest e.1.1 e.1.2 = some e.2 := by
    rw [v1, v3]; exact hinv.paths
  have hsv : PathSym (verify s).forest := by rw [v1]; exact hsym
  obtain ⟨c1, c2, c3, c4, c5, c6⟩ := compute_spec hpv hsv a b
  rw [v1] at c1 c2 c6
  rw [doGet_eq]
  split
  · rename_i e he
    have hm := List.mem_of_find?_eq_some he
    have hk : e.1 = (a, b) := by simpa using List.find?_some he
    refine ⟨?_, ⟨?_, ?_, ?_, ?_⟩, v1⟩
    · have := v5 e hm
      rw [hk] at this; exact this
    · rw [v1]; exact hinv.wfs
    · rw [v1]; exact Or.inr v2
    · rw [v1, v3]; exact hinv.paths
    · intro h hh e' he'
      rw [v4] at hh; cases hh
      exact v5 e' he'
  · split
    · rename_i g hg
      rw [hg] at c1
      refine ⟨c1, ⟨?_, ?_, ?_, ?_⟩, c2⟩
      · show WFs (compute (verify s) a b).2.forest
        rw [c2]; exact hinv.wfs
      · show _ ∨ (compute (verify s) a b).2.hashMemo = some (compute (verify s) a b).2.forest
        rw [c2, c3]; exact Or.inr v2
      · show ∀ e ∈ (compute (verify s) a b).2.pathCache,
          pathTo (compute (verify s) a b).2.forest e.1.1 e.1.2 = some e.2
        rw [c2]; exact c6
      · intro h hh e' he'
        have hh : (compute (verify s) a b).2.xCacheId = some h := hh
        rw [c5, v4] at hh; cases hh
        have he' : e' ∈ ((a, b), some g) :: (compute (verify s) a b).2.xCache := he'
        rcases List.mem_cons.mp he' with rfl | he'
        · exact c1
        · rw [c4] at he'; exact v5 e' he'
    · rename_i hg
      rw [hg] at c1
      refine ⟨c1, ⟨?_, ?_, ?_, ?_⟩, c2⟩
      · rw [c2]; exact hinv.wfs
      · rw [c2, c3]; exact Or.inr v2
      · rw [c2]; exact c6
      · intro h hh e' he'
        rw [c5, v4] at hh; cases hh
        rw [c4] at he'; exact v5 e' he'

omit [DecidableEq G] in
theorem doAddEdge_inv {t : InvalTable} (ht : t.ok = true) {s : Graph N G} (hinv : CacheInv s)
    (u v : N) (g : G) : CacheInv (doAddEdge t s u v g) := by
  obtain ⟨t1, t2, t3, t4, t5⟩ := t
  simp only [InvalTable.ok, Bool.and_eq_true] at ht
  obtain ⟨⟨⟨⟨rfl, rfl⟩, rfl⟩, rfl⟩, rfl⟩ := ht
  unfold doAddEdge
  refine ⟨wfs_addEdge hinv.wfs u v g, Or.inl rfl, ?_, hinv.xs⟩
  simp only [Bool.and_true]
  cases he : edgeOf s.forest u v with
  | none => simp
  | some g₀ =>
    simp only [Option.isNone_some, Bool.false_eq_true, if_false]
    intro e hm
    rw [pathTo_addEdge_of_edge hinv.wfs g he]
    exact hinv.paths e hm

omit [DecidableEq G] in
theorem doRemoveNode_inv {t : InvalTable} (ht : t.ok = true) {s : Graph N G} (hinv : CacheInv s)
    (u : N) : CacheInv (doRemoveNode t s u) := by
  obtain ⟨t1, t2, t3, t4, t5⟩ := t
  simp only [InvalTable.ok, Bool.and_eq_true] at ht
  obtain ⟨⟨⟨⟨rfl, rfl⟩, rfl⟩, rfl⟩, rfl⟩ := ht
  unfold doRemoveNode
  split
  · exact hinv
  · exact ⟨wfs_removeNode hinv.wfs u, Or.inl rfl, by simp, hinv.xs⟩

theorem step_inv {t : InvalTable} (ht : t.ok = true) {s : Graph N G} (hinv : CacheInv s)
    (hsym : PathSym s.forest) (op : Op N G) : CacheInv (step t s op).2 := by
  cases op with
  | update v u g => exact doAddEdge_inv ht hinv u v g
  | updateBase v g => exact doAddEdge_inv ht hinv s.base v g
  | removeNode u => exact doRemoveNode_inv ht hinv u
  | setBase b => exact ⟨hinv.wfs, hinv.memo, hinv.paths, hinv.xs⟩
  | clear =>
    have h5 : t.clearClearsCache = true := by
      obtain ⟨t1, t2, t3, t4, t5⟩ := t
      simp only [InvalTable.ok, Bool.and_eq_true] at ht
      exact ht.2
    simp only [step, h5, if_true]
    exact cacheInv_init s.base
  | get b a => exact (doGet_spec hinv hsym a b).2.1
  | getBase b => exact (doGet_spec hinv hsym s.base b).2.1

/-- the cache invariant holds along every history whose forests stay path-symmetric
    (`P` is any property of the forests visited that yields path symmetry, e.g. acyclicity) -/
theorem run_inv {t : InvalTable} (ht : t.ok = true) (P : Forest N G → Prop)
    (hP : ∀ f, WFs f → P f → PathSym f) :
    ∀ (ops : List (Op N G)) (s : Graph N G), CacheInv s →
      (∀ k, P (run t s (ops.take k)).forest) → CacheInv (run t s ops) := by
  intro ops
  induction ops with
  | nil => intro s hinv _; exact hinv
  | cons op ops ih =>
    intro s hinv hk
    have h0 : P s.forest := by simpa [run] using hk 0
    have hs := step_inv ht hinv (hP _ hinv.wfs h0) op
    have := ih (step t s op).2 hs (fun k => by simpa [run] using hk (k + 1))
    simpa [run] using this

end cache

/-! ### the cached query agrees with the cache-free one on acyclic histories -/
section final
variable [Mul G] [One G] [Inv G] [LawfulGroup G] [DecidableEq G]

/-- acyclicity of the parent relation -/
def Acyclic (f : Forest N G) : Prop := ∃ rank : N → Nat, ∀ p ∈ f.parents, rank p.2 < rank p.1

omit [DecidableEq N] [Mul G] [One G] [Inv G] [LawfulGroup G] [DecidableEq G] in
theorem WFr.toAcyclic {f : Forest N G} {rank : N → Nat} (h : WFr f rank) : Acyclic f :=
  ⟨rank, h.acyclic⟩

omit [DecidableEq G] in
theorem pathSym_of_acyclic (f : Forest N G) (h : WFs f) (hac : Acyclic f) : PathSym f := by
  obtain ⟨rank, hr⟩ := hac
  intro a b p hp
  exact pathProduct_reverse_pathTo (rank := rank) ⟨h.1, h.2, h.3, hr⟩ a b hp

/-- cache coherence for every history in which the forest is acyclic after each operation
    (the unconditional statement is false: see the 4-cycle counterexample in Props/C09.lean) -/
theorem cached_get_eq_raw_of_acyclic (t : InvalTable) (ht : t.ok = true) (base : N)
    (ops : List (Op N G))
    (hac : ∀ k, Acyclic (run t (Graph.init base) (ops.take k)).forest) (a b : N) :
    (doGet (run t (Graph.init base) ops) a b).1 = getRaw (run t (Graph.init base) ops).forest a b := by
  have hinv := run_inv ht Acyclic pathSym_of_acyclic ops _ (cacheInv_init base) hac
  have hlast : Acyclic (run t (Graph.init base) ops).forest := by
    simpa using hac ops.length
  exact (doGet_spec hinv (pathSym_of_acyclic _ hinv.wfs hlast) a b).1

/-- an operation that does not close a cycle (the analogue of `NoCycle` for `update`) -/
def OpOK (s : Graph N G) : Op N G → Prop
  | .update v u _ => v ∉ anc s.forest u
  | .updateBase v _ => v ∉ anc s.forest s.base
  | _ => True

/-- a history none of whose updates closes a cycle -/
def Safe (t : InvalTable) : Graph N G → List (Op N G) → Prop
  | _, [] => True
  | s, op :: ops => OpOK s op ∧ Safe t (step t s op).2 ops

theorem step_acyclic {t : InvalTable} {s : Graph N G} (hinv : CacheInv s)
    (hac : Acyclic s.forest) (op : Op N G) (hok : OpOK s op) :
    Acyclic (step t s op).2.forest := by
  have hsym := pathSym_of_acyclic _ hinv.wfs hac
  obtain ⟨rank, hr⟩ := hac
  have hw : WFr s.forest rank := ⟨hinv.wfs.1, hinv.wfs.2, hinv.wfs.3, hr⟩
  cases op with
  | update v u g => exact (wfr_addEdge hw u v g hok).toAcyclic
  | updateBase v g => exact (wfr_addEdge hw s.base v g hok).toAcyclic
  | removeNode u =>
    simp only [step, doRemoveNode]
    split
    · exact ⟨rank, hr⟩
    · exact ⟨rank, (wfr_removeNode hw u).acyclic⟩
  | setBase b => exact ⟨rank, hr⟩
  | clear =>
    simp only [step]
    split <;> exact ⟨fun _ => 0, by simp [Graph.init, Forest.empty]⟩
  | get b a =>
    simp only [step]
    rw [(doGet_spec hinv hsym a b).2.2]; exact ⟨rank, hr⟩
  | getBase b =>
    simp only [step]
    rw [(doGet_spec hinv hsym s.base b).2.2]; exact ⟨rank, hr⟩

theorem run_safe {t : InvalTable} (ht : t.ok = true) :
    ∀ (ops : List (Op N G)) (s : Graph N G), CacheInv s → Acyclic s.forest → Safe t s ops →
      CacheInv (run t s ops) ∧ Acyclic (run t s ops).forest := by
  intro ops
  induction ops with
  | nil => intro s hinv hac _; exact ⟨hinv, hac⟩
  | cons op ops ih =>
    intro s hinv hac hs
    have h1 := step_inv ht hinv (pathSym_of_acyclic _ hinv.wfs hac) op
    have h2 := step_acyclic (t := t) hinv hac op hs.1
    have := ih (step t s op).2 h1 h2 hs.2
    simpa [run] using this

/-- cache coherence for every history none of whose updates closes a cycle -/
theorem cached_get_eq_raw_of_safe (t : InvalTable) (ht : t.ok = true) (base : N)
    (ops : List (Op N G)) (hs : Safe t (Graph.init base) ops) (a b : N) :
    (doGet (run t (Graph.init base) ops) a b).1 = getRaw (run t (Graph.init base) ops).forest a b := by
  obtain ⟨hinv, hac⟩ := run_safe ht ops _ (cacheInv_init base)
    ⟨fun _ => 0, by simp [Graph.init, Forest.empty]⟩ hs
  exact (doGet_spec hinv (pathSym_of_acyclic _ hinv.wfs hac) a b).1

end final

end TV.Forest
