import TrimeshVerif.Proofs.Forest
import Mathlib.Data.List.Nodup
/-!
C09: the edge list exported by `to_edgelist`, loaded into a fresh graph by `from_edgelist`, rebuilds a graph that
answers every query as the original does.
-/
namespace TV.Forest

variable {N G : Type} [DecidableEq N]

/-- in a well-formed forest no two edges end in the same child -/
theorem wfs_children_nodup {f : Forest N G} (h : WFs f) : (f.edges.map (·.1.2)).Nodup := by
  have hE : f.edges.Nodup := List.Nodup.of_map _ h.edges_nodup
  refine List.Nodup.map_on ?_ hE
  intro e1 h1 e2 h2 heq
  obtain ⟨⟨u1, v1⟩, g1⟩ := e1
  obtain ⟨⟨u2, v2⟩, g2⟩ := e2
  simp only at heq
  subst heq
  have p1 := parentOf_of_mem h.parents_nodup ((h.consistent u1 v1).mpr ⟨g1, h1⟩)
  have p2 := parentOf_of_mem h.parents_nodup ((h.consistent u2 v1).mpr ⟨g2, h2⟩)
  rw [p1] at p2
  have hu : u1 = u2 := Option.some.inj p2
  subst hu
  have q1 := edgeOf_of_mem h.edges_nodup h1
  have q2 := edgeOf_of_mem h.edges_nodup h2
  rw [q1] at q2
  rw [Option.some.inj q2]

/-- adding edges whose children are all new just stacks them -/
theorem fold_explicit (es : List (N × N × G)) (F : Forest N G)
    (hn : (es.map (·.2.1) ++ F.edges.map (·.1.2)).Nodup)
    (hk : F.parents.map (·.1) = F.edges.map (·.1.2)) :
    (es.foldl (fun f e => addEdge f e.1 e.2.1 e.2.2) F).parents
        = es.reverse.map (fun e => (e.2.1, e.1)) ++ F.parents ∧
    (es.foldl (fun f e => addEdge f e.1 e.2.1 e.2.2) F).edges
        = es.reverse.map (fun e => ((e.1, e.2.1), e.2.2)) ++ F.edges := by
  induction es generalizing F with
  | nil => simp
  | cons e t ih =>
    obtain ⟨u, v, g⟩ := e
    simp only [List.map_cons, List.cons_append, List.nodup_cons, List.mem_append, not_or] at hn
    obtain ⟨⟨_, hvF⟩, hn'⟩ := hn
    -- `v` is no child in `F`
    have hvP : ∀ p ∈ F.parents, p.1 ≠ v := by
      intro p hp hpv
      apply hvF
      rw [← hk]
      exact List.mem_map.mpr ⟨p, hp, hpv⟩
    have hpar : parentOf F v = none := lookup_none hvP
    have hfp : F.parents.filter (fun p => p.1 != v) = F.parents := by
      rw [List.filter_eq_self]
      intro p hp
      simpa using hvP p hp
    have hfe : F.edges.filter (fun e => e.1 != (u, v)) = F.edges := by
      rw [List.filter_eq_self]
      intro e he
      have : e.1.2 ≠ v := fun hev => hvF (List.mem_map.mpr ⟨e, he, hev⟩)
      have hne : e.1 ≠ (u, v) := fun h => this (by rw [h])
      simpa using hne
    have hstep : addEdge F u v g =
        { parents := (v, u) :: F.parents, edges := ((u, v), g) :: F.edges,
          nodes := addNode (addNode F.nodes u) v } := by
      unfold addEdge
      simp only [hpar, hfp, hfe]
    rw [List.foldl_cons]
    show ((t.foldl (fun f e => addEdge f e.1 e.2.1 e.2.2) (addEdge F u v g)).parents = _) ∧ _
    rw [hstep]
    have := ih { parents := (v, u) :: F.parents, edges := ((u, v), g) :: F.edges,
                 nodes := addNode (addNode F.nodes u) v }
      (by
        simp only [List.map_cons]
        rw [List.nodup_append] at hn' ⊢
        refine ⟨hn'.1, ?_, ?_⟩
        · simp only [List.nodup_cons]
          exact ⟨hvF, hn'.2.1⟩
        · intro a ha b hb
          simp only [List.mem_cons] at hb
          rcases hb with rfl | hb
          · intro hab; subst hab; rename_i hvt; exact hvt ha
          · exact hn'.2.2 a ha b hb)
      (by simp [hk])
    simp only [List.reverse_cons, List.map_append, List.map_cons, List.map_nil, List.append_assoc,
      List.singleton_append]
    exact this

/-- the rebuilt forest, explicitly -/
theorem fromEdgelist_eq {f : Forest N G} (h : WFs f) :
    (fromEdgelist (toEdgelist f)).edges = f.edges.reverse ∧
    (fromEdgelist (toEdgelist f)).parents = f.edges.reverse.map (fun e => (e.1.2, e.1.1)) := by
  have hc := wfs_children_nodup h
  have := fold_explicit (toEdgelist f) (Forest.empty : Forest N G)
    (by simpa [toEdgelist, Forest.empty, List.map_map, Function.comp_def] using hc)
    (by simp [Forest.empty])
  unfold fromEdgelist
  constructor
  · rw [this.2]
    simp [toEdgelist, Forest.empty, List.map_reverse, List.map_map, Function.comp_def]
  · rw [this.1]
    simp [toEdgelist, Forest.empty, List.map_reverse, List.map_map, Function.comp_def]

theorem option_ext {α : Type} {a b : Option α} (h : ∀ x, a = some x ↔ b = some x) : a = b := by
  cases a with
  | none =>
    cases b with
    | none => rfl
    | some y => exact absurd ((h y).mpr rfl) (by simp)
  | some x => exact ((h x).mp rfl).symm

/-- **lookups agree** -/
theorem rebuild_lookups {f : Forest N G} (h : WFs f) :
    (∀ u v, edgeOf (fromEdgelist (toEdgelist f)) u v = edgeOf f u v) ∧
    (∀ v, parentOf (fromEdgelist (toEdgelist f)) v = parentOf f v) := by
  obtain ⟨he, hp⟩ := fromEdgelist_eq h
  have hkeys : ((fromEdgelist (toEdgelist f)).edges.map (·.1)).Nodup := by
    rw [he, List.map_reverse]; exact List.nodup_reverse.mpr h.edges_nodup
  have hpk : ((fromEdgelist (toEdgelist f)).parents.map (·.1)).Nodup := by
    rw [hp, List.map_map, List.map_reverse]
    exact List.nodup_reverse.mpr (wfs_children_nodup h)
  constructor
  · intro u v
    apply option_ext
    intro g
    constructor
    · intro hq
      have := edgeOf_mem hq
      rw [he, List.mem_reverse] at this
      exact edgeOf_of_mem h.edges_nodup this
    · intro hq
      have := edgeOf_mem hq
      exact edgeOf_of_mem hkeys (by rw [he, List.mem_reverse]; exact this)
  · intro v
    apply option_ext
    intro u
    constructor
    · intro hq
      have hm := parentOf_mem hq
      rw [hp, List.mem_map] at hm
      obtain ⟨e, hem, heq⟩ := hm
      rw [List.mem_reverse] at hem
      obtain ⟨⟨a, b⟩, g⟩ := e
      simp only [Prod.mk.injEq] at heq
      obtain ⟨rfl, rfl⟩ := heq
      exact parentOf_of_mem h.parents_nodup ((h.consistent _ _).mpr ⟨g, hem⟩)
    · intro hq
      obtain ⟨g, hg⟩ := (h.consistent u v).mp (parentOf_mem hq)
      apply parentOf_of_mem hpk
      rw [hp, List.mem_map]
      exact ⟨((u, v), g), by rw [List.mem_reverse]; exact hg, rfl⟩

/-- parents and edges of a well-formed forest are equally many -/
theorem wfs_lengths {f : Forest N G} (h : WFs f) : f.parents.length = f.edges.length := by
  have h1 : (f.parents.map (fun p => (p.2, p.1))).Nodup := by
    refine List.Nodup.map_on ?_ (List.Nodup.of_map _ h.parents_nodup)
    intro a _ b _ hab
    obtain ⟨a1, a2⟩ := a; obtain ⟨b1, b2⟩ := b
    simp only [Prod.mk.injEq] at hab
    rw [hab.1, hab.2]
  have hperm : (f.parents.map (fun p => (p.2, p.1))).Perm (f.edges.map (·.1)) := by
    rw [List.perm_ext_iff_of_nodup h1 h.edges_nodup]
    intro k
    obtain ⟨u, v⟩ := k
    constructor
    · intro hm
      obtain ⟨p, hp, hpe⟩ := List.mem_map.mp hm
      obtain ⟨p1, p2⟩ := p
      simp only [Prod.mk.injEq] at hpe
      obtain ⟨rfl, rfl⟩ := hpe
      obtain ⟨g, hg⟩ := (h.consistent _ _).mp hp
      exact List.mem_map.mpr ⟨_, hg, rfl⟩
    · intro hm
      obtain ⟨e, he, hee⟩ := List.mem_map.mp hm
      obtain ⟨⟨a, b⟩, g⟩ := e
      simp only [Prod.mk.injEq] at hee
      obtain ⟨rfl, rfl⟩ := hee
      exact List.mem_map.mpr ⟨(b, a), (h.consistent _ _).mpr ⟨g, he⟩, rfl⟩
  simpa using hperm.length_eq

section group
variable [Mul G] [One G] [Inv G]

theorem pathProduct_congr {f f' : Forest N G} (he : ∀ u v, edgeOf f' u v = edgeOf f u v) :
    ∀ l, pathProduct f' l = pathProduct f l := by
  intro l
  induction l with
  | nil => rfl
  | cons a t ih =>
    cases t with
    | nil => rfl
    | cons b t' =>
      simp only [pathProduct, stepMatrix, he] at ih ⊢
      rw [ih]

/-- **the edge list export rebuilds an equivalent graph**: the graph rebuilt by `from_edgelist` from
    `to_edgelist` of a well-formed forest resolves every pair of frames to the same transform (or the same
    "no path") as the original -/
theorem edgelist_roundtrip {f : Forest N G} (h : WFs f) (a b : N) :
    getRaw (fromEdgelist (toEdgelist f)) a b = getRaw f a b := by
  obtain ⟨he, hp⟩ := rebuild_lookups h
  have hl : (fromEdgelist (toEdgelist f)).parents.length = f.parents.length := by
    rw [(fromEdgelist_eq h).2, wfs_lengths h]; simp
  unfold getRaw
  have hpp : pathProduct (fromEdgelist (toEdgelist f)) = pathProduct f := funext (pathProduct_congr he)
  rw [he, pathTo_congr hp hl, hpp]

end group
end TV.Forest
