import TrimeshVerif.Proofs.Mat3
import TrimeshVerif.Generated.C03Frame
/-
Frame law for the inertia tensor (C03): what `Trimesh.moment_inertia_frame` returns (traced from the source:
Generated/C03Frame.lean) is the inertia tensor of the solid about the origin of the frame, expressed in the
axes of the frame.  Two steps: parallel-axis shift from the centroid to the frame origin (an identity of
polynomials once the centre of mass is `first moment / volume`), and the change of axes (needs `RᵀR = RRᵀ = 1`).
-/
namespace TV.FrameLaw
open TV.Mat3 TV.Generated.C03Frame

variable {K : Type} [Field K]

def smulM (s : K) (a : M3 K) : M3 K :=
  ⟨s * a.m00, s * a.m01, s * a.m02, s * a.m10, s * a.m11, s * a.m12, s * a.m20, s * a.m21, s * a.m22⟩
def subM (a b : M3 K) : M3 K :=
  ⟨a.m00 - b.m00, a.m01 - b.m01, a.m02 - b.m02, a.m10 - b.m10, a.m11 - b.m11, a.m12 - b.m12,
   a.m20 - b.m20, a.m21 - b.m21, a.m22 - b.m22⟩
def addM (a b : M3 K) : M3 K :=
  ⟨a.m00 + b.m00, a.m01 + b.m01, a.m02 + b.m02, a.m10 + b.m10, a.m11 + b.m11, a.m12 + b.m12,
   a.m20 + b.m20, a.m21 + b.m21, a.m22 + b.m22⟩
def trM (a : M3 K) : K := a.m00 + a.m11 + a.m22

/-- inertia tensor from a second-moment matrix `Q = ∫ x xᵀ`: `ρ (tr Q · 1 − Q)` -/
def inertiaOf (rho : K) (q : M3 K) : M3 K := smulM rho (subM (smulM (trM q) 1) q)

/-- second moments about the point `p`, from the moments about the origin:
    `∫ (x−p)(x−p)ᵀ = Q − p Fᵀ − F pᵀ + V p pᵀ`
    (`S 0` volume, `S 1..3` first moments, `S 4..6` = xx, yy, zz, `S 7..9` = xy, yz, zx) -/
def secondAbout (S : Fin 10 → K) (p1 p2 p3 : K) : M3 K :=
  ⟨S 4 - 2 * p1 * S 1 + S 0 * p1 * p1, S 7 - p1 * S 2 - p2 * S 1 + S 0 * p1 * p2, S 9 - p3 * S 1 - p1 * S 3 + S 0 * p3 * p1,
   S 7 - p1 * S 2 - p2 * S 1 + S 0 * p1 * p2, S 5 - 2 * p2 * S 2 + S 0 * p2 * p2, S 8 - p2 * S 3 - p3 * S 2 + S 0 * p2 * p3,
   S 9 - p3 * S 1 - p1 * S 3 + S 0 * p3 * p1, S 8 - p2 * S 3 - p3 * S 2 + S 0 * p2 * p3, S 6 - 2 * p3 * S 3 + S 0 * p3 * p3⟩

/-- the exact inertia tensor about the origin `p` of a frame with axes the columns of `R`, in the frame's own
    coordinates `x' = Rᵀ (x − p)`: second moments `Rᵀ Q(p) R`, then `ρ (tr · 1 − ·)` -/
def exactFrame (S : Fin 10 → K) (rho : K) (R : M3 K) (p1 p2 p3 : K) : M3 K :=
  inertiaOf rho (R.transpose * secondAbout S p1 p2 p3 * R)

/-- the tensor at the centre of mass as the code computes it from the ten sums (all six entries) -/
def codeInertia (S : Fin 10 → K) (rho k1 k2 k3 : K) : M3 K :=
  ⟨rho * (S 5 + S 6 - S 0 * (k2 * k2 + k3 * k3)), -(rho * (S 7 - S 0 * k1 * k2)), -(rho * (S 9 - S 0 * k1 * k3)),
   -(rho * (S 7 - S 0 * k1 * k2)), rho * (S 4 + S 6 - S 0 * (k1 * k1 + k3 * k3)), -(rho * (S 8 - S 0 * k2 * k3)),
   -(rho * (S 9 - S 0 * k1 * k3)), -(rho * (S 8 - S 0 * k2 * k3)), rho * (S 4 + S 5 - S 0 * (k1 * k1 + k2 * k2))⟩

/-- the traced output of `moment_inertia_frame`, as a matrix -/
def frameM (R : M3 K) (p1 p2 p3 c1 c2 c3 m : K) (I : M3 K) : M3 K :=
  ⟨frame00 R.m00 R.m01 R.m02 R.m10 R.m11 R.m12 R.m20 R.m21 R.m22 p1 p2 p3 c1 c2 c3 m I.m00 I.m01 I.m02 I.m11 I.m12 I.m22,
   frame01 R.m00 R.m01 R.m02 R.m10 R.m11 R.m12 R.m20 R.m21 R.m22 p1 p2 p3 c1 c2 c3 m I.m00 I.m01 I.m02 I.m11 I.m12 I.m22,
   frame02 R.m00 R.m01 R.m02 R.m10 R.m11 R.m12 R.m20 R.m21 R.m22 p1 p2 p3 c1 c2 c3 m I.m00 I.m01 I.m02 I.m11 I.m12 I.m22,
   frame10 R.m00 R.m01 R.m02 R.m10 R.m11 R.m12 R.m20 R.m21 R.m22 p1 p2 p3 c1 c2 c3 m I.m00 I.m01 I.m02 I.m11 I.m12 I.m22,
   frame11 R.m00 R.m01 R.m02 R.m10 R.m11 R.m12 R.m20 R.m21 R.m22 p1 p2 p3 c1 c2 c3 m I.m00 I.m01 I.m02 I.m11 I.m12 I.m22,
   frame12 R.m00 R.m01 R.m02 R.m10 R.m11 R.m12 R.m20 R.m21 R.m22 p1 p2 p3 c1 c2 c3 m I.m00 I.m01 I.m02 I.m11 I.m12 I.m22,
   frame20 R.m00 R.m01 R.m02 R.m10 R.m11 R.m12 R.m20 R.m21 R.m22 p1 p2 p3 c1 c2 c3 m I.m00 I.m01 I.m02 I.m11 I.m12 I.m22,
   frame21 R.m00 R.m01 R.m02 R.m10 R.m11 R.m12 R.m20 R.m21 R.m22 p1 p2 p3 c1 c2 c3 m I.m00 I.m01 I.m02 I.m11 I.m12 I.m22,
   frame22 R.m00 R.m01 R.m02 R.m10 R.m11 R.m12 R.m20 R.m21 R.m22 p1 p2 p3 c1 c2 c3 m I.m00 I.m01 I.m02 I.m11 I.m12 I.m22⟩

/-- the parallel-axis matrix `|a|² 1 − a aᵀ` -/
def shiftM (a1 a2 a3 : K) : M3 K :=
  ⟨a2 * a2 + a3 * a3, -(a1 * a2), -(a1 * a3), -(a1 * a2), a1 * a1 + a3 * a3, -(a2 * a3),
   -(a1 * a3), -(a2 * a3), a1 * a1 + a2 * a2⟩

/-- (G) the traced code is `Rᵀ (I + m (|a|² 1 − a aᵀ)) R` with `a = p − c`, for a symmetric `I` -/
theorem frameM_eq (R : M3 K) (p1 p2 p3 c1 c2 c3 m : K) (I : M3 K)
    (h01 : I.m10 = I.m01) (h02 : I.m20 = I.m02) (h12 : I.m21 = I.m12) :
    frameM R p1 p2 p3 c1 c2 c3 m I
      = R.transpose * addM I (smulM m (shiftM (p1 - c1) (p2 - c2) (p3 - c3))) * R := by
  obtain ⟨r00, r01, r02, r10, r11, r12, r20, r21, r22⟩ := R
  obtain ⟨i00, i01, i02, i10, i11, i12, i20, i21, i22⟩ := I
  simp only at h01 h02 h12
  subst h01 h02 h12
  show _ = M3.mul (M3.mul _ _) _
  unfold frameM M3.mul M3.transpose addM smulM shiftM
  ext <;> simp only [frame00, frame01, frame02, frame10, frame11, frame12, frame20, frame21, frame22] <;> ring

/-- parallel-axis theorem: the tensor at the centroid plus `m (|a|² 1 − a aᵀ)`, `a = p − centroid`, is the
    inertia about `p` -/
theorem parallel_axis (S : Fin 10 → K) (rho p1 p2 p3 : K) (hV : S 0 ≠ 0) :
    addM (codeInertia S rho (S 1 / S 0) (S 2 / S 0) (S 3 / S 0))
        (smulM (rho * S 0) (shiftM (p1 - S 1 / S 0) (p2 - S 2 / S 0) (p3 - S 3 / S 0)))
      = inertiaOf rho (secondAbout S p1 p2 p3) := by
  simp only [addM, codeInertia, smulM, shiftM, inertiaOf, subM, trM, secondAbout,
    show (1 : M3 K) = M3.one from rfl, M3.one]
  ext <;> simp only <;> field_simp <;> ring

/-- change of axes: for orthonormal `R`, conjugating the inertia tensor is the inertia tensor of the
    conjugated second moments -/
theorem rotate_inertia (rho : K) (R q : M3 K) (h1 : R.transpose * R = 1) (h2 : R * R.transpose = 1) :
    R.transpose * inertiaOf rho q * R = inertiaOf rho (R.transpose * q * R) := by
  obtain ⟨r00, r01, r02, r10, r11, r12, r20, r21, r22⟩ := R
  obtain ⟨q00, q01, q02, q10, q11, q12, q20, q21, q22⟩ := q
  have e1 : M3.mul (M3.transpose ⟨r00, r01, r02, r10, r11, r12, r20, r21, r22⟩) ⟨r00, r01, r02, r10, r11, r12, r20, r21, r22⟩
      = M3.one := h1
  have e2 : M3.mul ⟨r00, r01, r02, r10, r11, r12, r20, r21, r22⟩ (M3.transpose ⟨r00, r01, r02, r10, r11, r12, r20, r21, r22⟩)
      = M3.one := h2
  simp only [M3.mul, M3.transpose, M3.one, M3.mk.injEq] at e1 e2
  obtain ⟨a00, a01, a02, a10, a11, a12, a20, a21, a22⟩ := e1
  obtain ⟨b00, b01, b02, b10, b11, b12, b20, b21, b22⟩ := e2
  show M3.mul (M3.mul _ _) _ = _
  unfold inertiaOf smulM subM trM
  simp only [show (1 : M3 K) = M3.one from rfl, M3.one]
  show _ = M3.mk _ _ _ _ _ _ _ _ _
  simp only [show ∀ a b : M3 K, a * b = M3.mul a b from fun _ _ => rfl, M3.mul, M3.transpose]
  ext <;> simp only
  · linear_combination (rho * (q00 + q11 + q22)) * a00 -
      rho * (q00 * b00 + q01 * b01 + q02 * b02 + q10 * b10 + q11 * b11 + q12 * b12 + q20 * b20 + q21 * b21 + q22 * b22)
  · linear_combination (rho * (q00 + q11 + q22)) * a01
  · linear_combination (rho * (q00 + q11 + q22)) * a02
  · linear_combination (rho * (q00 + q11 + q22)) * a10
  · linear_combination (rho * (q00 + q11 + q22)) * a11 -
      rho * (q00 * b00 + q01 * b01 + q02 * b02 + q10 * b10 + q11 * b11 + q12 * b12 + q20 * b20 + q21 * b21 + q22 * b22)
  · linear_combination (rho * (q00 + q11 + q22)) * a12
  · linear_combination (rho * (q00 + q11 + q22)) * a20
  · linear_combination (rho * (q00 + q11 + q22)) * a21
  · linear_combination (rho * (q00 + q11 + q22)) * a22 -
      rho * (q00 * b00 + q01 * b01 + q02 * b02 + q10 * b10 + q11 * b11 + q12 * b12 + q20 * b20 + q21 * b21 + q22 * b22)

end TV.FrameLaw
