/-
Bridges: the core-`Rat` definitions of Model/GeomRat.lean are the generic-field definitions of
Proofs/{Mat3,Affine,Scene,Remesh}.lean at K = ℚ.
-/
import TrimeshVerif.Model.GeomRat
import TrimeshVerif.Proofs.Scene
import TrimeshVerif.Proofs.Remesh
import TrimeshVerif.Proofs.ToSize
import Mathlib.Algebra.Order.Field.Rat
namespace TV.GeomRat
open TV.Mat3 TV.Affine

/-- the same nine numbers as a generic 3x3 matrix over ℚ -/
def toM3 (a : M3R) : M3 ℚ := ⟨a.m00, a.m01, a.m02, a.m10, a.m11, a.m12, a.m20, a.m21, a.m22⟩
def toInst (i : InstanceR) : TV.Scene.Instance ℚ := ⟨toM3 i.L, i.t, i.pts⟩

/-! ### the definitions coincide (definitional unfolding at ℚ) -/
theorem applyR_eq (L : M3R) (p : V) : applyR L p = (toM3 L).apply p := by
  rfl
theorem detR_eq (L : M3R) : detR L = (toM3 L).det := by
  rfl
theorem mulR_eq (A B : M3R) : toM3 (mulR A B) = toM3 A * toM3 B := by
  rfl
theorem transformR_eq (L : M3R) (t p : V) : transformR L t p = transformPoint (toM3 L) t p := by
  rfl
theorem volR_eq (a b c : V) : volR a b c = vol a b c := by
  rfl
theorem firstR_eq (a b c : V) : firstR a b c = first a b c := by
  rfl
theorem areaVecR_eq (t : Tri) : areaVecR t = TV.Remesh.areaVec t := by
  rfl
theorem lowerR_eq (p : V) (ps : List V) : lowerR p ps = TV.Scene.lower p ps := by
  rfl
theorem upperR_eq (p : V) (ps : List V) : upperR p ps = TV.Scene.upper p ps := by
  rfl
theorem placedR_eq (i : InstanceR) : placedR i = TV.Scene.placed (toInst i) := by
  rfl
theorem nodeLowerR_eq (i : InstanceR) (p0 : V) : nodeLowerR i p0 = TV.Scene.nodeLower (toInst i) p0 := by
  rfl
theorem nodeUpperR_eq (i : InstanceR) (p0 : V) : nodeUpperR i p0 = TV.Scene.nodeUpper (toInst i) p0 := by
  rfl
theorem childrenR_eq (a b c : V) : childrenR a b c = TV.Remesh.children a b c := by
  rfl
theorem childFacesN_eq (mid : Nat → Nat → Nat) (f : Face) : childFacesN mid f = TV.Remesh.childFaces mid f := by
  rfl

theorem maxEdge2R_eq (t : Tri) : maxEdge2R t = TV.ToSize.maxEdge2 t := by
  obtain ⟨⟨a1, a2, a3⟩, ⟨b1, b2, b3⟩, ⟨c1, c2, c3⟩⟩ := t
  rfl

/-- the size-bounded subdivision the driver runs is the one of `C18_to_size` -/
theorem toSizeR_eq (m2 : Rat) : ∀ (fuel : Nat) (t : Tri), toSizeR m2 fuel t = TV.ToSize.toSize m2 fuel t
  | 0, t => by
    unfold toSizeR TV.ToSize.toSize TV.ToSize.small
    rw [maxEdge2R_eq]
  | fuel + 1, t => by
    unfold toSizeR TV.ToSize.toSize TV.ToSize.small
    rw [maxEdge2R_eq, childrenR_eq]
    have : toSizeR m2 fuel = TV.ToSize.toSize m2 fuel := funext (toSizeR_eq m2 fuel)
    rw [this]

/-! ### consequences stated on the executable definitions (what the driver evaluates) -/

/-- C04: composition of two placements is the placement by the product -/
theorem rat_compose (A B : M3R) (ta tb p : V) :
    transformR A ta (transformR B tb p) = transformR (mulR A B) (addV (applyR A tb) ta) p := by
  have h := TV.Scene.transformPoint_comp (toM3 A) (toM3 B) ta tb p
  rw [← mulR_eq] at h
  exact h.symm

/-- C04: the signed volume of a triangle list scales by the determinant under the linear part -/
theorem rat_mesh_volume_det (L : M3R) (ts : List Tri) :
    meshVolR (ts.map (mapTri (applyR L))) = detR L * meshVolR ts := by
  have h1 : ∀ a b c : V, volR (applyR L a) (applyR L b) (applyR L c) = detR L * volR a b c := by
    intro a b c
    have h := TV.Affine.det3_apply (toM3 L) a b c
    have e : volR (applyR L a) (applyR L b) (applyR L c)
        = TV.Moments.det3 ((toM3 L).apply a).1 ((toM3 L).apply a).2.1 ((toM3 L).apply a).2.2
            ((toM3 L).apply b).1 ((toM3 L).apply b).2.1 ((toM3 L).apply b).2.2
            ((toM3 L).apply c).1 ((toM3 L).apply c).2.1 ((toM3 L).apply c).2.2 / 6 := rfl
    have e2 : volR a b c = TV.Moments.det3 a.1 a.2.1 a.2.2 b.1 b.2.1 b.2.2 c.1 c.2.1 c.2.2 / 6 := rfl
    rw [e, e2, h, detR_eq]
    ring
  induction ts with
  | nil => simp [meshVolR]
  | cons t ts ih =>
    simp only [meshVolR, List.map_cons, List.sum_cons] at ih ⊢
    rw [ih]
    simp only [mapTri]
    rw [h1]
    ring

/-- C04: first moments map through `det L · L` -/
theorem rat_first_moment (L : M3R) (a b c : V) :
    firstR (applyR L a) (applyR L b) (applyR L c) = smulV (detR L) (applyR L (firstR a b c)) := by
  obtain ⟨l00, l01, l02, l10, l11, l12, l20, l21, l22⟩ := L
  obtain ⟨a1, a2, a3⟩ := a
  obtain ⟨b1, b2, b3⟩ := b
  obtain ⟨c1, c2, c3⟩ := c
  simp only [firstR, det3R, smulV, applyR, detR, Prod.mk.injEq]
  refine ⟨?_, ?_, ?_⟩ <;> ring

/-- C10: the per-node corners computed by `bounds_corners` are the exact corners of the placed copy -/
theorem rat_node_bounds (i : InstanceR) (p0 : V) :
    nodeLowerR i p0 = lowerR (transformR i.L i.t p0) (placedR i) ∧
    nodeUpperR i p0 = upperR (transformR i.L i.t p0) (placedR i) := by
  exact ⟨TV.Scene.nodeLower_eq (toInst i) p0, TV.Scene.nodeUpper_eq (toInst i) p0⟩

/-- C10: `lowerR` is a lower bound of every point -/
theorem rat_lower_is_bound (p : V) (ps : List V) :
    ∀ q ∈ p :: ps, (lowerR p ps).1 ≤ q.1 ∧ (lowerR p ps).2.1 ≤ q.2.1 ∧ (lowerR p ps).2.2 ≤ q.2.2 := by
  exact TV.Scene.lower_le p ps

/-- C18: the four children of every triangle have a quarter of its area vector each, and their signed
    volumes add up to the parent's -/
theorem rat_children (a b c : V) :
    (∀ t ∈ childrenR a b c, smulV 4 (areaVecR t) = areaVecR (a, b, c)) ∧
    meshVolR (childrenR a b c) = volR a b c := by
  refine ⟨TV.Remesh.children_area a b c, ?_⟩
  obtain ⟨a1, a2, a3⟩ := a
  obtain ⟨b1, b2, b3⟩ := b
  obtain ⟨c1, c2, c3⟩ := c
  simp only [meshVolR, childrenR, midpointR, volR, det3R, List.map_cons, List.map_nil, List.sum_cons,
    List.sum_nil]
  ring

/-- C18: subdividing a whole triangle list keeps the signed volume -/
theorem rat_subdivide_volume (ts : List Tri) : meshVolR (subdivideR ts) = meshVolR ts := by
  induction ts with
  | nil => simp [meshVolR, subdivideR]
  | cons t ts ih =>
    have h := (rat_children t.1 t.2.1 t.2.2).2
    simp only [meshVolR, subdivideR, List.flatMap_cons, List.map_append, List.sum_append, List.map_cons,
      List.sum_cons] at ih h ⊢
    rw [ih, h]

end TV.GeomRat
