import TrimeshVerif.Model.Grid
import Mathlib.Data.Rat.Floor
import Mathlib.Tactic.Linarith
import Mathlib.Tactic.FieldSimp
import Mathlib.Tactic.Ring
namespace TV.Grid

theorem roundHE_of_near (x : Rat) (i : Int) (h1 : (i : Rat) - 1 / 2 < x) (h2 : x < (i : Rat) + 1 / 2) :
    roundHE x = i := by
  unfold roundHE
  have hf : (x + 1 / 2).floor = i := by
    have : ⌊x + 1 / 2⌋ = i := by
      rw [Int.floor_eq_iff]; constructor <;> linarith
    exact this
  simp only [hf]
  have hne : ¬ ((i : Rat) = x + 1 / 2) := by intro e; linarith
  rw [if_neg (fun h => hne h.1)]

/-- every integer is its own rounding -/
theorem roundHE_int (i : Int) : roundHE (i : Rat) = i :=
  roundHE_of_near _ i (by linarith) (by linarith)

/-- exact halves go to the even neighbour -/
theorem roundHE_half (i : Int) : roundHE ((i : Rat) + 1 / 2) = if i % 2 = 0 then i else i + 1 := by
  unfold roundHE
  have hf : ((i : Rat) + 1 / 2 + 1 / 2).floor = i + 1 := by
    have : ⌊(i : Rat) + 1 / 2 + 1 / 2⌋ = i + 1 := by
      rw [Int.floor_eq_iff]; push_cast; constructor <;> linarith
    exact this
  simp only [hf]
  have e : (((i + 1 : Int) : Rat)) = (i : Rat) + 1 / 2 + 1 / 2 := by push_cast; ring
  simp only [e, true_and]
  by_cases hp : i % 2 = 0
  · have : (i + 1) % 2 ≠ 0 := by omega
    simp [hp, this]
  · have : (i + 1) % 2 = 0 := by omega
    simp [hp, this]

/-- **round trip**: the centre of cell `i` is addressed as cell `i` (any non-zero pitch, any origin) -/
theorem index_point_index (pitch origin : Rat) (hp : pitch ≠ 0) (i : Int) :
    pointToIndex pitch origin (indexToPoint pitch origin i) = i := by
  unfold pointToIndex indexToPoint
  have : ((i : Rat) * pitch + origin - origin) / pitch = (i : Rat) := by field_simp; ring
  rw [this]; exact roundHE_int i

/-- **a point strictly inside a cell is addressed as that cell**: closer than half a pitch to the centre -/
theorem point_in_cell (pitch origin p : Rat) (hp : 0 < pitch) (i : Int)
    (h1 : indexToPoint pitch origin i - pitch / 2 < p) (h2 : p < indexToPoint pitch origin i + pitch / 2) :
    pointToIndex pitch origin p = i := by
  unfold pointToIndex
  unfold indexToPoint at h1 h2
  apply roundHE_of_near
  · rw [lt_div_iff₀ hp]; linarith
  · rw [div_lt_iff₀ hp]; linarith

end TV.Grid
