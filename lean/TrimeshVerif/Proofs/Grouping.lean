import TrimeshVerif.Model.Grouping
import TrimeshVerif.Proofs.SortRuns
namespace TV.Grouping
open TV

/-! ### orders -/

theorem intLe_isOrder : IsOrder intLe where
  total := by intro a b; simp [intLe]; omega
  trans := by intro a b c; simp [intLe]; omega
  antisymm := by intro a b; simp [intLe]; omega

theorem natLe_isOrder : IsOrder natLe where
  total := by intro a b; simp [natLe]; omega
  trans := by intro a b c; simp [natLe]; omega
  antisymm := by intro a b; simp [natLe]; omega

theorem lexLe_total : ∀ a b : List Int, lexLe a b || lexLe b a
  | [], _ => by simp [lexLe]
  | _ :: _, [] => by simp [lexLe]
  | a :: as, b :: bs => by
    have ih := lexLe_total as bs
    simp only [lexLe]
    by_cases h1 : a < b
    · simp [h1]
    · by_cases h2 : a = b
      · subst h2; simpa using ih
      · have : b < a := by omega
        simp [h1, h2, this]

theorem lexLe_trans : ∀ a b c : List Int, lexLe a b → lexLe b c → lexLe a c
  | [], _, _ => by simp [lexLe]
  | _ :: _, [], _ => by simp [lexLe]
  | _ :: _, _ :: _, [] => by simp [lexLe]
  | a :: as, b :: bs, c :: cs => by
    have ih := lexLe_trans as bs cs
    simp only [lexLe]
    intro h1 h2
    by_cases ab : a < b
    · by_cases bc : b < c
      · have : a < c := by omega
        simp [this]
      · by_cases e : b = c
        · subst e; simp [ab]
        · simp [bc, e] at h2
    · by_cases e1 : a = b
      · subst e1
        simp only [ab, if_false, if_true] at h1
        by_cases bc : a < c
        · simp [bc]
        · by_cases e : a = c
          · subst e; simp only [bc, if_false, if_true] at h2 ⊢; exact ih h1 h2
          · simp [bc, e] at h2
      · simp [ab, e1] at h1

theorem lexLe_antisymm : ∀ a b : List Int, lexLe a b → lexLe b a → a = b
  | [], [] => by simp
  | [], _ :: _ => by simp [lexLe]
  | _ :: _, [] => by simp [lexLe]
  | a :: as, b :: bs => by
    have ih := lexLe_antisymm as bs
    simp only [lexLe]
    intro h1 h2
    by_cases ab : a < b
    · have nba : ¬ b < a := by omega
      have ne : ¬ b = a := by omega
      simp [nba, ne] at h2
    · by_cases e : a = b
      · subst e
        simp only [ab, if_false, if_true] at h1 h2
        rw [ih h1 h2]
      · simp [ab, e] at h1

theorem lexLe_isOrder : IsOrder lexLe := ⟨lexLe_total, lexLe_trans, lexLe_antisymm⟩

/-! ### bit packing -/

theorem xor_shift_eq_add (a b k : Nat) (ha : a < 2 ^ k) : a ^^^ (b <<< k) = a + b * 2 ^ k := by
  apply Nat.eq_of_testBit_eq
  intro i
  rw [Nat.testBit_xor, Nat.testBit_shiftLeft]
  have : a + b * 2 ^ k = 2 ^ k * b + a := by rw [Nat.mul_comm]; omega
  rw [this, Nat.testBit_two_pow_mul_add _ ha]
  by_cases h : i < k
  · have hk : ¬ k ≤ i := by omega
    simp [hk, h]
  · have hk : k ≤ i := by omega
    have : a.testBit i = false :=
      Nat.testBit_lt_two_pow (Nat.lt_of_lt_of_le ha (Nat.pow_le_pow_right (by omega) hk))
    simp [h, hk, this]

/-- positional value of the fields, least significant first -/
def fieldsVal (p : Nat) : List Nat → Nat
  | [] => 0
  | y :: ys => y + 2 ^ p * fieldsVal p ys

theorem fieldsVal_lt (p : Nat) : ∀ ys : List Nat, (∀ y ∈ ys, y < 2 ^ p) → fieldsVal p ys < 2 ^ (ys.length * p)
  | [], _ => by simp [fieldsVal]
  | y :: ys, h => by
    have ih := fieldsVal_lt p ys (fun z hz => h z (List.mem_cons_of_mem _ hz))
    have hy := h y (by simp)
    simp only [fieldsVal, List.length_cons]
    have e : 2 ^ ((ys.length + 1) * p) = 2 ^ p * 2 ^ (ys.length * p) := by
      rw [Nat.add_mul, Nat.one_mul, Nat.pow_add, Nat.mul_comm]
    rw [e]
    have : 2 ^ p * (fieldsVal p ys + 1) ≤ 2 ^ p * 2 ^ (ys.length * p) := Nat.mul_le_mul_left _ ih
    rw [Nat.mul_add, Nat.mul_one] at this
    omega

/-- the xor/shift loop computes the positional value: no carries, no uint64 overflow -/
theorem foldl_packStep (p : Nat) : ∀ (ys : List Nat) (acc k : Nat),
    (∀ y ∈ ys, y < 2 ^ p) → acc < 2 ^ (k * p) → (k + ys.length) * p ≤ 64 →
    ys.foldl (packStep p) (acc, k) = (acc + 2 ^ (k * p) * fieldsVal p ys, k + ys.length)
  | [], acc, k, _, _, _ => by simp [fieldsVal]
  | y :: ys, acc, k, hy, hacc, hlen => by
    have hy0 := hy y (by simp)
    simp only [List.foldl_cons, List.length_cons] at hlen ⊢
    have hstep : packStep p (acc, k) y = (acc + y * 2 ^ (k * p), k + 1) := by
      unfold packStep
      simp only
      rw [xor_shift_eq_add _ _ _ hacc]
      have hlt : acc + y * 2 ^ (k * p) < 2 ^ ((k + 1) * p) := by
        have e : 2 ^ ((k + 1) * p) = 2 ^ p * 2 ^ (k * p) := by
          rw [Nat.add_mul, Nat.one_mul, Nat.pow_add, Nat.mul_comm]
        rw [e]
        have : (y + 1) * 2 ^ (k * p) ≤ 2 ^ p * 2 ^ (k * p) := Nat.mul_le_mul_right _ hy0
        rw [Nat.add_mul, Nat.one_mul] at this
        omega
      have h64 : 2 ^ ((k + 1) * p) ≤ 2 ^ 64 := Nat.pow_le_pow_right (by omega) (by
        have : (k + 1) * p ≤ (k + (ys.length + 1)) * p := Nat.mul_le_mul_right _ (by omega)
        omega)
      rw [Nat.mod_eq_of_lt (by omega)]
    rw [hstep]
    have hacc' : acc + y * 2 ^ (k * p) < 2 ^ ((k + 1) * p) := by
      have e : 2 ^ ((k + 1) * p) = 2 ^ p * 2 ^ (k * p) := by
        rw [Nat.add_mul, Nat.one_mul, Nat.pow_add, Nat.mul_comm]
      rw [e]
      have : (y + 1) * 2 ^ (k * p) ≤ 2 ^ p * 2 ^ (k * p) := Nat.mul_le_mul_right _ hy0
      rw [Nat.add_mul, Nat.one_mul] at this
      omega
    rw [foldl_packStep p ys _ (k + 1) (fun z hz => hy z (List.mem_cons_of_mem _ hz)) hacc'
      (by have : k + 1 + ys.length = k + (ys.length + 1) := by omega
          rw [this]; exact hlen)]
    simp only [fieldsVal]
    have e : 2 ^ ((k + 1) * p) = 2 ^ (k * p) * 2 ^ p := by
      rw [Nat.add_mul, Nat.one_mul, Nat.pow_add]
    rw [e]
    refine Prod.ext ?_ (by simp; omega)
    simp only
    rw [Nat.mul_add, Nat.mul_assoc, Nat.mul_comm y]
    omega

theorem packFields_eq (p : Nat) (ys : List Nat) (hy : ∀ y ∈ ys, y < 2 ^ p) (hlen : ys.length * p ≤ 64) :
    packFields p ys = fieldsVal p ys := by
  unfold packFields
  rw [foldl_packStep p ys 0 0 hy (by simp) (by simpa using hlen)]
  simp

theorem fieldsVal_inj (p : Nat) : ∀ (ys zs : List Nat), ys.length = zs.length →
    (∀ y ∈ ys, y < 2 ^ p) → (∀ z ∈ zs, z < 2 ^ p) → fieldsVal p ys = fieldsVal p zs → ys = zs
  | [], [], _, _, _, _ => rfl
  | [], _ :: _, h, _, _, _ => by simp at h
  | _ :: _, [], h, _, _, _ => by simp at h
  | y :: ys, z :: zs, hl, hy, hz, he => by
    simp only [fieldsVal] at he
    have hy0 := hy y (by simp)
    have hz0 := hz z (by simp)
    have h1 : (y + 2 ^ p * fieldsVal p ys) % 2 ^ p = y := by
      rw [Nat.add_mul_mod_self_left, Nat.mod_eq_of_lt hy0]
    have h2 : (z + 2 ^ p * fieldsVal p zs) % 2 ^ p = z := by
      rw [Nat.add_mul_mod_self_left, Nat.mod_eq_of_lt hz0]
    have hyz : y = z := by rw [← h1, ← h2, he]
    have hpos : 0 < 2 ^ p := Nat.pow_pos (by omega)
    have h3 : (y + 2 ^ p * fieldsVal p ys) / 2 ^ p = fieldsVal p ys := by
      rw [Nat.add_mul_div_left _ _ hpos, Nat.div_eq_of_lt hy0]; omega
    have h4 : (z + 2 ^ p * fieldsVal p zs) / 2 ^ p = fieldsVal p zs := by
      rw [Nat.add_mul_div_left _ _ hpos, Nat.div_eq_of_lt hz0]; omega
    have hv : fieldsVal p ys = fieldsVal p zs := by rw [← h3, ← h4, he]
    rw [hyz, fieldsVal_inj p ys zs (by simpa using hl)
      (fun a ha => hy a (List.mem_cons_of_mem _ ha)) (fun a ha => hz a (List.mem_cons_of_mem _ ha)) hv]

/-- the packing loop is injective on rows of `n` fields of `p` bits whenever `n * p ≤ 64` -/
theorem packFields_inj (p : Nat) (ys zs : List Nat) (hl : ys.length = zs.length)
    (hy : ∀ y ∈ ys, y < 2 ^ p) (hz : ∀ z ∈ zs, z < 2 ^ p) (hlen : ys.length * p ≤ 64)
    (he : packFields p ys = packFields p zs) : ys = zs := by
  rw [packFields_eq p ys hy hlen, packFields_eq p zs hz (by rw [← hl]; exact hlen)] at he
  exact fieldsVal_inj p ys zs hl hy hz he

end TV.Grouping
