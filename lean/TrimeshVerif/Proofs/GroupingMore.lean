/-
Helper lemmas for the C06 theorems about `merge_runs`, `group_min`, `boolean_rows`, `unique_bincount`
and `blocks` (models in Model/Grouping.lean).  Core Lean only.
-/
import TrimeshVerif.Proofs.Grouping
namespace TV.Grouping
open TV

/-! ### merge_runs -/

/-- expansion of (value, count) pairs: the inverse of run merging -/
def expandRuns (vs : List Int) (cs : List Nat) : List Int :=
  (vs.zip cs).flatMap (fun vc => List.replicate vc.2 vc.1)

theorem mergeRuns_head : ∀ (x : Int) (t : List Int), (mergeRuns (x :: t)).head? = some x
  | x, [] => rfl
  | x, y :: t => by
    unfold mergeRuns
    split
    · next h => rw [h]; exact mergeRuns_head y t
    · rfl

theorem mergeRuns_adjacent : ∀ (l : List Int) (i : Nat), i + 1 < (mergeRuns l).length →
    (mergeRuns l)[i]? ≠ (mergeRuns l)[i + 1]?
  | [], i, h => by simp [mergeRuns] at h
  | [x], i, h => by simp [mergeRuns] at h
  | x :: y :: t, i, h => by
    unfold mergeRuns at h ⊢
    split
    · next hxy =>
      simp only [hxy, if_true] at h
      exact mergeRuns_adjacent (y :: t) i h
    · next hxy =>
      simp only [hxy, if_false] at h
      cases i with
      | zero =>
        simp only [List.getElem?_cons_zero, Nat.zero_add, List.getElem?_cons_succ]
        have := mergeRuns_head y t
        rw [List.head?_eq_getElem?] at this
        rw [this]; simpa using hxy
      | succ i =>
        simp only [List.getElem?_cons_succ]
        exact mergeRuns_adjacent (y :: t) i (by simpa using h)

/-- every input is its merged form with each value repeated a positive number of times -/
theorem mergeRuns_expand : ∀ l : List Int, ∃ cs : List Nat,
    cs.length = (mergeRuns l).length ∧ (∀ c ∈ cs, 0 < c) ∧ expandRuns (mergeRuns l) cs = l
  | [] => ⟨[], rfl, by simp, rfl⟩
  | [x] => ⟨[1], rfl, by simp, by simp [mergeRuns, expandRuns]⟩
  | x :: y :: t => by
    obtain ⟨cs, hlen, hpos, hexp⟩ := mergeRuns_expand (y :: t)
    unfold mergeRuns
    split
    · next hxy =>
      subst hxy
      -- the run of x is one longer
      have hh := mergeRuns_head x t
      generalize mergeRuns (x :: t) = M at hlen hexp hh ⊢
      cases M with
      | nil => simp at hh
      | cons m ms =>
        cases cs with
        | nil => simp at hlen
        | cons c cs' =>
          simp only [List.head?_cons, Option.some.injEq] at hh
          subst hh
          refine ⟨(c + 1) :: cs', by simpa using hlen, ?_, ?_⟩
          · intro c' hc'
            rcases List.mem_cons.mp hc' with rfl | h
            · omega
            · exact hpos c' (List.mem_cons_of_mem _ h)
          · simp only [expandRuns, List.zip_cons_cons, List.flatMap_cons] at hexp ⊢
            rw [List.replicate_succ, List.cons_append, hexp]
    · next hxy =>
      refine ⟨1 :: cs, by simp [hlen], ?_, ?_⟩
      · intro c' hc'
        rcases List.mem_cons.mp hc' with rfl | h
        · omega
        · exact hpos c' h
      · simp only [expandRuns, List.zip_cons_cons, List.flatMap_cons] at hexp ⊢
        simp [hexp]

/-! ### group_min -/

theorem foldl_min_spec : ∀ (xs : List Int) (a : Int),
    xs.foldl min a ≤ a ∧ (∀ x ∈ xs, xs.foldl min a ≤ x) ∧ (xs.foldl min a = a ∨ xs.foldl min a ∈ xs)
  | [], a => by simp
  | x :: xs, a => by
    obtain ⟨h1, h2, h3⟩ := foldl_min_spec xs (min a x)
    simp only [List.foldl_cons]
    refine ⟨by omega, ?_, ?_⟩
    · intro y hy
      rcases List.mem_cons.mp hy with rfl | hy
      · omega
      · exact h2 y hy
    · rcases h3 with h | h
      · rw [h]
        by_cases hax : a ≤ x
        · left; omega
        · right; simp; left; omega
      · right; exact List.mem_cons_of_mem _ h

/-! ### eraseDups -/

theorem eraseDups_sublist : ∀ (n : Nat) (l : List (List Int)), l.length ≤ n → l.eraseDups.Sublist l
  | 0, l, h => by
    have : l = [] := List.length_eq_zero_iff.mp (by omega)
    subst this; simp
  | n + 1, [], _ => by simp
  | n + 1, a :: as, h => by
    rw [List.eraseDups_cons]
    refine List.Sublist.cons_cons a ?_
    have hl : (as.filter fun b => !b == a).length ≤ n :=
      Nat.le_trans (List.length_filter_le _ _) (by simpa using h)
    exact (eraseDups_sublist n _ hl).trans List.filter_sublist

theorem eraseDups_nodup : ∀ (n : Nat) (l : List (List Int)), l.length ≤ n → l.eraseDups.Nodup
  | 0, l, h => by
    have : l = [] := List.length_eq_zero_iff.mp (by omega)
    subst this; simp
  | n + 1, [], _ => by simp
  | n + 1, a :: as, h => by
    rw [List.eraseDups_cons]
    have hl : (as.filter fun b => !b == a).length ≤ n :=
      Nat.le_trans (List.length_filter_le _ _) (by simpa using h)
    refine List.nodup_cons.mpr ⟨?_, eraseDups_nodup n _ hl⟩
    intro hmem
    have := List.mem_eraseDups.mp hmem
    simp at this

/-- strict lexicographic order on rows -/
def lexLt (a b : List Int) : Prop := lexLe a b = true ∧ a ≠ b

theorem sorted_nodup_strict {l : List (List Int)} (hs : l.Pairwise (fun a b => lexLe a b = true))
    (hn : l.Nodup) : l.Pairwise lexLt := by
  induction l with
  | nil => simp
  | cons a t ih =>
    rw [List.pairwise_cons] at hs ⊢
    rw [List.nodup_cons] at hn
    refine ⟨fun b hb => ⟨hs.1 b hb, fun e => hn.1 (e ▸ hb)⟩, ih hs.2 hn.2⟩

theorem mergeSort_lex_sorted (l : List (List Int)) :
    (l.mergeSort lexLe).Pairwise (fun a b => lexLe a b = true) :=
  List.pairwise_mergeSort (fun a b c hab hbc => lexLe_trans a b c hab hbc)
    (fun a b => lexLe_total a b) l

/-! ### ranges between consecutive inflection points (blocks) -/

theorem rangeFromTo_eq (s e : Nat) : rangeFromTo s e = List.range' s (e - s) := by
  unfold rangeFromTo
  rw [List.range_eq_range', show (fun x => x + s) = (fun x => s + x) from funext (fun x => Nat.add_comm x s),
    List.map_add_range']
  simp

theorem rangeFromTo_length (s e : Nat) : (rangeFromTo s e).length = e - s := by
  simp [rangeFromTo]

theorem mem_rangeFromTo {s e i : Nat} : i ∈ rangeFromTo s e ↔ s ≤ i ∧ i < e := by
  rw [rangeFromTo_eq, List.mem_range'_1]; omega

theorem rangeFromTo_append {s m e : Nat} (h1 : s ≤ m) (h2 : m ≤ e) :
    rangeFromTo s m ++ rangeFromTo m e = rangeFromTo s e := by
  simp only [rangeFromTo_eq]
  have : m = s + (m - s) := by omega
  conv => lhs; rhs; rw [this]
  rw [List.range'_append_1]
  congr 1; omega

theorem rangeFromTo_headD {s e : Nat} (h : s < e) : (rangeFromTo s e).headD 0 = s := by
  rw [rangeFromTo_eq]
  have : e - s = (e - s - 1) + 1 := by omega
  rw [this, List.range'_succ]; rfl

/-- consecutive pairs of a list -/
def consec (l : List Nat) : List (Nat × Nat) := l.zip l.tail

/-- concatenating the ranges between consecutive points of an ascending list gives the whole range -/
theorem consec_ranges_flatten : ∀ (a : Nat) (l : List Nat), (a :: l).Pairwise (· ≤ ·) →
    ((consec (a :: l)).map (fun se => rangeFromTo se.1 se.2)).flatten
      = rangeFromTo a ((a :: l).getLast (by simp))
  | a, [], _ => by simp [consec, rangeFromTo]
  | a, b :: l, h => by
    have hab : a ≤ b := (List.pairwise_cons.mp h).1 b (by simp)
    have ht := (List.pairwise_cons.mp h).2
    have ih := consec_ranges_flatten b l ht
    have hbl : b ≤ (b :: l).getLast (by simp) := by
      rcases List.mem_cons.mp (List.getLast_mem (l := b :: l) (by simp)) with e | e
      · omega
      · exact (List.pairwise_cons.mp ht).1 _ e
    simp only [consec, List.tail_cons, List.zip_cons_cons, List.map_cons, List.flatten_cons] at ih ⊢
    rw [List.getLast_cons (by simp)]
    rw [show (b :: l).zip l = (b :: l).zip (b :: l).tail from rfl] at *
    rw [ih, rangeFromTo_append hab hbl]

/-- in a strictly ascending list no member lies strictly between two consecutive members -/
theorem consec_no_between : ∀ (l : List Nat), l.Pairwise (· < ·) → ∀ se ∈ consec l, ∀ x ∈ l,
    ¬ (se.1 < x ∧ x < se.2)
  | [], _, se, hse, _, _ => by simp [consec] at hse
  | [a], _, se, hse, _, _ => by simp [consec] at hse
  | a :: b :: l, h, se, hse, x, hx => by
    have hab := (List.pairwise_cons.mp h).1
    have ht := (List.pairwise_cons.mp h).2
    simp only [consec, List.tail_cons, List.zip_cons_cons, List.mem_cons] at hse
    rcases hse with rfl | hse
    · simp only
      rcases List.mem_cons.mp hx with rfl | hx
      · omega
      · rcases List.mem_cons.mp hx with rfl | hx
        · omega
        · have := (List.pairwise_cons.mp ht).1 x hx; omega
    · have hse' : se ∈ consec (b :: l) := by simpa [consec] using hse
      rcases List.mem_cons.mp hx with rfl | hx
      · -- x = a is below every later point
        have h1 : se.1 ∈ b :: l := (List.of_mem_zip hse').1
        have := hab se.1 h1; omega
      · exact consec_no_between (b :: l) ht se hse' x hx

theorem consec_mem {l : List Nat} {se : Nat × Nat} (h : se ∈ consec l) : se.1 ∈ l ∧ se.2 ∈ l := by
  have := List.of_mem_zip h
  exact ⟨this.1, List.mem_of_mem_tail this.2⟩

theorem consec_lt {l : List Nat} (hl : l.Pairwise (· < ·)) : ∀ se ∈ consec l, se.1 < se.2 := by
  induction l with
  | nil => intro se h; simp [consec] at h
  | cons a t ih =>
    cases t with
    | nil => intro se h; simp [consec] at h
    | cons b t =>
      intro se h
      simp only [consec, List.tail_cons, List.zip_cons_cons, List.mem_cons] at h
      rcases h with rfl | h
      · exact (List.pairwise_cons.mp hl).1 b (by simp)
      · exact ih (List.pairwise_cons.mp hl).2 se (by simpa [consec] using h)

end TV.Grouping

namespace TV.Grouping
open TV

/-- `nonzero = arange[1:][data[1:] != data[:-1]]` -/
def changePoints (data : List Int) : List Nat :=
  (List.range data.length).filter (fun i => i ≥ 1 && data.getD i 0 != data.getD (i - 1) 0)

/-- `infl` of `blocks`: 0, the change points, len(data) -/
def infl (data : List Int) : List Nat := 0 :: (changePoints data ++ [data.length])

theorem mem_changePoints {data : List Int} {i : Nat} :
    i ∈ changePoints data ↔ i < data.length ∧ 1 ≤ i ∧ data.getD i 0 ≠ data.getD (i - 1) 0 := by
  simp [changePoints, List.mem_filter]

theorem changePoints_sorted (data : List Int) : (changePoints data).Pairwise (· < ·) :=
  List.Pairwise.filter _ List.pairwise_lt_range

theorem infl_sorted (data : List Int) : (infl data).Pairwise (· ≤ ·) := by
  unfold infl
  rw [List.pairwise_cons]
  refine ⟨fun _ _ => Nat.zero_le _, ?_⟩
  rw [List.pairwise_append]
  refine ⟨(changePoints_sorted data).imp Nat.le_of_lt, by simp, ?_⟩
  intro a ha b hb
  simp only [List.mem_singleton] at hb
  subst hb
  exact Nat.le_of_lt (mem_changePoints.mp ha).1

theorem infl_strict (data : List Int) (h : data ≠ []) : (infl data).Pairwise (· < ·) := by
  have hn : 0 < data.length := List.length_pos_iff.mpr h
  unfold infl
  rw [List.pairwise_cons]
  refine ⟨?_, ?_⟩
  · intro a ha
    rcases List.mem_append.mp ha with ha | ha
    · exact (mem_changePoints.mp ha).2.1
    · simp only [List.mem_singleton] at ha; omega
  · rw [List.pairwise_append]
    refine ⟨changePoints_sorted data, by simp, ?_⟩
    intro a ha b hb
    simp only [List.mem_singleton] at hb
    subst hb
    exact (mem_changePoints.mp ha).1

theorem infl_getLast (data : List Int) : (infl data).getLast (by simp [infl]) = data.length := by
  unfold infl
  rw [List.getLast_cons (by simp), List.getLast_append_of_ne_nil (h₂ := by simp)]
  rfl

theorem mem_infl {data : List Int} {x : Nat} :
    x ∈ infl data ↔ x = 0 ∨ x ∈ changePoints data ∨ x = data.length := by
  simp [infl]

/-- the runs of `blocks` tile the index range, in order: every index is in exactly one run -/
theorem runs_tile (data : List Int) :
    ((consec (infl data)).map (fun se => rangeFromTo se.1 se.2)).flatten = List.range data.length := by
  have := consec_ranges_flatten 0 (changePoints data ++ [data.length]) (infl_sorted data)
  have e : (0 :: (changePoints data ++ [data.length])).getLast (by simp) = data.length :=
    infl_getLast data
  rw [e] at this
  rw [show infl data = 0 :: (changePoints data ++ [data.length]) from rfl, this, rangeFromTo_eq,
    List.range_eq_range']
  simp

theorem run_bounds {data : List Int} (h : data ≠ []) {se : Nat × Nat} (hse : se ∈ consec (infl data)) :
    se.1 < se.2 ∧ se.2 ≤ data.length := by
  refine ⟨consec_lt (infl_strict data h) se hse, ?_⟩
  rcases mem_infl.mp (consec_mem hse).2 with e | e | e
  · omega
  · exact Nat.le_of_lt (mem_changePoints.mp e).1
  · omega

/-- the data are constant on every run -/
theorem run_constant {data : List Int} {se : Nat × Nat} (hse : se ∈ consec (infl data)) :
    ∀ i, se.1 ≤ i → i < se.2 → data.getD i 0 = data.getD se.1 0 := by
  by_cases h : data = []
  · subst h; intro i _ _; simp
  · have hb := run_bounds h hse
    intro i
    induction i with
    | zero => intro h1 _; have : se.1 = 0 := by omega
              rw [this]
    | succ i ih =>
      intro h1 h2
      by_cases e : se.1 = i + 1
      · rw [e]
      · have hnot : i + 1 ∉ changePoints data := by
          intro hm
          exact consec_no_between (infl data) (infl_strict data h) se hse (i + 1)
            (mem_infl.mpr (Or.inr (Or.inl hm))) ⟨by omega, h2⟩
        rw [mem_changePoints] at hnot
        have : data.getD (i + 1) 0 = data.getD (i + 1 - 1) 0 := by
          by_cases hh : data.getD (i + 1) 0 = data.getD (i + 1 - 1) 0
          · exact hh
          · exact absurd ⟨by omega, by omega, hh⟩ hnot
        rw [this, Nat.add_sub_cancel]
        exact ih (by omega) (by omega)

/-- every run is maximal on the left ... -/
theorem run_left {data : List Int} (h : data ≠ []) {se : Nat × Nat} (hse : se ∈ consec (infl data))
    (h0 : se.1 ≠ 0) : data.getD se.1 0 ≠ data.getD (se.1 - 1) 0 := by
  have hb := run_bounds h hse
  rcases mem_infl.mp (consec_mem hse).1 with e | e | e
  · exact absurd e h0
  · exact (mem_changePoints.mp e).2.2
  · omega

/-- ... and on the right -/
theorem run_right {data : List Int} (h : data ≠ []) {se : Nat × Nat} (hse : se ∈ consec (infl data))
    (hn : se.2 ≠ data.length) : data.getD se.2 0 ≠ data.getD (se.2 - 1) 0 := by
  have hb := run_bounds h hse
  rcases mem_infl.mp (consec_mem hse).2 with e | e | e
  · omega
  · exact (mem_changePoints.mp e).2.2
  · exact absurd e hn

/-- two members of a strictly ascending list with no member strictly between are consecutive -/
theorem consec_of_no_between : ∀ (l : List Nat), l.Pairwise (· < ·) → ∀ s e, s ∈ l → e ∈ l → s < e →
    (∀ x ∈ l, ¬ (s < x ∧ x < e)) → (s, e) ∈ consec l
  | [], _, s, e, hs, _, _, _ => by simp at hs
  | [a], _, s, e, hs, he, hlt, _ => by
    simp only [List.mem_singleton] at hs he; omega
  | a :: b :: l, h, s, e, hs, he, hlt, hno => by
    have hab := (List.pairwise_cons.mp h).1
    have ht := (List.pairwise_cons.mp h).2
    simp only [consec, List.tail_cons, List.zip_cons_cons, List.mem_cons]
    rcases List.mem_cons.mp hs with rfl | hs'
    · -- s = a: e must be b
      left
      rcases List.mem_cons.mp he with rfl | he'
      · omega
      · rcases List.mem_cons.mp he' with rfl | he''
        · rfl
        · have h1 := hab b (by simp)
          have h2 := (List.pairwise_cons.mp ht).1 e he''
          exact absurd ⟨h1, h2⟩ (hno b (by simp))
    · right
      have he' : e ∈ b :: l := by
        rcases List.mem_cons.mp he with rfl | he'
        · have := hab s hs'; omega
        · exact he'
      have := consec_of_no_between (b :: l) ht s e hs' he' hlt
        (fun x hx => hno x (List.mem_cons_of_mem _ hx))
      simpa [consec] using this

/-- conversely every maximal run of equal values is one of the runs -/
theorem run_complete {data : List Int} (s e : Nat) (hse : s < e) (hen : e ≤ data.length)
    (hconst : ∀ i, s ≤ i → i < e → data.getD i 0 = data.getD s 0)
    (hl : s = 0 ∨ data.getD s 0 ≠ data.getD (s - 1) 0)
    (hr : e = data.length ∨ data.getD e 0 ≠ data.getD (e - 1) 0) :
    (s, e) ∈ consec (infl data) := by
  have hne : data ≠ [] := by intro h; subst h; simp at hen; omega
  apply consec_of_no_between (infl data) (infl_strict data hne) s e
  · rcases hl with h | h
    · exact mem_infl.mpr (Or.inl h)
    · by_cases h0 : s = 0
      · exact mem_infl.mpr (Or.inl h0)
      · exact mem_infl.mpr (Or.inr (Or.inl (mem_changePoints.mpr ⟨by omega, by omega, h⟩)))
  · by_cases hh : e = data.length
    · exact mem_infl.mpr (Or.inr (Or.inr hh))
    · rcases hr with h | h
      · exact absurd h hh
      · exact mem_infl.mpr (Or.inr (Or.inl (mem_changePoints.mpr ⟨by omega, by omega, h⟩)))
  · exact hse
  · intro x hx ⟨h1, h2⟩
    rcases mem_infl.mp hx with e0 | e0 | e0
    · omega
    · have := (mem_changePoints.mp e0).2.2
      rw [hconst x (by omega) h2, hconst (x - 1) (by omega) (by omega)] at this
      exact this rfl
    · omega

end TV.Grouping

namespace TV.Grouping
open TV

/-! ### wrap-around without filtering -/

theorem consec_head? : ∀ (a b : Nat) (t : List Nat), (consec (a :: b :: t)).head? = some (a, b) := by
  intro a b t; simp [consec]

theorem consec_getLast_snd : ∀ (l : List Nat) (h : consec l ≠ []),
    ((consec l).getLast h).2 = l.getLast (by intro e; subst e; simp [consec] at h)
  | [], h => by simp [consec] at h
  | [a], h => by simp [consec] at h
  | [a, b], _ => by simp [consec]
  | a :: b :: c :: t, _ => by
    have ih := consec_getLast_snd (b :: c :: t) (by simp [consec])
    have e : consec (a :: b :: c :: t) = (a, b) :: consec (b :: c :: t) := by simp [consec]
    simp only [e]
    rw [List.getLast_cons (by simp [consec]), ih]
    simp

theorem consec_infl_ne_nil (data : List Int) : consec (infl data) ≠ [] := by
  unfold infl
  cases h : changePoints data ++ [data.length] with
  | nil => simp at h
  | cons b t => simp [consec]

theorem consec_infl_head (data : List Int) : ∃ e, (consec (infl data)).head? = some (0, e) := by
  unfold infl
  cases h : changePoints data ++ [data.length] with
  | nil => simp at h
  | cons b t => exact ⟨b, consec_head? 0 b t⟩

theorem consec_infl_getLast (data : List Int) :
    ((consec (infl data)).getLast (consec_infl_ne_nil data)).2 = data.length := by
  rw [consec_getLast_snd]; exact infl_getLast data

theorem rangeFromTo_head? {s e : Nat} (h : s < e) : (rangeFromTo s e).head? = some s := by
  rw [rangeFromTo_eq]
  have : e - s = (e - s - 1) + 1 := by omega
  rw [this, List.range'_succ]; rfl

theorem rangeFromTo_getLast? {s e : Nat} (h : s < e) : (rangeFromTo s e).getLast? = some (e - 1) := by
  rw [rangeFromTo_eq]
  have : e - s = (e - s - 1) + 1 := by omega
  rw [this, List.range'_concat, List.getLast?_concat]
  congr 1; omega

/-- the runs (as index lists) -/
def runsOf (data : List Int) : List (List Nat) := (consec (infl data)).map (fun se => rangeFromTo se.1 se.2)

theorem runsOf_head (data : List Int) (hd : data ≠ []) :
    ∃ e0, 0 < e0 ∧ (runsOf data).head? = some (rangeFromTo 0 e0) := by
  obtain ⟨e, he⟩ := consec_infl_head data
  have hmem : (0, e) ∈ consec (infl data) := List.mem_of_mem_head? he
  refine ⟨e, (run_bounds hd hmem).1, ?_⟩
  unfold runsOf
  rw [List.head?_map, he]; rfl

theorem runsOf_last (data : List Int) (hd : data ≠ []) :
    ∃ s, s < data.length ∧ (runsOf data).getLast? = some (rangeFromTo s data.length) := by
  have hne := consec_infl_ne_nil data
  have hl := consec_infl_getLast data
  have hmem := List.getLast_mem hne
  have hb := (run_bounds hd hmem).1
  refine ⟨((consec (infl data)).getLast hne).1, by rw [hl] at hb; exact hb, ?_⟩
  unfold runsOf
  rw [List.getLast?_map, List.getLast?_eq_getLast hne]
  simp only [Option.map_some, hl]

theorem runsOf_one (data : List Int) (hd : data ≠ []) (h : (runsOf data).length = 1) :
    runsOf data = [rangeFromTo 0 data.length] := by
  obtain ⟨e0, _, h0⟩ := runsOf_head data hd
  obtain ⟨s, _, hl⟩ := runsOf_last data hd
  obtain ⟨r, hr⟩ := List.length_eq_one_iff.mp h
  rw [hr] at h0 hl ⊢
  simp only [List.head?_cons, List.getLast?_singleton, Option.some.injEq] at h0 hl
  -- r = range 0 e0 = range s n : compare first elements and lengths
  have e1 : r.head? = some 0 := by rw [h0]; exact rangeFromTo_head? (by assumption)
  have e2 : r.head? = some s := by rw [hl]; exact rangeFromTo_head? (by assumption)
  have : s = 0 := by rw [e1] at e2; exact (Option.some.inj e2).symm
  rw [hl, this]

theorem pairs_eq (data : List Int) : ((0 :: (List.filter (fun i => decide (i ≥ 1) && data.getD i 0 != data.getD (i - 1) 0)
      (List.range data.length)) ++ [data.length]).zip
      (0 :: (List.filter (fun i => decide (i ≥ 1) && data.getD i 0 != data.getD (i - 1) 0)
      (List.range data.length)) ++ [data.length]).tail) = consec (infl data) := by
  simp [consec, infl, changePoints]

/-- **wrap-around, nothing filtered** (`min_len ≤ 1`, no `max_len`, `only_nonzero = False`): the code returns the
    specification - the runs as they are when the two ends differ or there is one run, otherwise the last and the
    first run joined into one block placed first, followed by the runs in between -/
theorem blocks_wrap_unfiltered (data : List Int) (hd : data ≠ []) (minLen : Nat) (hm : minLen ≤ 1) :
    blocks data minLen none true false = blocksSpec data minLen none true false := by
  have hall : ∀ se ∈ consec (infl data), minLen ≤ se.2 - se.1 := by
    intro se hse; have := (run_bounds hd hse).1; omega
  have hfilt : (consec (infl data)).filter (fun se => (decide (minLen ≤ se.2 - se.1) && true) && (!false || data.getD se.1 0 != 0)) = consec (infl data) := by
    rw [List.filter_eq_self]
    intro se hse; simp [hall se hse]
  have hR : List.map (fun se => rangeFromTo se.fst se.snd) (consec (infl data)) = runsOf data := rfl
  simp only [blocks, blocksSpec, pairs_eq, Bool.not_true, Bool.false_eq_true, if_false, Bool.true_and, hfilt, hR,
    Bool.false_and]
  obtain ⟨e0, he0, hhead⟩ := runsOf_head data hd
  obtain ⟨s, hs, hlast⟩ := runsOf_last data hd
  -- all runs are non-empty, so nothing is filtered on the specification side either
  have hpos : ∀ r ∈ runsOf data, minLen ≤ r.length := by
    intro r hr
    obtain ⟨se, hse, rfl⟩ := List.mem_map.mp hr
    rw [rangeFromTo_length]; exact hall se hse
  have hspecfilt : ∀ l : List (List Nat), (∀ r ∈ l, minLen ≤ r.length) →
      l.filter (fun r => decide (minLen ≤ r.length) && (!false || data.getD (r.headD 0) 0 != 0)) = l := by
    intro l hl; rw [List.filter_eq_self]; intro r hr; simp [hl r hr]
  by_cases hends : (data.head? != data.getLast?) = true
  · have hne : (data.head? == data.getLast?) = false := by simpa [bne] using hends
    simp only [hends, if_true, hne, Bool.and_false, Bool.false_eq_true, if_false]
    symm; rw [List.filter_eq_self]; intro r hr; simp [hpos r hr]
  · have heq : (data.head? == data.getLast?) = true := by simpa [bne] using hends
    simp only [hends, Bool.false_eq_true, if_false, heq, Bool.and_true]
    by_cases hone : (runsOf data).length = 1
    · have h1 := runsOf_one data hd hone
      have : ((runsOf data).length == 1 && ((runsOf data).headD []).length == data.length) = true := by
        rw [h1]; simp [rangeFromTo_length]
      simp only [this, if_true]
      have : decide ((runsOf data).length > 1) = false := by simp [hone]
      simp only [this, Bool.false_eq_true, if_false]
      symm; rw [List.filter_eq_self]; intro r hr; simp [hpos r hr]
    · have hlen : (runsOf data).length > 1 := by
        have : (runsOf data).length ≠ 0 := by
          intro h0; rw [List.length_eq_zero_iff] at h0; rw [h0] at hhead; simp at hhead
        omega
      have c1 : ((runsOf data).length == 1 && ((runsOf data).headD []).length == data.length) = false := by
        simp [hone]
      obtain ⟨t, ht⟩ : ∃ t, rangeFromTo 0 e0 = 0 :: t := by
        have := rangeFromTo_head? he0
        cases hr : rangeFromTo 0 e0 with
        | nil => rw [hr] at this; simp at this
        | cons b t => rw [hr] at this; simp at this; exact ⟨t, by rw [this]⟩
      have hl2 : (rangeFromTo s data.length).getLast? = some (data.length - 1) := rangeFromTo_getLast? hs
      simp only [c1, Bool.false_eq_true, if_false, hhead, hlast, ht, hl2, BEq.rfl, Bool.and_self, if_true,
        decide_eq_true hlen]
      symm; rw [List.filter_eq_self]
      intro r hr
      have hge : minLen ≤ r.length := by
        rcases List.mem_cons.mp hr with rfl | hr
        · -- the joined block is non-empty
          have : (runsOf data).headD [] = rangeFromTo 0 e0 := by
            rw [List.headD_eq_head?_getD, hhead]; rfl
          rw [List.length_append, this, rangeFromTo_length]; omega
        · exact hpos r (List.mem_of_mem_tail ((List.dropLast_sublist _).subset hr))
      simp [hge]

end TV.Grouping
