import TrimeshVerif.Proofs.Grouping
/-!
C06: `unique_value_in_row` and `unique_bincount` (helper lemmas).  Core Lean only.
-/
namespace TV.Grouping
open TV

theorem foldl_max_mem (o : Int) (os : List Int) : os.foldl max o ∈ o :: os := by
  induction os generalizing o with
  | nil => simp
  | cons x t ih =>
    have h := ih (max o x)
    simp only [List.foldl_cons]
    rcases List.mem_cons.mp h with h | h
    · rw [h]
      rcases Int.le_total o x with hox | hox
      · rw [Int.max_eq_right hox]; simp
      · rw [Int.max_eq_left hox]; simp
    · exact List.mem_cons_of_mem _ (List.mem_cons_of_mem _ h)

theorem count_map_beq (r : List Int) (w : Int) : (r.map (fun v => v == w)).count true = r.count w := by
  induction r with
  | nil => rfl
  | cons x t ih =>
    simp only [List.map_cons, List.count_cons, ih]
    by_cases h : x = w
    · subst h; simp
    · have h' : (x == w) = false := by simpa using h
      simp [h', h]

/-- one row of `unique_value_in_row` -/
def uviRow (r : List Int) : List Bool :=
  match r.filter (fun v => r.count v == 1) with
  | [] => r.map (fun _ => false)
  | o :: os => let w := os.foldl max o; r.map (fun v => v == w)

theorem uniqueValueInRow_eq (rows : List (List Int)) : uniqueValueInRow rows = rows.map uviRow := rfl

theorem uviRow_spec (r : List Int) :
    (uviRow r).length = r.length ∧ (uviRow r).count true ≤ 1 ∧
    ((uviRow r).count true = 1 ↔ ∃ v ∈ r, r.count v = 1) ∧
    (∀ i : Nat, (uviRow r)[i]? = some true → ∃ v, r[i]? = some v ∧ r.count v = 1) := by
  unfold uviRow
  cases h : r.filter (fun v => r.count v == 1) with
  | nil =>
    have hn : ∀ v ∈ r, r.count v ≠ 1 := by
      intro v hv hc
      have : v ∈ r.filter (fun v => r.count v == 1) := List.mem_filter.mpr ⟨hv, by simpa using hc⟩
      rw [h] at this; cases this
    have hc : (r.map (fun _ => false)).count true = 0 := by
      rw [List.count_eq_zero]; simp
    refine ⟨by simp, by rw [hc]; omega, ?_, ?_⟩
    · rw [hc]
      constructor
      · intro h0; cases h0
      · rintro ⟨v, hv, hcv⟩; exact absurd hcv (hn v hv)
    · intro i hi
      simp only [List.getElem?_map] at hi
      cases hr : r[i]? <;> simp [hr] at hi
  | cons o os =>
    simp only
    have hw : os.foldl max o ∈ r.filter (fun v => r.count v == 1) := by rw [h]; exact foldl_max_mem o os
    obtain ⟨hwr, hwc⟩ := List.mem_filter.mp hw
    have hwc' : r.count (os.foldl max o) = 1 := by simpa using hwc
    refine ⟨by simp, by rw [count_map_beq, hwc']; exact Nat.le_refl 1, ?_, ?_⟩
    · rw [count_map_beq, hwc']
      exact ⟨fun _ => ⟨_, hwr, hwc'⟩, fun _ => rfl⟩
    · intro i hi
      simp only [List.getElem?_map] at hi
      cases hr : r[i]? with
      | none => simp [hr] at hi
      | some v =>
        simp only [hr, Option.map_some, Option.some.injEq, beq_iff_eq] at hi
        exact ⟨v, rfl, by rw [hi]; exact hwc'⟩

/-! ### unique_bincount -/

theorem le_foldl_max (vs : List Nat) (a : Nat) : a ≤ vs.foldl max a ∧ ∀ v ∈ vs, v ≤ vs.foldl max a := by
  induction vs generalizing a with
  | nil => simp
  | cons x t ih =>
    simp only [List.foldl_cons]
    obtain ⟨h1, h2⟩ := ih (max a x)
    refine ⟨Nat.le_trans (Nat.le_max_left a x) h1, ?_⟩
    intro v hv
    rcases List.mem_cons.mp hv with rfl | hv
    · exact Nat.le_trans (Nat.le_max_right a v) h1
    · exact h2 v hv

theorem range_split (m v : Nat) (hv : v < m) :
    List.range m = List.range v ++ [v] ++ List.range' (v + 1) (m - (v + 1)) := by
  obtain ⟨k, rfl⟩ : ∃ k, m = v + 1 + k := ⟨m - (v + 1), by omega⟩
  have hk : v + 1 + k - (v + 1) = k := by omega
  rw [hk, List.range_eq_range', List.range_eq_range']
  have h1 : List.range' 0 (v + 1 + k) = List.range' 0 (v + 1) ++ List.range' (v + 1) k := by
    have := List.range'_append (s := 0) (m := v + 1) (n := k) (step := 1)
    simp only [Nat.one_mul, Nat.zero_add] at this
    exact this.symm
  have h2 : List.range' 0 (v + 1) = List.range' 0 v ++ [v] := by
    have := List.range'_append (s := 0) (m := v) (n := 1) (step := 1)
    simp only [Nat.one_mul, Nat.zero_add] at this
    rw [← this]; rfl
  rw [h1, h2]

/-- position of `v` in the filtered range -/
theorem filter_range_getElem (p : Nat → Bool) (m v : Nat) (hv : v < m) (hp : p v = true) :
    ((List.range m).filter p)[((List.range (v + 1)).filter p).length - 1]? = some v := by
  rw [range_split m v hv, List.filter_append, List.filter_append]
  have hs : List.range (v + 1) = List.range v ++ [v] := List.range_succ
  rw [hs, List.filter_append]
  have hf : [v].filter p = [v] := by simp [hp]
  rw [hf, List.length_append]
  simp only [List.length_singleton, Nat.add_sub_cancel]
  rw [List.append_assoc, List.getElem?_append_right (Nat.le_refl _)]
  simp

theorem uniqueBincount_spec (vs : List Nat) (hne : vs ≠ []) :
    let r := uniqueBincount vs
    r.1.Pairwise (· < ·) ∧ (∀ v, v ∈ r.1 ↔ v ∈ vs) ∧
    (∀ i : Nat, i < vs.length → ∃ k, r.2.1[i]? = some k ∧ r.1[k]? = vs[i]?) ∧
    (r.2.2 = r.1.map (fun u => vs.count u)) := by
  have hemp : vs.isEmpty = false := by cases vs <;> simp_all
  simp only [uniqueBincount, hemp, Bool.false_eq_true, if_false]
  have hmax := (le_foldl_max vs 0).2
  refine ⟨?_, ?_, ?_, ?_⟩
  · exact List.Pairwise.sublist List.filter_sublist (List.pairwise_lt_range)
  · intro v
    rw [List.mem_filter, List.mem_range]
    constructor
    · rintro ⟨_, hc⟩
      have : vs.count v ≠ 0 := by simpa using hc
      exact List.count_pos_iff.mp (Nat.pos_of_ne_zero this)
    · intro hv
      refine ⟨Nat.lt_succ_of_le (hmax v hv), ?_⟩
      have := List.count_pos_iff.mpr hv
      simpa using Nat.ne_of_gt this
  · intro i hi
    have hvi : vs[i]? = some vs[i] := List.getElem?_eq_getElem hi
    have hmem : vs[i] ∈ vs := List.getElem_mem hi
    have hlt : vs[i] < vs.foldl max 0 + 1 := Nat.lt_succ_of_le (hmax _ hmem)
    have hp : (fun b => vs.count b != 0) vs[i] = true := by
      have := List.count_pos_iff.mpr hmem
      simpa using Nat.ne_of_gt this
    refine ⟨((List.range (vs[i] + 1)).filter (fun c => vs.count c != 0)).length - 1, ?_, ?_⟩
    · rw [List.getElem?_map, hvi]
      simp only [Option.map_some, Option.some.injEq]
      rw [List.getD_eq_getElem?_getD, List.getElem?_map, List.getElem?_range hlt]
      rfl
    · rw [hvi]
      exact filter_range_getElem (fun b => vs.count b != 0) _ _ hlt hp
  · apply List.map_congr_left
    intro u hu
    have hu' := (List.mem_filter.mp hu).1
    rw [List.mem_range] at hu'
    rw [List.getD_eq_getElem?_getD, List.getElem?_map, List.getElem?_range hu']
    rfl


end TV.Grouping
