/-
Helper lemmas for C20 (loader skeletons, header scans, allocation bounds).
-/
import TrimeshVerif.Model.Load
import TrimeshVerif.Proofs.Codec
namespace TV.Load
open TV.Codec

/-! ### the enumerator is complete for the relational semantics -/
theorem mem_runAlts {a : List Stmt} {alts : List (List Stmt)} {s : St} {x : St × Status}
    (ha : a ∈ alts) (hx : x ∈ runBlock a s) : x ∈ runAlts alts s := by
  induction alts with
  | nil => cases ha
  | cons b rest ih =>
    rw [runAlts]
    rcases List.mem_cons.1 ha with rfl | h
    · exact List.mem_append_left _ hx
    · exact List.mem_append_right _ (ih h)

mutual
theorem execStmt_mem : ∀ {st : Stmt} {s s' : St} {status : Status},
    ExecStmt st s s' status → (s', status) ∈ runStmt st s
  | _, _, _, _, .openFile s => by simp [runStmt]
  | _, _, _, _, .setFlag s => by simp [runStmt]
  | _, _, _, _, .closeYes s h => by simp [runStmt, h]
  | _, _, _, _, .closeNo s h => by simp [runStmt, h]
  | _, _, _, _, .callOk s => by simp [runStmt]
  | _, _, _, _, .callRaise s => by simp [runStmt]
  | _, _, _, _, .raise s => by simp [runStmt]
  | _, _, _, _, .ret s => by simp [runStmt]
  | _, _, _, _, .branch alts a s s' st ha h => by
    simp only [runStmt]
    exact mem_runAlts ha (execBlock_mem h)
  | _, _, _, _, .finallyNormal body fin s s1 s2 st hb hf => by
    simp only [runStmt]
    refine List.mem_flatMap.2 ⟨(s1, st), execBlock_mem hb, ?_⟩
    refine List.mem_map.2 ⟨(s2, .normal), execBlock_mem hf, ?_⟩
    simp
  | _, _, _, _, .finallyOverride body fin s s1 s2 st st' hb hf hne => by
    simp only [runStmt]
    refine List.mem_flatMap.2 ⟨(s1, st), execBlock_mem hb, ?_⟩
    refine List.mem_map.2 ⟨(s2, st'), execBlock_mem hf, ?_⟩
    simp [hne]
  | _, _, _, _, .exceptPass body handler s s1 st hb hne => by
    simp only [runStmt]
    refine List.mem_flatMap.2 ⟨(s1, st), execBlock_mem hb, ?_⟩
    simp [hne]
  | _, _, _, _, .exceptCatch body handler s s1 s2 st hb hh => by
    simp only [runStmt]
    refine List.mem_flatMap.2 ⟨(s1, .raised), execBlock_mem hb, ?_⟩
    simpa using execBlock_mem hh
theorem execBlock_mem : ∀ {prog : List Stmt} {s s' : St} {status : Status},
    ExecBlock prog s s' status → (s', status) ∈ runBlock prog s
  | _, _, _, _, .nil s => by simp [runBlock]
  | _, _, _, _, .step st rest s s1 s2 status h1 h2 => by
    rw [runBlock]
    refine List.mem_flatMap.2 ⟨(s1, .normal), execStmt_mem h1, ?_⟩
    simpa using execBlock_mem h2
  | _, _, _, _, .stop st rest s s1 status h1 hne => by
    rw [runBlock]
    refine List.mem_flatMap.2 ⟨(s1, status), execStmt_mem h1, ?_⟩
    simp [hne]
end

theorem safe_closes (prog : List Stmt) (h : safe prog = true) (s' : St) (st : Status)
    (he : ExecBlock prog {} s' st) : s'.leak = false := by
  unfold safe at h
  have := List.all_eq_true.1 h _ (execBlock_mem he)
  simpa using this

/-! ### GLB chunk loop -/
theorem binChunks_bound (fuel : Nat) (rest : Bytes) (consumed length : Nat) (cs : List Bytes)
    (h : binChunks fuel rest consumed length = .ok cs) :
    (cs.map List.length).sum + 8 * cs.length ≤ rest.length := by
  induction fuel generalizing rest consumed cs with
  | zero =>
    rw [binChunks] at h
    cases h; simp
  | succ fuel ih =>
    rw [binChunks] at h
    split at h
    · cases h; simp
    · split at h
      · cases h; simp
      · simp only at h
        split at h
        · cases h
        · split at h
          · cases h
          · rename_i h8 _ hcl
            split at h
            · rename_i cs' hrec
              cases h
              have := ih _ _ _ hrec
              simp only [List.length_drop, List.map_cons, List.sum_cons, List.length_cons,
                List.length_take] at this hcl ⊢
              omega
            · cases h

theorem decodeGlb_bound (b json : Bytes) (cs : List Bytes) (h : decodeGlb b = .ok (json, cs)) :
    json.length + (cs.map List.length).sum + 8 * cs.length ≤ b.length := by
  unfold decodeGlb at h
  split at h
  · cases h
  split at h
  · cases h
  split at h
  · cases h
  simp only at h
  split at h
  · cases h
  split at h
  · cases h
  split at h
  · rename_i cs' hrec
    injection h with h
    injection h with hj hc
    subst hj hc
    have := binChunks_bound _ _ _ _ _ hrec
    simp only [List.length_drop, List.length_take] at this ⊢
    omega
  · cases h

/-! ### PLY header scan -/
theorem scanHeader_steps (lines : List (List String)) (acc : List Elem) (n : Nat) (es : List Elem) (k : Nat)
    (h : scanHeader lines acc n = .ok (es, k)) :
    n < k ∧ k ≤ n + lines.length ∧ es.length ≤ acc.length + lines.length := by
  fun_induction scanHeader lines acc n <;> simp_all
  all_goals first
    | omega
    | (obtain ⟨rfl, rfl⟩ := h; simp only [List.length_reverse]; omega)

theorem scanHeader_eof (lines : List (List String)) (acc : List Elem) (n : Nat)
    (h : ∀ l ∈ lines, l.contains "end_header" = false) : ∃ e, scanHeader lines acc n = .error e := by
  fun_induction scanHeader lines acc n <;> simp_all

end TV.Load
