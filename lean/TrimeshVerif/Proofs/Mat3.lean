/- 3x3 matrices over a field as plain structures (friendly to `ring`), elementary rotations -/
import Mathlib.Algebra.Field.Basic
import Mathlib.Tactic.Ring
import Mathlib.Tactic.LinearCombination
import Mathlib.Tactic.FieldSimp
namespace TV.Mat3

structure M3 (K : Type) where
  m00 : K
  m01 : K
  m02 : K
  m10 : K
  m11 : K
  m12 : K
  m20 : K
  m21 : K
  m22 : K
  deriving DecidableEq

variable {K : Type} [Field K]

@[ext] theorem M3.ext' {a b : M3 K} (h00 : a.m00 = b.m00) (h01 : a.m01 = b.m01) (h02 : a.m02 = b.m02)
    (h10 : a.m10 = b.m10) (h11 : a.m11 = b.m11) (h12 : a.m12 = b.m12)
    (h20 : a.m20 = b.m20) (h21 : a.m21 = b.m21) (h22 : a.m22 = b.m22) : a = b := by
  cases a; cases b; simp_all

def M3.one : M3 K := ⟨1, 0, 0, 0, 1, 0, 0, 0, 1⟩
def M3.mul (a b : M3 K) : M3 K :=
  ⟨a.m00 * b.m00 + a.m01 * b.m10 + a.m02 * b.m20, a.m00 * b.m01 + a.m01 * b.m11 + a.m02 * b.m21,
   a.m00 * b.m02 + a.m01 * b.m12 + a.m02 * b.m22,
   a.m10 * b.m00 + a.m11 * b.m10 + a.m12 * b.m20, a.m10 * b.m01 + a.m11 * b.m11 + a.m12 * b.m21,
   a.m10 * b.m02 + a.m11 * b.m12 + a.m12 * b.m22,
   a.m20 * b.m00 + a.m21 * b.m10 + a.m22 * b.m20, a.m20 * b.m01 + a.m21 * b.m11 + a.m22 * b.m21,
   a.m20 * b.m02 + a.m21 * b.m12 + a.m22 * b.m22⟩
instance : Mul (M3 K) := ⟨M3.mul⟩
instance : One (M3 K) := ⟨M3.one⟩
def M3.transpose (a : M3 K) : M3 K := ⟨a.m00, a.m10, a.m20, a.m01, a.m11, a.m21, a.m02, a.m12, a.m22⟩
def M3.det (a : M3 K) : K :=
  a.m00 * (a.m11 * a.m22 - a.m12 * a.m21) - a.m01 * (a.m10 * a.m22 - a.m12 * a.m20)
    + a.m02 * (a.m10 * a.m21 - a.m11 * a.m20)
/-- matrix times column vector -/
def M3.apply (a : M3 K) (v : K × K × K) : K × K × K :=
  (a.m00 * v.1 + a.m01 * v.2.1 + a.m02 * v.2.2, a.m10 * v.1 + a.m11 * v.2.1 + a.m12 * v.2.2,
   a.m20 * v.1 + a.m21 * v.2.1 + a.m22 * v.2.2)

/-- proper rotation: orthonormal with determinant one -/
def M3.IsRotation (a : M3 K) : Prop := a * a.transpose = 1 ∧ a.det = 1

/-- elementary rotations about the coordinate axes by an angle given as (cos, sin) -/
def Rx (c s : K) : M3 K := ⟨1, 0, 0, 0, c, -s, 0, s, c⟩
def Ry (c s : K) : M3 K := ⟨c, 0, s, 0, 1, 0, -s, 0, c⟩
def Rz (c s : K) : M3 K := ⟨c, -s, 0, s, c, 0, 0, 0, 1⟩

end TV.Mat3
