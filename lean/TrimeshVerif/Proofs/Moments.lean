/-
Exact moments of a signed tetrahedron (0, a, b, c), the edge terms that separate them from the
surface-integral polynomials used by `triangles.mass_properties`, and the closed-surface sum theorem.
-/
import Mathlib.Algebra.BigOperators.Group.List.Basic
import Mathlib.Algebra.Field.Basic
import Mathlib.Algebra.CharZero.Defs
import Mathlib.Tactic.Ring
import Mathlib.Tactic.NormNum
import Mathlib.Tactic.LinearCombination
import Mathlib.Tactic.FieldSimp
import Mathlib.Tactic.FinCases

namespace TV.Moments

variable {K : Type} [Field K]

/-- determinant of the three position vectors -/
def det3 (a1 a2 a3 b1 b2 b3 c1 c2 c3 : K) : K :=
  a1 * (b2 * c3 - b3 * c2) - a2 * (b1 * c3 - b3 * c1) + a3 * (b1 * c2 - b2 * c1)

/-! ### exact integrals of the monomials 1, x, y, z, x², y², z², xy, yz, zx over the signed
tetrahedron with apex at the origin (`∫ xⁱyʲzᵏ` over the standard simplex is `i!j!k!/(i+j+k+3)!`,
expanded multilinearly in the three edge vectors) -/

def T0 (a1 a2 a3 b1 b2 b3 c1 c2 c3 : K) : K := det3 a1 a2 a3 b1 b2 b3 c1 c2 c3 / 6
def T1 (a1 a2 a3 b1 b2 b3 c1 c2 c3 : K) : K := det3 a1 a2 a3 b1 b2 b3 c1 c2 c3 * (a1 + b1 + c1) / 24
def T2 (a1 a2 a3 b1 b2 b3 c1 c2 c3 : K) : K := det3 a1 a2 a3 b1 b2 b3 c1 c2 c3 * (a2 + b2 + c2) / 24
def T3 (a1 a2 a3 b1 b2 b3 c1 c2 c3 : K) : K := det3 a1 a2 a3 b1 b2 b3 c1 c2 c3 * (a3 + b3 + c3) / 24
/-- symmetric second-order form `2(a_i a_j + b_i b_j + c_i c_j) + Σ mixed` -/
def q2 (ai aj bi bj ci cj : K) : K :=
  2 * ai * aj + 2 * bi * bj + 2 * ci * cj + ai * bj + aj * bi + ai * cj + aj * ci + bi * cj + bj * ci
def T4 (a1 a2 a3 b1 b2 b3 c1 c2 c3 : K) : K := det3 a1 a2 a3 b1 b2 b3 c1 c2 c3 * q2 a1 a1 b1 b1 c1 c1 / 120
def T5 (a1 a2 a3 b1 b2 b3 c1 c2 c3 : K) : K := det3 a1 a2 a3 b1 b2 b3 c1 c2 c3 * q2 a2 a2 b2 b2 c2 c2 / 120
def T6 (a1 a2 a3 b1 b2 b3 c1 c2 c3 : K) : K := det3 a1 a2 a3 b1 b2 b3 c1 c2 c3 * q2 a3 a3 b3 b3 c3 c3 / 120
def T7 (a1 a2 a3 b1 b2 b3 c1 c2 c3 : K) : K := det3 a1 a2 a3 b1 b2 b3 c1 c2 c3 * q2 a1 a2 b1 b2 c1 c2 / 120
def T8 (a1 a2 a3 b1 b2 b3 c1 c2 c3 : K) : K := det3 a1 a2 a3 b1 b2 b3 c1 c2 c3 * q2 a2 a3 b2 b3 c2 c3 / 120
def T9 (a1 a2 a3 b1 b2 b3 c1 c2 c3 : K) : K := det3 a1 a2 a3 b1 b2 b3 c1 c2 c3 * q2 a3 a1 b3 b1 c3 c1 / 120

/-! ### edge terms: line integrals along the edge (u, v) of a vector potential of the difference between
the field integrated by the code and the cone field; each is antisymmetric in (u, v) -/

def g0 (u1 u2 u3 v1 v2 v3 : K) : K :=
  ((1 : K) / 6) * u1 * u2 * v3 + ((-1 : K) / 6) * u1 * u3 * v2 + ((1 : K) / 6) * u2 * v1 * v3 + ((-1 : K) / 6) * u3 * v1 * v2
def g1 (u1 u2 u3 v1 v2 v3 : K) : K :=
  ((1 : K) / 24) * u1 ^ 2 * u2 * v3 + ((-1 : K) / 24) * u1 ^ 2 * u3 * v2 + ((1 : K) / 24) * u1 * u2 * v1 * v3 + ((-1 : K) / 24) * u1 * u3 * v1 * v2 + ((1 : K) / 24) * u2 * v1 ^ 2 * v3 + ((-1 : K) / 24) * u3 * v1 ^ 2 * v2
def g2 (u1 u2 u3 v1 v2 v3 : K) : K :=
  ((-1 : K) / 24) * u1 * u2 ^ 2 * v3 + ((-1 : K) / 24) * u1 * u2 * v2 * v3 + ((-1 : K) / 24) * u1 * v2 ^ 2 * v3 + ((1 : K) / 24) * u2 ^ 2 * u3 * v1 + ((1 : K) / 24) * u2 * u3 * v1 * v2 + ((1 : K) / 24) * u3 * v1 * v2 ^ 2
def g3 (u1 u2 u3 v1 v2 v3 : K) : K :=
  ((1 : K) / 24) * u1 * u3 ^ 2 * v2 + ((1 : K) / 24) * u1 * u3 * v2 * v3 + ((1 : K) / 24) * u1 * v2 * v3 ^ 2 + ((-1 : K) / 24) * u2 * u3 ^ 2 * v1 + ((-1 : K) / 24) * u2 * u3 * v1 * v3 + ((-1 : K) / 24) * u2 * v1 * v3 ^ 2
def g4 (u1 u2 u3 v1 v2 v3 : K) : K :=
  ((1 : K) / 60) * u1 ^ 3 * u2 * v3 + ((-1 : K) / 60) * u1 ^ 3 * u3 * v2 + ((1 : K) / 60) * u1 ^ 2 * u2 * v1 * v3 + ((-1 : K) / 60) * u1 ^ 2 * u3 * v1 * v2 + ((1 : K) / 60) * u1 * u2 * v1 ^ 2 * v3 + ((-1 : K) / 60) * u1 * u3 * v1 ^ 2 * v2 + ((1 : K) / 60) * u2 * v1 ^ 3 * v3 + ((-1 : K) / 60) * u3 * v1 ^ 3 * v2
def g5 (u1 u2 u3 v1 v2 v3 : K) : K :=
  ((-1 : K) / 60) * u1 * u2 ^ 3 * v3 + ((-1 : K) / 60) * u1 * u2 ^ 2 * v2 * v3 + ((-1 : K) / 60) * u1 * u2 * v2 ^ 2 * v3 + ((-1 : K) / 60) * u1 * v2 ^ 3 * v3 + ((1 : K) / 60) * u2 ^ 3 * u3 * v1 + ((1 : K) / 60) * u2 ^ 2 * u3 * v1 * v2 + ((1 : K) / 60) * u2 * u3 * v1 * v2 ^ 2 + ((1 : K) / 60) * u3 * v1 * v2 ^ 3
def g6 (u1 u2 u3 v1 v2 v3 : K) : K :=
  ((1 : K) / 60) * u1 * u3 ^ 3 * v2 + ((1 : K) / 60) * u1 * u3 ^ 2 * v2 * v3 + ((1 : K) / 60) * u1 * u3 * v2 * v3 ^ 2 + ((1 : K) / 60) * u1 * v2 * v3 ^ 3 + ((-1 : K) / 60) * u2 * u3 ^ 3 * v1 + ((-1 : K) / 60) * u2 * u3 ^ 2 * v1 * v3 + ((-1 : K) / 60) * u2 * u3 * v1 * v3 ^ 2 + ((-1 : K) / 60) * u2 * v1 * v3 ^ 3
def g7 (u1 u2 u3 v1 v2 v3 : K) : K :=
  ((1 : K) / 40) * u1 ^ 2 * u2 ^ 2 * v3 + ((-1 : K) / 40) * u1 ^ 2 * u2 * u3 * v2 + ((1 : K) / 120) * u1 ^ 2 * u2 * v2 * v3 + ((-1 : K) / 120) * u1 ^ 2 * u3 * v2 ^ 2 + ((1 : K) / 60) * u1 * u2 ^ 2 * v1 * v3 + ((-1 : K) / 60) * u1 * u2 * u3 * v1 * v2 + ((1 : K) / 60) * u1 * u2 * v1 * v2 * v3 + ((-1 : K) / 60) * u1 * u3 * v1 * v2 ^ 2 + ((1 : K) / 120) * u2 ^ 2 * v1 ^ 2 * v3 + ((-1 : K) / 120) * u2 * u3 * v1 ^ 2 * v2 + ((1 : K) / 40) * u2 * v1 ^ 2 * v2 * v3 + ((-1 : K) / 40) * u3 * v1 ^ 2 * v2 ^ 2
def g8 (u1 u2 u3 v1 v2 v3 : K) : K :=
  ((-1 : K) / 40) * u1 * u2 ^ 2 * u3 * v3 + ((-1 : K) / 120) * u1 * u2 ^ 2 * v3 ^ 2 + ((-1 : K) / 60) * u1 * u2 * u3 * v2 * v3 + ((-1 : K) / 60) * u1 * u2 * v2 * v3 ^ 2 + ((-1 : K) / 120) * u1 * u3 * v2 ^ 2 * v3 + ((-1 : K) / 40) * u1 * v2 ^ 2 * v3 ^ 2 + ((1 : K) / 40) * u2 ^ 2 * u3 ^ 2 * v1 + ((1 : K) / 120) * u2 ^ 2 * u3 * v1 * v3 + ((1 : K) / 60) * u2 * u3 ^ 2 * v1 * v2 + ((1 : K) / 60) * u2 * u3 * v1 * v2 * v3 + ((1 : K) / 120) * u3 ^ 2 * v1 * v2 ^ 2 + ((1 : K) / 40) * u3 * v1 * v2 ^ 2 * v3
def g9 (u1 u2 u3 v1 v2 v3 : K) : K :=
  ((1 : K) / 40) * u1 ^ 2 * u3 ^ 2 * v2 + ((1 : K) / 60) * u1 ^ 2 * u3 * v2 * v3 + ((1 : K) / 120) * u1 ^ 2 * v2 * v3 ^ 2 + ((-1 : K) / 40) * u1 * u2 * u3 ^ 2 * v1 + ((-1 : K) / 60) * u1 * u2 * u3 * v1 * v3 + ((-1 : K) / 120) * u1 * u2 * v1 * v3 ^ 2 + ((1 : K) / 120) * u1 * u3 ^ 2 * v1 * v2 + ((1 : K) / 60) * u1 * u3 * v1 * v2 * v3 + ((1 : K) / 40) * u1 * v1 * v2 * v3 ^ 2 + ((-1 : K) / 120) * u2 * u3 ^ 2 * v1 ^ 2 + ((-1 : K) / 60) * u2 * u3 * v1 ^ 2 * v3 + ((-1 : K) / 40) * u2 * v1 ^ 2 * v3 ^ 2

/-! ### closed surfaces -/

abbrev Pt (K : Type) := K × K × K
abbrev Tri (K : Type) := Pt K × Pt K × Pt K

/-- directed edges of a triangle list -/
def dirEdges (fs : List (Tri K)) : List (Pt K × Pt K) :=
  fs.flatMap (fun f => [(f.1, f.2.1), (f.2.1, f.2.2), (f.2.2, f.1)])

/-- closed and consistently wound: the multiset of directed edges is invariant under reversal
    (any genus, several bodies, overlapping or nested shells) -/
def Closed (fs : List (Tri K)) : Prop := (dirEdges fs).Perm ((dirEdges fs).map Prod.swap)

variable [CharZero K]

theorem edge_sum_zero (g : Pt K → Pt K → K) (hg : ∀ u v, g u v + g v u = 0)
    (fs : List (Tri K)) (h : Closed fs) :
    ((dirEdges fs).map (fun e => g e.1 e.2)).sum = 0 := by
  have h1 : ((dirEdges fs).map (fun e => g e.1 e.2)).sum
      = (((dirEdges fs).map Prod.swap).map (fun e => g e.1 e.2)).sum :=
    (h.map _).sum_eq
  rw [List.map_map] at h1
  have h2 : (((dirEdges fs).map ((fun e => g e.1 e.2) ∘ Prod.swap))).sum
      = - ((dirEdges fs).map (fun e => g e.1 e.2)).sum := by
    induction (dirEdges fs) with
    | nil => simp
    | cons e t ih =>
      simp only [List.map_cons, List.sum_cons, Function.comp, Prod.fst_swap, Prod.snd_swap] at ih ⊢
      rw [ih]; linear_combination hg e.2 e.1
  rw [h2] at h1
  have : (2:K) * ((dirEdges fs).map (fun e => g e.1 e.2)).sum = 0 := by linear_combination h1
  rcases mul_eq_zero.mp this with h3 | h3
  · exact absurd h3 (by norm_num)
  · exact h3

/-- if a per-face quantity `F` equals `T` plus antisymmetric edge terms, the sums of `F` and `T` over a
    closed consistently wound surface agree -/
theorem face_sum_eq (F T : Pt K → Pt K → Pt K → K) (g : Pt K → Pt K → K)
    (hg : ∀ u v, g u v + g v u = 0)
    (hF : ∀ a b c, F a b c = T a b c + (g a b + g b c + g c a))
    (fs : List (Tri K)) (h : Closed fs) :
    (fs.map (fun f => F f.1 f.2.1 f.2.2)).sum = (fs.map (fun f => T f.1 f.2.1 f.2.2)).sum := by
  have key : (fs.map (fun f => F f.1 f.2.1 f.2.2)).sum
      = (fs.map (fun f => T f.1 f.2.1 f.2.2)).sum + ((dirEdges fs).map (fun e => g e.1 e.2)).sum := by
    clear h
    unfold dirEdges
    induction fs with
    | nil => simp
    | cons f t ih =>
      simp only [List.map_cons, List.sum_cons, List.flatMap_cons, List.map_append, List.sum_append,
        List.map_nil, List.sum_nil] at ih ⊢
      rw [ih, hF]; ring
  rw [key, edge_sum_zero g hg fs h, add_zero]

end TV.Moments
