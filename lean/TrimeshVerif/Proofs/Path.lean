/-
Helper lemmas for C14 (planar path measures).
-/
import TrimeshVerif.Model.Path
import Mathlib.Tactic.Ring
import Mathlib.Tactic.Linarith
import Mathlib.Tactic.FieldSimp
import Mathlib.Tactic.LinearCombination
import Mathlib.Algebra.Order.Field.Rat
namespace TV.Path

/-! ### sums of rational lists -/

theorem sum_map_perm {α : Type} (f : α → Rat) {l1 l2 : List α} (h : l1.Perm l2) :
    (l1.map f).sum = (l2.map f).sum := by
  induction h with
  | nil => rfl
  | cons x _ ih => simp [ih]
  | swap x y l => simp only [List.map_cons, List.sum_cons]; ring
  | trans _ _ ih1 ih2 => exact ih1.trans ih2

theorem sum_map_neg {α : Type} (f : α → Rat) (l : List α) :
    (l.map (fun s => - f s)).sum = - (l.map f).sum := by
  induction l with
  | nil => simp
  | cons x l ih => simp only [List.map_cons, List.sum_cons, ih]; ring

/-! ### segments -/

@[simp] theorem segs_nil : segs [] = [] := rfl
@[simp] theorem segs_single (a : P2) : segs [a] = [] := rfl
@[simp] theorem segs_cons_cons (a b : P2) (l : List P2) : segs (a :: b :: l) = (a, b) :: segs (b :: l) := rfl
@[simp] theorem openSum_nil : openSum [] = 0 := rfl
@[simp] theorem openSum_single (a : P2) : openSum [a] = 0 := rfl
@[simp] theorem openSum_cons_cons (a b : P2) (l : List P2) :
    openSum (a :: b :: l) = cross2 a b + openSum (b :: l) := rfl

theorem openSum_eq_sum_segs (l : List P2) :
    openSum l = ((segs l).map (fun s => cross2 s.1 s.2)).sum := by
  cases l with
  | nil => rfl
  | cons a l =>
    induction l generalizing a with
    | nil => rfl
    | cons b l ih => simp [ih b]

theorem segs_append_cons (l1 : List P2) (a : P2) (l2 : List P2) :
    segs (l1 ++ a :: l2) = segs (l1 ++ [a]) ++ segs (a :: l2) := by
  cases l1 with
  | nil => simp
  | cons x l1 =>
    induction l1 generalizing x with
    | nil => simp
    | cons y l1 ih =>
      have := ih y
      simp only [List.cons_append] at this ⊢
      simp [this]

theorem segs_reverse (l : List P2) : segs l.reverse = ((segs l).map Prod.swap).reverse := by
  cases l with
  | nil => rfl
  | cons a l =>
    induction l generalizing a with
    | nil => rfl
    | cons b l ih =>
      have h1 : (a :: b :: l).reverse = (b :: l).reverse ++ [a] := by simp
      have h2 : (b :: l).reverse = l.reverse ++ [b] := by simp
      rw [h1]
      conv => lhs; rw [h2, List.append_assoc]; simp only [List.cons_append, List.nil_append]
      rw [segs_append_cons, ← h2, ih b]
      simp

theorem openSum_reverse (l : List P2) : openSum l.reverse = - openSum l := by
  rw [openSum_eq_sum_segs, openSum_eq_sum_segs, segs_reverse,
    sum_map_perm _ (List.reverse_perm _), List.map_map, ← sum_map_neg]
  congr 1
  apply List.map_congr_left
  intro s _
  simp only [Function.comp, Prod.swap, cross2]
  ring

theorem sqLen_comm (a b : P2) : sqLen a b = sqLen b a := by
  simp only [sqLen]; ring

theorem sqLens_reverse_perm (l : List P2) : (sqLens l.reverse).Perm (sqLens l) := by
  unfold sqLens
  rw [segs_reverse, List.map_reverse, List.map_map]
  refine (List.reverse_perm _).trans ?_
  have : ((fun s : P2 × P2 => sqLen s.1 s.2) ∘ Prod.swap) = (fun s : P2 × P2 => sqLen s.1 s.2) := by
    funext s
    simp only [Function.comp, Prod.swap]
    exact sqLen_comm _ _
  rw [this]

/-! ### chaining -/

theorem openSum_append_of_getLast? (l1 : List P2) (a : P2) (rest : List P2)
    (h : l1.getLast? = some a) : openSum (l1 ++ rest) = openSum l1 + openSum (a :: rest) := by
  cases l1 with
  | nil => simp at h
  | cons x l1 =>
    induction l1 generalizing x with
    | nil =>
      simp at h
      subst h
      simp
    | cons y l1 ih =>
      have h' : (y :: l1).getLast? = some a := by
        simpa [List.getLast?_cons_cons] using h
      have := ih y h'
      simp only [List.cons_append] at this ⊢
      simp only [openSum_cons_cons, this]
      ring

theorem head?_joinChain (q : List P2) (rest : List (List P2)) (hq : q ≠ []) :
    (joinChain (q :: rest)).head? = q.head? := by
  cases rest with
  | nil => simp [joinChain]
  | cons r rest =>
    cases q with
    | nil => exact absurd rfl hq
    | cons x q => simp [joinChain]

theorem openSum_joinChain (ps : List (List P2)) (h : chained ps = true) :
    openSum (joinChain ps) = (ps.map openSum).sum := by
  induction ps with
  | nil => simp [joinChain]
  | cons p ps ih =>
    cases ps with
    | nil => simp [joinChain]
    | cons q rest =>
      simp only [chained, Bool.and_eq_true, Bool.not_eq_true', List.isEmpty_eq_false_iff,
        beq_iff_eq] at h
      obtain ⟨⟨hp, hpq⟩, hc⟩ := h
      have hq : q ≠ [] := by
        cases rest with
        | nil => simpa [chained] using hc
        | cons r rest =>
          simp only [chained, Bool.and_eq_true, Bool.not_eq_true', List.isEmpty_eq_false_iff] at hc
          exact hc.1.1
      obtain ⟨a, ha⟩ : ∃ a, p.getLast? = some a := by
        cases hl : p.getLast? with
        | none => exact absurd (List.getLast?_eq_none_iff.mp hl) hp
        | some a => exact ⟨a, rfl⟩
      have hh : (joinChain (q :: rest)).head? = some a := by
        rw [head?_joinChain q rest hq, ← hpq, ha]
      have hj : joinChain (q :: rest) = a :: (joinChain (q :: rest)).tail := by
        cases hjc : joinChain (q :: rest) with
        | nil => rw [hjc] at hh; simp at hh
        | cons x t => rw [hjc] at hh; simp at hh; simp [hh]
      have ih' := ih hc
      simp only [joinChain, List.map_cons, List.sum_cons]
      rw [openSum_append_of_getLast? p a _ ha, ← hj, ih']
      simp

theorem openSum_orient (e : List P2 × Bool) :
    openSum (orient e) = if e.2 then - openSum e.1 else openSum e.1 := by
  unfold orient
  split <;> simp [openSum_reverse]

/-! ### affine maps -/

/-- boundary term that telescopes along a polyline -/
def affB (A : M2) (t : P2) (p : P2) : Rat :=
  t.1 * (A.2.1 * p.1 + A.2.2 * p.2) - t.2 * (A.1.1 * p.1 + A.1.2 * p.2)

theorem cross2_apply (A : M2) (t p q : P2) :
    cross2 (apply A t p) (apply A t q) = det2 A * cross2 p q + affB A t q - affB A t p := by
  obtain ⟨⟨a11, a12⟩, ⟨a21, a22⟩⟩ := A
  obtain ⟨t1, t2⟩ := t
  obtain ⟨p1, p2⟩ := p
  obtain ⟨q1, q2⟩ := q
  simp only [cross2, apply, det2, affB]
  ring

theorem openSum_map_apply (A : M2) (t : P2) (a : P2) (l : List P2) :
    openSum ((a :: l).map (apply A t)) =
      det2 A * openSum (a :: l) + affB A t ((a :: l).getLast (by simp)) - affB A t a := by
  induction l generalizing a with
  | nil => simp
  | cons b l ih =>
    have := ih b
    simp only [List.map_cons] at this
    simp only [List.map_cons, openSum_cons_cons, this, cross2_apply, List.getLast_cons_cons]
    ring

theorem openSum_map_apply_closed (A : M2) (t : P2) (l : List P2) (hc : isClosed l = true) :
    openSum (l.map (apply A t)) = det2 A * openSum l := by
  cases l with
  | nil => simp
  | cons a l =>
    have hl : (a :: l).getLast (by simp) = a := by
      unfold isClosed at hc
      rw [List.getLast?_eq_some_getLast (l := a :: l) (by simp)] at hc
      simp only [List.head?_cons, beq_iff_eq] at hc
      exact hc.symm
    rw [openSum_map_apply, hl]
    ring

theorem sqLen_apply (A : M2) (t : P2) (s2 : Rat)
    (h1 : A.1.1 * A.1.1 + A.2.1 * A.2.1 = s2) (h2 : A.1.2 * A.1.2 + A.2.2 * A.2.2 = s2)
    (h3 : A.1.1 * A.1.2 + A.2.1 * A.2.2 = 0) (a b : P2) :
    sqLen (apply A t a) (apply A t b) = s2 * sqLen a b := by
  obtain ⟨⟨a11, a12⟩, ⟨a21, a22⟩⟩ := A
  obtain ⟨t1, t2⟩ := t
  obtain ⟨x1, y1⟩ := a
  obtain ⟨x2, y2⟩ := b
  simp only [sqLen, apply] at *
  linear_combination ((x1 - x2) * (x1 - x2)) * h1 + ((y1 - y2) * (y1 - y2)) * h2
    + (2 * (x1 - x2) * (y1 - y2)) * h3

/-! ### arcs -/

theorem arc_weight_sum (p0 p1 p2 : P2) :
    sqLen p2 p1 * (sqLen p0 p2 + sqLen p1 p0 - sqLen p2 p1)
      + sqLen p0 p2 * (sqLen p2 p1 + sqLen p1 p0 - sqLen p0 p2)
      + sqLen p1 p0 * (sqLen p2 p1 + sqLen p0 p2 - sqLen p1 p0)
    = 4 * (cross2 (sub2 p1 p0) (sub2 p2 p0)) * (cross2 (sub2 p1 p0) (sub2 p2 p0)) := by
  obtain ⟨x0, y0⟩ := p0
  obtain ⟨x1, y1⟩ := p1
  obtain ⟨x2, y2⟩ := p2
  simp only [sqLen, cross2, sub2]
  ring

theorem arcCenter_collinear (p0 p1 p2 : P2) (h : cross2 (sub2 p1 p0) (sub2 p2 p0) = 0) :
    arcCenter p0 p1 p2 = none := by
  have hs := arc_weight_sum p0 p1 p2
  rw [h] at hs
  simp only [mul_zero] at hs
  unfold arcCenter
  simp only [hs, if_true]

theorem equidist_aux (x0 y0 x1 y1 ox oy s N1 N2 : Rat) (hs : s ≠ 0)
    (hox : ox * s = N1) (hoy : oy * s = N2)
    (hid : -2 * (x0 - x1) * N1 - 2 * (y0 - y1) * N2
      + s * (x0 * x0 + y0 * y0 - x1 * x1 - y1 * y1) = 0) :
    (ox - x0) * (ox - x0) + (oy - y0) * (oy - y0) = (ox - x1) * (ox - x1) + (oy - y1) * (oy - y1) := by
  apply mul_left_cancel₀ hs
  linear_combination hid + (-2 * (x0 - x1)) * hox + (-2 * (y0 - y1)) * hoy

theorem arcCenter_equidistant (p0 p1 p2 o : P2) (h : arcCenter p0 p1 p2 = some o) :
    sqLen o p0 = sqLen o p1 ∧ sqLen o p1 = sqLen o p2 := by
  unfold arcCenter at h
  simp only at h
  split at h
  · simp at h
  · rename_i hs
    have ho := (Option.some.inj h).symm
    subst ho
    obtain ⟨x0, y0⟩ := p0
    obtain ⟨x1, y1⟩ := p1
    obtain ⟨x2, y2⟩ := p2
    simp only [sqLen] at hs ⊢
    constructor
    · refine equidist_aux _ _ _ _ _ _ _ _ _ hs (div_mul_cancel₀ _ hs) (div_mul_cancel₀ _ hs) ?_
      ring
    · refine equidist_aux _ _ _ _ _ _ _ _ _ hs (div_mul_cancel₀ _ hs) (div_mul_cancel₀ _ hs) ?_
      ring

/-! ### regions -/

theorem absR_neg (x : Rat) : absR (-x) = absR x := by
  unfold absR
  split <;> split <;> linarith

theorem regionArea2_reverse (shell : List P2) (holes : List (List P2)) :
    regionArea2 shell.reverse (holes.map List.reverse) = regionArea2 shell holes := by
  unfold regionArea2
  rw [openSum_reverse, absR_neg, List.map_map]
  congr 2
  apply List.map_congr_left
  intro h _
  simp only [Function.comp, openSum_reverse, absR_neg]

end TV.Path
