import TrimeshVerif.Model.Query
import Mathlib.Algebra.Order.Field.Rat
import Mathlib.Tactic.Ring
import Mathlib.Tactic.Linarith
import Mathlib.Tactic.LinearCombination
import Mathlib.Tactic.FieldSimp
import Mathlib.Tactic.Positivity
import Mathlib.Tactic.NormNum
/-
Helper lemmas for C12 (Props/C12.lean): fold/list facts about `rayHits`, `firstHit`, `closestOnMesh`;
Cramer's rule / plane facts for `rayTriangle`; and the reduction of Ericson's closest-point cascade to five
scalars (Gram entries `A B C` and the projections `d1 d2`), on which membership and optimality are proved.
-/
namespace TV.Query

/-! ### list / fold lemmas -/

/-- the generic "keep the strictly smaller" step used by `firstHit` and `closestOnMesh` -/
def minStep {α β : Type} (g : α → β) (k : β → Rat) : Option β → α → Option β :=
  fun best a => match best with
    | none => some (g a)
    | some b => if k (g a) < k b then some (g a) else some b

theorem foldl_minStep_spec {α β : Type} (g : α → β) (k : β → Rat) (l : List α) :
    ∀ (init : Option β) (r : β), l.foldl (minStep g k) init = some r →
      ((∃ a ∈ l, g a = r) ∨ init = some r) ∧ (∀ a ∈ l, k r ≤ k (g a)) ∧
        (∀ b, init = some b → k r ≤ k b) := by
  induction l with
  | nil =>
    intro init r h
    simp only [List.foldl_nil] at h
    subst h
    refine ⟨Or.inr rfl, by simp, ?_⟩
    intro b hb
    cases hb
    exact le_refl _
  | cons x xs ih =>
    intro init r h
    rw [List.foldl_cons] at h
    obtain ⟨h1, h2, h3⟩ := ih _ _ h
    cases init with
    | none =>
      have h3' := h3 (g x) rfl
      refine ⟨Or.inl ?_, ?_, by simp⟩
      · rcases h1 with ⟨a, ha, hga⟩ | h1
        · exact ⟨a, List.mem_cons_of_mem _ ha, hga⟩
        · exact ⟨x, List.mem_cons_self, by simpa [minStep] using h1⟩
      · intro a ha
        rcases List.mem_cons.1 ha with rfl | ha
        · exact h3'
        · exact h2 a ha
    | some b =>
      by_cases hlt : k (g x) < k b
      · have hstep : minStep g k (some b) x = some (g x) := by simp [minStep, hlt]
        rw [hstep] at h1 h3
        have h3' := h3 (g x) rfl
        refine ⟨Or.inl ?_, ?_, ?_⟩
        · rcases h1 with ⟨a, ha, hga⟩ | h1
          · exact ⟨a, List.mem_cons_of_mem _ ha, hga⟩
          · exact ⟨x, List.mem_cons_self, by simpa using h1⟩
        · intro a ha
          rcases List.mem_cons.1 ha with rfl | ha
          · exact h3'
          · exact h2 a ha
        · intro b' hb'
          cases hb'
          exact le_trans h3' (le_of_lt hlt)
      · have hstep : minStep g k (some b) x = some b := by simp [minStep, hlt]
        rw [hstep] at h1 h3
        have h3' := h3 b rfl
        refine ⟨?_, ?_, ?_⟩
        · rcases h1 with ⟨a, ha, hga⟩ | h1
          · exact Or.inl ⟨a, List.mem_cons_of_mem _ ha, hga⟩
          · exact Or.inr h1
        · intro a ha
          rcases List.mem_cons.1 ha with rfl | ha
          · exact le_trans h3' (not_lt.1 hlt)
          · exact h2 a ha
        · intro b' hb'
          cases hb'
          exact h3'

theorem mem_rayHits_iff (o d : P) (ts : List Tri) (i : Nat) (s : Rat) :
    (i, s) ∈ rayHits o d ts ↔ ∃ t u v, ts[i]? = some t ∧ rayTriangle o d t = some (s, u, v) := by
  unfold rayHits
  rw [List.mem_filterMap]
  constructor
  · rintro ⟨⟨t, j⟩, hmem, hmap⟩
    rw [List.mem_zipIdx_iff_getElem?] at hmem
    simp only [Option.map_eq_some_iff] at hmap
    obtain ⟨⟨s', u, v⟩, hr, heq⟩ := hmap
    simp only [Prod.mk.injEq] at heq
    obtain ⟨rfl, rfl⟩ := heq
    exact ⟨t, u, v, hmem, hr⟩
  · rintro ⟨t, u, v, hget, hr⟩
    refine ⟨(t, i), ?_, ?_⟩
    · rw [List.mem_zipIdx_iff_getElem?]; exact hget
    · simp [hr]

theorem firstHit_eq (o d : P) (ts : List Tri) :
    firstHit o d ts = (rayHits o d ts).foldl (minStep (fun h => h) (fun h => h.2)) none := by
  unfold firstHit
  congr 1
  funext best h
  cases best <;> rfl

theorem closestOnMesh_eq (p : P) (ts : List Tri) :
    closestOnMesh p ts = ts.zipIdx.foldl
      (minStep (fun ti : Tri × Nat => (ti.2, closestPointTri p ti.1, dist2 p (closestPointTri p ti.1)))
        (fun b => b.2.2)) none := by
  unfold closestOnMesh
  congr 1
  funext best ti
  cases best <;> rfl

theorem firstHit_spec (o d : P) (ts : List Tri) (i : Nat) (s : Rat) (h : firstHit o d ts = some (i, s)) :
    (i, s) ∈ rayHits o d ts ∧ ∀ h' ∈ rayHits o d ts, s ≤ h'.2 := by
  rw [firstHit_eq] at h
  obtain ⟨h1, h2, -⟩ := foldl_minStep_spec _ _ _ _ _ h
  refine ⟨?_, fun h' hh' => h2 h' hh'⟩
  rcases h1 with ⟨a, ha, rfl⟩ | h1
  · exact ha
  · cases h1

theorem closestOnMesh_spec (p : P) (ts : List Tri) (i : Nat) (q : P) (d : Rat)
    (h : closestOnMesh p ts = some (i, q, d)) :
    (∃ t, ts[i]? = some t ∧ q = closestPointTri p t ∧ d = dist2 p q) ∧
    ∀ t ∈ ts, d ≤ dist2 p (closestPointTri p t) := by
  rw [closestOnMesh_eq] at h
  obtain ⟨h1, h2, -⟩ := foldl_minStep_spec _ _ _ _ _ h
  constructor
  · rcases h1 with ⟨⟨t, j⟩, ha, heq⟩ | h1
    · rw [List.mem_zipIdx_iff_getElem?] at ha
      simp only [Prod.mk.injEq] at heq
      obtain ⟨rfl, rfl, rfl⟩ := heq
      exact ⟨t, ha, rfl, rfl⟩
    · cases h1
  · intro t ht
    obtain ⟨j, hj, hget⟩ := List.mem_iff_getElem.1 ht
    have hmem : (t, j) ∈ ts.zipIdx := by
      rw [List.mem_zipIdx_iff_getElem?]
      simp [List.getElem?_eq_getElem hj, hget]
    exact h2 (t, j) hmem

def triNormal (t : Tri) : P := cross (sub t.2.1 t.1) (sub t.2.2 t.1)

/-! ### vector algebra -/

theorem eq_add_of_sub_eq (p a q : P) (h : sub p a = q) : p = add a q := by
  obtain ⟨p1, p2, p3⟩ := p
  obtain ⟨a1, a2, a3⟩ := a
  obtain ⟨q1, q2, q3⟩ := q
  simp only [sub, add, Prod.mk.injEq] at *
  obtain ⟨h1, h2, h3⟩ := h
  exact ⟨by linarith, by linarith, by linarith⟩

theorem sub_add_cancel_left (a q : P) : sub (add a q) a = q := by
  obtain ⟨a1, a2, a3⟩ := a
  obtain ⟨q1, q2, q3⟩ := q
  simp only [sub, add, Prod.mk.injEq]
  exact ⟨by ring, by ring, by ring⟩

/-- Lagrange identity: the Gram determinant is the squared norm of the cross product -/
theorem lagrange (x y : P) : dot x x * dot y y - dot x y * dot x y = dot (cross x y) (cross x y) := by
  obtain ⟨x1, x2, x3⟩ := x
  obtain ⟨y1, y2, y3⟩ := y
  simp only [dot, cross]
  ring

/-- Cramer's rule in the plane spanned by `x`, `y`: a vector orthogonal to `x × y` is recovered -/
theorem cramer_vec (x y w : P) (u v : Rat)
    (hg : dot x x * dot y y - dot x y * dot x y ≠ 0)
    (hu : u * (dot x x * dot y y - dot x y * dot x y) = dot y y * dot x w - dot x y * dot y w)
    (hv : v * (dot x x * dot y y - dot x y * dot x y) = dot x x * dot y w - dot x y * dot x w)
    (hpl : dot (cross x y) w = 0) : w = add (smul u x) (smul v y) := by
  obtain ⟨x1, x2, x3⟩ := x
  obtain ⟨y1, y2, y3⟩ := y
  obtain ⟨w1, w2, w3⟩ := w
  simp only [dot, cross, add, smul, Prod.mk.injEq] at *
  refine ⟨mul_right_cancel₀ hg ?_, mul_right_cancel₀ hg ?_, mul_right_cancel₀ hg ?_⟩
  · linear_combination -x1 * hu - y1 * hv + (x2 * y3 - x3 * y2) * hpl
  · linear_combination -x2 * hu - y2 * hv + (x3 * y1 - x1 * y3) * hpl
  · linear_combination -x3 * hu - y3 * hv + (x1 * y2 - x2 * y1) * hpl

/-- Cramer's rule applied to a combination returns its coefficients -/
theorem cramer_comb (x y : P) (u v : Rat) :
    dot y y * dot x (add (smul u x) (smul v y)) - dot x y * dot y (add (smul u x) (smul v y))
        = u * (dot x x * dot y y - dot x y * dot x y) ∧
    dot x x * dot y (add (smul u x) (smul v y)) - dot x y * dot x (add (smul u x) (smul v y))
        = v * (dot x x * dot y y - dot x y * dot x y) := by
  obtain ⟨x1, x2, x3⟩ := x
  obtain ⟨y1, y2, y3⟩ := y
  simp only [dot, add, smul]
  constructor <;> ring

theorem dot_cross_comb (x y : P) (u v : Rat) : dot (cross x y) (add (smul u x) (smul v y)) = 0 := by
  obtain ⟨x1, x2, x3⟩ := x
  obtain ⟨y1, y2, y3⟩ := y
  simp only [dot, add, smul, cross]
  ring

/-! ### Cramer barycentric coordinates -/

theorem baryCramer_some (t : Tri) (p : P) (u v : Rat) (h : baryCramer t p = some (u, v)) :
    dot (sub t.2.1 t.1) (sub t.2.1 t.1) * dot (sub t.2.2 t.1) (sub t.2.2 t.1)
      - dot (sub t.2.1 t.1) (sub t.2.2 t.1) * dot (sub t.2.1 t.1) (sub t.2.2 t.1) ≠ 0 ∧
    u = (dot (sub t.2.2 t.1) (sub t.2.2 t.1) * dot (sub t.2.1 t.1) (sub p t.1)
          - dot (sub t.2.1 t.1) (sub t.2.2 t.1) * dot (sub t.2.2 t.1) (sub p t.1)) /
        (dot (sub t.2.1 t.1) (sub t.2.1 t.1) * dot (sub t.2.2 t.1) (sub t.2.2 t.1)
      - dot (sub t.2.1 t.1) (sub t.2.2 t.1) * dot (sub t.2.1 t.1) (sub t.2.2 t.1)) ∧
    v = (dot (sub t.2.1 t.1) (sub t.2.1 t.1) * dot (sub t.2.2 t.1) (sub p t.1)
          - dot (sub t.2.1 t.1) (sub t.2.2 t.1) * dot (sub t.2.1 t.1) (sub p t.1)) /
        (dot (sub t.2.1 t.1) (sub t.2.1 t.1) * dot (sub t.2.2 t.1) (sub t.2.2 t.1)
      - dot (sub t.2.1 t.1) (sub t.2.2 t.1) * dot (sub t.2.1 t.1) (sub t.2.2 t.1)) := by
  unfold baryCramer at h
  simp only [] at h
  split at h
  · cases h
  · rename_i hden
    simp only [Option.some.injEq, Prod.mk.injEq] at h
    exact ⟨hden, h.1.symm, h.2.symm⟩

/-- Cramer's rule recovers a point lying in the plane of the triangle -/
theorem baryCramer_plane (t : Tri) (p : P) (u v : Rat) (h : baryCramer t p = some (u, v))
    (hpl : dot (triNormal t) (sub p t.1) = 0) : p = fromBary t (u, v) := by
  obtain ⟨hg, hu, hv⟩ := baryCramer_some t p u v h
  unfold fromBary
  apply eq_add_of_sub_eq
  exact cramer_vec _ _ _ u v hg ((eq_div_iff hg).1 hu) ((eq_div_iff hg).1 hv) hpl

/-- Cramer's rule returns the weights of a point given by its weights -/
theorem baryCramer_fromBary (t : Tri) (u v : Rat)
    (hg : dot (triNormal t) (triNormal t) ≠ 0) :
    baryCramer t (fromBary t (u, v)) = some (u, v) := by
  unfold triNormal at hg
  rw [← lagrange] at hg
  unfold baryCramer fromBary
  simp only []
  rw [if_neg hg, sub_add_cancel_left]
  obtain ⟨h1, h2⟩ := cramer_comb (sub t.2.1 t.1) (sub t.2.2 t.1) u v
  simp only [Option.some.injEq, Prod.mk.injEq]
  exact ⟨by rw [h1]; exact mul_div_cancel_right₀ _ hg, by rw [h2]; exact mul_div_cancel_right₀ _ hg⟩



/-! ### ray / triangle -/

theorem rayTriangle_some (o d : P) (t : Tri) (s u v : Rat) (h : rayTriangle o d t = some (s, u, v)) :
    dot (triNormal t) d ≠ 0 ∧ s = dot (triNormal t) (sub t.1 o) / dot (triNormal t) d ∧ 0 < s ∧
      baryCramer t (add o (smul s d)) = some (u, v) ∧ 0 ≤ u ∧ 0 ≤ v ∧ u + v ≤ 1 := by
  unfold rayTriangle at h
  simp only [] at h
  split at h
  · cases h
  · rename_i hnd
    split at h
    · cases h
    · rename_i hs
      split at h
      · cases h
      · rename_i u' v' hb
        split at h
        · rename_i huv
          simp only [Option.some.injEq, Prod.mk.injEq] at h
          obtain ⟨rfl, rfl, rfl⟩ := h
          exact ⟨hnd, rfl, not_le.1 hs, hb, huv⟩
        · cases h

theorem dot_param (n o d a : P) (s : Rat) :
    dot n (sub (add o (smul s d)) a) = s * dot n d - dot n (sub a o) := by
  obtain ⟨n1, n2, n3⟩ := n
  obtain ⟨o1, o2, o3⟩ := o
  obtain ⟨d1, d2, d3⟩ := d
  obtain ⟨a1, a2, a3⟩ := a
  simp only [dot, sub, add, smul]
  ring

theorem dot_eq_zero_of_self (n d : P) (h : dot n n = 0) : dot n d = 0 := by
  obtain ⟨n1, n2, n3⟩ := n
  obtain ⟨d1, d2, d3⟩ := d
  simp only [dot] at *
  have h1 : n1 = 0 := by nlinarith [mul_self_nonneg n1, mul_self_nonneg n2, mul_self_nonneg n3]
  have h2 : n2 = 0 := by nlinarith [mul_self_nonneg n1, mul_self_nonneg n2, mul_self_nonneg n3]
  have h3 : n3 = 0 := by nlinarith [mul_self_nonneg n1, mul_self_nonneg n2, mul_self_nonneg n3]
  subst h1 h2 h3
  ring

theorem rayTriangle_sound (o d : P) (t : Tri) (s u v : Rat) (h : rayTriangle o d t = some (s, u, v)) :
    0 < s ∧ 0 ≤ u ∧ 0 ≤ v ∧ u + v ≤ 1 ∧ add o (smul s d) = fromBary t (u, v) := by
  obtain ⟨hnd, hs, hpos, hb, hu, hv, huv⟩ := rayTriangle_some o d t s u v h
  refine ⟨hpos, hu, hv, huv, baryCramer_plane t _ u v hb ?_⟩
  rw [dot_param, hs, div_mul_cancel₀ _ hnd, sub_self]

theorem rayTriangle_complete (o d : P) (t : Tri) (s u v : Rat) (hs : 0 < s) (hu : 0 ≤ u) (hv : 0 ≤ v)
    (huv : u + v ≤ 1) (hp : add o (smul s d) = fromBary t (u, v))
    (hnd : dot (triNormal t) d ≠ 0) :
    rayTriangle o d t = some (s, u, v) := by
  have hnn : dot (triNormal t) (triNormal t) ≠ 0 := fun h0 => hnd (dot_eq_zero_of_self _ _ h0)
  have hpl : dot (triNormal t) (sub (add o (smul s d)) t.1) = 0 := by
    rw [hp]; unfold fromBary; rw [sub_add_cancel_left]; exact dot_cross_comb _ _ _ _
  rw [dot_param] at hpl
  have hs' : dot (triNormal t) (sub t.1 o) / dot (triNormal t) d = s := by
    rw [div_eq_iff hnd]; linarith
  have hnd' := hnd
  unfold triNormal at hnd' hs'
  unfold rayTriangle
  simp only []
  rw [if_neg hnd', hs', if_neg (not_le.2 hs), hp, baryCramer_fromBary t u v hnn]
  simp only []
  rw [if_pos ⟨hu, hv, huv⟩]

/-! ### Ericson closest point: scalar cascade -/

/-- Ericson's cascade on the five scalars `A = |ab|²`, `B = ab·ac`, `C = |ac|²`, `d1 = ab·ap`, `d2 = ac·ap` -/
def cbS (A B C d1 d2 : Rat) : Rat × Rat :=
  if d1 ≤ 0 ∧ d2 ≤ 0 then (0, 0) else
  let d3 := d1 - A; let d4 := d2 - B
  if 0 ≤ d3 ∧ d4 ≤ d3 then (1, 0) else
  let vc := d1 * d4 - d3 * d2
  if vc ≤ 0 ∧ 0 ≤ d1 ∧ d3 ≤ 0 then (d1 / (d1 - d3), 0) else
  let d5 := d1 - B; let d6 := d2 - C
  if 0 ≤ d6 ∧ d5 ≤ d6 then (0, 1) else
  let vb := d5 * d2 - d1 * d6
  if vb ≤ 0 ∧ 0 ≤ d2 ∧ d6 ≤ 0 then (0, d2 / (d2 - d6)) else
  let va := d3 * d6 - d5 * d4
  if va ≤ 0 ∧ 0 ≤ d4 - d3 ∧ 0 ≤ d5 - d6 then
    let w := (d4 - d3) / ((d4 - d3) + (d5 - d6)); (1 - w, w)
  else
    let den := va + vb + vc
    (vb / den, vc / den)

/-- when no vertex / edge region applies, the weight of `c` is positive -/
theorem interior_key (A B C d1 d2 : Rat) (hA : 0 < A) (hG : 0 < A * C - B * B)
    (H1 : 0 < d1 ∨ 0 < d2) (H2 : d1 < A ∨ d1 - A < d2 - B)
    (H3 : 0 < A * d2 - B * d1 ∨ d1 < 0 ∨ A < d1)
    (H4 : d2 < C ∨ d2 - C < d1 - B)
    (H5 : 0 < C * d1 - B * d2 ∨ d2 < 0 ∨ C < d2)
    (H6 : 0 < A * C - B * B - (C * d1 - B * d2) - (A * d2 - B * d1) ∨ d2 - B < d1 - A ∨ d1 - B < d2 - C) :
    0 < A * d2 - B * d1 := by
  by_contra hvc
  have hvc : A * d2 - B * d1 ≤ 0 := not_lt.1 hvc
  rcases H3 with h | hd1 | hd1
  · exact absurd h (not_lt.2 hvc)
  · -- d1 < 0
    have hd2 : 0 < d2 := by
      rcases H1 with h | h
      · linarith
      · exact h
    have hB : B < 0 := by
      by_contra hB
      have hB : 0 ≤ B := not_lt.1 hB
      nlinarith [mul_pos hA hd2, mul_nonneg hB (le_of_lt (neg_pos.2 hd1))]
    rcases H5 with hvb | h | hd6
    · nlinarith [mul_pos hA hvb, mul_nonneg (le_of_lt (neg_pos.2 hB)) (neg_nonneg.2 hvc),
        mul_pos hG (neg_pos.2 hd1)]
    · linarith
    · rcases H4 with h | h
      · linarith
      · have h1 : B < d1 := by linarith
        nlinarith [mul_pos hA (sub_pos.2 hd6), mul_pos (neg_pos.2 hB) (sub_pos.2 h1)]
  · -- A < d1
    have hd4 : d1 - A < d2 - B := by
      rcases H2 with h | h
      · linarith
      · exact h
    have hBA : A < B := by
      by_contra hBA
      have hBA : B ≤ A := not_lt.1 hBA
      nlinarith [mul_pos hA (sub_pos.2 hd4), mul_nonneg (sub_nonneg.2 hBA) (le_of_lt (sub_pos.2 hd1))]
    rcases H6 with hva | h | hd56
    · nlinarith [mul_pos hA hva, mul_nonneg (le_of_lt (sub_pos.2 hBA)) (neg_nonneg.2 hvc),
        mul_pos hG (sub_pos.2 hd1)]
    · linarith
    · rcases H4 with hd6 | h
      · have h1 : d1 < B := by linarith
        nlinarith [mul_pos hA (sub_pos.2 hd56), mul_pos (sub_pos.2 hBA) (sub_pos.2 h1)]
      · linarith



theorem cbS_in (A B C d1 d2 : Rat) (hA : 0 < A) (hC : 0 < C) (hG : 0 < A * C - B * B) :
    0 ≤ (cbS A B C d1 d2).1 ∧ 0 ≤ (cbS A B C d1 d2).2 ∧ (cbS A B C d1 d2).1 + (cbS A B C d1 d2).2 ≤ 1 := by
  unfold cbS
  simp only []
  split_ifs with h1 h2 h3 h4 h5 h6
  · norm_num
  · norm_num
  · obtain ⟨-, h31, h32⟩ := h3
    have e : d1 - (d1 - A) = A := by ring
    rw [e]
    refine ⟨div_nonneg h31 (le_of_lt hA), le_refl _, ?_⟩
    rw [add_zero, div_le_one hA]
    linarith
  · norm_num
  · obtain ⟨-, h51, h52⟩ := h5
    have e : d2 - (d2 - C) = C := by ring
    rw [e]
    refine ⟨le_refl _, div_nonneg h51 (le_of_lt hC), ?_⟩
    rw [zero_add, div_le_one hC]
    linarith
  · obtain ⟨-, h61, h62⟩ := h6
    have hw0 : 0 ≤ (d2 - B - (d1 - A)) / (d2 - B - (d1 - A) + (d1 - B - (d2 - C))) :=
      div_nonneg h61 (add_nonneg h61 h62)
    have hw1 : (d2 - B - (d1 - A)) / (d2 - B - (d1 - A) + (d1 - B - (d2 - C))) ≤ 1 :=
      div_le_one_of_le₀ (by linarith) (add_nonneg h61 h62)
    exact ⟨by linarith, hw0, by linarith⟩
  · -- interior
    have H1 : 0 < d1 ∨ 0 < d2 := by
      by_contra hh; push Not at hh; exact h1 ⟨hh.1, hh.2⟩
    have H2 : d1 < A ∨ d1 - A < d2 - B := by
      by_contra hh; push Not at hh; exact h2 ⟨by linarith [hh.1], hh.2⟩
    have H3 : 0 < A * d2 - B * d1 ∨ d1 < 0 ∨ A < d1 := by
      by_contra hh; push Not at hh
      exact h3 ⟨by linarith [hh.1], hh.2.1, by linarith [hh.2.2]⟩
    have H4 : d2 < C ∨ d2 - C < d1 - B := by
      by_contra hh; push Not at hh; exact h4 ⟨by linarith [hh.1], hh.2⟩
    have H5 : 0 < C * d1 - B * d2 ∨ d2 < 0 ∨ C < d2 := by
      by_contra hh; push Not at hh
      exact h5 ⟨by linarith [hh.1], hh.2.1, by linarith [hh.2.2]⟩
    have H6 : 0 < A * C - B * B - (C * d1 - B * d2) - (A * d2 - B * d1) ∨ d2 - B < d1 - A ∨
        d1 - B < d2 - C := by
      by_contra hh; push Not at hh
      exact h6 ⟨by linarith [hh.1], by linarith [hh.2.1], by linarith [hh.2.2]⟩
    have hvc : 0 < A * d2 - B * d1 := interior_key A B C d1 d2 hA hG H1 H2 H3 H4 H5 H6
    have hvb : 0 < C * d1 - B * d2 := by
      have := interior_key C B A d2 d1 hC (by linarith) H1.symm H4 H5 H2 H3
        (by rcases H6 with h | h | h
            · left; linarith
            · right; right; exact h
            · right; left; exact h)
      exact this
    have hva : 0 < A * C - B * B - (C * d1 - B * d2) - (A * d2 - B * d1) := by
      have hE : 0 < A - 2 * B + C := by nlinarith [sq_nonneg (A - B)]
      have := interior_key (A - 2 * B + C) (A - B) A (d2 - B - (d1 - A)) (A - d1) hE
        (by linarith)
        (by rcases H2 with h | h
            · right; linarith
            · left; linarith)
        (by rcases H4 with h | h
            · right; linarith
            · left; linarith)
        (by rcases H6 with h | h | h
            · left; linarith
            · right; left; linarith
            · right; right; linarith)
        (by rcases H1 with h | h
            · left; linarith
            · right; linarith)
        (by rcases H3 with h | h | h
            · left; linarith
            · right; right; linarith
            · right; left; linarith)
        (by rcases H5 with h | h | h
            · left; linarith
            · right; right; linarith
            · right; left; linarith)
      linarith
    have hden : (d1 - A) * (d2 - C) - (d1 - B) * (d2 - B) + ((d1 - B) * d2 - d1 * (d2 - C)) +
        (d1 * (d2 - B) - (d1 - A) * d2) = A * C - B * B := by ring
    have hvb' : (d1 - B) * d2 - d1 * (d2 - C) = C * d1 - B * d2 := by ring
    have hvc' : d1 * (d2 - B) - (d1 - A) * d2 = A * d2 - B * d1 := by ring
    rw [hden, hvb', hvc']
    refine ⟨div_nonneg (le_of_lt hvb) (le_of_lt hG), div_nonneg (le_of_lt hvc) (le_of_lt hG), ?_⟩
    rw [← add_div, div_le_one hG]
    linarith



/-- squared distance to `a + s·ab + u·ac`, up to the constant `|ap|²` -/
def fq (A B C d1 d2 s u : Rat) : Rat := A * s * s + 2 * B * s * u + C * u * u - 2 * d1 * s - 2 * d2 * u

theorem quad_nonneg (A B C a b : Rat) (hA : 0 < A) (hG : 0 < A * C - B * B) :
    0 ≤ A * a * a + 2 * B * a * b + C * b * b := by
  have h : 0 ≤ A * (A * a * a + 2 * B * a * b + C * b * b) := by
    nlinarith [sq_nonneg (A * a + B * b), mul_nonneg (le_of_lt hG) (sq_nonneg b)]
  exact nonneg_of_mul_nonneg_right h hA

/-- first-order optimality condition for the convex quadratic `fq` -/
theorem fq_le_of_grad (A B C d1 d2 v w s u : Rat) (hA : 0 < A) (hG : 0 < A * C - B * B)
    (hgrad : 0 ≤ (A * v + B * w - d1) * (s - v) + (B * v + C * w - d2) * (u - w)) :
    fq A B C d1 d2 v w ≤ fq A B C d1 d2 s u := by
  have hq := quad_nonneg A B C (s - v) (u - w) hA hG
  unfold fq
  nlinarith [hq, hgrad]

theorem cbS_opt (A B C d1 d2 s u : Rat) (hA : 0 < A) (hC : 0 < C) (hG : 0 < A * C - B * B)
    (hs : 0 ≤ s) (hu : 0 ≤ u) (hsu : s + u ≤ 1) :
    fq A B C d1 d2 (cbS A B C d1 d2).1 (cbS A B C d1 d2).2 ≤ fq A B C d1 d2 s u := by
  apply fq_le_of_grad _ _ _ _ _ _ _ _ _ hA hG
  unfold cbS
  simp only []
  split_ifs with h1 h2 h3 h4 h5 h6
  · obtain ⟨h11, h12⟩ := h1
    nlinarith [mul_nonneg hs (neg_nonneg.2 h11), mul_nonneg hu (neg_nonneg.2 h12)]
  · obtain ⟨h21, h22⟩ := h2
    nlinarith [mul_nonneg h21 (sub_nonneg.2 hsu), mul_nonneg (sub_nonneg.2 h22) hu]
  · obtain ⟨h30, h31, h32⟩ := h3
    have e : d1 - (d1 - A) = A := by ring
    rw [e]
    have hv : A * (d1 / A) = d1 := mul_div_cancel₀ _ (ne_of_gt hA)
    generalize d1 / A = v at hv
    dsimp only
    have hg : 0 ≤ B * v - d2 := by
      refine nonneg_of_mul_nonneg_right (a := A) ?_ hA
      have : A * (B * v - d2) = B * d1 - A * d2 := by linear_combination B * hv
      linarith
    have e1 : A * v + B * 0 - d1 = 0 := by rw [hv]; ring
    have e2 : B * v + C * 0 - d2 = B * v - d2 := by ring
    rw [e1, e2]
    nlinarith [mul_nonneg hg hu]
  · obtain ⟨h41, h42⟩ := h4
    nlinarith [mul_nonneg h41 (sub_nonneg.2 hsu), mul_nonneg (sub_nonneg.2 h42) hs]
  · obtain ⟨h50, h51, h52⟩ := h5
    have e : d2 - (d2 - C) = C := by ring
    rw [e]
    have hv : C * (d2 / C) = d2 := mul_div_cancel₀ _ (ne_of_gt hC)
    generalize d2 / C = v at hv
    dsimp only
    have hg : 0 ≤ B * v - d1 := by
      refine nonneg_of_mul_nonneg_right (a := C) ?_ hC
      have : C * (B * v - d1) = B * d2 - C * d1 := by linear_combination B * hv
      linarith
    have e1 : B * 0 + C * v - d2 = 0 := by rw [hv]; ring
    have e2 : A * 0 + B * v - d1 = B * v - d1 := by ring
    rw [e1, e2]
    nlinarith [mul_nonneg hg hs]
  · obtain ⟨h60, h61, h62⟩ := h6
    have hE : 0 < A - 2 * B + C := by nlinarith [sq_nonneg (A - B)]
    have e : d2 - B - (d1 - A) + (d1 - B - (d2 - C)) = A - 2 * B + C := by ring
    rw [e]
    have hw : (A - 2 * B + C) * ((d2 - B - (d1 - A)) / (A - 2 * B + C)) = d2 - B - (d1 - A) :=
      mul_div_cancel₀ _ (ne_of_gt hE)
    generalize (d2 - B - (d1 - A)) / (A - 2 * B + C) = w at hw
    dsimp only
    have hg1 : A * (1 - w) + B * w - d1 ≤ 0 := by
      have : 0 ≤ (A - 2 * B + C) * (-(A * (1 - w) + B * w - d1)) := by nlinarith
      have := nonneg_of_mul_nonneg_right this hE
      linarith
    have hg2 : B * (1 - w) + C * w - d2 = A * (1 - w) + B * w - d1 := by linarith
    rw [hg2]
    nlinarith [mul_nonneg (neg_nonneg.2 hg1) (sub_nonneg.2 hsu)]
  · have hden : (d1 - A) * (d2 - C) - (d1 - B) * (d2 - B) + ((d1 - B) * d2 - d1 * (d2 - C)) +
        (d1 * (d2 - B) - (d1 - A) * d2) = A * C - B * B := by ring
    have hvb' : (d1 - B) * d2 - d1 * (d2 - C) = C * d1 - B * d2 := by ring
    have hvc' : d1 * (d2 - B) - (d1 - A) * d2 = A * d2 - B * d1 := by ring
    rw [hden, hvb', hvc']
    have hv : (A * C - B * B) * ((C * d1 - B * d2) / (A * C - B * B)) = C * d1 - B * d2 :=
      mul_div_cancel₀ _ (ne_of_gt hG)
    have hw : (A * C - B * B) * ((A * d2 - B * d1) / (A * C - B * B)) = A * d2 - B * d1 :=
      mul_div_cancel₀ _ (ne_of_gt hG)
    generalize (C * d1 - B * d2) / (A * C - B * B) = v at hv
    generalize (A * d2 - B * d1) / (A * C - B * B) = w at hw
    dsimp only
    have g1 : A * v + B * w - d1 = 0 := by
      refine mul_left_cancel₀ (ne_of_gt hG) ?_
      linear_combination A * hv + B * hw
    have g2 : B * v + C * w - d2 = 0 := by
      refine mul_left_cancel₀ (ne_of_gt hG) ?_
      linear_combination B * hv + C * hw
    rw [g1, g2]
    simp

/-! ### reduction of `closestBary` / `dist2` to the scalar cascade -/

theorem dot_comm' (x y : P) : dot x y = dot y x := by
  obtain ⟨x1, x2, x3⟩ := x
  obtain ⟨y1, y2, y3⟩ := y
  simp only [dot]
  ring

theorem dot_sub_vertex (x p b a : P) : dot x (sub p b) = dot x (sub p a) - dot x (sub b a) := by
  obtain ⟨x1, x2, x3⟩ := x
  obtain ⟨p1, p2, p3⟩ := p
  obtain ⟨a1, a2, a3⟩ := a
  obtain ⟨b1, b2, b3⟩ := b
  simp only [dot, sub]
  ring

theorem dot_self_nonneg (x : P) : 0 ≤ dot x x := by
  obtain ⟨x1, x2, x3⟩ := x
  simp only [dot]
  nlinarith [mul_self_nonneg x1, mul_self_nonneg x2, mul_self_nonneg x3]

/-- a non-degenerate triangle has positive edge lengths and positive Gram determinant -/
theorem gram_pos (x y : P) (h : dot (cross x y) (cross x y) ≠ 0) :
    0 < dot x x ∧ 0 < dot y y ∧ 0 < dot x x * dot y y - dot x y * dot x y := by
  have hG : 0 < dot x x * dot y y - dot x y * dot x y := by
    rw [lagrange]
    exact lt_of_le_of_ne (dot_self_nonneg _) (Ne.symm h)
  have hAC : 0 < dot x x * dot y y := by nlinarith [mul_self_nonneg (dot x y)]
  rcases mul_pos_iff.1 hAC with ⟨h1, h2⟩ | ⟨h1, h2⟩
  · exact ⟨h1, h2, hG⟩
  · exact absurd h1 (not_lt.2 (dot_self_nonneg x))

theorem closestBary_eq (p : P) (t : Tri) :
    closestBary p t = cbS (dot (sub t.2.1 t.1) (sub t.2.1 t.1)) (dot (sub t.2.1 t.1) (sub t.2.2 t.1))
      (dot (sub t.2.2 t.1) (sub t.2.2 t.1)) (dot (sub t.2.1 t.1) (sub p t.1))
      (dot (sub t.2.2 t.1) (sub p t.1)) := by
  unfold closestBary cbS
  simp only []
  rw [dot_sub_vertex (sub t.2.1 t.1) p t.2.1 t.1, dot_sub_vertex (sub t.2.2 t.1) p t.2.1 t.1,
    dot_sub_vertex (sub t.2.1 t.1) p t.2.2 t.1, dot_sub_vertex (sub t.2.2 t.1) p t.2.2 t.1,
    dot_comm' (sub t.2.2 t.1) (sub t.2.1 t.1)]

theorem sub_add_eq (p a q : P) : sub p (add a q) = sub (sub p a) q := by
  obtain ⟨p1, p2, p3⟩ := p
  obtain ⟨a1, a2, a3⟩ := a
  obtain ⟨q1, q2, q3⟩ := q
  simp only [sub, add, Prod.mk.injEq]
  exact ⟨by ring, by ring, by ring⟩

theorem dist2_comb (x y w : P) (s u : Rat) :
    dot (sub w (add (smul s x) (smul u y))) (sub w (add (smul s x) (smul u y)))
      = dot w w + fq (dot x x) (dot x y) (dot y y) (dot x w) (dot y w) s u := by
  obtain ⟨x1, x2, x3⟩ := x
  obtain ⟨y1, y2, y3⟩ := y
  obtain ⟨w1, w2, w3⟩ := w
  simp only [dot, sub, add, smul, fq]
  ring

theorem dist2_fromBary (p : P) (t : Tri) (vw : Rat × Rat) :
    dist2 p (fromBary t vw) = dot (sub p t.1) (sub p t.1) +
      fq (dot (sub t.2.1 t.1) (sub t.2.1 t.1)) (dot (sub t.2.1 t.1) (sub t.2.2 t.1))
        (dot (sub t.2.2 t.1) (sub t.2.2 t.1)) (dot (sub t.2.1 t.1) (sub p t.1))
        (dot (sub t.2.2 t.1) (sub p t.1)) vw.1 vw.2 := by
  unfold dist2 fromBary
  rw [sub_add_eq, dist2_comb]

theorem closestBary_in (p : P) (t : Tri)
    (hnd : dot (cross (sub t.2.1 t.1) (sub t.2.2 t.1)) (cross (sub t.2.1 t.1) (sub t.2.2 t.1)) ≠ 0) :
    0 ≤ (closestBary p t).1 ∧ 0 ≤ (closestBary p t).2 ∧ (closestBary p t).1 + (closestBary p t).2 ≤ 1 := by
  obtain ⟨hA, hC, hG⟩ := gram_pos _ _ hnd
  rw [closestBary_eq]
  exact cbS_in _ _ _ _ _ hA hC hG

theorem closestPointTri_optimal (p : P) (t : Tri) (s u : Rat) (hs : 0 ≤ s) (hu : 0 ≤ u) (hsu : s + u ≤ 1)
    (hnd : dot (cross (sub t.2.1 t.1) (sub t.2.2 t.1)) (cross (sub t.2.1 t.1) (sub t.2.2 t.1)) ≠ 0) :
    dist2 p (closestPointTri p t) ≤ dist2 p (fromBary t (s, u)) := by
  obtain ⟨hA, hC, hG⟩ := gram_pos _ _ hnd
  unfold closestPointTri
  rw [dist2_fromBary, dist2_fromBary, closestBary_eq]
  exact add_le_add (le_refl _) (cbS_opt _ _ _ _ _ s u hA hC hG hs hu hsu)

end TV.Query
