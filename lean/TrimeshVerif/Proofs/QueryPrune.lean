import TrimeshVerif.Proofs.Query
/-
Broad phase of the ray queries (C12): the box `ray_bounds` puts around a ray contains every point of the
ray that lies ahead of the origin and inside the tree bounds along the dominant axis; a triangle that is
hit therefore has a box meeting the ray's box, so pruning with the r-tree loses no hit.
-/
namespace TV.Query

/-! ### scalar lemmas -/

theorem clampLo_mono (buf x y : Rat) (h : x ≤ y) : clampLo buf x ≤ clampLo buf y := by
  unfold clampLo; split <;> split <;> linarith

theorem clampLo_ge (buf x : Rat) : x ≤ clampLo buf x ∧ buf ≤ clampLo buf x := by
  unfold clampLo; split <;> constructor <;> linarith

/-- a value between two parameters gives a coordinate between the two end points -/
theorem between_coord (x y z dk ok : Rat) (h1 : x ≤ y) (h2 : y ≤ z) :
    min (x * dk + ok) (z * dk + ok) ≤ y * dk + ok ∧ y * dk + ok ≤ max (x * dk + ok) (z * dk + ok) := by
  rcases le_total 0 dk with hd | hd
  · constructor
    · exact le_trans (min_le_left _ _) (by nlinarith)
    · exact le_trans (by nlinarith) (le_max_right _ _)
  · constructor
    · exact le_trans (min_le_right _ _) (by nlinarith)
    · exact le_trans (by nlinarith) (le_max_left _ _)

/-- clamping the parameter moves the coordinate by at most `buf` when the direction component is at most 1 -/
theorem clamp_shift (buf t dk : Rat) (hb : 0 ≤ buf) (ht : 0 ≤ t) (hd1 : -1 ≤ dk) (hd2 : dk ≤ 1) :
    clampLo buf t * dk - buf ≤ t * dk ∧ t * dk ≤ clampLo buf t * dk + buf := by
  unfold clampLo
  split
  · constructor <;> nlinarith
  · constructor <;> linarith

/-- one coordinate of the completeness statement of `ray_bounds` -/
theorem coord_in (ok dk t t0 t1 buf : Rat) (hb : 0 ≤ buf) (ht : 0 ≤ t) (hd1 : -1 ≤ dk) (hd2 : dk ≤ 1)
    (hbt : (t0 ≤ t ∧ t ≤ t1) ∨ (t1 ≤ t ∧ t ≤ t0)) :
    min (clampLo buf t0 * dk + ok) (clampLo buf t1 * dk + ok) - buf ≤ ok + t * dk ∧
    ok + t * dk ≤ max (clampLo buf t0 * dk + ok) (clampLo buf t1 * dk + ok) + buf := by
  have hs := clamp_shift buf t dk hb ht hd1 hd2
  rcases hbt with ⟨h1, h2⟩ | ⟨h1, h2⟩
  · have hb' := between_coord (clampLo buf t0) (clampLo buf t) (clampLo buf t1) dk ok
      (clampLo_mono _ _ _ h1) (clampLo_mono _ _ _ h2)
    constructor <;> linarith [hb'.1, hb'.2, hs.1, hs.2]
  · have hb' := between_coord (clampLo buf t1) (clampLo buf t) (clampLo buf t0) dk ok
      (clampLo_mono _ _ _ h1) (clampLo_mono _ _ _ h2)
    rw [min_comm, max_comm] at hb'
    constructor <;> linarith [hb'.1, hb'.2, hs.1, hs.2]

/-- a coordinate bracketed by the tree bounds puts the ray parameter between the two plane parameters -/
theorem param_between (lo hi oa da t : Rat) (hda : da ≠ 0) (h1 : lo ≤ oa + t * da) (h2 : oa + t * da ≤ hi) :
    ((lo - oa) / da ≤ t ∧ t ≤ (hi - oa) / da) ∨ ((hi - oa) / da ≤ t ∧ t ≤ (lo - oa) / da) := by
  rcases lt_or_gt_of_ne hda with hneg | hpos
  · right
    constructor
    · rw [div_le_iff_of_neg hneg]; linarith
    · rw [le_div_iff_of_neg hneg]; linarith
  · left
    constructor
    · rw [div_le_iff₀ hpos]; linarith
    · rw [le_div_iff₀ hpos]; linarith

/-! ### the box of a ray -/

/-- a point is inside a (closed) box -/
def inBox (p : P) (b : Box) : Prop :=
  b.1.1 ≤ p.1 ∧ p.1 ≤ b.2.1 ∧ b.1.2.1 ≤ p.2.1 ∧ p.2.1 ≤ b.2.2.1 ∧ b.1.2.2 ≤ p.2.2 ∧ p.2.2 ≤ b.2.2.2

/-- all direction components at most one in magnitude (true of unit vectors) -/
def SubUnit (d : P) : Prop := -1 ≤ d.1 ∧ d.1 ≤ 1 ∧ -1 ≤ d.2.1 ∧ d.2.1 ≤ 1 ∧ -1 ≤ d.2.2 ∧ d.2.2 ≤ 1

theorem absQ_nonneg (x : Rat) : 0 ≤ absQ x := by unfold absQ; split <;> linarith
theorem absQ_eq_zero {x : Rat} (h : absQ x = 0) : x = 0 := by
  unfold absQ at h; split at h <;> linarith

/-- the dominant component of a non-zero direction is non-zero -/
theorem argmax_ne_zero (d : P) (hd : d ≠ (0, 0, 0)) : get d (argmaxAbs d) ≠ 0 := by
  obtain ⟨x, y, z⟩ := d
  unfold argmaxAbs
  simp only
  intro h
  apply hd
  have hx := absQ_nonneg x; have hy := absQ_nonneg y; have hz := absQ_nonneg z
  split at h
  · next hc =>
    simp only [get] at h
    subst h
    have h0 : absQ (0 : Rat) = 0 := by simp [absQ]
    rw [h0] at hc
    rw [absQ_eq_zero (le_antisymm hc.1 hy), absQ_eq_zero (le_antisymm hc.2 hz)]
  · next hc =>
    split at h
    · next hc2 =>
      simp only [get] at h
      subst h
      have h0 : absQ (0 : Rat) = 0 := by simp [absQ]
      rw [h0] at hc2
      have hz0 := absQ_eq_zero (le_antisymm hc2 hz)
      subst hz0
      rw [h0] at hc
      exact absurd ⟨hx, hx⟩ hc
    · next hc2 =>
      simp only [get] at h
      subst h
      have h0 : absQ (0 : Rat) = 0 := by simp [absQ]
      rw [h0] at hc2
      exact absurd hy hc2

/-- **`ray_bounds` is complete**: every point `o + t·d` of the ray with `t ≥ 0` whose dominant-axis
    coordinate lies within the tree bounds is inside the box of the ray (for directions with components
    at most one in magnitude and a non-negative buffer) -/
theorem rayBounds_complete (o d : P) (tb : Box) (buf t : Rat) (hb : 0 ≤ buf) (ht : 0 ≤ t)
    (hd : SubUnit d) (hne : d ≠ (0, 0, 0))
    (hlo : get tb.1 (argmaxAbs d) ≤ get (add o (smul t d)) (argmaxAbs d))
    (hhi : get (add o (smul t d)) (argmaxAbs d) ≤ get tb.2 (argmaxAbs d)) :
    inBox (add o (smul t d)) (rayBounds o d tb buf) := by
  have hda := argmax_ne_zero d hne
  obtain ⟨dx, dy, dz⟩ := d
  obtain ⟨ox, oy, oz⟩ := o
  obtain ⟨h1, h2, h3, h4, h5, h6⟩ := hd
  unfold rayBounds inBox
  simp only [hda, if_false]
  generalize argmaxAbs (dx, dy, dz) = a at *
  have hbt : (((get tb.1 a - get (ox, oy, oz) a) / get (dx, dy, dz) a ≤ t ∧
      t ≤ (get tb.2 a - get (ox, oy, oz) a) / get (dx, dy, dz) a) ∨
      ((get tb.2 a - get (ox, oy, oz) a) / get (dx, dy, dz) a ≤ t ∧
      t ≤ (get tb.1 a - get (ox, oy, oz) a) / get (dx, dy, dz) a)) := by
    apply param_between _ _ _ _ _ hda
    · have : get (add (ox, oy, oz) (smul t (dx, dy, dz))) a = get (ox, oy, oz) a + t * get (dx, dy, dz) a := by
        unfold get add smul; split <;> rfl
      rw [this] at hlo; exact hlo
    · have : get (add (ox, oy, oz) (smul t (dx, dy, dz))) a = get (ox, oy, oz) a + t * get (dx, dy, dz) a := by
        unfold get add smul; split <;> rfl
      rw [this] at hhi; exact hhi
  have cx := coord_in ox dx t _ _ buf hb ht h1 h2 hbt
  have cy := coord_in oy dy t _ _ buf hb ht h3 h4 hbt
  have cz := coord_in oz dz t _ _ buf hb ht h5 h6 hbt
  simp only [add, smul, sub, pmin, pmax]
  exact ⟨cx.1, cx.2, cy.1, cy.2, cz.1, cz.2⟩

/-! ### triangles, their boxes and the tree bounds -/

theorem conv3_bounds (a b c u v : Rat) (hu : 0 ≤ u) (hv : 0 ≤ v) (huv : u + v ≤ 1) :
    min a (min b c) ≤ a + (u * (b - a) + v * (c - a)) ∧ a + (u * (b - a) + v * (c - a)) ≤ max a (max b c) := by
  have e : a + (u * (b - a) + v * (c - a)) = (1 - u - v) * a + u * b + v * c := by ring
  have hw : 0 ≤ 1 - u - v := by linarith
  have m1 : min a (min b c) ≤ a := min_le_left _ _
  have m2 : min a (min b c) ≤ b := le_trans (min_le_right _ _) (min_le_left _ _)
  have m3 : min a (min b c) ≤ c := le_trans (min_le_right _ _) (min_le_right _ _)
  have M1 : a ≤ max a (max b c) := le_max_left _ _
  have M2 : b ≤ max a (max b c) := le_trans (le_max_left _ _) (le_max_right _ _)
  have M3 : c ≤ max a (max b c) := le_trans (le_max_right _ _) (le_max_right _ _)
  rw [e]
  constructor <;> nlinarith

/-- every point of a triangle lies in the triangle's box -/
theorem fromBary_inBox (t : Tri) (u v : Rat) (hu : 0 ≤ u) (hv : 0 ≤ v) (huv : u + v ≤ 1) :
    inBox (fromBary t (u, v)) (triBox t) := by
  obtain ⟨⟨ax, ay, az⟩, ⟨bx, b_y, bz⟩, ⟨cx, cy, cz⟩⟩ := t
  have hx := conv3_bounds ax bx cx u v hu hv huv
  have hy := conv3_bounds ay b_y cy u v hu hv huv
  have hz := conv3_bounds az bz cz u v hu hv huv
  simp only [inBox, fromBary, triBox, add, smul, sub, pmin, pmax]
  exact ⟨hx.1, hx.2, hy.1, hy.2, hz.1, hz.2⟩

/-- box `a` lies inside box `b` -/
def boxSub (a b : Box) : Prop :=
  b.1.1 ≤ a.1.1 ∧ a.2.1 ≤ b.2.1 ∧ b.1.2.1 ≤ a.1.2.1 ∧ a.2.2.1 ≤ b.2.2.1 ∧ b.1.2.2 ≤ a.1.2.2 ∧ a.2.2.2 ≤ b.2.2.2

theorem boxSub_refl (a : Box) : boxSub a a := by unfold boxSub; simp

theorem boxSub_trans {a b c : Box} (h1 : boxSub a b) (h2 : boxSub b c) : boxSub a c := by
  unfold boxSub at *
  obtain ⟨a1, a2, a3, a4, a5, a6⟩ := h1
  obtain ⟨b1, b2, b3, b4, b5, b6⟩ := h2
  exact ⟨le_trans b1 a1, le_trans a2 b2, le_trans b3 a3, le_trans a4 b4, le_trans b5 a5, le_trans a6 b6⟩

def grow (b : Box) (t : Tri) : Box := (pmin b.1 (triBox t).1, pmax b.2 (triBox t).2)

theorem grow_left (b : Box) (t : Tri) : boxSub b (grow b t) := by
  unfold boxSub grow pmin pmax
  exact ⟨min_le_left _ _, le_max_left _ _, min_le_left _ _, le_max_left _ _, min_le_left _ _, le_max_left _ _⟩

theorem grow_right (b : Box) (t : Tri) : boxSub (triBox t) (grow b t) := by
  unfold boxSub grow pmin pmax
  exact ⟨min_le_right _ _, le_max_right _ _, min_le_right _ _, le_max_right _ _, min_le_right _ _,
    le_max_right _ _⟩

theorem foldl_grow_sub (ts : List Tri) : ∀ b : Box, boxSub b (ts.foldl grow b) ∧
    ∀ t ∈ ts, boxSub (triBox t) (ts.foldl grow b) := by
  induction ts with
  | nil => intro b; exact ⟨boxSub_refl b, by simp⟩
  | cons x xs ih =>
    intro b
    obtain ⟨h1, h2⟩ := ih (grow b x)
    simp only [List.foldl_cons]
    refine ⟨boxSub_trans (grow_left b x) h1, ?_⟩
    intro t ht
    rcases List.mem_cons.mp ht with rfl | ht
    · exact boxSub_trans (grow_right b t) h1
    · exact h2 t ht

/-- the box of every triangle lies inside the bounds of the tree -/
theorem triBox_sub_treeBounds (ts : List Tri) (t : Tri) (ht : t ∈ ts) : boxSub (triBox t) (treeBounds ts) := by
  cases ts with
  | nil => simp at ht
  | cons x xs =>
    have := foldl_grow_sub xs (triBox x)
    show boxSub (triBox t) (xs.foldl grow (triBox x))
    rcases List.mem_cons.mp ht with rfl | ht
    · exact this.1
    · exact this.2 t ht

theorem inBox_of_sub {p : P} {a b : Box} (h : inBox p a) (hs : boxSub a b) : inBox p b := by
  unfold inBox at *; unfold boxSub at hs
  obtain ⟨a1, a2, a3, a4, a5, a6⟩ := h
  obtain ⟨b1, b2, b3, b4, b5, b6⟩ := hs
  exact ⟨le_trans b1 a1, le_trans a2 b2, le_trans b3 a3, le_trans a4 b4, le_trans b5 a5, le_trans a6 b6⟩

theorem inBox_get {p : P} {b : Box} (h : inBox p b) (k : Nat) : get b.1 k ≤ get p k ∧ get p k ≤ get b.2 k := by
  unfold inBox at h
  unfold get
  split
  · exact ⟨h.1, h.2.1⟩
  · exact ⟨h.2.2.1, h.2.2.2.1⟩
  · exact ⟨h.2.2.2.2.1, h.2.2.2.2.2⟩

/-- two boxes that share a point meet -/
theorem boxesMeet_of_common {p : P} {a b : Box} (ha : inBox p a) (hb : inBox p b) : boxesMeet a b = true := by
  unfold inBox at *
  unfold boxesMeet
  obtain ⟨a1, a2, a3, a4, a5, a6⟩ := ha
  obtain ⟨b1, b2, b3, b4, b5, b6⟩ := hb
  simp only [decide_eq_true_eq]
  exact ⟨le_trans a1 b2, le_trans b1 a2, le_trans a3 b4, le_trans b3 a4, le_trans a5 b6, le_trans b5 a6⟩

/-- **a triangle that is hit is a candidate**: its box meets the box of the ray -/
theorem hit_is_candidate (o d : P) (ts : List Tri) (buf : Rat) (hb : 0 ≤ buf) (hd : SubUnit d)
    (t : Tri) (ht : t ∈ ts) (s u v : Rat) (h : rayTriangle o d t = some (s, u, v)) :
    boxesMeet (rayBounds o d (treeBounds ts) buf) (triBox t) = true := by
  obtain ⟨hs, hu, hv, huv, hp⟩ := rayTriangle_sound o d t s u v h
  have hne : d ≠ (0, 0, 0) := by
    intro e
    subst e
    unfold rayTriangle at h
    simp [dot] at h
  have hin := fromBary_inBox t u v hu hv huv
  rw [← hp] at hin
  have htree := inBox_of_sub hin (triBox_sub_treeBounds ts t ht)
  have hk := inBox_get htree (argmaxAbs d)
  exact boxesMeet_of_common (rayBounds_complete o d _ buf s hb (le_of_lt hs) hd hne hk.1 hk.2) hin

theorem filterMap_filter_of_imp {α β : Type} (f : α → Option β) (p : α → Bool) :
    ∀ l : List α, (∀ x ∈ l, f x ≠ none → p x = true) → (l.filter p).filterMap f = l.filterMap f
  | [], _ => rfl
  | x :: xs, h => by
    have ih := filterMap_filter_of_imp f p xs (fun y hy => h y (List.mem_cons_of_mem _ hy))
    by_cases hp : p x = true
    · rw [List.filter_cons_of_pos hp, List.filterMap_cons, List.filterMap_cons, ih]
    · have hf : f x = none := by
        by_contra hne
        exact hp (h x List.mem_cons_self hne)
      simp [hp, hf, ih]

/-- **pruning loses nothing**: running the narrow phase on the candidates only returns exactly the hits
    of the exhaustive evaluation, in the same order -/
theorem rayHitsPruned_eq (o d : P) (ts : List Tri) (buf : Rat) (hb : 0 ≤ buf) (hd : SubUnit d) :
    rayHitsPruned o d ts buf = rayHits o d ts := by
  unfold rayHitsPruned rayHits
  apply filterMap_filter_of_imp
  intro ti hti hne
  obtain ⟨t, i⟩ := ti
  have hmem : t ∈ ts := List.mem_of_getElem? (List.mem_zipIdx_iff_getElem?.mp hti)
  simp only at hne ⊢
  cases hr : rayTriangle o d t with
  | none => simp [hr] at hne
  | some suv =>
    obtain ⟨s, u, v⟩ := suv
    exact hit_is_candidate o d ts buf hb hd t hmem s u v hr

/-! ### proximity: `nearby_faces` -/

def NonDeg (t : Tri) : Prop :=
  dot (cross (sub t.2.1 t.1) (sub t.2.2 t.1)) (cross (sub t.2.1 t.1) (sub t.2.2 t.1)) ≠ 0

theorem sq_bound {x r : Rat} (hr : 0 ≤ r) (h : x * x ≤ r * r) : -r ≤ x ∧ x ≤ r := by
  constructor <;> nlinarith

/-- a point within distance `r` of `p` is inside the cube of half-width `r` around `p` -/
theorem inBox_cube (p q : P) (r : Rat) (hr : 0 ≤ r) (h : dist2 p q ≤ r * r) :
    inBox q (sub p (r, r, r), add p (r, r, r)) := by
  obtain ⟨px, py, pz⟩ := p
  obtain ⟨qx, qy, qz⟩ := q
  simp only [dist2, dot, sub] at h
  have hx := sq_bound hr (x := px - qx) (by nlinarith [mul_self_nonneg (py - qy), mul_self_nonneg (pz - qz)])
  have hy := sq_bound hr (x := py - qy) (by nlinarith [mul_self_nonneg (px - qx), mul_self_nonneg (pz - qz)])
  have hz := sq_bound hr (x := pz - qz) (by nlinarith [mul_self_nonneg (px - qx), mul_self_nonneg (py - qy)])
  simp only [inBox, sub, add]
  refine ⟨?_, ?_, ?_, ?_, ?_, ?_⟩ <;> linarith [hx.1, hx.2, hy.1, hy.2, hz.1, hz.2]

/-- the closest point of a non-degenerate triangle is at most as far as each of its corners -/
theorem closest_le_corner (p : P) (t : Tri) (hnd : NonDeg t) :
    dist2 p (closestPointTri p t) ≤ dist2 p t.1 ∧ dist2 p (closestPointTri p t) ≤ dist2 p t.2.1 ∧
    dist2 p (closestPointTri p t) ≤ dist2 p t.2.2 := by
  have h0 := closestPointTri_optimal p t 0 0 (le_refl _) (le_refl _) (by norm_num) hnd
  have h1 := closestPointTri_optimal p t 1 0 (by norm_num) (le_refl _) (by norm_num) hnd
  have h2 := closestPointTri_optimal p t 0 1 (le_refl _) (by norm_num) (by norm_num) hnd
  obtain ⟨⟨ax, ay, az⟩, ⟨bx, b_y, bz⟩, ⟨cx, cy, cz⟩⟩ := t
  refine ⟨?_, ?_, ?_⟩
  · convert h0 using 2; simp [fromBary, add, smul, sub]
  · convert h1 using 2; simp [fromBary, add, smul, sub]
  · convert h2 using 2; simp [fromBary, add, smul, sub]

/-- **`nearby_faces` keeps the triangle that attains the minimum**: with `r` at least the distance from
    `p` to some corner of some (non-degenerate) triangle of the mesh, the triangle on which the exhaustive
    search finds the closest point has a box meeting the cube of half-width `r` around `p` -/
theorem nearby_complete (p : P) (ts : List Tri) (hnd : ∀ t ∈ ts, NonDeg t) (r : Rat) (hr : 0 ≤ r)
    (t' : Tri) (ht' : t' ∈ ts) (hcorner : dist2 p t'.1 ≤ r * r ∨ dist2 p t'.2.1 ≤ r * r ∨ dist2 p t'.2.2 ≤ r * r)
    (i : Nat) (q : P) (d : Rat) (h : closestOnMesh p ts = some (i, q, d)) :
    i ∈ nearbyFaces p r ts := by
  obtain ⟨⟨t, hti, hq, hdq⟩, hmin⟩ := closestOnMesh_spec p ts i q d h
  have htm : t ∈ ts := List.mem_of_getElem? hti
  -- the minimum is at most the distance to the corner
  have hc := closest_le_corner p t' (hnd t' ht')
  have hd : d ≤ r * r := by
    have := hmin t' ht'
    rcases hcorner with h1 | h1 | h1
    · linarith [hc.1]
    · linarith [hc.2.1]
    · linarith [hc.2.2]
  have hq_cube : inBox q (sub p (r, r, r), add p (r, r, r)) := inBox_cube p q r hr (by rw [← hdq]; exact hd)
  have hb := closestBary_in p t (hnd t htm)
  have hq_tri : inBox q (triBox t) := by
    rw [hq]; unfold closestPointTri
    have := fromBary_inBox t (closestBary p t).1 (closestBary p t).2 hb.1 hb.2.1 hb.2.2
    simpa using this
  unfold nearbyFaces
  rw [List.mem_map]
  refine ⟨(t, i), ?_, rfl⟩
  rw [List.mem_filter]
  exact ⟨List.mem_zipIdx_iff_getElem?.mpr hti, boxesMeet_of_common hq_cube hq_tri⟩

end TV.Query
