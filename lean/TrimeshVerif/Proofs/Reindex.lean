import TrimeshVerif.Model.Reindex
import TrimeshVerif.Proofs.SortRuns
import TrimeshVerif.Proofs.Grouping
namespace TV.Reindex
open TV

variable {α β γ δ : Type}

/-! ### maskFilter -/

@[simp] theorem maskFilter_nil_left (mask : List Bool) : maskFilter ([] : List γ) mask = [] := by
  simp [maskFilter]

@[simp] theorem maskFilter_nil_right (l : List γ) : maskFilter l [] = [] := by
  simp [maskFilter]

theorem maskFilter_cons_cons (x : γ) (l : List γ) (b : Bool) (mask : List Bool) :
    maskFilter (x :: l) (b :: mask) = if b then x :: maskFilter l mask else maskFilter l mask := by
  cases b <;> simp [maskFilter]

theorem maskFilter_map (f : γ → δ) : ∀ (l : List γ) (mask : List Bool),
    maskFilter (l.map f) mask = (maskFilter l mask).map f
  | [], _ => by simp
  | _ :: _, [] => by simp
  | x :: l, b :: mask => by
    have ih := maskFilter_map f l mask
    cases b <;> simp [maskFilter_cons_cons, ih]

theorem mem_of_mem_maskFilter {x : γ} : ∀ {l : List γ} {mask : List Bool}, x ∈ maskFilter l mask → x ∈ l
  | [], _, h => by simp at h
  | _ :: _, [], h => by simp at h
  | y :: l, b :: mask, h => by
    rw [maskFilter_cons_cons] at h
    cases b
    · simp at h; exact List.mem_cons_of_mem _ (mem_of_mem_maskFilter h)
    · simp at h
      rcases h with h | h
      · simp [h]
      · exact List.mem_cons_of_mem _ (mem_of_mem_maskFilter h)

theorem maskFilter_length_congr : ∀ (l₁ : List γ) (l₂ : List δ) (mask : List Bool),
    l₁.length = l₂.length → (maskFilter l₁ mask).length = (maskFilter l₂ mask).length
  | [], [], _, _ => by simp
  | [], _ :: _, _, h => by simp at h
  | _ :: _, [], _, h => by simp at h
  | _ :: _, _ :: _, [], _ => by simp
  | x :: l₁, y :: l₂, b :: mask, h => by
    have ih := maskFilter_length_congr l₁ l₂ mask (by simpa using h)
    cases b <;> simp [maskFilter_cons_cons, ih]

/-- a kept element sits at the position given by the number of kept elements before it -/
theorem maskFilter_getElem?_count : ∀ (l : List γ) (mask : List Bool) (i : Nat),
    mask.getD i false = true →
    (maskFilter l mask)[((mask.take i).filter id).length]? = l[i]?
  | [], _, _, _ => by simp
  | _ :: _, [], i, h => by simp at h
  | x :: l, b :: mask, 0, h => by
    simp at h; subst h
    simp [maskFilter_cons_cons]
  | x :: l, b :: mask, i + 1, h => by
    have ih := maskFilter_getElem?_count l mask i (by simpa using h)
    cases b <;> simp [maskFilter_cons_cons, ih]

theorem lt_length_of_getD_true {mask : List Bool} {i : Nat} (h : mask.getD i false = true) :
    i < mask.length := by
  apply Decidable.byContradiction
  intro hc
  simp [List.getD, List.getElem?_eq_none (Nat.le_of_not_lt hc)] at h

theorem inverseOfBool_getD (mask : List Bool) (i : Nat) (h : mask.getD i false = true) :
    (inverseOfBool mask).getD i 0 = ((mask.take i).filter id).length := by
  have hi : i < mask.length := lt_length_of_getD_true h
  simp [inverseOfBool, List.getD, hi] at h ⊢
  simp [h]

theorem maskFilter_inverse_getElem? (l : List γ) (mask : List Bool) (i : Nat)
    (h : mask.getD i false = true) :
    (maskFilter l mask)[(inverseOfBool mask).getD i 0]? = l[i]? := by
  rw [inverseOfBool_getD mask i h, maskFilter_getElem?_count l mask i h]

/-! ### update_faces -/

theorem updateFacesBool_spec (m : Mesh α β) (mask : List Bool) :
    triangles (updateFacesBool m mask) = maskFilter (triangles m) mask ∧
    (updateFacesBool m mask).FA = maskFilter m.FA mask ∧
    (updateFacesBool m mask).V = m.V ∧
    (m.F.length = m.FA.length → (updateFacesBool m mask).F.length = (updateFacesBool m mask).FA.length) ∧
    (InRange m → InRange (updateFacesBool m mask)) := by
  refine ⟨?_, rfl, rfl, ?_, ?_⟩
  · simp [triangles, updateFacesBool, maskFilter_map]
  · intro h; exact maskFilter_length_congr _ _ _ h
  · intro hr f hf
    exact hr f (mem_of_mem_maskFilter hf)

theorem filterMap_getElem?_map (f : γ → δ) (l : List γ) (idx : List Nat) :
    (idx.filterMap (l[·]?)).map f = idx.filterMap ((l.map f)[·]?) := by
  induction idx with
  | nil => rfl
  | cons i idx ih =>
    simp only [List.filterMap_cons, List.getElem?_map]
    cases l[i]? <;> simp [ih]

theorem filterMap_getElem?_length (l : List γ) (idx : List Nat) (h : ∀ i ∈ idx, i < l.length) :
    (idx.filterMap (l[·]?)).length = idx.length := by
  induction idx with
  | nil => rfl
  | cons i idx ih =>
    have hi : i < l.length := h i (by simp)
    simp only [List.filterMap_cons, List.getElem?_eq_getElem hi, List.length_cons]
    rw [ih (fun j hj => h j (List.mem_cons_of_mem _ hj))]

theorem mem_filterMap_getElem? {l : List γ} {idx : List Nat} {x : γ}
    (h : x ∈ idx.filterMap (l[·]?)) : x ∈ l := by
  obtain ⟨i, _, hi⟩ := List.mem_filterMap.mp h
  exact List.mem_of_getElem? hi

theorem updateFacesIdx_spec (m : Mesh α β) (idx : List Nat) (h : ∀ i ∈ idx, i < m.F.length)
    (hFA : m.F.length = m.FA.length) :
    triangles (updateFacesIdx m idx) = idx.filterMap ((triangles m)[·]?) ∧
    (updateFacesIdx m idx).FA = idx.filterMap (m.FA[·]?) ∧
    (updateFacesIdx m idx).F.length = idx.length ∧ (updateFacesIdx m idx).FA.length = idx.length ∧
    (InRange m → InRange (updateFacesIdx m idx)) := by
  refine ⟨?_, rfl, ?_, ?_, ?_⟩
  · simp only [triangles, updateFacesIdx]
    exact filterMap_getElem?_map _ _ _
  · exact filterMap_getElem?_length _ _ h
  · exact filterMap_getElem?_length _ _ (fun i hi => hFA ▸ h i hi)
  · intro hr f hf
    exact hr f (mem_filterMap_getElem? hf)

/-! ### update_vertices -/

theorem updateVerticesBool_spec (m : Mesh α β) (mask : List Bool) (hr : InRange m)
    (hkeep : ∀ f ∈ m.F, mask.getD f.1 false = true ∧ mask.getD f.2.1 false = true ∧ mask.getD f.2.2 false = true) :
    triangles (updateVerticesBool m mask) = triangles m ∧
    (updateVerticesBool m mask).V = maskFilter m.V mask ∧
    (updateVerticesBool m mask).FA = m.FA ∧
    InRange (updateVerticesBool m mask) := by
  refine ⟨?_, rfl, rfl, ?_⟩
  · simp only [triangles, updateVerticesBool, List.map_map]
    apply List.map_congr_left
    intro f hf
    obtain ⟨h1, h2, h3⟩ := hkeep f hf
    simp only [Function.comp, corners, mapFace, maskFilter_inverse_getElem? _ _ _ h1,
      maskFilter_inverse_getElem? _ _ _ h2, maskFilter_inverse_getElem? _ _ _ h3]
  · intro f hf
    simp only [updateVerticesBool] at hf ⊢
    obtain ⟨g, hg, rfl⟩ := List.mem_map.mp hf
    obtain ⟨h1, h2, h3⟩ := hkeep g hg
    obtain ⟨r1, r2, r3⟩ := hr g hg
    have key : ∀ i, mask.getD i false = true → i < m.V.length →
        (inverseOfBool mask).getD i 0 < (maskFilter m.V mask).length := by
      intro i hi hlt
      have := maskFilter_inverse_getElem? m.V mask i hi
      rw [List.getElem?_eq_getElem hlt] at this
      exact (List.getElem?_eq_some_iff.mp this).1
    exact ⟨key _ h1 r1, key _ h2 r2, key _ h3 r3⟩

theorem referencedMask_getD (m : Mesh α β) (hr : InRange m) :
    ∀ f ∈ m.F, (referencedMask m).getD f.1 false = true ∧ (referencedMask m).getD f.2.1 false = true ∧
      (referencedMask m).getD f.2.2 false = true := by
  intro f hf
  obtain ⟨r1, r2, r3⟩ := hr f hf
  simp only [referencedMask, List.getD, List.getElem?_map, List.getElem?_range r1,
    List.getElem?_range r2, List.getElem?_range r3, Option.map_some, Option.getD_some, List.any_eq_true]
  exact ⟨⟨f, hf, by simp⟩, ⟨f, hf, by simp⟩, ⟨f, hf, by simp⟩⟩

theorem removeUnreferenced_spec (m : Mesh α β) (hr : InRange m) :
    triangles (removeUnreferenced m) = triangles m ∧ InRange (removeUnreferenced m) ∧
    (removeUnreferenced m).V = maskFilter m.V (referencedMask m) ∧
    (removeUnreferenced m).FA = m.FA := by
  obtain ⟨h1, h2, h3, h4⟩ := updateVerticesBool_spec m (referencedMask m) hr (referencedMask_getD m hr)
  exact ⟨h1, h4, h2, h3⟩

/-! ### unmerge -/

theorem flatMap_three_length (g : γ → List δ) : ∀ (l : List γ), (∀ x ∈ l, (g x).length = 3) →
    (l.flatMap g).length = 3 * l.length
  | [], _ => rfl
  | x :: l, h => by
    have ih := flatMap_three_length g l (fun y hy => h y (List.mem_cons_of_mem _ hy))
    have hx := h x (by simp)
    simp only [List.flatMap_cons, List.length_append, List.length_cons, ih, hx]; omega

theorem flatMap_three_getElem? (g : γ → List δ) : ∀ (l : List γ), (∀ x ∈ l, (g x).length = 3) →
    ∀ (i : Nat) (hi : i < l.length) (k : Nat), k < 3 → (l.flatMap g)[3 * i + k]? = (g l[i])[k]?
  | [], _, i, hi, _, _ => by simp at hi
  | x :: l, h, 0, _, k, hk => by
    have hx := h x (by simp)
    simp only [List.flatMap_cons, Nat.mul_zero, Nat.zero_add, List.getElem_cons_zero]
    rw [List.getElem?_append_left (by omega)]
  | x :: l, h, i + 1, hi, k, hk => by
    have hx := h x (by simp)
    have ih := flatMap_three_getElem? g l (fun y hy => h y (List.mem_cons_of_mem _ hy)) i
      (by simpa using hi) k hk
    simp only [List.flatMap_cons, List.getElem_cons_succ]
    rw [List.getElem?_append_right (by omega), ← ih]
    congr 1; omega

theorem unmerge_spec (m : Mesh α β) (hr : InRange m) :
    triangles (unmerge m) = triangles m ∧ InRange (unmerge m) ∧
    (unmerge m).V.length = 3 * m.F.length ∧ (unmerge m).FA = m.FA := by
  let g : Face → List α := fun f => [m.V[f.1]?, m.V[f.2.1]?, m.V[f.2.2]?].filterMap id
  have hg : ∀ f ∈ m.F, g f = [m.V[f.1]?, m.V[f.2.1]?, m.V[f.2.2]?].filterMap id := fun _ _ => rfl
  have hg3 : ∀ f ∈ m.F, (g f).length = 3 := by
    intro f hf
    obtain ⟨r1, r2, r3⟩ := hr f hf
    simp [g, List.getElem?_eq_getElem r1, List.getElem?_eq_getElem r2, List.getElem?_eq_getElem r3]
  have hV : (unmerge m).V = m.F.flatMap g := rfl
  have hlen : (unmerge m).V.length = 3 * m.F.length := by
    rw [hV]; exact flatMap_three_length g m.F hg3
  refine ⟨?_, ?_, hlen, rfl⟩
  · apply List.ext_getElem?
    intro i
    simp only [triangles, List.getElem?_map]
    show Option.map (corners (unmerge m).V) ((List.range m.F.length).map (fun i => (3 * i, 3 * i + 1, 3 * i + 2)))[i]? = _
    by_cases hi : i < m.F.length
    · obtain ⟨r1, r2, r3⟩ := hr _ (List.getElem_mem hi)
      have e0 := flatMap_three_getElem? g m.F hg3 i hi 0 (by omega)
      have e1 := flatMap_three_getElem? g m.F hg3 i hi 1 (by omega)
      have e2 := flatMap_three_getElem? g m.F hg3 i hi 2 (by omega)
      simp only [Nat.add_zero] at e0
      simp only [List.getElem?_map, List.getElem?_range hi, List.getElem?_eq_getElem hi,
        Option.map_some, corners, hV, e0, e1, e2]
      simp [g, List.getElem?_eq_getElem r1, List.getElem?_eq_getElem r2, List.getElem?_eq_getElem r3]
    · have hi' : m.F.length ≤ i := Nat.le_of_not_lt hi
      simp [hi']
  · intro f hf
    have hf' : f ∈ (List.range m.F.length).map (fun i => (3 * i, 3 * i + 1, 3 * i + 2)) := hf
    obtain ⟨i, hi, rfl⟩ := List.mem_map.mp hf'
    have := List.mem_range.mp hi
    rw [hlen]; simp only; omega

/-! ### append / concatenate -/

theorem append_spec (a b : Mesh α β) (ha : InRange a) (hb : InRange b) :
    triangles (append a b) = triangles a ++ triangles b ∧ (append a b).FA = a.FA ++ b.FA ∧
    InRange (append a b) := by
  refine ⟨?_, rfl, ?_⟩
  · simp only [triangles, append, List.map_append, List.map_map]
    congr 1
    · apply List.map_congr_left
      intro f hf
      obtain ⟨r1, r2, r3⟩ := ha f hf
      simp only [corners, List.getElem?_append_left r1, List.getElem?_append_left r2,
        List.getElem?_append_left r3]
    · apply List.map_congr_left
      intro f _
      simp [corners, mapFace, List.getElem?_append_right]
  · intro f hf
    simp only [append, List.mem_append, List.mem_map, List.length_append] at hf ⊢
    rcases hf with hf | ⟨g, hg, rfl⟩
    · obtain ⟨r1, r2, r3⟩ := ha f hf
      exact ⟨by omega, by omega, by omega⟩
    · obtain ⟨r1, r2, r3⟩ := hb g hg
      simp only [mapFace]
      exact ⟨by omega, by omega, by omega⟩

theorem foldl_append_spec : ∀ (ms : List (Mesh α β)) (acc : Mesh α β), InRange acc →
    (∀ m ∈ ms, InRange m) →
    triangles (ms.foldl append acc) = triangles acc ++ (ms.map triangles).flatten ∧
    (ms.foldl append acc).FA = acc.FA ++ (ms.map (·.FA)).flatten ∧ InRange (ms.foldl append acc)
  | [], acc, hacc, _ => by simp [hacc]
  | m :: ms, acc, hacc, h => by
    obtain ⟨a1, a2, a3⟩ := append_spec acc m hacc (h m (by simp))
    obtain ⟨i1, i2, i3⟩ := foldl_append_spec ms (append acc m) a3 (fun x hx => h x (List.mem_cons_of_mem _ hx))
    simp only [List.foldl_cons, List.map_cons, List.flatten_cons]
    refine ⟨?_, ?_, i3⟩
    · rw [i1, a1, List.append_assoc]
    · rw [i2, a2, List.append_assoc]

theorem concatenate_spec (ms : List (Mesh α β)) (h : ∀ m ∈ ms, InRange m) :
    triangles (concatenate ms) = (ms.map triangles).flatten ∧
    (concatenate ms).FA = (ms.map (·.FA)).flatten ∧ InRange (concatenate ms) := by
  have := foldl_append_spec ms { V := [], F := [], FA := [] } (by intro f hf; simp at hf) h
  simpa [concatenate, triangles] using this

/-! ### submesh -/

theorem submesh_spec (m : Mesh α β) (idx : List Nat) (hr : InRange m) (h : ∀ i ∈ idx, i < m.F.length)
    (hFA : m.F.length = m.FA.length) :
    triangles (submesh m idx) = idx.filterMap ((triangles m)[·]?) ∧
    (submesh m idx).FA = idx.filterMap (m.FA[·]?) ∧ InRange (submesh m idx) := by
  obtain ⟨u1, u2, _, _, u5⟩ := updateFacesIdx_spec m idx h hFA
  obtain ⟨r1, r2, _, r4⟩ := removeUnreferenced_spec (updateFacesIdx m idx) (u5 hr)
  exact ⟨by rw [submesh, r1, u1], by rw [submesh, r4, u2], r2⟩

/-! ### split / concatenate -/

theorem zip_filterMap_getElem? (l₁ : List γ) (l₂ : List δ) (hl : l₁.length = l₂.length) :
    ∀ (idx : List Nat), (∀ i ∈ idx, i < l₁.length) →
    (idx.filterMap (l₁[·]?)).zip (idx.filterMap (l₂[·]?)) = idx.filterMap ((l₁.zip l₂)[·]?)
  | [], _ => rfl
  | i :: idx, h => by
    have hi : i < l₁.length := h i (by simp)
    have hi2 : i < l₂.length := hl ▸ hi
    have ih := zip_filterMap_getElem? l₁ l₂ hl idx (fun j hj => h j (List.mem_cons_of_mem _ hj))
    have hz : (l₁.zip l₂)[i]? = some (l₁[i], l₂[i]) :=
      List.getElem?_zip_eq_some.mpr ⟨List.getElem?_eq_getElem hi, List.getElem?_eq_getElem hi2⟩
    simp only [List.filterMap_cons, List.getElem?_eq_getElem hi, List.getElem?_eq_getElem hi2, hz,
      List.zip_cons_cons, ih]

theorem zip_flatten_map {ι : Type} (f : ι → List γ) (g : ι → List δ) : ∀ (cs : List ι),
    (∀ c ∈ cs, (f c).length = (g c).length) →
    (cs.map f).flatten.zip (cs.map g).flatten = (cs.map (fun c => (f c).zip (g c))).flatten
  | [], _ => rfl
  | c :: cs, h => by
    have ih := zip_flatten_map f g cs (fun d hd => h d (List.mem_cons_of_mem _ hd))
    simp only [List.map_cons, List.flatten_cons]
    rw [List.zip_append (h c (by simp)), ih]

theorem filterMap_getElem?_range_take (l : List γ) : ∀ n, n ≤ l.length →
    (List.range n).filterMap (l[·]?) = l.take n
  | 0, _ => by simp
  | n + 1, h => by
    have ih := filterMap_getElem?_range_take l n (by omega)
    have hn : n < l.length := by omega
    rw [List.range_succ, List.filterMap_append, ih, List.take_add_one]
    simp [List.getElem?_eq_getElem hn]

theorem filterMap_getElem?_range (l : List γ) : (List.range l.length).filterMap (l[·]?) = l := by
  rw [filterMap_getElem?_range_take l _ (Nat.le_refl _), List.take_length]

theorem split_concat_spec (m : Mesh α β) (comps : List (List Nat)) (hr : InRange m)
    (hFA : m.F.length = m.FA.length)
    (hpart : comps.flatten.Perm (List.range m.F.length)) :
    ((triangles (concatenate (split m comps))).zip (concatenate (split m comps)).FA).Perm
      ((triangles m).zip m.FA) := by
  have hc : ∀ c ∈ comps, ∀ i ∈ c, i < m.F.length := by
    intro c hc i hi
    exact List.mem_range.mp (hpart.mem_iff.mp (List.mem_flatten.mpr ⟨c, hc, hi⟩))
  have hsub : ∀ c ∈ comps, _ := fun c h => submesh_spec m c hr (hc c h) hFA
  have hin : ∀ x ∈ split m comps, InRange x := by
    intro x hx
    obtain ⟨c, hcm, rfl⟩ := List.mem_map.mp hx
    exact (hsub c hcm).2.2
  obtain ⟨c1, c2, _⟩ := concatenate_spec (split m comps) hin
  have hT : (triangles m).length = m.F.length := by simp [triangles]
  have e1 : (split m comps).map triangles = comps.map (fun c => c.filterMap ((triangles m)[·]?)) := by
    simp only [split, List.map_map]
    apply List.map_congr_left
    intro c h; exact (hsub c h).1
  have e2 : (split m comps).map (·.FA) = comps.map (fun c => c.filterMap (m.FA[·]?)) := by
    simp only [split, List.map_map]
    apply List.map_congr_left
    intro c h; exact (hsub c h).2.1
  rw [c1, c2, e1, e2, zip_flatten_map]
  · have e3 : comps.map (fun c => (c.filterMap ((triangles m)[·]?)).zip (c.filterMap (m.FA[·]?)))
        = comps.map (fun c => c.filterMap (((triangles m).zip m.FA)[·]?)) := by
      apply List.map_congr_left
      intro c h
      exact zip_filterMap_getElem? _ _ (hT.trans hFA) c (fun i hi => hT ▸ hc c h i hi)
    rw [e3, ← List.filterMap_flatten]
    have hZ : ((triangles m).zip m.FA).length = m.F.length := by
      simp [List.length_zip, hT, ← hFA]
    have := hpart.filterMap (((triangles m).zip m.FA)[·]?)
    rw [← hZ, filterMap_getElem?_range] at this
    exact this
  · intro c h
    rw [filterMap_getElem?_length _ _ (fun i hi => hT ▸ hc c h i hi),
      filterMap_getElem?_length _ _ (fun i hi => hFA ▸ hc c h i hi)]

/-! ### unique faces -/

theorem head_le_of_mem_ascending {g : List Nat} (hasc : g.Pairwise (· ≤ ·)) {i : Nat} (hi : i ∈ g) :
    g.headD 0 ≤ i := by
  cases g with
  | nil => simp at hi
  | cons a t =>
    simp only [List.headD_cons]
    rcases List.mem_cons.mp hi with e | e
    · omega
    · exact (List.pairwise_cons.mp hasc).1 i e

theorem mem_unique_iff_first {κ : Type} [DecidableEq κ] {vs : List κ} {gs : List (List Nat)}
    (h : IsGrouping vs gs) {i : Nat} (hi : i < vs.length) :
    i ∈ (uniqueOfGroups vs.length gs).1 ↔ ∀ j, j < i → vs[j]? ≠ vs[i]? := by
  constructor
  · intro hu; exact h.unique_first hu
  · intro hfirst
    obtain ⟨g, hg, hig⟩ := h.covers hi
    have hhead := headD_mem (h.ne_nil g hg)
    have hle := head_le_of_mem_ascending (h.ascending g hg) hig
    have hsame := h.same g hg _ hhead _ hig
    have : g.headD 0 = i := by
      rcases Nat.lt_or_eq_of_le hle with hlt | e
      · exact absurd hsame (hfirst _ hlt)
      · exact e
    simp only [uniqueOfGroups]
    exact List.mem_map.mpr ⟨g, hg, this⟩

theorem uniqueFacesMask_spec (m : Mesh α β) (i : Nat) (hi : i < m.F.length) :
    (uniqueFacesMask m)[i]? = some (decide (∀ j, j < i → (m.F.map sort3)[j]? ≠ (m.F.map sort3)[i]?)) := by
  have hG := groupsOf_isGrouping TV.Grouping.lexLe_isOrder (m.F.map sort3)
  have hi' : i < (m.F.map sort3).length := by simpa using hi
  have hiff := mem_unique_iff_first hG hi'
  have e : (uniqueIdxInv lexLe (m.F.map sort3)).1
      = (uniqueOfGroups (m.F.map sort3).length (groupsOf lexLe (m.F.map sort3))).1 := rfl
  simp only [uniqueFacesMask, List.getElem?_map, List.getElem?_range hi, Option.map_some, e]
  congr 1
  rw [Bool.eq_iff_iff]
  simp only [List.contains_iff_mem, decide_eq_true_eq]
  simpa only [List.getElem?_map] using hiff

/-! ### merge_vertices -/

theorem filterMap_getElem?_of_isSome (f : γ → Option δ) : ∀ (l : List γ), (∀ x ∈ l, (f x).isSome) →
    ∀ k : Nat, (l.filterMap f)[k]? = l[k]?.bind f
  | [], _, k => by simp
  | x :: l, h, k => by
    have ih := filterMap_getElem?_of_isSome f l (fun y hy => h y (List.mem_cons_of_mem _ hy))
    obtain ⟨y, hy⟩ := Option.isSome_iff_exists.mp (h x (by simp))
    rw [List.filterMap_cons, hy]
    cases k with
    | zero => simp [hy]
    | succ k => simp [ih k]

theorem filterMap_length_of_isSome (f : γ → Option δ) : ∀ (l : List γ), (∀ x ∈ l, (f x).isSome) →
    (l.filterMap f).length = l.length
  | [], _ => rfl
  | x :: l, h => by
    have ih := filterMap_length_of_isSome f l (fun y hy => h y (List.mem_cons_of_mem _ hy))
    obtain ⟨y, hy⟩ := Option.isSome_iff_exists.mp (h x (by simp))
    rw [List.filterMap_cons, hy]; simp [ih]

theorem filterMap_map_some_of_isSome (f : γ → Option δ) : ∀ (l : List γ), (∀ x ∈ l, (f x).isSome) →
    (l.filterMap f).map some = l.map f
  | [], _ => rfl
  | x :: l, h => by
    have ih := filterMap_map_some_of_isSome f l (fun y hy => h y (List.mem_cons_of_mem _ hy))
    obtain ⟨y, hy⟩ := Option.isSome_iff_exists.mp (h x (by simp))
    rw [List.filterMap_cons, hy]; simp [ih, hy]

/-- indices of the referenced vertices, ascending -/
def refIdxOf (m : Mesh α β) : List Nat :=
  (List.range m.V.length).filter (fun v => (referencedMask m).getD v false)

theorem mem_refIdxOf {m : Mesh α β} {v : Nat} :
    v ∈ refIdxOf m ↔ v < m.V.length ∧ (referencedMask m).getD v false = true := by
  simp [refIdxOf]

theorem refIdxOf_sorted (m : Mesh α β) : (refIdxOf m).Pairwise (· < ·) :=
  List.Pairwise.filter _ List.pairwise_lt_range

theorem referencedMask_length (m : Mesh α β) : (referencedMask m).length = m.V.length := by
  simp [referencedMask]

theorem mergeVertices_spec {κ : Type} [DecidableEq κ] (le : κ → κ → Bool) (hle : IsOrder le) (key : α → κ)
    (m : Mesh α β) (hr : InRange m) :
    let m' := mergeVertices le key m
    InRange m' ∧ m'.F.length = m.F.length ∧ m'.FA = m.FA ∧
    (∀ i (h : i < m.F.length) (h' : i < m'.F.length),
      (m'.V[(m'.F[i]).1]?).map key = (m.V[(m.F[i]).1]?).map key ∧
      (m'.V[(m'.F[i]).2.1]?).map key = (m.V[(m.F[i]).2.1]?).map key ∧
      (m'.V[(m'.F[i]).2.2]?).map key = (m.V[(m.F[i]).2.2]?).map key) ∧
    (m'.V.map key).Nodup ∧
    (∀ a ∈ m'.V, ∃ v, m.V[v]? = some a ∧ (referencedMask m).getD v false = true ∧
        ∀ w, w < v → (referencedMask m).getD w false = true → (m.V[w]?).map key ≠ some (key a)) := by
  intro m'
  -- names for the pieces of the definition
  let refIdx := refIdxOf m
  let keys : List κ := refIdx.filterMap (fun v => (m.V[v]?).map key)
  let gs := orderByHead (groupsOf le keys)
  let ui := uniqueOfGroups keys.length gs
  let keep := ui.1.map (fun u => refIdx.getD u 0)
  let inverse := (List.range m.V.length).map (fun v =>
    match refIdx.idxOf? v with
    | some k => ui.2.getD k 0
    | none => 0)
  have hm' : m' = updateVerticesInv m keep inverse := rfl
  have hV' : m'.V = keep.filterMap (m.V[·]?) := rfl
  have hF' : m'.F = m.F.map (mapFace (fun i => inverse.getD i 0)) := rfl
  have hG : IsGrouping keys gs :=
    (groupsOf_isGrouping hle keys).of_perm (orderByHead_perm _).symm
  -- keys
  have hsome : ∀ v ∈ refIdx, ((m.V[v]?).map key).isSome := by
    intro v hv
    have := (mem_refIdxOf.mp hv).1
    simp [List.getElem?_eq_getElem this]
  have hkeys_len : keys.length = refIdx.length := filterMap_length_of_isSome _ _ hsome
  have hkeys_get : ∀ k : Nat, keys[k]? = refIdx[k]?.bind (fun v => (m.V[v]?).map key) :=
    filterMap_getElem?_of_isSome _ _ hsome
  have hkeys_get' : ∀ k (hk : k < refIdx.length), keys[k]? = (m.V[refIdx[k]]?).map key := by
    intro k hk; rw [hkeys_get k, List.getElem?_eq_getElem hk]; rfl
  -- members of ui.1 are valid positions
  have hu_lt : ∀ u ∈ ui.1, u < refIdx.length := by
    intro u hu
    obtain ⟨g, hg, rfl⟩ := List.mem_map.mp hu
    rw [← hkeys_len]
    exact hG.mem_lt hg (headD_mem (hG.ne_nil g hg))
  have hkeep_some : ∀ w ∈ keep, (m.V[w]?).isSome := by
    intro w hw
    obtain ⟨u, hu, rfl⟩ := List.mem_map.mp hw
    have hlt := hu_lt u hu
    have hmem : refIdx[u] ∈ refIdx := List.getElem_mem hlt
    have := (mem_refIdxOf.mp hmem).1
    simp [List.getD, List.getElem?_eq_getElem hlt, List.getElem?_eq_getElem this]
  have hV'_len : m'.V.length = keep.length := by
    rw [hV']; exact filterMap_length_of_isSome _ _ hkeep_some
  have hV'_get : ∀ k : Nat, m'.V[k]? = keep[k]?.bind (m.V[·]?) := by
    intro k; rw [hV']; exact filterMap_getElem?_of_isSome _ _ hkeep_some k
  -- corner lemma
  have hcorner : ∀ v, v < m.V.length → (referencedMask m).getD v false = true →
      (m'.V[inverse.getD v 0]?).map key = (m.V[v]?).map key ∧ inverse.getD v 0 < m'.V.length := by
    intro v hv href
    have hmem : v ∈ refIdx := mem_refIdxOf.mpr ⟨hv, href⟩
    have hidx : (refIdx.idxOf? v).isSome := List.isSome_idxOf?.mpr hmem
    obtain ⟨k, hk⟩ := Option.isSome_iff_exists.mp hidx
    obtain ⟨hklt, hkv, _⟩ := List.idxOf?_eq_some_iff.mp hk
    have hk' : k < keys.length := by rw [hkeys_len]; exact hklt
    obtain ⟨k', u, h1, h2, h3⟩ := hG.unique_reconstruct hk'
    have hinv : inverse.getD v 0 = k' := by
      simp only [inverse, List.getD, List.getElem?_map, List.getElem?_range hv, Option.map_some,
        Option.getD_some, hk]
      show (ui.2[k]?).getD 0 = k'
      rw [h1]; rfl
    have hu : u ∈ ui.1 := List.mem_of_getElem? h2
    have hult := hu_lt u hu
    have hkeepk : keep[k']? = some refIdx[u] := by
      simp only [keep, List.getElem?_map]
      show Option.map _ (ui.1[k']?) = _
      rw [h2]; simp [List.getD, List.getElem?_eq_getElem hult]
    have e : (m'.V[inverse.getD v 0]?).map key = (m.V[v]?).map key := by
      rw [hinv, hV'_get k', hkeepk]
      simp only [Option.bind_some]
      rw [← hkeys_get' u hult, h3, hkeys_get' k hklt, hkv]
    refine ⟨e, ?_⟩
    rw [List.getElem?_eq_getElem hv] at e
    cases hx : m'.V[inverse.getD v 0]? with
    | none => rw [hx] at e; simp at e
    | some x => exact (List.getElem?_eq_some_iff.mp hx).1
  have href := referencedMask_getD m hr
  refine ⟨?_, ?_, rfl, ?_, ?_, ?_⟩
  · -- InRange
    intro f hf
    rw [hF'] at hf
    obtain ⟨g, hg, rfl⟩ := List.mem_map.mp hf
    obtain ⟨r1, r2, r3⟩ := hr g hg
    obtain ⟨q1, q2, q3⟩ := href g hg
    exact ⟨(hcorner _ r1 q1).2, (hcorner _ r2 q2).2, (hcorner _ r3 q3).2⟩
  · rw [hF']; simp
  · intro i h h'
    have hmemF : m.F[i] ∈ m.F := List.getElem_mem h
    obtain ⟨r1, r2, r3⟩ := hr _ hmemF
    obtain ⟨q1, q2, q3⟩ := href _ hmemF
    have hFi : m'.F[i] = mapFace (fun i => inverse.getD i 0) m.F[i] := by
      simp only [hF', List.getElem_map]
    rw [hFi]
    exact ⟨(hcorner _ r1 q1).1, (hcorner _ r2 q2).1, (hcorner _ r3 q3).1⟩
  · -- Nodup
    have e : (m'.V.map key).map some = ui.1.map (fun u => keys[u]?) := by
      rw [List.map_map]
      have : (some ∘ key : α → Option κ) = (Option.map key) ∘ some := by funext x; rfl
      rw [this, ← List.map_map, hV', filterMap_map_some_of_isSome _ _ hkeep_some]
      simp only [keep, List.map_map]
      apply List.map_congr_left
      intro u hu
      have hult := hu_lt u hu
      simp only [Function.comp, List.getD, List.getElem?_eq_getElem hult, Option.getD_some]
      exact (hkeys_get' u hult).symm
    have hd := hG.unique_distinct
    have hp : ((m'.V.map key).map some).Pairwise (· ≠ ·) := by
      rw [e]; exact List.pairwise_map.mpr hd
    exact List.Pairwise.of_map some (fun a b h e => h (congrArg some e)) hp
  · -- first referenced vertex of its key
    intro a ha
    rw [hV'] at ha
    obtain ⟨w, hw, hwa⟩ := List.mem_filterMap.mp ha
    obtain ⟨u, hu, rfl⟩ := List.mem_map.mp hw
    have hult := hu_lt u hu
    have hgetD : refIdx.getD u 0 = refIdx[u] := by
      simp [List.getD, List.getElem?_eq_getElem hult]
    rw [hgetD] at hwa
    have hmem : refIdx[u] ∈ refIdx := List.getElem_mem hult
    refine ⟨refIdx[u], hwa, (mem_refIdxOf.mp hmem).2, ?_⟩
    intro w hwlt hwref
    have hwV : w < m.V.length := Nat.lt_trans hwlt (mem_refIdxOf.mp hmem).1
    have hwmem : w ∈ refIdx := mem_refIdxOf.mpr ⟨hwV, hwref⟩
    obtain ⟨j, hj, hjw⟩ := List.getElem_of_mem hwmem
    have hsorted := List.pairwise_iff_getElem.mp (refIdxOf_sorted m)
    have hju : j < u := by
      rcases Nat.lt_trichotomy j u with h | h | h
      · exact h
      · subst h; omega
      · have := hsorted u j hult hj h
        have e1 : (refIdxOf m)[j] = w := hjw
        have e2 : (refIdxOf m)[u] = refIdx[u] := rfl
        omega
    have hfirst := hG.unique_first hu j hju
    rw [hkeys_get' j hj, hkeys_get' u hult, hjw, hwa] at hfirst
    exact hfirst

end TV.Reindex
