import TrimeshVerif.Model.Reindex
import TrimeshVerif.Proofs.SortRuns
import TrimeshVerif.Proofs.Grouping
namespace TV.Reindex

end TV.Reindex
