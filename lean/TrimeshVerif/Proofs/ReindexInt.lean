import TrimeshVerif.Proofs.Reindex
/-!
C07: `update_vertices` with an integer mask (kept vertex indices in any order) and an explicit inverse.  Core Lean only.
-/
namespace TV.Reindex

variable {α β : Type}

theorem filterMap_getElem? (V : List α) (l : List Nat) (hl : ∀ k ∈ l, k < V.length) (j : Nat) :
    (l.filterMap (V[·]?))[j]? = (l[j]?).bind (V[·]?) := by
  induction l generalizing j with
  | nil => simp
  | cons k t ih =>
    have hk : k < V.length := hl k (by simp)
    have hv : V[k]? = some V[k] := List.getElem?_eq_getElem hk
    have ht : ∀ k ∈ t, k < V.length := fun x hx => hl x (by simp [hx])
    simp only [List.filterMap_cons, hv]
    cases j with
    | zero => simp [hv]
    | succ j => simp [ih ht j]

theorem updateVerticesInv_spec (m : Mesh α β) (keep inverse : List Nat)
    (hk : ∀ k ∈ keep, k < m.V.length)
    (hinv : ∀ f ∈ m.F, keep[inverse.getD f.1 0]? = some f.1 ∧ keep[inverse.getD f.2.1 0]? = some f.2.1 ∧
      keep[inverse.getD f.2.2 0]? = some f.2.2) :
    triangles (updateVerticesInv m keep inverse) = triangles m ∧
    (updateVerticesInv m keep inverse).V = keep.filterMap (m.V[·]?) ∧
    (updateVerticesInv m keep inverse).FA = m.FA := by
  refine ⟨?_, rfl, rfl⟩
  unfold triangles updateVerticesInv
  simp only [List.map_map]
  apply List.map_congr_left
  intro f hf
  obtain ⟨h1, h2, h3⟩ := hinv f hf
  simp only [Function.comp, corners, mapFace, filterMap_getElem? m.V keep hk, h1, h2, h3, Option.bind_some]

end TV.Reindex
