/- definitions for C18 (subdivision): geometry over a field, index bookkeeping over Nat -/
import TrimeshVerif.Proofs.Affine
import Mathlib.Tactic.IntervalCases
namespace TV.Remesh
open TV.Mat3 TV.Moments TV.Affine

variable {K : Type} [Field K]

def midpoint (a b : V3 K) : V3 K := ((a.1 + b.1) / 2, (a.2.1 + b.2.1) / 2, (a.2.2 + b.2.2) / 2)

/-- the four children of triangle (a, b, c) in the code's column order:
    [a, m_ab, m_ca], [m_ab, b, m_bc], [m_ca, m_bc, c], [m_ab, m_bc, m_ca] -/
def children (a b c : V3 K) : List (V3 K × V3 K × V3 K) :=
  let m0 := midpoint a b; let m1 := midpoint b c; let m2 := midpoint c a
  [(a, m0, m2), (m0, b, m1), (m2, m1, c), (m0, m1, m2)]

/-- area vector (twice the area times the unit normal) -/
def areaVec (t : V3 K × V3 K × V3 K) : V3 K := cross (sub t.2.1 t.1) (sub t.2.2 t.1)

/-- all ten exact moments of the signed tetrahedron (origin, triangle) -/
def moments (t : V3 K × V3 K × V3 K) : List K :=
  let a := t.1; let b := t.2.1; let c := t.2.2
  [T0 a.1 a.2.1 a.2.2 b.1 b.2.1 b.2.2 c.1 c.2.1 c.2.2, T1 a.1 a.2.1 a.2.2 b.1 b.2.1 b.2.2 c.1 c.2.1 c.2.2,
   T2 a.1 a.2.1 a.2.2 b.1 b.2.1 b.2.2 c.1 c.2.1 c.2.2, T3 a.1 a.2.1 a.2.2 b.1 b.2.1 b.2.2 c.1 c.2.1 c.2.2,
   T4 a.1 a.2.1 a.2.2 b.1 b.2.1 b.2.2 c.1 c.2.1 c.2.2, T5 a.1 a.2.1 a.2.2 b.1 b.2.1 b.2.2 c.1 c.2.1 c.2.2,
   T6 a.1 a.2.1 a.2.2 b.1 b.2.1 b.2.2 c.1 c.2.1 c.2.2, T7 a.1 a.2.1 a.2.2 b.1 b.2.1 b.2.2 c.1 c.2.1 c.2.2,
   T8 a.1 a.2.1 a.2.2 b.1 b.2.1 b.2.2 c.1 c.2.1 c.2.2, T9 a.1 a.2.1 a.2.2 b.1 b.2.1 b.2.2 c.1 c.2.1 c.2.2]

/-! ### index bookkeeping: faces over Nat, one new vertex per undirected edge -/

abbrev Face := Nat × Nat × Nat

/-- children of an index face given the midpoint index of each edge -/
def childFaces (mid : Nat → Nat → Nat) (f : Face) : List Face :=
  let a := f.1; let b := f.2.1; let c := f.2.2
  let m0 := mid a b; let m1 := mid b c; let m2 := mid c a
  [(a, m0, m2), (m0, b, m1), (m2, m1, c), (m0, m1, m2)]

def subdivideFaces (mid : Nat → Nat → Nat) (fs : List Face) : List Face := fs.flatMap (childFaces mid)

def dirEdges (fs : List Face) : List (Nat × Nat) :=
  fs.flatMap (fun f => [(f.1, f.2.1), (f.2.1, f.2.2), (f.2.2, f.1)])

/-- watertight and consistently wound: the directed edges are closed under reversal as a multiset -/
def Closed (fs : List Face) : Prop := (dirEdges fs).Perm ((dirEdges fs).map Prod.swap)

/-! ### helper lemmas for C18 (additive) -/

section geom
variable [CharZero K]

theorem children_area (a b c : V3 K) :
    ∀ t ∈ children a b c, smul 4 (areaVec t) = areaVec (a, b, c) := by
  obtain ⟨a1, a2, a3⟩ := a
  obtain ⟨b1, b2, b3⟩ := b
  obtain ⟨c1, c2, c3⟩ := c
  intro t ht
  simp only [children, List.mem_cons, List.not_mem_nil, or_false] at ht
  rcases ht with rfl | rfl | rfl | rfl <;>
    (simp only [smul, areaVec, cross, sub, midpoint, Prod.mk.injEq]
     refine ⟨?_, ?_, ?_⟩ <;> ring)

theorem children_moments (a b c : V3 K) (i : Nat) (hi : i < 10) :
    ((children a b c).map (fun t => (moments t).getD i 0)).sum = (moments (a, b, c)).getD i 0 := by
  obtain ⟨a1, a2, a3⟩ := a
  obtain ⟨b1, b2, b3⟩ := b
  obtain ⟨c1, c2, c3⟩ := c
  interval_cases i <;>
    (simp only [children, moments, midpoint, List.map_cons, List.map_nil, List.sum_cons, List.sum_nil,
      List.getD_cons_zero, List.getD_cons_succ, T0, T1, T2, T3, T4, T5, T6, T7, T8, T9, det3, q2]
     ring)

theorem child_edge_quarter (a b c : V3 K) :
    dot (sub (midpoint a b) a) (sub (midpoint a b) a) * 4 = dot (sub b a) (sub b a) ∧
    dot (sub (midpoint a b) (midpoint c a)) (sub (midpoint a b) (midpoint c a)) * 4 = dot (sub b c) (sub b c) := by
  obtain ⟨a1, a2, a3⟩ := a
  obtain ⟨b1, b2, b3⟩ := b
  obtain ⟨c1, c2, c3⟩ := c
  simp only [dot, sub, midpoint]
  constructor <;> ring

theorem reverse_face (a b c : V3 K) :
    areaVec (a, c, b) = smul (-1) (areaVec (a, b, c)) ∧ vol a c b = - vol a b c := by
  obtain ⟨a1, a2, a3⟩ := a
  obtain ⟨b1, b2, b3⟩ := b
  obtain ⟨c1, c2, c3⟩ := c
  simp only [areaVec, smul, cross, sub, vol, T0, det3, Prod.mk.injEq]
  refine ⟨⟨?_, ?_, ?_⟩, ?_⟩ <;> ring
end geom

/-! ### directed-edge bookkeeping for subdivision -/

/-- the two half edges of a directed edge -/
def halfEdges (mid : Nat → Nat → Nat) (e : Nat × Nat) : List (Nat × Nat) :=
  [(e.1, mid e.1 e.2), (mid e.1 e.2, e.2)]

/-- the six interior directed edges created inside one face -/
def innerEdges (mid : Nat → Nat → Nat) (f : Face) : List (Nat × Nat) :=
  let m0 := mid f.1 f.2.1; let m1 := mid f.2.1 f.2.2; let m2 := mid f.2.2 f.1
  [(m0, m2), (m1, m0), (m2, m1), (m0, m1), (m1, m2), (m2, m0)]

theorem dirEdges_cons (f : Face) (fs : List Face) :
    dirEdges (f :: fs) = [(f.1, f.2.1), (f.2.1, f.2.2), (f.2.2, f.1)] ++ dirEdges fs := by
  simp [dirEdges]

theorem dirEdges_append (xs ys : List Face) : dirEdges (xs ++ ys) = dirEdges xs ++ dirEdges ys := by
  simp [dirEdges]

theorem dirEdges_childFaces_perm (mid : Nat → Nat → Nat) (f : Face) :
    (dirEdges (childFaces mid f)).Perm
      (([(f.1, f.2.1), (f.2.1, f.2.2), (f.2.2, f.1)] : List (Nat × Nat)).flatMap (halfEdges mid)
        ++ innerEdges mid f) := by
  obtain ⟨a, b, c⟩ := f
  simp only [dirEdges, childFaces, halfEdges, innerEdges, List.flatMap_cons, List.flatMap_nil,
    List.cons_append, List.nil_append, List.append_nil]
  rw [List.perm_iff_count]
  intro x
  simp only [List.count_cons, List.count_nil]
  omega

theorem dirEdges_subdivide_perm (mid : Nat → Nat → Nat) (fs : List Face) :
    (dirEdges (subdivideFaces mid fs)).Perm
      ((dirEdges fs).flatMap (halfEdges mid) ++ fs.flatMap (innerEdges mid)) := by
  induction fs with
  | nil => simp [dirEdges, subdivideFaces]
  | cons f t ih =>
    have e1 : subdivideFaces mid (f :: t) = childFaces mid f ++ subdivideFaces mid t := by
      simp [subdivideFaces]
    rw [e1, dirEdges_append, dirEdges_cons, List.flatMap_append, List.flatMap_cons]
    have h1 := (dirEdges_childFaces_perm mid f).append ih
    refine h1.trans ?_
    simp only [List.append_assoc]
    refine List.Perm.append_left _ ?_
    exact List.perm_append_comm_assoc _ _ _

theorem halfEdges_swap_perm (mid : Nat → Nat → Nat) (hsym : ∀ a b, mid a b = mid b a) (e : Nat × Nat) :
    ((halfEdges mid e).map Prod.swap).Perm (halfEdges mid e.swap) := by
  obtain ⟨a, b⟩ := e
  simp only [halfEdges, List.map_cons, List.map_nil, Prod.swap_prod_mk]
  rw [hsym b a]
  exact List.Perm.swap _ _ _

theorem flatMap_halfEdges_swap_perm (mid : Nat → Nat → Nat) (hsym : ∀ a b, mid a b = mid b a)
    (es : List (Nat × Nat)) :
    ((es.flatMap (halfEdges mid)).map Prod.swap).Perm ((es.map Prod.swap).flatMap (halfEdges mid)) := by
  induction es with
  | nil => simp
  | cons e t ih =>
    simp only [List.flatMap_cons, List.map_append, List.map_cons]
    exact (halfEdges_swap_perm mid hsym e).append ih

theorem innerEdges_swap_perm (mid : Nat → Nat → Nat) (f : Face) :
    ((innerEdges mid f).map Prod.swap).Perm (innerEdges mid f) := by
  simp only [innerEdges, List.map_cons, List.map_nil, Prod.swap_prod_mk]
  rw [List.perm_iff_count]
  intro x
  simp only [List.count_cons, List.count_nil]
  omega

theorem flatMap_innerEdges_swap_perm (mid : Nat → Nat → Nat) (fs : List Face) :
    ((fs.flatMap (innerEdges mid)).map Prod.swap).Perm (fs.flatMap (innerEdges mid)) := by
  induction fs with
  | nil => simp
  | cons f t ih =>
    simp only [List.flatMap_cons, List.map_append]
    exact (innerEdges_swap_perm mid f).append ih

theorem subdivide_closed (mid : Nat → Nat → Nat) (hsym : ∀ a b, mid a b = mid b a)
    (fs : List Face) (h : Closed fs) : Closed (subdivideFaces mid fs) := by
  unfold Closed at h ⊢
  have hp := dirEdges_subdivide_perm mid fs
  refine hp.trans (List.Perm.trans ?_ (hp.map Prod.swap).symm)
  rw [List.map_append]
  refine List.Perm.append ?_ (flatMap_innerEdges_swap_perm mid fs).symm
  refine List.Perm.trans ?_ (flatMap_halfEdges_swap_perm mid hsym _).symm
  exact h.flatMap_right _

theorem subdivide_length (mid : Nat → Nat → Nat) (fs : List Face) :
    (subdivideFaces mid fs).length = 4 * fs.length := by
  induction fs with
  | nil => simp [subdivideFaces]
  | cons f t ih =>
    have e1 : subdivideFaces mid (f :: t) = childFaces mid f ++ subdivideFaces mid t := by
      simp [subdivideFaces]
    rw [e1, List.length_append, ih]
    simp [childFaces]; omega


end TV.Remesh
