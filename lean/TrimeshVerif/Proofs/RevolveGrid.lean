/-
C15 (growth): a full-turn revolve of an axis-to-axis profile is closed and consistently wound for EVERY
number of profile points and EVERY number of slices.  Not imported by the library root until complete.
-/
import TrimeshVerif.Model.RevolveGrid
import TrimeshVerif.Model.Creation
import Mathlib.Algebra.BigOperators.Group.Finset.Basic
import Mathlib.Algebra.BigOperators.Intervals
import Mathlib.Tactic.Abel
namespace TV.RevolveGrid

/-! ### directed edges as a multiset -/

abbrev E := Multiset (Nat × Nat)

/-- the directed edges of a face list, as a multiset -/
def em (fs : List Face) : E := ((dirEdges fs : List (Nat × Nat)) : E)

theorem em_nil : em [] = 0 := rfl

theorem em_append (a b : List Face) : em (a ++ b) = em a + em b := by
  simp [em, dirEdges, List.flatMap_append]

theorem em_single (t : Face) :
    em [t] = {(t.1, t.2.1)} + {(t.2.1, t.2.2)} + {(t.2.2, t.1)} := by
  simp [em, dirEdges]
  rfl

theorem em_flatMap_range (n : Nat) (f : Nat → List Face) :
    em ((List.range n).flatMap f) = ∑ i ∈ Finset.range n, em (f i) := by
  induction n with
  | zero => simp [em_nil]
  | succ n ih =>
    rw [List.range_succ, List.flatMap_append, em_append, ih, Finset.sum_range_succ]
    simp

theorem closed_iff (fs : List Face) : Closed fs ↔ em fs = Multiset.map Prod.swap (em fs) := by
  unfold Closed em
  rw [Multiset.map_coe, Multiset.coe_eq_coe]

/-! ### abstract cylinder grid `w i j` -/

section abstract
variable (w : Nat → Nat → Nat)

def eA (i j : Nat) : E :=
  {(w i j, w i (j + 1))} + {(w i (j + 1), w (i + 1) j)} + {(w (i + 1) j, w i j)}
def eB (i j : Nat) : E :=
  {(w (i + 1) j, w i (j + 1))} + {(w i (j + 1), w (i + 1) (j + 1))} + {(w (i + 1) (j + 1), w (i + 1) j)}

theorem sum_shift_cyc {M : Type} [AddCancelCommMonoid M] (f : Nat → M) (s : Nat) (h : f s = f 0) :
    ∑ j ∈ Finset.range s, f (j + 1) = ∑ j ∈ Finset.range s, f j := by
  have h1 := Finset.sum_range_succ f s
  have h2 := Finset.sum_range_succ' f s
  rw [h1, h] at h2
  exact (add_right_cancel h2).symm

theorem sum_telescope {M : Type} [AddCancelCommMonoid M] (g g' : Nat → M) (n : Nat)
    (h0 : g 0 = g' 0) (hn : g n = g' n) :
    ∑ i ∈ Finset.range n, g i + ∑ i ∈ Finset.range n, g' (i + 1)
      = ∑ i ∈ Finset.range n, g' i + ∑ i ∈ Finset.range n, g (i + 1) := by
  have e1 : ∑ i ∈ Finset.range n, g i + g n = ∑ i ∈ Finset.range n, g (i + 1) + g 0 :=
    (Finset.sum_range_succ g n).symm.trans (Finset.sum_range_succ' g n)
  have e2 : ∑ i ∈ Finset.range n, g' i + g' n = ∑ i ∈ Finset.range n, g' (i + 1) + g' 0 :=
    (Finset.sum_range_succ g' n).symm.trans (Finset.sum_range_succ' g' n)
  apply add_right_cancel (b := g n + g' 0)
  calc ∑ i ∈ Finset.range n, g i + ∑ i ∈ Finset.range n, g' (i + 1) + (g n + g' 0)
      = (∑ i ∈ Finset.range n, g i + g n) + (∑ i ∈ Finset.range n, g' (i + 1) + g' 0) := by abel
    _ = (∑ i ∈ Finset.range n, g (i + 1) + g 0) + (∑ i ∈ Finset.range n, g' i + g' n) := by
        rw [e1, e2]
    _ = ∑ i ∈ Finset.range n, g' i + ∑ i ∈ Finset.range n, g (i + 1) + (g n + g' 0) := by
        rw [h0, ← hn]; abel

theorem alg6 {M : Type} [AddCommMonoid M] (H H' Hp Hp' D D' V V' : M) (hh : H + Hp' = H' + Hp) :
    H' + D' + V + (D + V' + Hp) = H + D + V' + (D' + V + Hp') := by
  calc H' + D' + V + (D + V' + Hp) = (H' + Hp) + (D + D' + V + V') := by abel
    _ = (H + Hp') + (D + D' + V + V') := by rw [hh]
    _ = H + D + V' + (D' + V + Hp') := by abel

theorem map_swap_sum2 (s n : Nat) (f : Nat → Nat → E) :
    Multiset.map Prod.swap (∑ j ∈ Finset.range s, ∑ i ∈ Finset.range n, f i j)
      = ∑ j ∈ Finset.range s, ∑ i ∈ Finset.range n, Multiset.map Prod.swap (f i j) := by
  rw [← Multiset.coe_mapAddMonoidHom, map_sum]
  simp only [map_sum]

theorem full_sym (n s : Nat) (h0 : ∀ j, w 0 (j + 1) = w 0 j) (hn : ∀ j, w n (j + 1) = w n j)
    (hs : ∀ i, w i s = w i 0) :
    Multiset.map Prod.swap (∑ j ∈ Finset.range s, ∑ i ∈ Finset.range n, (eA w i j + eB w i j))
      = ∑ j ∈ Finset.range s, ∑ i ∈ Finset.range n, (eA w i j + eB w i j) := by
  rw [map_swap_sum2]
  simp only [eA, eB, Multiset.map_add, Multiset.map_singleton, Prod.swap_prod_mk,
    Finset.sum_add_distrib]
  have hv := sum_shift_cyc (fun j => ∑ i ∈ Finset.range n, ({(w i j, w (i + 1) j)} : E)) s
    (by simp [hs])
  have hv' := sum_shift_cyc (fun j => ∑ i ∈ Finset.range n, ({(w (i + 1) j, w i j)} : E)) s
    (by simp [hs])
  have hh : ∑ j ∈ Finset.range s, ∑ i ∈ Finset.range n, ({(w i j, w i (j + 1))} : E)
        + ∑ j ∈ Finset.range s, ∑ i ∈ Finset.range n, ({(w (i + 1) (j + 1), w (i + 1) j)} : E)
      = ∑ j ∈ Finset.range s, ∑ i ∈ Finset.range n, ({(w i (j + 1), w i j)} : E)
        + ∑ j ∈ Finset.range s, ∑ i ∈ Finset.range n, ({(w (i + 1) j, w (i + 1) (j + 1))} : E) := by
    rw [← Finset.sum_add_distrib, ← Finset.sum_add_distrib]
    refine Finset.sum_congr rfl (fun j _ => ?_)
    exact sum_telescope (fun i => ({(w i j, w i (j + 1))} : E)) (fun i => {(w i (j + 1), w i j)}) n
      (by simp [h0]) (by simp [hn])
  rw [hv, hv']
  exact alg6 _ _ _ _ _ _ _ _ hh

theorem eA0_sym (j : Nat) (h0 : w 0 (j + 1) = w 0 j) :
    Multiset.map Prod.swap (eA w 0 j) = eA w 0 j := by
  simp only [eA, Multiset.map_add, Multiset.map_singleton, Prod.swap_prod_mk, h0]
  abel

theorem eBn_sym (m j : Nat) (hn : w (m + 1) (j + 1) = w (m + 1) j) :
    Multiset.map Prod.swap (eB w m j) = eB w m j := by
  simp only [eB, Multiset.map_add, Multiset.map_singleton, Prod.swap_prod_mk, hn]
  abel

/-- kept triangles of segment `i` on slice `j` (profile with `m + 2` points) -/
def eK (m i j : Nat) : E := (if i = 0 then 0 else eA w i j) + (if i = m then 0 else eB w i j)
/-- dropped (degenerate) triangles -/
def eD (m i j : Nat) : E := (if i = 0 then eA w i j else 0) + (if i = m then eB w i j else 0)

theorem eK_add_eD (m i j : Nat) : eK w m i j + eD w m i j = eA w i j + eB w i j := by
  unfold eK eD
  split_ifs <;> first | (simp; done) | (simp; abel)

theorem sum_eD (m j : Nat) :
    ∑ i ∈ Finset.range (m + 1), eD w m i j = eA w 0 j + eB w m j := by
  unfold eD
  rw [Finset.sum_add_distrib, Finset.sum_ite_eq', Finset.sum_ite_eq']
  simp

theorem kept_sym (m s : Nat) (h0 : ∀ j, w 0 (j + 1) = w 0 j) (hn : ∀ j, w (m + 1) (j + 1) = w (m + 1) j)
    (hs : ∀ i, w i s = w i 0) :
    Multiset.map Prod.swap (∑ j ∈ Finset.range s, ∑ i ∈ Finset.range (m + 1), eK w m i j)
      = ∑ j ∈ Finset.range s, ∑ i ∈ Finset.range (m + 1), eK w m i j := by
  have hsum : ∑ j ∈ Finset.range s, ∑ i ∈ Finset.range (m + 1), eK w m i j
        + ∑ j ∈ Finset.range s, ∑ i ∈ Finset.range (m + 1), eD w m i j
      = ∑ j ∈ Finset.range s, ∑ i ∈ Finset.range (m + 1), (eA w i j + eB w i j) := by
    rw [← Finset.sum_add_distrib]
    refine Finset.sum_congr rfl (fun j _ => ?_)
    rw [← Finset.sum_add_distrib]
    exact Finset.sum_congr rfl (fun i _ => eK_add_eD w m i j)
  have hD : Multiset.map Prod.swap (∑ j ∈ Finset.range s, ∑ i ∈ Finset.range (m + 1), eD w m i j)
      = ∑ j ∈ Finset.range s, ∑ i ∈ Finset.range (m + 1), eD w m i j := by
    simp only [sum_eD]
    rw [← Multiset.coe_mapAddMonoidHom, map_sum]
    refine Finset.sum_congr rfl (fun j _ => ?_)
    rw [Multiset.coe_mapAddMonoidHom, Multiset.map_add, eA0_sym w j (h0 j), eBn_sym w m j (hn j)]
  have hF := full_sym w (m + 1) s h0 hn hs
  rw [← hsum, Multiset.map_add, hD] at hF
  exact add_right_cancel hF

end abstract

/-- the merged vertex index of profile point `i` on slice `j` -/
def wv (per slices i j : Nat) : Nat := ident per (vid per slices i j)

theorem em_surface (m slices : Nat) :
    em (revolveSurface (m + 2) slices)
      = ∑ j ∈ Finset.range slices, ∑ i ∈ Finset.range (m + 1), eK (wv (m + 2) slices) m i j := by
  unfold revolveSurface gridFaces
  rw [List.map_flatMap, em_flatMap_range]
  refine Finset.sum_congr rfl (fun j _ => ?_)
  unfold sliceFaces
  rw [List.map_flatMap]
  show em ((List.range (m + 1)).flatMap _) = _
  rw [em_flatMap_range]
  refine Finset.sum_congr rfl (fun i _ => ?_)
  rw [List.map_append, em_append]
  unfold eK
  show _ + em (List.map _ (if i = m then _ else _)) = _
  congr 1
  · split_ifs
    · simp [em_nil]
    · simp [em_single, mapFace, eA, wv]
  · split_ifs
    · simp [em_nil]
    · simp [em_single, mapFace, eB, wv]

/-- **main theorem** -/
theorem revolve_closed (per slices : Nat) (hper : 3 ≤ per) (hs : 3 ≤ slices) :
    Closed (revolveSurface per slices) := by
  have _ := hs
  obtain ⟨m, rfl⟩ : ∃ m, per = m + 2 := ⟨per - 2, by omega⟩
  rw [closed_iff, em_surface]
  symm
  apply kept_sym
  · intro j
    simp [wv, vid, ident]
  · intro j
    have h : ∀ a, (a * (m + 2) + (m + 1)) % (m + 2) = m + 1 := by
      intro a
      rw [Nat.mul_add_mod_self_right]
      exact Nat.mod_eq_of_lt (by omega)
    simp [wv, vid, ident, h]
  · intro i
    simp [wv, vid]

/-- the grid is exactly what the index arithmetic of `creation.revolve` (Model/Creation.lean) produces when
    the zero-area triangles of an axis-to-axis profile are dropped: triangle `2*i` for `i = 0`, triangle
    `2*i + 1` for `i = per - 2`, and both triangles of the wrap-around quad `i = per - 1` -/
def axisKeep (per : Nat) (k : Nat) : Bool := !(k = 0 || k = 2 * (per - 2) + 1 || k = 2 * (per - 1) || k = 2 * (per - 1) + 1)

theorem flatMap_congr' {α β : Type} {l : List α} {f g : α → List β} (h : ∀ x ∈ l, f x = g x) :
    l.flatMap f = l.flatMap g := by
  induction l with
  | nil => rfl
  | cons a l ih =>
    rw [List.flatMap_cons, List.flatMap_cons, h a (by simp), ih (fun x hx => h x (by simp [hx]))]

theorem length_flatMap2 {α : Type} (n : Nat) (a b : Nat → α) :
    ((List.range n).flatMap (fun i => [a i, b i])).length = 2 * n := by
  induction n with
  | zero => rfl
  | succ n ih =>
    rw [List.range_succ, List.flatMap_append, List.length_append, ih]
    simp
    omega

theorem zipIdx_flatMap2 {α : Type} (n : Nat) (a b : Nat → α) :
    ((List.range n).flatMap (fun i => [a i, b i])).zipIdx
      = (List.range n).flatMap (fun i => [(a i, 2 * i), (b i, 2 * i + 1)]) := by
  induction n with
  | zero => rfl
  | succ n ih =>
    rw [List.range_succ, List.flatMap_append, List.flatMap_append, List.zipIdx_append, ih,
      length_flatMap2]
    simp

theorem single_axisKeep (m : Nat) :
    TV.Creation.single (m + 2) (axisKeep (m + 2))
      = (List.range (m + 1)).flatMap (fun i =>
          (if i = 0 then [] else [(i, m + 2 + i, i + 1)]) ++
          (if i = m then [] else [(i + 1, m + 2 + i, m + 2 + i + 1)])) := by
  unfold TV.Creation.single
  rw [zipIdx_flatMap2, List.filterMap_flatMap, List.range_succ (n := m + 1), List.flatMap_append]
  have hlast : ([m + 1].flatMap fun i =>
      List.filterMap (fun fi : Face × Nat => if axisKeep (m + 2) fi.2 = true then some fi.1 else none)
        [((i, m + 2 + i, (i + 1) % (m + 2)), 2 * i), (((i + 1) % (m + 2), m + 2 + i, m + 2 + (i + 1) % (m + 2)), 2 * i + 1)]) = [] := by
    simp [axisKeep]
  rw [hlast, List.append_nil]
  apply flatMap_congr'
  intro i hi
  have hi' : i < m + 1 := List.mem_range.mp hi
  have hm : (i + 1) % (m + 2) = i + 1 := Nat.mod_eq_of_lt (by omega)
  have k0 : axisKeep (m + 2) (2 * i) = true ↔ i ≠ 0 := by
    simp [axisKeep]; omega
  have k1 : axisKeep (m + 2) (2 * i + 1) = true ↔ i ≠ m := by
    simp [axisKeep]; omega
  simp only [List.filterMap_cons, List.filterMap_nil, k0, k1, hm, ← Nat.add_assoc]
  split_ifs <;> first | rfl | (exfalso; omega)

theorem shift_mod (per slices i j : Nat) (hj : j < slices) (hi : i < per) :
    (i + j * per) % (per * slices) = vid per slices i j := by
  unfold vid
  have hb : (j + 1) * per ≤ slices * per := Nat.mul_le_mul_right per hj
  rw [Nat.add_mul, Nat.one_mul] at hb
  rw [Nat.mod_eq_of_lt hj, Nat.mod_eq_of_lt (by rw [Nat.mul_comm per slices]; omega)]
  omega

theorem shift_mod' (per slices i j : Nat) (hj : j < slices) (hi : i < per) :
    (per + i + j * per) % (per * slices) = vid per slices i (j + 1) := by
  unfold vid
  by_cases h : j + 1 < slices
  · have hb : (j + 1 + 1) * per ≤ slices * per := Nat.mul_le_mul_right per h
    rw [Nat.add_mul, Nat.add_mul, Nat.one_mul] at hb
    rw [Nat.mod_eq_of_lt h, Nat.mod_eq_of_lt (by rw [Nat.mul_comm per slices]; omega),
      Nat.add_mul, Nat.one_mul]
    omega
  · obtain rfl : slices = j + 1 := by omega
    have e : per + i + j * per = i + per * (j + 1) := by
      rw [Nat.mul_add, Nat.mul_one, Nat.mul_comm per j]; omega
    have hb : per * 1 ≤ per * (j + 1) := Nat.mul_le_mul_left per (by omega)
    rw [e, Nat.add_mod_right, Nat.mod_self, Nat.zero_mul, Nat.zero_add,
      Nat.mod_eq_of_lt (by omega)]

theorem grid_eq_revolveFaces (per slices : Nat) (hper : 3 ≤ per) (hs : 1 ≤ slices) :
    gridFaces per slices = TV.Creation.revolveFaces per slices (per * slices) (axisKeep per) := by
  have _ := hs
  obtain ⟨m, rfl⟩ : ∃ m, per = m + 2 := ⟨per - 2, by omega⟩
  unfold gridFaces TV.Creation.revolveFaces
  apply flatMap_congr'
  intro j hj
  have hj' : j < slices := List.mem_range.mp hj
  rw [single_axisKeep, List.map_flatMap]
  unfold sliceFaces
  show (List.range (m + 1)).flatMap _ = _
  apply flatMap_congr'
  intro i hi
  have hi' : i < m + 1 := List.mem_range.mp hi
  have a1 := shift_mod (m + 2) slices i j hj' (by omega)
  have a2 := shift_mod (m + 2) slices (i + 1) j hj' (by omega)
  have b1 := shift_mod' (m + 2) slices i j hj' (by omega)
  have b2 := shift_mod' (m + 2) slices (i + 1) j hj' (by omega)
  rw [← Nat.add_assoc] at b2
  show _ ++ (if i = m then _ else _) = _
  rw [List.map_append]
  congr 1
  · split_ifs
    · rfl
    · simp only [List.map_cons, List.map_nil, a1, a2, b1]
  · split_ifs
    · rfl
    · simp only [List.map_cons, List.map_nil, a2, b1, b2]

end TV.RevolveGrid
