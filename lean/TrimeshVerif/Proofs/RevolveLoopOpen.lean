import TrimeshVerif.Proofs.RevolveOpen
import TrimeshVerif.Proofs.RevolveRing
/-
Partial revolve with caps of an open loop profile (C15): side walls for every profile segment including the one
from the last point back to the first, the triangulated loop polygon on the first section and its reversal on
the last one.  Closed and consistently wound for every profile length, every number of sections and every cap
triangulation meeting the decidable cap condition.
-/
namespace TV.RevolveGrid
open Finset

section abstract
variable (w : Nat → Nat → Nat)

/-- rows cyclic, sections open: the grid plus the loop run forwards at the first section and backwards at the
    last one is closed under reversal -/
theorem open_ring_sym (n s : Nat) (hr : ∀ j, w n j = w 0 j) :
    Multiset.map Prod.swap (∑ j ∈ range s, ∑ i ∈ range n, (eA w i j + eB w i j) + up w n 0 + dn w n s)
      = ∑ j ∈ range s, ∑ i ∈ range n, (eA w i j + eB w i j) + up w n 0 + dn w n s := by
  rw [Multiset.map_add, Multiset.map_add, swap_up, swap_dn, map_swap_sum2]
  simp only [eA, eB, Multiset.map_add, Multiset.map_singleton, Prod.swap_prod_mk, sum_add_distrib]
  have hh : ∑ j ∈ range s, ∑ i ∈ range n, ({(w i j, w i (j + 1))} : E)
        + ∑ j ∈ range s, ∑ i ∈ range n, ({(w (i + 1) (j + 1), w (i + 1) j)} : E)
      = ∑ j ∈ range s, ∑ i ∈ range n, ({(w i (j + 1), w i j)} : E)
        + ∑ j ∈ range s, ∑ i ∈ range n, ({(w (i + 1) j, w (i + 1) (j + 1))} : E) := by
    rw [← sum_add_distrib, ← sum_add_distrib]
    refine sum_congr rfl (fun j _ => ?_)
    have a := sum_shift_cyc (fun i => ({(w i (j + 1), w i j)} : E)) n (by simp [hr])
    have b := sum_shift_cyc (fun i => ({(w i j, w i (j + 1))} : E)) n (by simp [hr])
    rw [a, b, add_comm]
  have hu : ∑ j ∈ range s, ∑ i ∈ range n, ({(w i (j + 1), w (i + 1) (j + 1))} : E) + up w n 0
      = ∑ j ∈ range s, ∑ i ∈ range n, ({(w i j, w (i + 1) j)} : E) + up w n s := by
    have e1 := sum_range_succ' (fun j => ∑ i ∈ range n, ({(w i j, w (i + 1) j)} : E)) s
    have e2 := sum_range_succ (fun j => ∑ i ∈ range n, ({(w i j, w (i + 1) j)} : E)) s
    unfold up
    rw [← e1, e2]
  have hd : ∑ j ∈ range s, ∑ i ∈ range n, ({(w (i + 1) (j + 1), w i (j + 1))} : E) + dn w n 0
      = ∑ j ∈ range s, ∑ i ∈ range n, ({(w (i + 1) j, w i j)} : E) + dn w n s := by
    have e1 := sum_range_succ' (fun j => ∑ i ∈ range n, ({(w (i + 1) j, w i j)} : E)) s
    have e2 := sum_range_succ (fun j => ∑ i ∈ range n, ({(w (i + 1) j, w i j)} : E)) s
    unfold dn
    rw [← e1, e2]
  generalize ∑ j ∈ range s, ∑ i ∈ range n, ({(w i j, w i (j + 1))} : E) = H at *
  generalize ∑ j ∈ range s, ∑ i ∈ range n, ({(w i (j + 1), w i j)} : E) = H' at *
  generalize ∑ j ∈ range s, ∑ i ∈ range n, ({(w (i + 1) (j + 1), w (i + 1) j)} : E) = Hp at *
  generalize ∑ j ∈ range s, ∑ i ∈ range n, ({(w (i + 1) j, w (i + 1) (j + 1))} : E) = Hp' at *
  generalize ∑ j ∈ range s, ∑ i ∈ range n, ({(w i (j + 1), w (i + 1) j)} : E) = D at *
  generalize ∑ j ∈ range s, ∑ i ∈ range n, ({(w (i + 1) j, w i (j + 1))} : E) = D' at *
  generalize ∑ j ∈ range s, ∑ i ∈ range n, ({(w (i + 1) j, w i j)} : E) = Vd at *
  generalize ∑ j ∈ range s, ∑ i ∈ range n, ({(w i j, w (i + 1) j)} : E) = Vu at *
  generalize ∑ j ∈ range s, ∑ i ∈ range n, ({(w i (j + 1), w (i + 1) (j + 1))} : E) = Vu1 at *
  generalize ∑ j ∈ range s, ∑ i ∈ range n, ({(w (i + 1) (j + 1), w i (j + 1))} : E) = Vd1 at *
  calc H' + D' + Vu + (D + Vd1 + Hp') + dn w n 0 + up w n s
      = (H' + Hp') + (D + D') + (Vd1 + dn w n 0) + (Vu + up w n s) := by abel
    _ = (H + Hp) + (D + D') + (Vd + dn w n s) + (Vu1 + up w n 0) := by rw [hd, ← hu, ← hh]
    _ = H + D + Vd + (D' + Vu1 + Hp) + up w n 0 + dn w n s := by abel

/-- boundary of the loop polygon as a multiset -/
def BdC (n : Nat) : E := ∑ i ∈ range n, ({(i, (i + 1) % n)} : E)

def CapEqC (n : Nat) (T : List Face) : Prop :=
  Multiset.map Prod.swap (em T) + BdC n = em T + Multiset.map Prod.swap (BdC n)

theorem map_BdC (n j : Nat) (hr : w n j = w 0 j) :
    Multiset.map (Prod.map (fun i => w i j) (fun i => w i j)) (BdC n) = up w n j := by
  unfold BdC up
  rw [map_sum_single]
  refine sum_congr rfl (fun i hi => ?_)
  have hi' : i < n := mem_range.mp hi
  show ({(w i j, w ((i + 1) % n) j)} : E) = _
  by_cases h : i + 1 < n
  · rw [Nat.mod_eq_of_lt h]
  · have : i + 1 = n := by omega
    rw [this, Nat.mod_self, hr]

theorem map_swap_BdC (n j : Nat) (hr : w n j = w 0 j) :
    Multiset.map (Prod.map (fun i => w i j) (fun i => w i j)) (Multiset.map Prod.swap (BdC n)) = dn w n j := by
  rw [map_map_swap, map_BdC w n j hr, swap_up]

/-- **partial revolve of a loop with caps, abstract form** -/
theorem loop_capped_sym (n s : Nat) (hr : ∀ j, w n j = w 0 j) (T : List Face) (hT : CapEqC n T) :
    let G := ∑ j ∈ range s, ∑ i ∈ range n, (eA w i j + eB w i j)
    let total := G + em (T.map (mapFace (fun i => w i 0)))
                   + em ((T.map (mapFace (fun i => w i s))).map (fun t => (t.2.2, t.2.1, t.1)))
    Multiset.map Prod.swap total = total := by
  intro G total
  have hk : Multiset.map Prod.swap (G + up w n 0 + dn w n s) = G + up w n 0 + dn w n s := open_ring_sym w n s hr
  have k0 := congrArg (Multiset.map (Prod.map (fun i => w i 0) (fun i => w i 0))) hT
  have ks := congrArg (Multiset.map (Prod.map (fun i => w i s) (fun i => w i s))) hT
  rw [Multiset.map_add, Multiset.map_add, map_BdC w n _ (hr _), map_swap_BdC w n _ (hr _), map_map_swap] at k0 ks
  show Multiset.map Prod.swap (G + _ + _) = G + _ + _
  rw [em_reverse, em_map, em_map, Multiset.map_add, Multiset.map_add, Multiset.map_map Prod.swap Prod.swap]
  have hss : (Prod.swap ∘ Prod.swap : Nat × Nat → Nat × Nat) = id := by funext x; simp
  rw [hss, Multiset.map_id]
  rw [Multiset.map_add, Multiset.map_add, swap_up, swap_dn] at hk
  generalize Multiset.map (Prod.map (fun i => w i 0) (fun i => w i 0)) (em T) = X0 at *
  generalize Multiset.map (Prod.map (fun i => w i s) (fun i => w i s)) (em T) = Xs at *
  refine cap_alg (Multiset.map Prod.swap G) G (Multiset.map Prod.swap X0) X0 (Multiset.map Prod.swap Xs) Xs
    (up w n 0) (dn w n 0) (up w n s) (dn w n s) 0 0 hk ?_ ?_
  · simpa using k0
  · simpa using ks

end abstract

/-- vertex of profile point `i` (cyclic) on section `j` of a partial revolve -/
def wL (per i j : Nat) : Nat := vidO per (i % per) j

theorem em_loop_grid (per slices : Nat) (hper : 0 < per) :
    em (TV.Creation.revolveFaces per slices (per * (slices + 1)) (fun _ => true))
      = ∑ j ∈ range slices, ∑ i ∈ range per, (eA (wL per) i j + eB (wL per) i j) := by
  unfold TV.Creation.revolveFaces
  rw [em_flatMap_range, single_all]
  refine sum_congr rfl (fun j hj => ?_)
  have hj' : j < slices := mem_range.mp hj
  rw [List.map_flatMap, em_flatMap_range]
  refine sum_congr rfl (fun i hi => ?_)
  have hi' : i < per := mem_range.mp hi
  have hi1 : (i + 1) % per < per := Nat.mod_lt _ hper
  have hb : (j + 1 + 1) * per ≤ (slices + 1) * per := Nat.mul_le_mul_right _ (by omega)
  rw [Nat.add_mul, Nat.add_mul, Nat.one_mul] at hb
  have lt : ∀ x, x < j * per + per + per → x % (per * (slices + 1)) = x := by
    intro x hx
    apply Nat.mod_eq_of_lt
    rw [Nat.mul_comm per (slices + 1)]
    omega
  have a1 : (i + j * per) % (per * (slices + 1)) = vidO per i j := by
    rw [lt _ (by omega)]; unfold vidO; omega
  have a2 : ((i + 1) % per + j * per) % (per * (slices + 1)) = vidO per ((i + 1) % per) j := by
    rw [lt _ (by omega)]; unfold vidO; omega
  have b1 : (per + i + j * per) % (per * (slices + 1)) = vidO per i (j + 1) := by
    rw [lt _ (by omega)]; unfold vidO; rw [Nat.add_mul]; omega
  have b2 : (per + (i + 1) % per + j * per) % (per * (slices + 1)) = vidO per ((i + 1) % per) (j + 1) := by
    rw [lt _ (by omega)]; unfold vidO; rw [Nat.add_mul]; omega
  have : ∀ a b : Face, [a, b] = [a] ++ [b] := fun _ _ => rfl
  rw [List.map_cons, List.map_cons, List.map_nil, this, em_append, em_single, em_single]
  simp only [a1, a2, b1, b2, eA, eB, wL, Nat.mod_eq_of_lt hi']

theorem coe_bdC (n : Nat) : ((bdC n : List (Nat × Nat)) : E) = BdC n := by
  unfold bdC BdC
  generalize n = k at *
  have : ∀ (f : Nat → Nat × Nat) (m : Nat), (((List.range m).map f : List (Nat × Nat)) : E) = ∑ i ∈ range m, ({f i} : E) := by
    intro f m
    induction m with
    | zero => rfl
    | succ m ih =>
      rw [List.range_succ, List.map_append, ← Multiset.coe_add, ih, Finset.sum_range_succ]
      rfl
  exact this _ k

theorem capOkC_capEqC (n : Nat) (T : List Face) (h : capOkC n T = true) : CapEqC n T := by
  unfold capOkC at h
  rw [List.isPerm_iff] at h
  have := Multiset.coe_eq_coe.mpr h
  unfold CapEqC em
  rw [← coe_bdC]
  simpa [← Multiset.coe_add, Multiset.map_coe] using this

/-- **a partial revolve of an open loop with caps is closed and consistently wound** -/
theorem loop_open_closed (per slices : Nat) (hper : 0 < per) (T : List Face) (hT : capOkC per T = true)
    (hR : capInRange per T = true) :
    Closed (openLoopRaw per slices T) := by
  have hT' := capOkC_capEqC per T hT
  rw [closed_iff]
  symm
  unfold openLoopRaw
  rw [em_append, em_append, em_loop_grid per slices hper]
  unfold capInRange at hR
  rw [List.all_eq_true] at hR
  have e0 : T = T.map (mapFace (fun i => wL per i 0)) := by
    conv_lhs => rw [← List.map_id T]
    apply List.map_congr_left
    intro t ht
    have h := hR t ht
    simp only [Bool.and_eq_true, decide_eq_true_eq] at h
    simp [mapFace, wL, vidO, Nat.mod_eq_of_lt h.1.1, Nat.mod_eq_of_lt h.1.2, Nat.mod_eq_of_lt h.2]
  have es : (T.map (mapFace (· + slices * per))).map flipFace
      = (T.map (mapFace (fun i => wL per i slices))).map (fun t => (t.2.2, t.2.1, t.1)) := by
    simp only [List.map_map]
    apply List.map_congr_left
    intro t ht
    have h := hR t ht
    simp only [Bool.and_eq_true, decide_eq_true_eq] at h
    simp [mapFace, flipFace, wL, vidO, Nat.mod_eq_of_lt h.1.1, Nat.mod_eq_of_lt h.1.2, Nat.mod_eq_of_lt h.2,
      Nat.add_comm]
  have e0' : em T = em (T.map (mapFace (fun i => wL per i 0))) := congrArg em e0
  rw [es, e0']
  apply loop_capped_sym (wL per) per slices _ T hT'
  intro j
  simp [wL]

end TV.RevolveGrid
